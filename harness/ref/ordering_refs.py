"""Real reference tools for version ORDERING (C02), used when they are installed:
  npm   -> node-semver as bundled with npm (valid / compare, default non-loose options)
  Cargo -> the Rust crate semver (Version::parse, cmp_precedence), a small binary built offline from
           the crate sources in ~/.cargo/registry
Each function returns None when its tool is not available."""
import glob
import json
import os
import shutil
import subprocess

HERE = os.path.dirname(os.path.abspath(__file__))
VERIF = os.path.dirname(os.path.dirname(HERE))
REFBUILD = os.path.join(VERIF, "build", "ref")
NODE_SEMVER = "/usr/lib/node_modules/npm/node_modules/semver"

NODE_SCRIPT = r"""
const semver = require(%s);
const inp = JSON.parse(require('fs').readFileSync(0, 'utf8'));
const out = {valid: inp.valid.map(v => semver.valid(v)),
             cmp: inp.cmp.map(([a, b]) => (semver.valid(a) === null || semver.valid(b) === null) ? null : semver.compare(a, b))};
process.stdout.write(JSON.stringify(out));
"""


def node(valid, pairs):
    """(valid: [normalised string or None], cmp: [sign or None])"""
    if not (shutil.which("node") and os.path.isdir(NODE_SEMVER)):
        return None
    data = json.dumps({"valid": [v.decode("latin-1") for v in valid],
                       "cmp": [[a.decode("latin-1"), b.decode("latin-1")] for a, b in pairs]}).encode()
    p = subprocess.run(["node", "-e", NODE_SCRIPT % json.dumps(NODE_SEMVER)], input=data, stdout=subprocess.PIPE,
                       stderr=subprocess.PIPE, timeout=1800)
    if p.returncode != 0:
        return None
    r = json.loads(p.stdout.decode())
    return [None if v is None else v.encode("latin-1") for v in r["valid"]], r["cmp"]


def _cargo_binary():
    if not shutil.which("cargo"):
        return None
    home = os.environ.get("CARGO_HOME", os.path.expanduser("~/.cargo"))
    srcs = sorted(glob.glob(os.path.join(home, "registry/src/*/semver-1.0.28"))) or \
        sorted(glob.glob(os.path.join(home, "registry/src/*/semver-1.*")))
    if not srcs:
        return None
    proj = os.path.join(REFBUILD, "cargocmp")
    binp = os.path.join(proj, "target/release/cargocmp")
    main_src = os.path.join(HERE, "cargocmp/src/main.rs")
    if os.path.exists(binp) and os.path.getmtime(binp) >= os.path.getmtime(main_src):
        return binp
    os.makedirs(os.path.join(proj, "src"), exist_ok=True)
    shutil.copy(main_src, os.path.join(proj, "src/main.rs"))
    with open(os.path.join(proj, "Cargo.toml"), "w") as f:
        f.write('[package]\nname = "cargocmp"\nversion = "0.0.0"\nedition = "2021"\n[dependencies]\n'
                'semver = { path = "%s", default-features = false, features = ["std"] }\n[workspace]\n' % srcs[-1])
    env = dict(os.environ, CARGO_TARGET_DIR=os.path.join(proj, "target"), CARGO_NET_OFFLINE="true")
    try:
        p = subprocess.run(["cargo", "build", "--offline", "--release", "--quiet"], cwd=proj, env=env,
                           stdout=subprocess.PIPE, stderr=subprocess.STDOUT, timeout=900)
    except Exception:
        return None
    if p.returncode != 0 or not os.path.exists(binp):
        return None
    return binp


def cargo(valid, pairs):
    """(valid: [display string or None], cmp: [(precedence sign, total-order sign) or None])"""
    b = _cargo_binary()
    if not b:
        return None
    ok = lambda s: b"\t" not in s and b"\n" not in s and b"\r" not in s
    lines = [b"V\t" + (v if ok(v) else b"\x01") for v in valid] + \
            [b"C\t" + (a if ok(a) else b"\x01") + b"\t" + (c if ok(c) else b"\x01") for a, c in pairs]
    p = subprocess.run([b], input=b"\n".join(lines) + b"\n", stdout=subprocess.PIPE, stderr=subprocess.PIPE, timeout=1800)
    if p.returncode != 0:
        return None
    out = p.stdout.split(b"\n")
    va = [None if o == b"err" else o.split(b"\t", 1)[1] for o in out[:len(valid)]]
    cm = [None if o == b"err" else tuple(int(x) for x in o.split(b"\t")) for o in out[len(valid):len(valid) + len(pairs)]]
    return va, cm
