#!/usr/bin/env python3
"""Validate the reference specifications coq/Spec/*.v (extracted, kinds spec_* of build/modelrun)
and the printers of harness/gen/ranges.py against the REAL tools installed on this machine.

  python3 harness/ref/validate_specs.py [--n 3000] [--seed 1] [--eco npm,cargo,pypi,maven] [--plain]

For every generated requirement AST: the printed text is given to the tool together with the probe
versions, the AST to the extracted specification; the answers must agree and the tool must accept
every printed text.  A missing tool is reported as `skipped: <tool> not available` (exit 0).
Exit code 1 when there is a mismatch or a rejected text.

Tools: node-semver (satisfies / validRange, default options) for npm; the Rust crate semver
(VersionReq::matches; a small binary built offline from the crate sources in ~/.cargo/registry)
for Cargo; pypa/packaging under python3-vt (SpecifierSet(text).contains(version), default
prerelease behaviour, immaterial because the candidates are final releases) for PyPI;
maven-artifact VersionRange.createFromVersionSpec / containsVersion for Maven.

Reusable: check(eco, pairs) with pairs = [(text_bytes, [version_bytes...])...] returns the tool's
answers, a list with one entry per pair: a list of bool, or None where the tool rejects the text;
None when the tool is not available.
"""
import argparse
import glob
import json
import os
import random
import shutil
import subprocess
import sys

HERE = os.path.dirname(os.path.abspath(__file__))
VERIF = os.path.dirname(os.path.dirname(HERE))
sys.path.insert(0, os.path.join(VERIF, "harness"))
import lib  # noqa: E402
from gen import ranges  # noqa: E402

BUILD = os.path.join(VERIF, "build")
REFBUILD = os.path.join(BUILD, "ref")
NODE_SEMVER = "/usr/lib/node_modules/npm/node_modules/semver"
MAVEN_LIB = "/usr/share/maven/lib"
TOOL_NAME = {"npm": "node-semver", "cargo": "rust semver crate", "pypi": "packaging (python3-vt)",
             "maven": "maven-artifact VersionRange"}

NODE_SCRIPT = r"""
const semver = require(%s);
const inp = JSON.parse(require('fs').readFileSync(0, 'utf8'));
const out = inp.map(([r, vs]) => semver.validRange(r) === null ? null : vs.map(v => semver.satisfies(v, r)));
process.stdout.write(JSON.stringify(out));
"""

PY_SCRIPT = r"""
import sys, json
from packaging.specifiers import SpecifierSet, InvalidSpecifier
out = []
for r, vs in json.load(sys.stdin):
    try:
        s = SpecifierSet(r)
    except InvalidSpecifier:
        out.append(None)
        continue
    out.append([bool(s.contains(v)) for v in vs])
json.dump(out, sys.stdout)
"""


def _run(cmd, data, timeout=1800, cwd=None, env=None):
    p = subprocess.run(cmd, input=data, stdout=subprocess.PIPE, stderr=subprocess.PIPE, timeout=timeout, cwd=cwd, env=env)
    return p.returncode, p.stdout, p.stderr


def _json_tool(cmd, pairs):
    data = json.dumps([[t.decode("latin-1"), [v.decode("latin-1") for v in vs]] for t, vs in pairs]).encode()
    rc, out, err = _run(cmd, data)
    if rc != 0:
        raise RuntimeError("%s failed: %s" % (cmd[0], err.decode("utf-8", "replace")[-2000:]))
    return json.loads(out.decode())


def _line_tool(cmd, pairs):
    for t, vs in pairs:
        if any(c in t for c in b"\t\n\r") or any(c in v for v in vs for c in b"\t\n\r"):
            raise ValueError("tab or newline in text")
    data = b"".join(b"\t".join([t] + list(vs)) + b"\n" for t, vs in pairs)
    rc, out, err = _run(cmd, data)
    if rc != 0:
        raise RuntimeError("%s failed: %s" % (cmd[0], err.decode("utf-8", "replace")[-2000:]))
    lines = out.decode("latin-1").split("\n")
    if lines and lines[-1] == "":
        lines.pop()
    if len(lines) != len(pairs):
        raise RuntimeError("%s: %d answers for %d lines" % (cmd[0], len(lines), len(pairs)))
    res = []
    for line, (t, vs) in zip(lines, pairs):
        line = line.rstrip("\r")
        if line == "R":
            res.append(None)
        else:
            if len(line) != len(vs) or any(c not in "01" for c in line):
                raise RuntimeError("bad answer %r for %r" % (line, t))
            res.append([c == "1" for c in line])
    return res


def _newer(a, b):
    return os.path.exists(a) and os.path.getmtime(a) >= os.path.getmtime(b)


def _cargo_binary():
    """build (once) the small binary around the semver crate; None when not feasible"""
    if not shutil.which("cargo"):
        return None
    home = os.environ.get("CARGO_HOME", os.path.expanduser("~/.cargo"))
    srcs = sorted(glob.glob(os.path.join(home, "registry/src/*/semver-1.0.28"))) or \
        sorted(glob.glob(os.path.join(home, "registry/src/*/semver-1.*")))
    if not srcs:
        return None
    proj = os.path.join(REFBUILD, "cargoref")
    binp = os.path.join(proj, "target/release/cargoref")
    main_src = os.path.join(HERE, "cargoref/src/main.rs")
    if _newer(binp, main_src):
        return binp
    os.makedirs(os.path.join(proj, "src"), exist_ok=True)
    shutil.copy(main_src, os.path.join(proj, "src/main.rs"))
    with open(os.path.join(proj, "Cargo.toml"), "w") as f:
        f.write('[package]\nname = "cargoref"\nversion = "0.0.0"\nedition = "2021"\n[dependencies]\n'
                'semver = { path = "%s", default-features = false, features = ["std"] }\n[workspace]\n' % srcs[-1])
    env = dict(os.environ, CARGO_TARGET_DIR=os.path.join(proj, "target"))
    try:
        p = subprocess.run(["cargo", "build", "--offline", "--release", "--quiet"], cwd=proj, env=env,
                           stdout=subprocess.PIPE, stderr=subprocess.STDOUT, timeout=900)
    except Exception:
        return None
    if p.returncode != 0 or not os.path.exists(binp):
        sys.stderr.write(p.stdout.decode("utf-8", "replace")[-2000:])
        return None
    return binp


def _maven_classpath():
    """compile (once) MavenRef against the maven-artifact jar; None when not feasible"""
    if not (shutil.which("java") and shutil.which("javac")):
        return None
    jars = sorted(glob.glob(os.path.join(MAVEN_LIB, "maven-artifact*.jar")))
    if not jars:
        return None
    cp = ":".join(jars + sorted(glob.glob(os.path.join(MAVEN_LIB, "commons-lang3*.jar"))) +
                  sorted(glob.glob(os.path.join(MAVEN_LIB, "plexus-utils*.jar"))))
    out = os.path.join(REFBUILD, "maven")
    src = os.path.join(HERE, "MavenRangeRef.java")
    cls = os.path.join(out, "MavenRangeRef.class")
    if not _newer(cls, src):
        os.makedirs(out, exist_ok=True)
        try:
            p = subprocess.run(["javac", "-cp", cp, "-d", out, src], stdout=subprocess.PIPE, stderr=subprocess.STDOUT, timeout=300)
        except Exception:
            return None
        if p.returncode != 0:
            sys.stderr.write(p.stdout.decode("utf-8", "replace")[-2000:])
            return None
    return out + ":" + cp


def check(eco, pairs):
    """the real tool's answers for [(text, [version...])...] (bytes); see module docstring"""
    pairs = [(bytes(t), [bytes(v) for v in vs]) for t, vs in pairs]
    if eco == "npm":
        if not (shutil.which("node") and os.path.isdir(NODE_SEMVER)):
            return None
        return _json_tool(["node", "-e", NODE_SCRIPT % json.dumps(NODE_SEMVER)], pairs)
    if eco == "pypi":
        if not shutil.which("python3-vt"):
            return None
        rc, _, _ = _run(["python3-vt", "-c", "import packaging.specifiers"], b"")
        if rc != 0:
            return None
        return _json_tool(["python3-vt", "-c", PY_SCRIPT], pairs)
    if eco == "cargo":
        binp = _cargo_binary()
        if binp is None:
            return None
        return _line_tool([binp], pairs)
    if eco == "maven":
        cp = _maven_classpath()
        if cp is None:
            return None
        return _line_tool(["java", "-cp", cp, "MavenRangeRef"], pairs)
    raise ValueError(eco)


def spec_eval(eco, cases):
    """answers of the extracted specification for [(ast, [version_ast...])...]"""
    binp = os.path.join(BUILD, "modelrun")
    if not os.path.exists(binp):
        raise RuntimeError("build/modelrun is missing: run ./check C01 first")
    lines = ["spec_%s\t%s" % (eco, lib.sx([ast, vs])) for ast, vs in cases]
    rc, out, err = lib.run_sharded("modelrun", lines, shards=8)
    if rc != 0:
        raise RuntimeError("modelrun failed: " + err[-2000:])
    res = []
    for line, (ast, vs) in zip(out, cases):
        v = lib.parse_sx(line)
        if not isinstance(v, list) or len(v) != len(vs) or any(b not in (0, 1) for b in v):
            raise RuntimeError("specification rejected the case: %s -> %s" % (lib.sx([ast, vs]), line))
        res.append([b == 1 for b in v])
    return res


def validate(eco, n, seed, n_random=4, show=10, plain=False):
    rng = random.Random(seed * 7919 + ranges.ECOS.index(eco))
    asts, texts, vasts, vtexts = [], [], [], []
    for _ in range(n):
        ast = ranges.gen_ast(rng, eco)
        asts.append(ast)
        texts.append(ranges.print_ast(rng, eco, ast, plain=plain))
        vs = ranges.probes(rng, eco, ast, n_random)
        vasts.append(vs)
        vtexts.append([ranges.print_version(eco, v) for v in vs])
    tool = check(eco, list(zip(texts, vtexts)))
    if tool is None:
        print("%-5s skipped: %s not available" % (eco, TOOL_NAME[eco]))
        return True
    spec = spec_eval(eco, list(zip(asts, vasts)))
    pairs = mism = rejected = yes = 0
    shown = []
    for ast, text, vt, s, t in zip(asts, texts, vtexts, spec, tool):
        if t is None:
            rejected += 1
            if len(shown) < show:
                shown.append("  REJECTED by the tool: %r   ast %s" % (text, lib.sx(ast)))
            continue
        for v, a, b in zip(vt, s, t):
            pairs += 1
            yes += 1 if b else 0
            if a != b:
                mism += 1
                if len(shown) < show:
                    shown.append("  MISMATCH text %r version %r: spec says %s, tool says %s   ast %s" % (text, v, a, b, lib.sx(ast)))
    print("%-5s tool=%s requirements=%d distinct-texts=%d (text,version) pairs=%d tool-accepts=%d mismatches=%d texts-rejected=%d" % (
        eco, TOOL_NAME[eco], n, len(set(texts)), pairs, yes, mism, rejected))
    for line in shown:
        print(line)
    return mism == 0 and rejected == 0


def main():
    ap = argparse.ArgumentParser()
    ap.add_argument("--n", type=int, default=3000)
    ap.add_argument("--seed", type=int, default=1)
    ap.add_argument("--eco", default=",".join(ranges.ECOS))
    ap.add_argument("--plain", action="store_true", help="print the requirements without textual variation")
    a = ap.parse_args()
    ok = True
    for eco in a.eco.split(","):
        ok = validate(eco, a.n, a.seed, plain=a.plain) and ok
    sys.exit(0 if ok else 1)


if __name__ == "__main__":
    main()
