#!/usr/bin/env python3
"""OPTIONAL reference runner for C16: pip's `packaging` library (DESIGN 4.4).

Run with an interpreter that can import packaging (python3-vt here). Reads one JSON
request per line on stdin and prints one JSON answer per line. It computes no verdict.

requests
  {"k":"version"}                                   -> {"version": "..."}
  {"k":"canon","s":name}                            -> {"r": canonicalize_name(name)}
  {"k":"spec","q":[[op,rhs,lhs],...]}               -> {"r":[0|1|2,...]}  2 = invalid specifier
  {"k":"marker","s":text,"extras":[..],"env":{..}}  -> {"ok":0} | {"ok":1,"val":0|1} | {"ok":1,"undef":1}
  {"k":"req","s":text,"go_env":marker text or null} -> {"ok":0} | {"ok":1,"url":0|1,"name":..,"extras":[..],
                                                        "specs":[..],"marker":str|null,"marker_same":0|1}
"""
import json
import sys

import packaging
from packaging.markers import Marker, InvalidMarker, UndefinedComparison, UndefinedEnvironmentName
from packaging.requirements import Requirement, InvalidRequirement
from packaging.specifiers import Specifier, InvalidSpecifier
from packaging.utils import canonicalize_name


def spec_one(op, rhs, lhs):
    try:
        sp = Specifier(op + rhs)
    except InvalidSpecifier:
        return 2
    return 1 if sp.contains(lhs, prereleases=True) else 0


def marker_eval(text, extras, env):
    try:
        m = Marker(text)
    except InvalidMarker:
        return {"ok": 0}
    ctxs = list(extras) if extras else [""]
    vals = []
    try:
        for e in ctxs:
            d = dict(env)
            d["extra"] = e
            vals.append(bool(m.evaluate(d)))
    except (UndefinedComparison, UndefinedEnvironmentName):
        return {"ok": 1, "undef": 1}
    return {"ok": 1, "val": 1 if any(vals) else 0, "str": str(m)}


def req_parse(text, go_env):
    try:
        r = Requirement(text)
    except InvalidRequirement:
        return {"ok": 0}
    out = {"ok": 1, "url": 1 if r.url else 0, "name": canonicalize_name(r.name),
           "extras": sorted(r.extras), "specs": sorted(str(s).replace(" ", "").replace("\t", "") for s in r.specifier),
           "marker": str(r.marker) if r.marker is not None else None}
    same = 0
    if r.marker is None:
        same = 1 if not go_env else 0
    elif go_env:
        try:
            same = 1 if Marker(go_env) == r.marker else 0
        except InvalidMarker:
            same = 0
    out["marker_same"] = same
    return out


def main():
    for line in sys.stdin:
        line = line.strip()
        if not line:
            continue
        q = json.loads(line)
        k = q["k"]
        if k == "version":
            a = {"version": packaging.__version__}
        elif k == "canon":
            a = {"r": canonicalize_name(q["s"])}
        elif k == "spec":
            a = {"r": [spec_one(*t) for t in q["q"]]}
        elif k == "marker":
            a = marker_eval(q["s"], q.get("extras") or [], q["env"])
        elif k == "req":
            a = req_parse(q["s"], q.get("go_env"))
        else:
            a = {"error": "unknown request"}
        sys.stdout.write(json.dumps(a) + "\n")
    sys.stdout.flush()


if __name__ == "__main__":
    main()
