// OPTIONAL reference runner (DESIGN 4.4): drives Maven's own model builder
// (maven-model-builder, whatever version is installed under /usr/share/maven/lib) on lineages
// written to disk, to validate the TRANSCRIPTION of coq/Spec/MavenModelSpec.v.  It is compared
// with the extracted specification, never with deps.dev, and it computes no verdict.  When java
// or the jars are absent the check skips it and says so in the evidence.
//
// usage: MavenRef <jdk> <os.name> <os.arch> <os.version>   (case directories on stdin, one per line)
// a case directory holds root.pom and <group>__<artifact>__<version>.pom files.
import java.io.*;
import java.util.*;
import org.apache.maven.model.*;
import org.apache.maven.model.building.*;
import org.apache.maven.model.resolution.*;

public class MavenRef {
    static class DirResolver implements ModelResolver {
        final File dir;
        DirResolver(File d) { dir = d; }
        public ModelSource resolveModel(String g, String a, String v) throws UnresolvableModelException {
            File f = new File(dir, g + "__" + a + "__" + v + ".pom");
            if (!f.exists()) throw new UnresolvableModelException("missing " + f, g, a, v);
            return new FileModelSource(f);
        }
        public ModelSource resolveModel(Parent p) throws UnresolvableModelException { return resolveModel(p.getGroupId(), p.getArtifactId(), p.getVersion()); }
        public ModelSource resolveModel(Dependency d) throws UnresolvableModelException { return resolveModel(d.getGroupId(), d.getArtifactId(), d.getVersion()); }
        public void addRepository(Repository r) {}
        public void addRepository(Repository r, boolean replace) {}
        public ModelResolver newCopy() { return this; }
    }
    static String s(String x) { return x == null ? "" : x; }
    static String dep(Dependency d) {
        StringBuilder sb = new StringBuilder();
        sb.append(s(d.getGroupId())).append("\t").append(s(d.getArtifactId())).append("\t").append(s(d.getVersion())).append("\t")
          .append(s(d.getType())).append("\t").append(s(d.getClassifier())).append("\t").append(s(d.getScope())).append("\t")
          .append(d.isOptional() ? "1" : "0").append("\t");
        boolean first = true;
        for (Exclusion e : d.getExclusions()) { if (!first) sb.append(","); first = false; sb.append(s(e.getGroupId())).append(":").append(s(e.getArtifactId())); }
        return sb.toString();
    }
    public static void main(String[] args) throws Exception {
        String jdk = args[0];
        System.setProperty("os.name", args[1]);
        System.setProperty("os.arch", args[2]);
        System.setProperty("os.version", args[3]);
        ModelBuilder mb = new DefaultModelBuilderFactory().newInstance();
        BufferedReader in = new BufferedReader(new InputStreamReader(System.in));
        PrintStream out = new PrintStream(new BufferedOutputStream(System.out), false, "UTF-8");
        String line;
        while ((line = in.readLine()) != null) {
            if (line.isEmpty()) continue;
            File dir = new File(line);
            DefaultModelBuildingRequest req = new DefaultModelBuildingRequest();
            req.setModelSource(new FileModelSource(new File(dir, "root.pom")));
            req.setModelResolver(new DirResolver(dir));
            req.setValidationLevel(ModelBuildingRequest.VALIDATION_LEVEL_MINIMAL);
            req.setProcessPlugins(false);
            req.setTwoPhaseBuilding(false);
            Properties sys = new Properties();
            sys.setProperty("java.version", jdk);
            sys.setProperty("os.name", args[1]); sys.setProperty("os.arch", args[2]); sys.setProperty("os.version", args[3]);
            req.setSystemProperties(sys);
            StringBuilder sb = new StringBuilder();
            sb.append("CASE\t").append(dir.getName()).append("\n");
            try {
                ModelBuildingResult res = mb.build(req);
                Model m = res.getEffectiveModel();
                for (Dependency d : m.getDependencies()) sb.append("D\t").append(dep(d)).append("\n");
                if (m.getDependencyManagement() != null)
                    for (Dependency d : m.getDependencyManagement().getDependencies()) sb.append("M\t").append(dep(d)).append("\n");
            } catch (ModelBuildingException e) {
                sb.append("ERROR\n");
                for (ModelProblem p : e.getProblems()) sb.append("P\t").append(p.getSeverity()).append(" ").append(p.getMessage().replace("\n", " ").replace("\t", " ")).append("\n");
            } catch (RuntimeException e) {
                sb.append("ERROR\nP\tEXC " + e + "\n");
            }
            sb.append("END\n");
            out.print(sb);
        }
        out.flush();
    }
}
