// Reference for Cargo version ordering: the Rust semver crate.  One request per line:
//   V<TAB>version            -> "ok<TAB>display" | "err"
//   C<TAB>a<TAB>b            -> "-1" | "0" | "1" (Version::cmp_precedence) followed by <TAB> and the sign of Version::cmp | "err"
use std::cmp::Ordering;
use std::io::{self, BufRead, Write};
fn sign(o: Ordering) -> i32 { match o { Ordering::Less => -1, Ordering::Equal => 0, Ordering::Greater => 1 } }
fn main() {
    let stdin = io::stdin();
    let out = io::stdout();
    let mut out = out.lock();
    for line in stdin.lock().lines() {
        let line = line.unwrap();
        let f: Vec<&str> = line.split('\t').collect();
        match f[0] {
            "V" => match semver::Version::parse(f.get(1).unwrap_or(&"")) {
                Ok(v) => { writeln!(out, "ok\t{}", v).unwrap(); }
                Err(_) => { writeln!(out, "err").unwrap(); }
            },
            "C" => match (semver::Version::parse(f.get(1).unwrap_or(&"")), semver::Version::parse(f.get(2).unwrap_or(&""))) {
                (Ok(a), Ok(b)) => { writeln!(out, "{}\t{}", sign(a.cmp_precedence(&b)), sign(a.cmp(&b))).unwrap(); }
                _ => { writeln!(out, "err").unwrap(); }
            },
            _ => { writeln!(out, "bad").unwrap(); }
        }
    }
}
