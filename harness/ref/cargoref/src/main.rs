use std::io::{self, BufRead, Write};
fn main() {
    let stdin = io::stdin();
    let out = io::stdout();
    let mut out = out.lock();
    for line in stdin.lock().lines() {
        let line = line.unwrap();
        let mut it = line.split('\t');
        let req = it.next().unwrap();
        match semver::VersionReq::parse(req) {
            Err(_) => { writeln!(out, "R").unwrap(); }
            Ok(r) => {
                let mut s = String::new();
                for v in it {
                    match semver::Version::parse(v) {
                        Err(_) => s.push('x'),
                        Ok(v) => s.push(if r.matches(&v) { '1' } else { '0' }),
                    }
                }
                writeln!(out, "{}", s).unwrap();
            }
        }
    }
}
