import java.io.*;
import org.apache.maven.artifact.versioning.*;
public class MavenRangeRef {
  public static void main(String[] a) throws Exception {
    BufferedReader in = new BufferedReader(new InputStreamReader(System.in, "ISO-8859-1"));
    PrintStream out = new PrintStream(new BufferedOutputStream(System.out), false, "ISO-8859-1");
    String line;
    while ((line = in.readLine()) != null) {
      String[] f = line.split("\t", -1);
      VersionRange r;
      try { r = VersionRange.createFromVersionSpec(f[0]); } catch (InvalidVersionSpecificationException e) { out.println("R"); continue; }
      StringBuilder sb = new StringBuilder();
      for (int i = 1; i < f.length; i++) sb.append(r.containsVersion(new DefaultArtifactVersion(f[i])) ? '1' : '0');
      out.println(sb.toString());
    }
    out.flush();
  }
}
