"""Generators for C15: POM lineages (project, ancestors, imported BOMs with their parents) in the
structured form shared by the Go harness, the model and the specification, and property tables
for the termination clause.  All randomness comes from the rng passed in.

pom     := [g, a, v, [pg, pa, pv], packaging, props, deps, mgmt, profiles]
props   := [[name, value]...]
dep     := [g, a, v, type, classifier, scope, optional, [[eg, ea]...]]
profile := [id, [activeByDefault, jdk, [osname, osfamily, osarch, osversion], [propname, propvalue]], props, deps, mgmt]
case    := [env, [root, other poms...], jdktable, xmlstyle]      env := [jdk, osname, osfamily, osarch, osversion]
"""

ENVS = [
    [b"11.0.8", b"linux", b"unix", b"amd64", b"5.10.0-26-cloud-amd64"],   # the constants of profile.go
    [b"1.8.0_292", b"linux", b"unix", b"amd64", b"5.10.0-26-cloud-amd64"],
    [b"17.0.2", b"windows 10", b"windows", b"amd64", b"10.0"],
    [b"21", b"mac os x", b"mac", b"aarch64", b"13.4"],
]
# for the optional reference run: the OS family of the JVM cannot be set, and JDK version ranges are
# compared by Maven's activator on three numeric components only, so 1.8.0_292 is left out there
LINUX_ENVS = [ENVS[0], [b"17.0.2"] + ENVS[0][1:]]

GROUPS = [b"g", b"h", b"org.x"]
ARTIFACTS = [b"a", b"b", b"c", b"d", b"e", b"f"]
VERSIONS = [b"1", b"2", b"3", b"1.5", b"2.0.1", b"4-SNAPSHOT"]
PROP_NAMES = [b"v1", b"v2", b"v3", b"lib.version", b"grp", b"sc", b"bom.version"]
# names that collide with Maven's model built-ins (rare in practice, decisive for the lookup priority)
BUILTIN_LIKE = [b"project.version", b"pom.groupId", b"project.groupId", b"project.parent.version", b"version", b"groupId", b"pom.version"]
# properties that may be DEFINED WITH AN EMPTY VALUE (<cl></cl>, <cl/>, white space only): for Maven such a
# property is defined, its placeholder becomes the empty string and it overrides an inherited value
EMPTYABLE = {b"cl": [b"", b"", b"tests", b"sources"],        # used as <classifier>${cl}</classifier>
             b"sfx": [b"", b"", b"-beta", b".1"],             # used as <version>2${sfx}</version>
             b"ety": [b"", b"test-jar", b"jar"],              # <type>${ety}</type>
             b"esc": [b"", b"", b"test", b"runtime"],         # <scope>${esc}</scope>
             b"egrp": [b"", b"g", b"h"],                      # <groupId>${egrp}</groupId>
             b"dep.isOptional": [b"true", b"false", b"true", b""]}   # <optional>${dep.isOptional}</optional> (a name with capitals)
NOT_A_VERSION = (b"grp", b"sc") + tuple(EMPTYABLE)
JDK_SIMPLE = [b"11", b"11.0", b"11.0.8", b"1.8", b"17", b"1.8.0_292", b"21", b"17.0"]
JDK_SIMPLE_RISKY = [b"11.0.7", b"1", b"1.8.0", b"17.0.1", b"2"]
JDK_RANGES = [b"[1.8,)", b"[11,)", b"[1.8,11)", b"(,1.8]", b"[11,17)", b"[17,)", b"(,11]", b"[9,12)", b"[1.7,1.9)",
              b"(11,)", b"[21,)"]
JDK_RANGES += [b"[11.0.8,)", b"(11.0.8,)", b"(,11.0.8]", b"(,11.0.8)", b"[17,17.0.2]", b"(,21)", b"(21,)", b"[17.0.2,17.0.3)"]
JDK_NEGATED = [b"!1.8", b"!11", b"!17.0", b"!1", b"!21"]
JDK_BAD = [b"[11,", b"[a,b,c]"]


def dep(g, a, v=b"", t=b"", c=b"", s=b"", o=b"", ex=()):
    return [g, a, v, t, c, s, o, [list(e) for e in ex]]


def ident(d):
    return (d[0], d[1], d[3] or b"jar", d[4])


class Knobs:
    """probabilities of the constructions that are known to separate the Go code from Maven (each is a
    recorded finding); the oracle has full strength on lineages without them"""

    def __init__(self, **kw):
        # per lineage: does it contain ...
        self.dup_in_list = 0.03
        self.profile_same_key = 0.03
        self.bom_two_versions = 0.03
        self.bom_parent_builtin = 0.03
        self.excl_placeholder = 0.03
        self.jdk_risky = 0.03
        self.mgmt_dup = 0.02
        self.unresolved = 0.04
        self.unmanaged = 0.03
        self.empty_props = 0.25
        self.missing_bom = 0.0
        self.bad_packaging = 0.02
        self.jdk_bad = 0.01
        self.jdk_negated = 0.03
        self.same_group = 0.3      # the root (a BOM) has the group of its parent and does not state it
        self.versionless_mgmt = 0.12   # managed entries that manage scope/exclusions only (no <version>)
        # per entry
        self.key_placeholder = 0.03
        self.prop_activation = 0.05
        self.__dict__.update(kw)


class LineageGen:
    def __init__(self, rng, knobs=None, envs=None):
        self.rng = rng
        self.k = knobs or Knobs()
        self.envs = envs or ENVS
        self.f = {}
        self.has_parent = False

    def flag(self, name):
        return self.f.get(name, False)

    # ---- small pieces
    def version_text(self, names, root_world=True):
        r = self.rng
        q = r.random()
        if self.flag("empty_props") and q < 0.12:
            return r.choice(VERSIONS) + b"${sfx}" if q > 0.01 else b"${sfx}"
        if names and q < 0.30:
            return b"${" + r.choice([n for n in names if n not in NOT_A_VERSION]) + b"}"
        if q < 0.36:
            return b"${project.version}"
        if q < 0.39:
            if root_world and self.has_parent:
                return r.choice([b"${version}", b"${pom.version}", b"${project.parent.version}", b"${parent.version}",
                                 b"${pom.parent.version}"])
            if root_world:
                return r.choice([b"${version}", b"${pom.version}"])
            return r.choice([b"${version}", b"${pom.version}"])
        if self.flag("unresolved") and q < 0.45:
            return b"${undefined.prop}"
        return r.choice(VERSIONS)

    def gen_dep(self, names, taken, managed_ok=True, root_world=True):
        r = self.rng
        for _ in range(20):
            g, a = r.choice(GROUPS), r.choice(ARTIFACTS)
            t = r.choice([b""] * 16 + [b"jar", b"pom", b"test-jar", b"war"])
            c = r.choice([b""] * 12 + [b"sources", b"tests"])
            d = dep(g, a, t=t, c=c)
            if ident(d) not in taken:
                break
        if r.random() < self.k.key_placeholder:
            pool = [b"${project.groupId}", b"${grp}", b"${groupId}", b"${pom.groupId}"]
            if root_world and self.has_parent:
                pool += [b"${project.parent.groupId}", b"${parent.groupId}", b"${pom.parent.groupId}"] * 2
            d[0] = r.choice(pool)
        d[2] = b"" if (managed_ok and r.random() < 0.25) else self.version_text(names, root_world)
        d[5] = r.choice([b""] * 6 + [b"compile", b"test", b"provided", b"runtime", b"test", b"${sc}"])
        if self.flag("empty_props"):
            u = r.random()
            if u < 0.25 and d[4] == b"":
                d[4] = b"${cl}"
            elif u < 0.33:
                d[5] = b"${esc}"
            elif u < 0.345 and d[3] == b"":
                d[3] = b"${ety}"
            elif u < 0.355:
                d[0] = b"${egrp}"
        d[6] = r.choice([b""] * 8 + [b"true", b"false"])
        if self.flag("empty_props") and r.random() < 0.08:
            d[6] = b"${dep.isOptional}"
        if r.random() < 0.25:
            n = r.randrange(1, 3)
            d[7] = [[r.choice(GROUPS + [b"*"]), r.choice(ARTIFACTS + [b"*"])] for _ in range(n)]
            if self.flag("excl_placeholder") and r.random() < 0.5:
                d[7][0][0] = b"${project.groupId}"
                if self.flag("empty_props") and r.random() < 0.5:
                    d[7][0][1] = b"x${cl}"
        return d

    def gen_list(self, names, n, avoid=(), managed_ok=True, root_world=True):
        """n entries with pairwise different identities, also different from `avoid`"""
        out = []
        taken = set(avoid)
        for _ in range(n):
            d = self.gen_dep(names, taken, managed_ok, root_world)
            taken.add(ident(d))
            out.append(d)
        return out

    def gen_mgmt(self, names, n, avoid=(), root_world=True):
        """a management list: entries carry a version, except that in lineages flagged versionless_mgmt an entry may
        manage scope and exclusions only (no <version>): Maven keeps such an entry, it shadows an ancestor's entry for
        the same key and its scope/exclusions are injected (seed C15-n)"""
        out = self.gen_list(names, n, avoid, managed_ok=False, root_world=root_world)
        if self.flag("versionless_mgmt"):
            r = self.rng
            for d in out:
                if r.random() < 0.4:
                    d[2] = b""
                    if d[5] == b"":
                        d[5] = r.choice([b"runtime", b"test", b"provided", b"compile"])
                    if not d[7] and r.random() < 0.6:
                        d[7] = [[r.choice(GROUPS), r.choice(ARTIFACTS)]]
        return out

    def gen_props(self, names, n):
        """properties of one POM: literal values or references to lower-numbered names (acyclic);
        in lineages flagged unresolved also references that may close a cycle"""
        r = self.rng
        out = []
        for _ in range(n):
            name = r.choice(names)
            i = names.index(name)
            q = r.random()
            lower = [x for x in names[:i] if x not in NOT_A_VERSION]
            if name in EMPTYABLE:
                val = r.choice(EMPTYABLE[name])
            elif name == b"grp":
                val = r.choice(GROUPS)
            elif name == b"sc":
                val = r.choice([b"test", b"provided", b"runtime", b"compile"])
            elif q < 0.55 or not lower:
                val = r.choice(VERSIONS)
            elif q < 0.80:
                val = b"${" + r.choice(lower) + b"}"
            elif q < 0.88:
                val = r.choice(VERSIONS) + b".${" + lower[0] + b"}"
            elif q < 0.94:
                val = b"${project.version}"
            elif self.flag("unresolved"):
                val = b"${" + r.choice(names) + b"}"          # possibly cyclic
            else:
                val = r.choice(VERSIONS)
            out.append([name, val])
        return out

    def gen_activation(self):
        r = self.rng
        act = [b"", b"", [b"", b"", b"", b""], [b"", b""]]
        q = r.random()
        if q < 0.22:
            kinds = ["default"]
        elif q < 0.47:
            kinds = ["jdk"]
        elif q < 0.70:
            kinds = ["os"]
        elif q < 0.80:
            kinds = ["jdk", "os"]
        elif q < 0.86:
            kinds = ["default", "jdk"]
        elif q < 0.86 + self.k.prop_activation:
            kinds = ["prop"] + (["jdk"] if r.random() < 0.3 else [])
        else:
            kinds = ["default"]
        for kd in kinds:
            if kd == "default":
                act[0] = r.choice([b"true", b"true", b"true", b"false"])
            elif kd == "jdk":
                u = r.random()
                if self.flag("jdk_bad") and u < 0.5:
                    act[1] = r.choice(JDK_BAD)
                elif self.flag("jdk_negated") and u < 0.6:
                    act[1] = r.choice(JDK_NEGATED)
                elif self.flag("jdk_risky") and u < 0.6:
                    act[1] = r.choice(JDK_SIMPLE_RISKY)
                elif u < 0.5:
                    act[1] = r.choice(JDK_SIMPLE)
                else:
                    act[1] = r.choice(JDK_RANGES)
            elif kd == "os":
                n = r.choice([1, 1, 2])
                for f in r.sample([0, 1, 2, 3], n):
                    act[2][f] = r.choice([
                        [b"linux", b"Linux", b"!linux", b"windows 10", b"mac os x", b"!windows 10"],
                        [b"unix", b"Unix", b"windows", b"!windows", b"mac", b"!mac"],
                        [b"amd64", b"!amd64", b"aarch64", b"x86", b"AMD64"],
                        [b"5.10.0-26-cloud-amd64", b"10.0", b"!10.0"]][f])
            elif kd == "prop":
                act[3] = r.choice([[b"debug", b""], [b"!skipTests", b""], [b"env", b"dev"], [b"env", b"!prod"]])
        return act

    def gen_profiles(self, names, own_deps, own_mgmt, root_world):
        r = self.rng
        out = []
        for i in range(r.choice([0, 0, 1, 1, 2])):
            avoid_d = [ident(d) for d in own_deps] + [ident(d) for p in out for d in p[3]]
            avoid_m = [ident(d) for d in own_mgmt] + [ident(d) for p in out for d in p[4]]
            props = self.gen_props(names, r.choice([0, 1, 1, 2]))
            deps = self.gen_list(names, r.choice([0, 1, 1, 2]), avoid_d, managed_ok=root_world, root_world=root_world)
            mgmt = self.gen_mgmt(names, r.choice([0, 0, 1, 2]), avoid_m, root_world=root_world)
            if own_deps and self.flag("profile_same_key") and r.random() < 0.5:
                d = list(r.choice(own_deps))
                d[2] = r.choice(VERSIONS)
                deps.append(d)
            if own_mgmt and self.flag("profile_same_key") and r.random() < 0.5:
                d = list(r.choice(own_mgmt))
                if d[5] != b"import":
                    d[2] = r.choice(VERSIONS)
                    mgmt.append(d)
            out.append([b"p%d" % i, self.gen_activation(), props, deps, mgmt])
        return out

    def maybe_dup(self, lst, on):
        r = self.rng
        if lst and on and r.random() < 0.5:
            d = [list(x) if isinstance(x, list) else x for x in r.choice(lst)]
            if d[5] != b"import":
                d[2] = r.choice(VERSIONS)
                d[5] = r.choice([b"", b"test"])
                lst.insert(r.randrange(len(lst) + 1), d)

    def gen_pom(self, g, a, v, parent, packaging, names, ndeps, nmgmt, nprops, imports=(), declare_gv=True, root_world=True,
                omit_group=False):
        r = self.rng
        deps = self.gen_list(names, ndeps, managed_ok=root_world, root_world=root_world)
        mgmt = self.gen_mgmt(names, nmgmt, root_world=root_world)
        props = self.gen_props(names, nprops)
        for imp in imports:
            if imp[2].startswith(b"${"):
                # the version of the import comes from a property of this very POM
                props.append([imp[2][2:-1], imp[8]])
            mgmt.insert(r.randrange(len(mgmt) + 1), imp[:8])
        self.maybe_dup(deps, self.flag("dup_in_list"))
        self.maybe_dup(mgmt, self.flag("mgmt_dup"))
        profs = self.gen_profiles(names, deps, mgmt, root_world)
        pg, pv = g, v
        if parent != [b"", b"", b""] and not declare_gv:
            # group and version inherited from the parent element
            if parent[0] == g:
                pg = b""
            if parent[2] == v:
                pv = b""
        if omit_group and parent[0] == g:
            pg = b""
        return [pg, a, pv, list(parent), packaging, props, deps, mgmt, profs]

    def import_entry(self, key, j):
        bg, ba, bv = key
        if self.rng.random() < 0.25:
            return dep(bg, ba, b"${bom%d.version}" % j, b"pom", s=b"import") + [bv]
        return dep(bg, ba, bv, b"pom", s=b"import") + [bv]

    def base_props(self, p, names):
        r = self.rng
        have = set(n for n, _ in p[5])
        base = []
        for n in names:
            if n not in have and r.random() < 0.995:
                if n in EMPTYABLE:
                    base.append([n, r.choice(EMPTYABLE[n])])
                elif n == b"grp":
                    base.append([n, r.choice(GROUPS)])
                elif n == b"sc":
                    base.append([n, r.choice([b"test", b"provided"])])
                else:
                    base.append([n, r.choice(VERSIONS)])
        p[5] = base + p[5]

    # ---- a whole lineage
    def lineage(self):
        r = self.rng
        k = self.k
        self.f = {name: r.random() < getattr(k, name) for name in
                  ("dup_in_list", "profile_same_key", "bom_two_versions", "bom_parent_builtin", "excl_placeholder",
                   "jdk_risky", "mgmt_dup", "unresolved", "unmanaged", "missing_bom", "bad_packaging", "jdk_bad",
                   "empty_props", "jdk_negated", "same_group", "versionless_mgmt")}
        env = list(r.choice(self.envs))
        names = list(PROP_NAMES)
        if r.random() < 0.25:
            names += r.sample(BUILTIN_LIKE, r.randrange(1, 3))
        if self.flag("empty_props"):
            names += list(EMPTYABLE)
        nanc = r.choice([0, 1, 1, 2, 2, 3, 4])
        nbom = r.choice([0, 0, 1, 1, 2, 3])
        if self.flag("bom_two_versions") or self.flag("bom_parent_builtin"):
            nbom = max(nbom, 2)
        # BOMs (a BOM may import a later one only, so there is no import cycle)
        boms = [(b"b", b"bom%d" % j, r.choice([b"1", b"2"])) for j in range(nbom)]
        bom_poms = []
        extra = []
        for j, key in enumerate(boms):
            bg, ba, bv = key
            parent = [b"", b"", b""]
            if r.random() < 0.5 or (self.flag("bom_parent_builtin") and j == 0):
                parent = [bg if self.flag("same_group") and r.random() < 0.5 else b"bp", b"bpar%d" % j, r.choice([b"7", b"8"])]
                pp = self.gen_pom(parent[0], parent[1], parent[2], [b"", b"", b""],
                                  b"jar" if (self.flag("bad_packaging") and r.random() < 0.3) else b"pom", names,
                                  0, r.choice([0, 1, 2]), r.choice([1, 2, 3]), root_world=False)
                if self.flag("bom_parent_builtin") and r.random() < 0.5:
                    pp[7].append(dep(b"g", b"z", b"${project.parent.version}"))
                bom_poms.append(pp)
            imps = []
            later = list(enumerate(boms))[j + 1:]
            if later and r.random() < 0.35:
                jj, lk = r.choice(later)
                imps.append(self.import_entry(lk, jj))
            if self.flag("bom_two_versions") and j == 1:
                # another version of BOM 0, which the root lineage may import as well
                imps.append(dep(boms[0][0], boms[0][1], b"9", b"pom", s=b"import") + [b"9"])
                q = self.gen_pom(boms[0][0], boms[0][1], b"9", [b"", b"", b""], b"pom", names, 0, 2, 1, root_world=False)
                q[8] = []
                extra.append(q)
            bp = self.gen_pom(bg, ba, bv, parent, b"pom", names, r.choice([0, 0, 1]), r.choice([1, 2, 3]), r.choice([0, 1, 2]),
                              imports=imps, declare_gv=r.random() < 0.7, root_world=False, omit_group=self.flag("same_group"))
            if parent[0] and self.flag("bom_parent_builtin"):
                bp[7].append(dep(b"g", b"y", r.choice([b"${project.parent.version}", b"${parent.version}"])))
            bom_poms.append(bp)
        # the root and its ancestors, top-most last
        self.has_parent = nanc > 0
        # with same_group the root has the group of its parent and inherits it
        chain = [(b"p" if (self.flag("same_group") and nanc) else b"r", b"root", b"1")] + \
                [(b"p", b"par%d" % i, b"%d" % (i + 1)) for i in range(nanc)]
        imports_of = {i: [] for i in range(len(chain))}
        for j, key in enumerate(boms):
            if r.random() < 0.8 or self.flag("bom_two_versions") or self.flag("bom_parent_builtin"):
                imports_of[r.randrange(len(chain))].append(self.import_entry(key, j))
        lineage_poms = []
        for i, (g, a, v) in enumerate(chain):
            parent = list(chain[i + 1]) if i + 1 < len(chain) else [b"", b"", b""]
            if i == 0:
                packaging = r.choice([b"", b"jar", b"pom", b"war"])
            elif self.flag("bad_packaging") and r.random() < 0.4:
                packaging = r.choice([b"jar", b""])
            else:
                packaging = b"pom"
            top = (i == len(chain) - 1)
            p = self.gen_pom(g, a, v, parent, packaging, names, r.choice([0, 1, 2, 3, 4] if i == 0 else [0, 0, 1, 2]),
                             r.choice([0, 1, 2, 3]), r.choice([0, 1, 2, 3]),
                             imports=imports_of[i], declare_gv=r.random() < 0.6,
                             omit_group=(i == 0 and self.flag("same_group")))
            if top:
                self.base_props(p, names)        # base definitions, so that most references resolve
            lineage_poms.append(p)
        for p in bom_poms + extra:
            if p[3] == [b"", b"", b""]:
                self.base_props(p, names)
        # dependencies without a version get a managed one somewhere up the lineage
        if not self.flag("unmanaged"):
            managed = set()
            for p in lineage_poms:
                managed |= set(ident(d) for d in p[7])
            for i, p in enumerate(lineage_poms):
                for lst in [p[6]] + [pf[3] for pf in p[8]]:
                    for d in lst:
                        if d[2] == b"" and ident(d) not in managed and b"${" not in d[0]:
                            managed.add(ident(d))
                            tgt = r.choice(lineage_poms[i:])
                            if ident(d) not in [ident(x) for x in tgt[7]]:
                                tgt[7].append(dep(d[0], d[1], r.choice(VERSIONS), d[3], d[4],
                                                  s=r.choice([b"", b"", b"test", b"runtime"]),
                                                  ex=[[b"h", b"*"]] if r.random() < 0.3 else ()))
        if self.flag("empty_props"):
            # an empty definition that overrides a non-empty one further up: in a child, in a profile
            for world in (lineage_poms, bom_poms):
                defined = [(i, n, v) for i, p in enumerate(world) for n, v in p[5] if n in EMPTYABLE and v != b""]
                for i, n, v in defined:
                    if r.random() < 0.6:
                        if world is lineage_poms and i > 0:
                            tgt = world[r.randrange(0, i)]
                        else:
                            tgt = world[i]
                        if tgt[8] and r.random() < 0.5:
                            r.choice(tgt[8])[2].append([n, b""])
                        elif tgt is not world[i] or world is bom_poms:
                            tgt[5].append([n, b""])
        others = lineage_poms[1:] + bom_poms + extra
        if others and self.flag("missing_bom"):
            others.pop(r.randrange(len(others)))
        r.shuffle(others)
        # how the XML text is spelled (empty element, self-closing, white space, CDATA, padding); 0: plainly
        style = r.randrange(1, 1 << 30) if r.random() < 0.7 else 0
        return [env, [lineage_poms[0]] + others, [], style]


def jdk_pairs(case):
    """every (spec, jdk) the activation of this case can ask the oracle"""
    jdk = case[0][0]
    out = set()
    for p in case[1]:
        for pf in p[8]:
            if pf[1][1] != b"":
                out.add((pf[1][1], jdk))
    return out


def is_prefix(p, s):
    return s[:len(p)] == p


def declared_key(p):
    return (p[0] or p[3][0], p[1], p[2] or p[3][2])


def dotted(s, seps=b"."):
    out = []
    cur = b""
    for c in s + seps[:1]:
        if bytes([c]) in [seps[i:i + 1] for i in range(len(seps))]:
            if not cur.isdigit():
                return None
            out.append(int(cur))
            cur = b""
        else:
            cur += bytes([c])
    return out


def go_plain_rule(spec, jdk):
    """what Profile.activated answers today for a plain <jdk> value (F-C15-6): active when the value is not above
    the JDK version and differs from it at most from the third number on.  None: not a dotted number."""
    a, b = dotted(spec), dotted(jdk, b"._-")
    if a is None or b is None:
        return None
    n = max(len(a), len(b))
    a, b = a + [0] * (n - len(a)), b + [0] * (n - len(b))
    if a == b:
        return 1
    i = next(i for i in range(n) if a[i] != b[i])
    if a[i] > b[i]:
        return 0
    return 0 if i < 2 else 1


def matcher(d):
    """(group, artifact) of an entry; a field that holds a placeholder matches anything"""
    return (None if b"${" in d[0] else d[0], None if b"${" in d[1] else d[1])


EVERYTHING = "*"


def triggers(case, table):
    """constructions present in the case on which the Go code is known to differ from Maven (known/C15.jsonl),
    each with the dependency identities it can affect: a set of (group, artifact) matchers or EVERYTHING"""
    out = {}

    def add(name, what):
        if what == EVERYTHING or out.get(name) == EVERYTHING:
            out[name] = EVERYTHING
        else:
            out.setdefault(name, set()).update(what)

    poms = case[1]
    jdk = case[0][0]
    bykey = {}
    for p in poms[1:]:
        bykey.setdefault(declared_key(p), p)
    # the root's own lineage
    root_line = [id(poms[0])]
    cur = poms[0]
    seen = set()
    while tuple(cur[3]) in bykey and tuple(cur[3]) not in seen:
        seen.add(tuple(cur[3]))
        cur = bykey[tuple(cur[3])]
        root_line.append(id(cur))
    imports = {}
    bom_world = set()
    for p in poms:
        if id(p) not in root_line:
            for lst in [p[7]] + [pf[4] for pf in p[8]]:
                bom_world.update(matcher(d) for d in lst)
    for p in poms:
        lists = [(p[6], p[7])] + [(pf[3], pf[4]) for pf in p[8]]
        for deps, mgmt in lists:
            ids = [ident(d) for d in deps]
            dups = set(i for i in ids if ids.count(i) > 1)
            if dups:
                add("dup_in_list", [matcher(d) for d in deps if ident(d) in dups])
        own_d = set(ident(d) for d in p[6])
        own_m = set(ident(d) for d in p[7])
        for pf in p[8]:
            both = [d for d in pf[3] if ident(d) in own_d] + [d for d in pf[4] if ident(d) in own_m]
            if both:
                add("profile_same_key", [matcher(d) for d in both])
            own_d |= set(ident(d) for d in pf[3])
            own_m |= set(ident(d) for d in pf[4])
        for deps, mgmt in lists:
            for d in mgmt:
                if d[5] == b"import":
                    imports.setdefault((d[0], d[1]), set()).add(d[2])
            for d in deps + mgmt:
                if any(b"${" in e[0] or b"${" in e[1] for e in d[7]):
                    add("excl_placeholder", [matcher(d)])
        if id(p) not in root_line:
            txt = b" ".join(x for d in p[7] for x in d[:7]) + b" " + b" ".join(v for _, v in p[5])
            for pf in p[8]:
                txt += b" " + b" ".join(x for d in pf[4] for x in d[:7]) + b" " + b" ".join(v for _, v in pf[2])
            if b"parent." in txt:
                add("bom_parent_builtin", bom_world)
        for pf in p[8]:
            s = pf[1][1]
            if not s or s[:1] in (b"[", b"("):
                continue
            got = table.get((s, jdk))
            # what flips with this profile: its own content and that of the profiles active by default
            flip = [pf] + [q for q in p[8] if q[1][0].lower() == b"true"]
            what = EVERYTHING if any(q[2] for q in flip) else [matcher(d) for q in flip for d in q[3] + q[4]]
            if s[:1] == b"!":
                if got == 2:
                    add("jdk_negated", EVERYTHING)      # the activation error ends the whole pipeline
            else:
                want = 1 if is_prefix(s, jdk) else 0
                if got != want and got == go_plain_rule(s, jdk):
                    add("jdk_plain_value", what)
    if any(len(v) > 1 for v in imports.values()):
        add("bom_two_versions", bom_world)
    return out


def excused(trig, pa, pb):
    """two projected results differ only in entries the known constructions of the lineage can affect: with those
    identities taken out of both, what is left is the same, in the same order"""
    if not trig:
        return False
    if any(v == EVERYTHING for v in trig.values()):
        return True
    if pa[0] != "ok" or pb[0] != "ok":
        return False
    ms = set().union(*trig.values())

    def keep(e):
        return not any((g is None or g == e[0]) and (a is None or a == e[1]) for g, a in ms)
    return all([e for e in la if keep(e)] == [e for e in lb if keep(e)] for la, lb in ((pa[1], pb[1]), (pa[2], pb[2])))


# ---------------------------------------------------------------------------- property tables

def gen_table_case(rng):
    """(table, string) for the termination clause: cycles, self reference, nested and unterminated forms"""
    r = rng
    names = [b"a", b"b", b"c", b"d", b"e", b"x.y", b"", b"a${b", b"}", b"project.version", b"version"]
    n = r.randrange(0, 7)

    def text(depth=0):
        parts = []
        for _ in range(r.randrange(0, 4)):
            q = r.random()
            if q < 0.45:
                parts.append(b"${" + r.choice(names) + b"}")
            elif q < 0.55:
                parts.append(b"${" + r.choice(names))           # unterminated
            elif q < 0.62:
                parts.append(b"${a${b}}")
            elif q < 0.68:
                parts.append(r.choice([b"$", b"{", b"}", b"$$", b"${}", b"$}{", b"}${"]))
            elif q < 0.72:
                parts.append(bytes(r.randrange(0, 256) for _ in range(r.randrange(1, 4))))
            else:
                parts.append(r.choice([b"1", b"x", b"-", b".", b"lib"]))
        return b"".join(parts)

    table = [[r.choice(names), text()] for _ in range(n)]
    return [table, text()]


def gen_chain_case(rng, depth):
    """a chain k0 -> k1 -> ... of the given depth, optionally closed into a cycle"""
    r = rng
    table = [[b"k%d" % i, b"<${k%d}>" % (i + 1)] for i in range(depth)]
    mode = r.choice(["open", "closed", "cycle", "self"])
    if mode == "closed":
        table.append([b"k%d" % depth, b"end"])
    elif mode == "cycle":
        table.append([b"k%d" % depth, b"${k%d}" % r.randrange(0, depth + 1)])
    elif mode == "self":
        table.append([b"k%d" % depth, b"${k%d}" % depth])
    r.shuffle(table)
    return [table, b"${k0}" + (b"+${k%d}" % r.randrange(0, depth + 1))]
