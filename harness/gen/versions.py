"""Grammar-directed generators of version strings per packaging system (bytes).

Every choice is drawn from the rng passed in.  `strict=True` restricts to the reference
tool's grammar (used by C02); otherwise alternative spellings and boundary tokens are mixed in.
System indices follow semver.System: 0 Default, 1 Cargo, 2 Go, 3 Maven, 4 NPM, 5 NuGet,
6 PyPI, 7 RubyGems, 8 Composer.
"""

SYSTEMS = ["Default", "Cargo", "Go", "Maven", "NPM", "NuGet", "PyPI", "RubyGems", "Composer"]
NUMS = [b"0", b"1", b"2", b"3", b"9", b"10", b"11", b"20", b"100", b"2147483647", b"2147483648",
        b"9223372036854775806"]
SMALL = [b"0", b"1", b"2", b"3", b"10"]
LEADZ = [b"00", b"01", b"010", b"007"]
NUGET_FLOAT = [b"*", b"a*", b"beta*", b"rc.*"]      # NuGet floating prerelease labels
PRE_WORDS = [b"alpha", b"beta", b"rc", b"a", b"b", b"pre", b"Alpha", b"Beta", b"BETA", b"RC", b"Rc", b"x-y", b"dev", b"SNAPSHOT", b"b2", b"-", b"z", b"Z", b"A", b"1a", b"0a", b"2-beta", b"-x", b"--", b"7f3c2e1", b"a1", b"-a"]
PRE_NUMS = [b"0", b"1", b"2", b"10", b"01", b"00", b"-1", b"+1", b"2147483647", b"2147483648", b"9223372036854775807",
            b"9223372036854775808", b"18446744073709551616", b"18446744073709551617", b"36893488147419103233",
            b"99999999999999999999", b"100000000000000000000"]
BUILD = [b"build", b"001", b"sha.5114f85", b"b-1", b"0"]


def pick(rng, xs):
    return xs[rng.randrange(len(xs))]


def num(rng, leadz=False):
    r = rng.random()
    if leadz and r < 0.15:
        return pick(rng, LEADZ)
    if r < 0.7:
        return pick(rng, SMALL)
    return pick(rng, NUMS)


def semver_like(rng, sysi, strict=False):
    """Default, Cargo, Go, NPM, NuGet, Composer."""
    leadz = sysi in (4, 5, 8) and not strict
    if strict:
        n = 3
    else:
        n = rng.choice([1, 2, 3, 3, 3, 3])
        if sysi == 5 and rng.random() < 0.2:
            n = 4
        if sysi == 8 and rng.random() < 0.2:
            n = rng.choice([4, 5])
    parts = [num(rng, leadz) for _ in range(n)]
    if strict:
        parts = [p if p in SMALL or p in NUMS[:9] else b"1" for p in parts]
    elif rng.random() < 0.08:
        # wildcard components (accepted by Parse in several systems), also in the middle and first
        i = rng.randrange(len(parts)) if rng.random() < 0.5 else len(parts) - 1
        parts[i] = rng.choice([b"*", b"x", b"X"]) if sysi != 5 else b"*"
        if rng.random() < 0.3 and i + 1 < len(parts):
            parts[i + 1] = rng.choice([b"*", b"x", b"0", b"3"])
    s = b".".join(parts)
    if rng.random() < 0.45:
        k = rng.choice([1, 1, 2, 3])
        elems = []
        for _ in range(k):
            if rng.random() < 0.5:
                e = pick(rng, PRE_WORDS)
                if sysi == 5 and not strict and rng.random() < 0.08:
                    e = pick(rng, NUGET_FLOAT)
            else:
                e = pick(rng, PRE_NUMS)
            if strict:
                # SemVer 2.0: numeric identifiers without leading zeros; no sign forms
                if e in (b"01", b"00", b"+1", b"9223372036854775808", b"9223372036854775807", b"2147483648"):
                    e = b"1"
            elif e == b"+1":
                e = b"1"
            elems.append(e)
        s += b"-" + b".".join(elems)
    if rng.random() < 0.25:
        s += b"+" + pick(rng, BUILD)
    if sysi == 2:
        s = b"v" + s
    elif sysi == 4 and not strict and rng.random() < 0.2:
        s = b"v" * rng.choice([1, 1, 2]) + s
    elif sysi == 8 and not strict and rng.random() < 0.2:
        s = rng.choice([b"v", b"V"]) + s
    return s


PEP_PRE = [b"a", b"b", b"rc", b"alpha", b"beta", b"c", b"pre", b"preview", b"A", b"RC", b"Beta"]
PEP_POST = [b"post", b"rev", b"r", b"POST"]
PEP_LOCAL = [b"abc", b"ABC", b"1", b"01", b"ubuntu.1", b"ubuntu-1", b"a_b", b"1.2", b"x.10", b"x.9", b"a..b",
             b"18446744073709551616", b"18446744073709551615", b"9", b"10", b"2", b"20240101123456789012", b"x.9", b"x.20240101123456789012",
             # segments after an alternative separator decide (seed C02-j)
             b"ubuntu-2", b"ubuntu_2", b"ubuntu_1", b"abc-1", b"abc.1", b"abc-2", b"abc_2", b"x-10", b"x_9", b"a.b-c_2", b"a-b.c.1"]


def pep440(rng, strict=False):
    s = b""
    if rng.random() < 0.15:
        s += pick(rng, [b"0", b"1", b"2", b"255"] + ([] if strict else [b"256", b"01"])) + b"!"
    if not strict and rng.random() < 0.1:
        s += rng.choice([b"v", b"V"])
    n = rng.choice([1, 2, 2, 3, 3, 3, 4, 5])
    s += b".".join(num(rng, not strict) for _ in range(n))
    sep = lambda: b"" if strict else rng.choice([b"", b"", b".", b"-", b"_"])
    if rng.random() < 0.35:
        w = pick(rng, PEP_PRE[:3] if strict else PEP_PRE)
        s += sep() + w
        if rng.random() < 0.8:
            s += sep() + pick(rng, SMALL + [b"18446744073709551615", b"9223372036854775808"] if not strict else SMALL)
    if rng.random() < 0.25:
        if strict:
            s += b".post" + pick(rng, SMALL)
        elif rng.random() < 0.2:
            s += b"-" + pick(rng, SMALL)
        else:
            s += rng.choice([b".", b"-", b"_", b""]) + pick(rng, PEP_POST)
            if rng.random() < 0.8:
                s += sep() + pick(rng, SMALL)
    if rng.random() < 0.25:
        s += (b"." if strict else rng.choice([b".", b"-", b"_", b""])) + (b"dev" if strict else rng.choice([b"dev", b"DEV"]))
        if rng.random() < 0.8 or strict:
            s += sep() + pick(rng, SMALL)
    if rng.random() < 0.2:
        s += b"+" + pick(rng, PEP_LOCAL)
    return s


MVN_QUAL = [b"alpha", b"beta", b"milestone", b"rc", b"cr", b"snapshot", b"ga", b"final", b"release", b"sp",
            b"a", b"b", b"m", b"foo", b"jre", b"android", b"RC", b"Final", b"x_y", b"zzz"]


def maven_domain(rng, exclude_release_num=False):
    """D_mvn (DESIGN 6.4): dotted numeric prefix, optional qualifier attached by '-' or directly,
    optional number, optional -SNAPSHOT."""
    n = rng.choice([1, 2, 2, 3, 3, 3, 4])
    s = b".".join(num(rng, True) for _ in range(n))
    if rng.random() < 0.55:
        q = pick(rng, MVN_QUAL)
        s += rng.choice([b"-", b"-", b""]) + q
        if rng.random() < 0.5 and not (exclude_release_num and q.lower() in (b"ga", b"final", b"release")):
            s += rng.choice([b"", b"-", b"."]) + pick(rng, SMALL + LEADZ[:2])
    if rng.random() < 0.2:
        s += rng.choice([b"-SNAPSHOT", b"-snapshot"])
    return s


def maven_exotic(rng):
    toks = [b"1", b"0", b"2", b".", b"-", b"alpha", b"x", b"..", b"--", b"rc", b"1a", b"a1", b"", b"_", b"sp", b"final"]
    return b"".join(pick(rng, toks) for _ in range(rng.randrange(1, 7)))


GEM_PRE = [b"a", b"b", b"rc", b"pre", b"alpha", b"beta", b"A", b"x", b"z"]


def rubygems(rng, strict=False):
    n = rng.choice([1, 2, 3, 3, 3, 4, 5])
    s = b".".join(num(rng, not strict) for _ in range(n))
    if rng.random() < 0.4:
        k = rng.choice([1, 2, 3, 4])
        for i in range(k):
            if rng.random() < 0.55 or i == 0:
                e = pick(rng, GEM_PRE)
                if rng.random() < 0.3:
                    e += pick(rng, SMALL)
            else:
                e = pick(rng, SMALL + ([] if strict else LEADZ[:2]))
            s += (b"." if (strict or rng.random() < 0.8 or i > 0) else b"-") + e
    return s


def gen(rng, sysi, strict=False):
    if sysi == 6:
        return pep440(rng, strict)
    if sysi == 3:
        return maven_domain(rng) if (strict or rng.random() < 1.0) else maven_exotic(rng)
    if sysi == 7:
        return rubygems(rng, strict)
    return semver_like(rng, sysi, strict)


def malformed(rng, sysi):
    """mutations of valid inputs and raw noise"""
    r = rng.random()
    if r < 0.3:
        return bytes(rng.randrange(0, 256) for _ in range(rng.randrange(0, 12)))
    s = bytearray(gen(rng, sysi))
    for _ in range(rng.randrange(1, 4)):
        q = rng.random()
        if q < 0.3 and s:
            del s[rng.randrange(len(s))]
        elif q < 0.7:
            s.insert(rng.randrange(len(s) + 1), rng.choice(b".-+*xXv!_~^ 0a\xe2\x88\x9e\xff"))
        elif s:
            s[rng.randrange(len(s))] = rng.choice(b".-+*xX!_09aZ")
    if r > 0.95:
        s = s + b"1" * rng.choice([20, 400])
    return bytes(s)


def variants(rng, sysi, s):
    """spellings related to s: trailing zero components (0, 00), leading zeros, case changes,
    separator changes, an added/removed build tag or prerelease number"""
    out = []
    if sysi == 2:
        # Go: only spellings x/mod/semver-style parsers accept (leading v, at most three numbers), plus the
        # ecosystem's own shapes (pseudo-versions, +incompatible)
        h, sp, tl = s.partition(b"+")
        cr, da, pr = h.partition(b"-")
        k = rng.randrange(6)
        if k == 0 and cr.count(b".") < 2:
            out.append(cr + b".0" + da + pr + sp + tl)
        elif k == 1:
            out.append(h + b"+incompatible")
            out.append(h)
        elif k == 2:
            out.append(cr + b"-0.20190101000000-abcdef123456")
            out.append(cr + b"-0.20200101000000-abcdef123456")
        elif k == 3 and da:
            out.append(cr + da + pr + rng.choice([b".0", b".1", b"0"]) + sp + tl)
            out.append(cr + da + pr.swapcase() + sp + tl)
        elif k == 4:
            out.append(h + b"+" + rng.choice([b"x", b"1", b"build.2"]))
        else:
            out.append(cr)
        return [v for v in out if v != s]
    head, sep, tail = s.partition(b"+")
    core, dash, pre = head.partition(b"-")
    k = rng.randrange(7)
    if sysi == 6 and rng.random() < 0.25:
        k = 5          # PyPI: local labels are a comparison level of their own
    if k == 6:
        # the core extended by zero components and then a non-zero one (two different tails): equal
        # prefixes of different lengths must still be told apart by a later component
        z = rng.choice([b".0", b".0.0", b".00", b".0.0.0"])
        for d in rng.sample([b"1", b"2", b"3", b"10"], 2):
            out.append(core + z + b"." + d + dash + pre + sep + tail)
        out.append(core + z + dash + pre + sep + tail)
    elif k == 0:
        out.append(core + rng.choice([b".0", b".00", b".0.0"]) + dash + pre + sep + tail)
    elif k == 1:
        out.append(s + rng.choice([b".0", b".00", b"-0", b".1"]))
    elif k == 2:
        out.append(s.swapcase())
        out.append(s.upper())
    elif k == 3 and dash:
        out.append(core + rng.choice([b".", b""]) + pre + sep + tail)
        out.append(core + dash + pre + rng.choice([b".0", b".00", b"0", b"1"]) + sep + tail)
    elif k == 4:
        parts = core.split(b".")
        i = rng.randrange(len(parts))
        if parts[i].isdigit():
            parts[i] = b"0" + parts[i]
        out.append(b".".join(parts) + dash + pre + sep + tail)
    elif k == 5 and sysi in (0, 1, 2, 4, 5, 8):
        out.append(head + b"+" + rng.choice([b"x", b"1", b"build.2"]))
        out.append(head)
    elif k == 5 and sysi == 6:
        if sep:
            out.append(head + b"+" + tail + rng.choice([b".1", b".x", b".0"]))
            if b"." in tail:
                out.append(head + b"+" + tail.rsplit(b".", 1)[0])
            out.append(head)
        else:
            # several local labels on one public version: small numbers, numbers beyond uint64, text
            big = rng.choice([b"20240101123456789012", b"18446744073709551616", b"99999999999999999999"])
            if rng.random() < 0.5:
                # two small numbers whose text order brackets a number beyond uint64
                lo = rng.choice([b"9", b"3", b"5"])
                labs = [lo, rng.choice([b"10", b"11", b"100"]), big, b"x." + lo, b"x." + big]
            else:
                labs = rng.sample([b"abc", b"abc.1", b"1", b"1.2", b"9", b"10", big, b"2"], 3)
            for lab in labs:
                out.append(head + b"+" + lab)
    return [v for v in out if v != s]


import re as _re
_CORE = _re.compile(rb"^((?:[0-9]+!)?[vV]*)([0-9]+(?:\.[0-9]+)*)")


def with_core(rng, sysi, cores):
    """a generated string whose numeric core is (mostly) one of a few shared cores, so that a pool
    contains many strings that differ only in qualifier/prerelease/build"""
    s = gen(rng, sysi)
    if rng.random() < 0.75:
        m = _CORE.match(s)
        if m:
            s = m.group(1) + pick(rng, cores) + s[m.end():]
    return s


def cores(rng, sysi, k=3):
    out = []
    for _ in range(k):
        n = rng.choice([1, 2, 3, 3, 3]) if sysi not in (0, 1, 2, 4) else 3
        out.append(b".".join(pick(rng, SMALL) for _ in range(n)))
    return out


# D_mvn (DESIGN 6.4) as a recogniser on strings: dotted numeric prefix, optionally one qualifier token
# attached by '-' or directly (not by '.'), optionally a number attached directly, by '-' or by '.',
# optionally -SNAPSHOT (any case).
_DMVN = _re.compile(rb"^[0-9]+(\.[0-9]+)*(-?[A-Za-z_]+([-.]?[0-9]+)?)?(-[sS][nN][aA][pP][sS][hH][oO][tT])?$")


def in_dmvn(s):
    return bool(_DMVN.match(s))
