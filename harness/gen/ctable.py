"""Parse tables for the constraint model (C03, C09, C11).

The model takes the version parser as a parameter; in a case it is a finite table
(allowInfinity, string) -> outcome obtained from the Go parser (kind `cparse`).  The driver
seeds the table with the obvious candidates and then lets the MODEL ask for what is missing:
a model result ("need" allowInfinity string) names a lookup that missed; the string is parsed
by Go, added, and the case is run again until no case needs anything.
"""
import re

from lib import sx, parse_sx

SPLIT = re.compile(rb"[\s,|<>=~^!\[\]():{}]+")


def candidates(text):
    """strings that are likely to be looked up for a requirement / set text"""
    out = set()
    for piece in SPLIT.split(text):
        if piece:
            out.add(piece)
    return out


def set_string_keys(s1):
    """the (allowInfinity, text) lookups parseSet / parseSpan make on a printed set"""
    keys = set()
    inner = s1[1:-1] if len(s1) >= 2 else b""
    for span in inner.split(b","):
        if span[:1] in (b"[", b"(") and span[-1:] in (b"]", b")"):
            parts = span[1:-1].split(b":")
            if len(parts) == 2:
                keys.add((0, parts[0]))
                keys.add((1, parts[1]))
        elif span and span != b"<empty>":
            keys.add((0, span))
    return keys


def check_dump(sysi, allow, text, outcome):
    """The clauses of oracle_wf (coq/Semver/Total_span.v), the hypothesis of the totality theorems
    C04_constraint_total / C04_set_constraint_total / C04_match_total, checked on one answer of
    Go's version parser.  Returns the list of clauses it breaks (empty = fine)."""
    bad = []
    tag = outcome[0]
    if tag == b"panic":
        return ["1: System.parse panicked"]
    d = outcome[1] if len(outcome) > 1 else []
    if d != []:
        vsys, unc, isp, vstr, nums, pres, build, ext = d
        if vsys != sysi:
            bad.append("2: the version carries system %d, asked for %d" % (vsys, sysi))
        kind = ext[0]
        if kind != 0 and kind != {3: 1, 6: 2, 7: 3}.get(sysi, -1):
            bad.append("2: extension kind %d on a version of system %d" % (kind, sysi))
        if kind == 1:
            for el in ext[1:]:
                st = bytes(el[1])
                if st == b"" or st[:1] in (b".", b"-"):
                    bad.append("2: Maven element %r is empty or starts with a separator" % st)
        if any(bytes(p) == b"" for p in pres):
            bad.append("2: empty prerelease element")
    if tag == b"ok":
        if d == []:
            bad.append("3: no error but no Version")
        else:
            if sysi == 2 and not d[4]:
                bad.append("3: a Go version without numbers")
            if sysi == 6 and d[7][0] != 2:
                bad.append("3: a PyPI version without its extension object")
    if sysi in (3, 5) and not allow and text == b"0" and d == []:
        bad.append("4: no Version for the text 0")
    return bad


class Tables:
    """per-system cache of parse outcomes (sx text)"""

    def __init__(self, ctx):
        self.ctx = ctx
        self.cache = {}          # (sysi, allow, bytes) -> sx text of the outcome
        self.checked = 0
        # clause 4 of oracle_wf is about one fixed text: ask it on every run
        self.ensure([(3, 0, b"0"), (5, 0, b"0")])

    def ensure(self, keys):
        keys = [k for k in set(keys) if k not in self.cache]
        if not keys:
            return
        by_sys = {}
        for k in keys:
            by_sys.setdefault(k[0], []).append(k)
        args, groups = [], []
        for sysi, ks in by_sys.items():
            for i in range(0, len(ks), 200):
                chunk = ks[i:i + 200]
                args.append(sx([sysi, [[a, s] for (_, a, s) in chunk]]))
                groups.append(chunk)
        outs = self.ctx.impl("cparse", args)
        self.ctx.evaluations -= len(args)
        for chunk, line in zip(groups, outs):
            res = parse_sx(line)
            if res == [b"panic"]:
                # a panic outside parseEntry cannot happen; treat every entry as panic
                res = [[b"panic"]] * len(chunk)
            for k, r in zip(chunk, res):
                self.cache[k] = sx(r)
                self.checked += 1
                for clause in check_dump(k[0], k[1], k[2], r):
                    self.ctx.violation("the version parser broke clause %s of oracle_wf, the hypothesis of the totality "
                                       "theorems of the constraint model (C04)" % clause,
                                       {"system": k[0], "allowInfinity": k[1], "version text": k[2]}, sx(r), "oracle_wf")
        self.ctx.extra["oracle_wf_answers_checked"] = self.checked

    def table_text(self, sysi, keys):
        rows = []
        for (a, s) in sorted(keys):
            rows.append("(%d %s %s)" % (a, sx(s), self.cache[(sysi, a, s)]))
        return "(" + " ".join(rows) + ")"


def run_model(ctx, tables, kind, cases, max_rounds=12):
    """cases: list of dicts {sys, head: [sx-text args before the table], keys: set of (allow, bytes)}.
    Returns the model output lines.  Adds missing keys on demand."""
    out = [None] * len(cases)
    todo = list(range(len(cases)))
    for rnd in range(max_rounds):
        allkeys = []
        for i in todo:
            c = cases[i]
            allkeys += [(c["sys"], a, s) for (a, s) in c["keys"]]
        tables.ensure(allkeys)
        args = []
        for i in todo:
            c = cases[i]
            args.append("(" + " ".join(c["head"]) + " " + tables.table_text(c["sys"], c["keys"]) + ")")
        res = ctx.model(kind, args)
        nxt = []
        for i, line in zip(todo, res):
            if line.startswith('("need" '):
                need = parse_sx(line)
                cases[i]["keys"].add((int(need[1]), bytes(need[2])))
                nxt.append(i)
            else:
                out[i] = line
        ctx.count("need_rounds:%s" % kind, 1 if nxt else 0)
        todo = nxt
        if not todo:
            break
    for i in todo:
        out[i] = '("need-unresolved")'
    return out


def impl_args(cases):
    return ["(" + " ".join(c["head"]) + " ())" for c in cases]


def run_model_seq(ctx, tables, kind, cases, max_rounds=12):
    """cases: list of lists of calls {sys, head, keys}; the case argument is the list of
    (head... table) calls, each with the table of its own system.  A missing key is added to
    every call of the case."""
    out = [None] * len(cases)
    todo = list(range(len(cases)))
    for rnd in range(max_rounds):
        allkeys = []
        for i in todo:
            for c in cases[i]:
                allkeys += [(c["sys"], a, s) for (a, s) in c["keys"]]
        tables.ensure(allkeys)
        args = []
        for i in todo:
            args.append("(" + " ".join("(" + " ".join(c["head"]) + " " + tables.table_text(c["sys"], c["keys"]) + ")" for c in cases[i]) + ")")
        res = ctx.model(kind, args)
        nxt = []
        for i, line in zip(todo, res):
            if line.startswith('("need" '):
                need = parse_sx(line)
                for c in cases[i]:
                    c["keys"].add((int(need[1]), bytes(need[2])))
                nxt.append(i)
            else:
                out[i] = line
        todo = nxt
        if not todo:
            break
    for i in todo:
        out[i] = '("need-unresolved")'
    return out


def impl_args_seq(cases):
    return ["(" + " ".join("(" + " ".join(c["head"]) + " ())" for c in calls) + ")" for calls in cases]
