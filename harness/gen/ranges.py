"""Requirement (range / constraint) syntax trees for npm, Cargo, PyPI and Maven: generators,
printers with legal textual variation, probe versions around the bounds.

Pure python; every random choice is drawn from the `rng` argument; no global state.

AST encodings (nested python lists, so that lib.sx(ast) is the argument of the spec_* kinds of
coq/Extract/CasesSpec.v):

  ident    [0, n] | [1, b"str"]
  sv       [major, minor, patch, [ident...]]
  partial  [M, m, p, [ident...]]            -1 = x / X / * / missing
  npm      nrange = [nitem...]; nitem = [0, partialA, partialB] (hyphen) | [1, [[op, partial]...]]
           op: 0 none, 1 =, 2 >, 3 >=, 4 <, 5 <=, 6 ~, 7 ^
  cargo    [comparator...]; comparator = [op, major, minor, patch, [ident...]]  minor/patch -1 = None
           op: 1 =, 2 >, 3 >=, 4 <, 5 <=, 6 ~, 7 ^ (also the default without operator), 8 wildcard
  pypi     [spec...]; spec = [op, pver, prefix]; pver = [[release ints], pre, post, dev]
           pre = [] | [letter, n] (0 a, 1 b, 2 rc); post/dev = -1 | n; prefix 0/1 (the .* form)
           op: 1 ==, 2 >, 3 >=, 4 <, 5 <=, 8 !=, 11 ~=
  maven    [0, [ints]] soft | [1, [restr...]]; restr = [loIncl, lo, hiIncl, hi]; lo/hi = [] | [[ints]]

Candidate versions: sv lists for npm and cargo, lists of ints for pypi (final releases with a
non-zero number) and maven (dotted non-negative integers).
"""

ECOS = ("npm", "cargo", "pypi", "maven")
BIG = 2147483648

WORDS = [b"alpha", b"beta", b"rc", b"a", b"pre", b"RC", b"x-y", b"0a"]
PROBE_PRES = [[[0, 0]], [[1, b"alpha"]], [[1, b"alpha"], [0, 1]], [[1, b"rc"], [0, 1]]]


# ----------------------------------------------------------------------------- common pieces

def _num(rng):
    r = rng.random()
    if r < 0.80:
        return rng.choice([0, 1, 2, 3])
    if r < 0.96:
        return rng.choice([9, 10])
    return BIG


def _ident(rng):
    if rng.random() < 0.5:
        return [0, rng.choice([0, 1, 2, 10])]
    return [1, rng.choice(WORDS)]


def _pre(rng, ctx):
    """a prerelease tag; reuses an earlier one of the same requirement half of the time"""
    if ctx["pres"] and rng.random() < 0.5:
        p = [list(i) for i in rng.choice(ctx["pres"])]
        r = rng.random()
        if r < 0.25 and p[-1][0] == 0:
            p[-1][1] += 1
        elif r < 0.35:
            p.append([0, 0])
        elif r < 0.45 and len(p) > 1:
            p.pop()
        return p
    k = rng.choice([1, 1, 2, 2, 3])
    p = [_ident(rng) for _ in range(k)]
    ctx["pres"].append(p)
    return p


def _triple(rng, ctx):
    """three numbers; reuses (possibly bumped) numbers of the same requirement so that bounds collide"""
    pool = ctx["triples"]
    if pool and rng.random() < 0.65:
        t = list(rng.choice(pool))
        r = rng.random()
        if r < 0.45:
            pass
        elif r < 0.80:
            i = rng.randrange(3)
            t[i] += 1
            for j in range(i + 1, 3):
                t[j] = 0
        elif r < 0.90:
            i = rng.randrange(3)
            if t[i] > 0:
                t[i] -= 1
        else:
            t[rng.randrange(3)] = _num(rng)
    else:
        t = [_num(rng), _num(rng), _num(rng)]
    pool.append(tuple(t))
    return t


def _ctx():
    return {"triples": [], "pres": []}


def _ident_text(i):
    return str(i[1]).encode() if i[0] == 0 else bytes(i[1])


def _pre_text(pre):
    return b".".join(_ident_text(i) for i in pre)


def _sp(rng, plain, p=0.2, most=2):
    """optional spaces"""
    if plain or rng.random() >= p:
        return b""
    return b" " * rng.randrange(1, most + 1)


def _dedup(vs):
    seen = set()
    out = []
    for v in vs:
        k = repr(v)
        if k not in seen:
            seen.add(k)
            out.append(v)
    return out


def _pre_neighbours(pre):
    out = []
    if len(pre) > 1:
        out.append(pre[:-1])
    out.append(pre + [[0, 0]])
    last = pre[-1]
    if last[0] == 0:
        out.append(pre[:-1] + [[0, last[1] + 1]])
        if last[1] > 0:
            out.append(pre[:-1] + [[0, last[1] - 1]])
    else:
        out.append(pre[:-1] + [[1, bytes(last[1]) + b"a"]])
        if len(last[1]) > 1:
            out.append(pre[:-1] + [[1, bytes(last[1])[:-1]]])
    out.append([[0, 0]] + pre[1:])
    out.append([[1, b"zz"]] + pre[1:])
    return out


def _sv_probes(bs):
    out = []
    for M, m, p, pre in bs:
        succ = [(M + 1, 0, 0), (M, m + 1, 0), (M, m, p + 1)]
        pred = []
        if M > 0:
            pred.append((M - 1, m, p))
        if m > 0:
            pred.append((M, m - 1, p))
        if p > 0:
            pred.append((M, m, p - 1))
        for t in [(M, m, p)] + succ + pred:
            out.append([t[0], t[1], t[2], []])
        for t in [(M, m, p)] + succ:
            for pr in PROBE_PRES:
                out.append([t[0], t[1], t[2], [list(i) for i in pr]])
        if pre:
            out.append([M, m, p, [list(i) for i in pre]])
            for q in _pre_neighbours([list(i) for i in pre]):
                out.append([M, m, p, q])
    return out


def _rand_sv(rng):
    pre = []
    if rng.random() < 0.3:
        pre = [_ident(rng) for _ in range(rng.choice([1, 1, 2]))]
    return [_num(rng), _num(rng), _num(rng), pre]


def _release_probes(bs):
    out = []
    for r in bs:
        r = list(r)
        k = len(r)
        out.append(r)
        if k < 5:
            out.append(r + [0])
        t = list(r)
        while len(t) > 1 and t[-1] == 0:
            t.pop()
        out.append(t)
        for i in range(k):
            out.append(r[:i] + [r[i] + 1] + [0] * (k - i - 1))
            if r[i] > 0:
                out.append(r[:i] + [r[i] - 1] + r[i + 1:])
        out.append(r + [1])
        if k > 1:
            out.append(r[:-1])
    return out


def _rand_release(rng, nonzero):
    while True:
        r = [_num(rng) for _ in range(rng.choice([1, 2, 2, 3, 3, 4]))]
        if not nonzero or any(r):
            return r


def _dotted(r):
    return b".".join(str(x).encode() for x in r)


# ----------------------------------------------------------------------------- npm

def _npm_partial(rng, ctx):
    M, m, p = _triple(rng, ctx)
    r = rng.random()
    if r < 0.62:
        pre = _pre(rng, ctx) if rng.random() < 0.3 else []
        return [M, m, p, pre]
    if r < 0.77:
        return [M, m, -1, []]
    if r < 0.89:
        return [M, -1, -1, []]
    if r < 0.93:
        return [-1, -1, -1, []]
    if r < 0.95:
        return [M, -1, p, _pre(rng, ctx) if rng.random() < 0.3 else []]      # 1.x.3: the 3 is ignored
    if r < 0.97:
        return [-1, m, p, []]                                                  # x.2.3
    return [M, m, -1, _pre(rng, ctx)]                                          # 1.2.x-beta: tag ignored


NPM_OPS = [0, 0, 0, 1, 2, 3, 3, 4, 4, 5, 6, 6, 7, 7, 7]


def _npm_item(rng, ctx):
    r = rng.random()
    if r < 0.15:
        return [0, _npm_partial(rng, ctx), _npm_partial(rng, ctx)]
    n = rng.choice([0] + [1] * 10 + [2] * 8 + [3] * 3)
    return [1, [[rng.choice(NPM_OPS), _npm_partial(rng, ctx)] for _ in range(n)]]


def _npm_pattern(rng, ctx):
    """hand-made shapes whose interesting versions sit on shared bounds"""
    a = _triple(rng, ctx)
    i = rng.randrange(3)
    b = list(a)
    b[i] += 1
    for j in range(i + 1, 3):
        b[j] = 0
    c = list(b)
    c[i] += 1

    def part(t, cut):
        t = list(t)
        if cut and rng.random() < 0.4:
            k = rng.choice([1, 2])
            for j in range(k, 3):
                t[j] = -1
        return [t[0], t[1], t[2], []]
    r = rng.random()
    if r < 0.35:      # >=a <b || >=b <c
        return [[1, [[3, part(a, True)], [4, part(b, True)]]], [1, [[3, part(b, True)], [4, part(c, True)]]]]
    if r < 0.65:      # >=a <b >=b <c   (empty: the middle bound is excluded)
        return [[1, [[3, part(a, False)], [4, part(b, True)], [3, part(b, True)]][:rng.choice([2, 3])] +
                 [[4, part(c, True)]]]]
    x = part(b, True)
    return [[1, [[rng.choice([4, 5, 2]), x], [rng.choice([7, 6, 0, 3]), [x[0], x[1], x[2], []]]]]]     # <0.2 ^0.2


def _npm_anyish(rng):
    """an alternative that node turns into the single empty comparator: *, x, empty, >=0.0.0, >=0"""
    r = rng.random()
    if r < 0.3:
        return [1, []]
    if r < 0.6:
        return [1, [[rng.choice([0, 1, 3, 5]), [-1, -1, -1, []]]]]
    if r < 0.8:
        return [1, [[3, [0, 0, 0, []]]]]
    return [1, [[3, [0, rng.choice([0, -1]), -1, []]]]]


def _npm_nullish(rng):
    """an alternative that is the null set <0.0.0-0"""
    r = rng.random()
    if r < 0.3:
        return [1, [[4, [0, 0, 0, [[0, 0]]]]]]
    if r < 0.6:
        return [1, [[rng.choice([2, 4]), [-1, -1, -1, []]]]]
    return [1, [[4, [0, rng.choice([0, -1]), -1, []]]]]


def _npm_special(rng, ctx):
    """the two places where node's simplifications are observable: the text >=0.0.0 becomes the empty
    comparator (seen by prereleases of 0.0.0), and a range with an alternative that is just the
    empty comparator is replaced by * (alternatives admitting prereleases are lost)"""
    if rng.random() < 0.4:
        pre = _pre(rng, ctx)
        z = [0, 0, 0, []]
        zp = [0, 0, 0, pre]
        r = rng.random()
        if r < 0.3:
            return [[0, rng.choice([z, [0, 0, -1, []], [0, -1, -1, []]]), zp]]
        if r < 0.7:
            return [[1, [[3, rng.choice([z, [0, 0, -1, []], [0, -1, -1, []]])], [rng.choice([4, 5]), zp]]]]
        return [[1, [[rng.choice([7, 6]), rng.choice([zp, z, [0, 0, -1, []]])], [rng.choice([4, 5]), zp]]]]
    t = _triple(rng, ctx)
    alt = [1, [[rng.choice([3, 2, 7, 6, 0]), [t[0], t[1], t[2], _pre(rng, ctx)]]]]
    ast = [alt, _npm_anyish(rng)]
    if rng.random() < 0.3:
        ast.append(_npm_nullish(rng))
    if rng.random() < 0.3:
        ast[1] = _npm_nullish(rng)          # only a null set next to it: nothing is lost
    rng.shuffle(ast)
    return ast


def _gen_npm(rng):
    ctx = _ctx()
    if rng.random() < 0.06:
        return _npm_special(rng, ctx)
    if rng.random() < 0.15:
        ast = _npm_pattern(rng, ctx)
        if rng.random() < 0.3:
            ast.append(_npm_item(rng, ctx))
        return ast
    n = rng.choice([1] * 6 + [2] * 3 + [3])
    return [_npm_item(rng, ctx) for _ in range(n)]


def _npm_partial_text(rng, pa, plain):
    M, m, p, pre = pa
    comps = [M, m, p]
    need = 1
    for i in range(3):
        if comps[i] != -1:
            need = i + 1
    if pre:
        need = 3
    k = need if plain else rng.randrange(need, 4)
    out = []
    for c in comps[:k]:
        if c == -1:
            out.append(b"x" if plain else rng.choice([b"x", b"X", b"*"]))
        else:
            out.append(str(c).encode())
    if plain and M == -1 and m == -1 and p == -1:
        out = [b"*"]
    s = b".".join(out)
    if pre:
        s += b"-" + _pre_text(pre)
    return s


def _is_full_zero(pa):
    return pa[0] == 0 and pa[1] == 0 and pa[2] == 0 and not pa[3]


def _npm_v(rng, pa, plain, hazard):
    """optional leading v.  Not on >=0.0.0 (nor on a hyphen lower bound 0.0.0): node replaces the
    text >=0.0.0 by the empty comparator but leaves >=v0.0.0 alone, which is another range."""
    if plain or pa[0] == -1 or (hazard and _is_full_zero(pa)):
        return b""
    return b"v" if rng.random() < 0.08 else b""


NPM_OPTEXT = {0: b"", 1: b"=", 2: b">", 3: b">=", 4: b"<", 5: b"<=", 6: b"~", 7: b"^"}


def _npm_simple_text(rng, op, pa, plain):
    o = NPM_OPTEXT[op]
    if op == 6 and not plain and rng.random() < 0.35:
        o = b"~>"
    s = o
    if o:
        s += _sp(rng, plain, 0.15)
    return s + _npm_v(rng, pa, plain, op == 3) + _npm_partial_text(rng, pa, plain)


def _npm_item_text(rng, item, plain):
    if item[0] == 0:
        a, b = item[1], item[2]
        return (_npm_v(rng, a, plain, True) + _npm_partial_text(rng, a, plain) + b" " + _sp(rng, plain, 0.15, 1) + b"-" +
                b" " + _sp(rng, plain, 0.15, 1) + _npm_v(rng, b, plain, False) + _npm_partial_text(rng, b, plain))
    parts = [_npm_simple_text(rng, op, pa, plain) for op, pa in item[1]]
    if not parts:
        return b"" if plain or rng.random() < 0.5 else b"*"
    s = parts[0]
    for q in parts[1:]:
        s += b" " + _sp(rng, plain, 0.15, 1) + q
    return s


def _print_npm(rng, ast, plain):
    s = b""
    for i, item in enumerate(ast):
        if i:
            s += (b" " if plain else _sp(rng, False, 0.7)) + b"||" + (b" " if plain else _sp(rng, False, 0.7))
        s += _npm_item_text(rng, item, plain)
    return _sp(rng, plain, 0.08) + s + _sp(rng, plain, 0.08)


def _complete(pa):
    M, m, p, pre = pa
    full = M != -1 and m != -1 and p != -1
    return [max(M, 0), max(m, 0), max(p, 0), [list(i) for i in pre] if full else []]


def _bounds_npm(ast):
    out = []
    for item in ast:
        if item[0] == 0:
            out += [_complete(item[1]), _complete(item[2])]
        else:
            out += [_complete(pa) for _, pa in item[1]]
    return out


# ----------------------------------------------------------------------------- cargo

CARGO_OPS = [1, 2, 3, 3, 4, 4, 5, 6, 6, 7, 7, 7, 7, 8, 8]


def _cargo_comparator(rng, ctx):
    M, m, p = _triple(rng, ctx)
    op = rng.choice(CARGO_OPS)
    if op == 8:
        if rng.random() < 0.5:
            return [8, M, m, -1, []]
        return [8, M, -1, -1, []]
    r = rng.random()
    if r < 0.6:
        return [op, M, m, p, _pre(rng, ctx) if rng.random() < 0.25 else []]
    if r < 0.82:
        return [op, M, m, -1, []]
    return [op, M, -1, -1, []]


def _gen_cargo(rng):
    ctx = _ctx()
    r = rng.random()
    if r < 0.03:
        return []
    if r < 0.15:
        a = _triple(rng, ctx)
        i = rng.randrange(3)
        b = list(a)
        b[i] += 1
        for j in range(i + 1, 3):
            b[j] = 0

        def cut(t):
            t = list(t)
            if rng.random() < 0.4:
                for j in range(rng.choice([1, 2]), 3):
                    t[j] = -1
            return t
        x = cut(b)
        q = rng.random()
        if q < 0.4:
            return [[3] + list(a) + [[]], [4] + x + [[]]]
        if q < 0.7:
            return [[rng.choice([4, 5, 2])] + x + [[]], [rng.choice([7, 6, 3, 1])] + x + [[]]]
        return [[3] + list(a) + [[]], [4] + x + [[]], [3] + x + [[]]]
    n = rng.choice([1] * 5 + [2] * 4 + [3] * 2)
    return [_cargo_comparator(rng, ctx) for _ in range(n)]


CARGO_OPTEXT = {1: b"=", 2: b">", 3: b">=", 4: b"<", 5: b"<=", 6: b"~", 7: b"^", 8: b""}


def _cargo_comparator_text(rng, c, plain):
    op, M, m, p, pre = c
    o = CARGO_OPTEXT[op]
    if op == 7 and (plain or rng.random() < 0.6):
        o = b""                         # the default operator
    wild = (lambda: b"*") if plain else (lambda: rng.choice([b"*", b"*", b"x", b"X"]))
    s = str(M).encode()
    if op == 8:
        # written without operator; at least one wildcard
        if m == -1:
            s += b"." + wild()
            if not plain and rng.random() < 0.3:
                s += b"." + wild()
        else:
            s += b"." + str(m).encode() + b"." + wild()
    else:
        # with an explicit operator the missing components may also be written as wildcards;
        # without operator a wildcard would turn the comparator into Op::Wildcard
        may_wild = bool(o) and not plain
        if m == -1:
            if may_wild and rng.random() < 0.3:
                s += b"." + wild()
                if rng.random() < 0.4:
                    s += b"." + wild()
        else:
            s += b"." + str(m).encode()
            if p == -1:
                if may_wild and rng.random() < 0.3:
                    s += b"." + wild()
            else:
                s += b"." + str(p).encode()
                if pre:
                    s += b"-" + _pre_text(pre)
    if o:
        o += _sp(rng, plain, 0.25)
    return o + s


def _print_cargo(rng, ast, plain):
    if not ast:
        return _sp(rng, plain, 0.2) + (b"*" if plain else rng.choice([b"*", b"*", b"x", b"X"])) + _sp(rng, plain, 0.2)
    s = _sp(rng, plain, 0.1)
    for i, c in enumerate(ast):
        if i:
            s += _sp(rng, plain, 0.15) + b"," + (b" " if plain else _sp(rng, False, 0.6))
        s += _cargo_comparator_text(rng, c, plain)
    return s + _sp(rng, plain, 0.1)


def _bounds_cargo(ast):
    out = []
    for op, M, m, p, pre in ast:
        full = m != -1 and p != -1
        out.append([M, max(m, 0), max(p, 0), [list(i) for i in pre] if full else []])
    return out


# ----------------------------------------------------------------------------- pypi

PYPI_OPS = [1, 1, 2, 3, 3, 4, 4, 5, 8, 8, 11, 11]
PYPI_OPTEXT = {1: b"==", 2: b">", 3: b">=", 4: b"<", 5: b"<=", 8: b"!=", 11: b"~="}


def _pypi_release(rng, ctx, minlen):
    pool = ctx["triples"]
    if pool and rng.random() < 0.65:
        r = list(rng.choice(pool))
        q = rng.random()
        if q < 0.35:
            pass
        elif q < 0.60:
            i = rng.randrange(len(r))
            r[i] += 1
            for j in range(i + 1, len(r)):
                r[j] = 0
        elif q < 0.70:
            i = rng.randrange(len(r))
            if r[i] > 0:
                r[i] -= 1
        elif q < 0.82 and len(r) < 4:
            r.append(0)
        elif q < 0.92 and len(r) > 1:
            r.pop()
        else:
            r[rng.randrange(len(r))] = _num(rng)
    else:
        r = [_num(rng) for _ in range(rng.choice([1, 2, 2, 3, 3, 4]))]
    while len(r) < minlen:
        r.append(_num(rng))
    pool.append(tuple(r))
    return r


def _pypi_spec(rng, ctx):
    op = rng.choice(PYPI_OPS)
    rel = _pypi_release(rng, ctx, 2 if op == 11 else 1)
    if op in (1, 8) and rng.random() < 0.35:
        return [op, [rel, [], -1, -1], 1]
    pre = [rng.choice([0, 1, 2]), rng.choice([0, 1, 2])] if rng.random() < 0.15 else []
    post = rng.choice([0, 1, 2]) if rng.random() < 0.10 else -1
    dev = rng.choice([0, 1, 2]) if rng.random() < 0.08 else -1
    return [op, [rel, pre, post, dev], 0]


def _gen_pypi(rng):
    ctx = _ctx()
    r = rng.random()
    if r < 0.03:
        return []
    n = rng.choice([1] * 5 + [2] * 4 + [3] * 2)
    return [_pypi_spec(rng, ctx) for _ in range(n)]


PRE_SPELL = {0: [b"a", b"alpha"], 1: [b"b", b"beta"], 2: [b"rc", b"c", b"pre", b"preview"]}


def _pypi_version_text(rng, v, plain):
    rel, pre, post, dev = v
    s = _dotted(rel)
    fancy = (not plain) and rng.random() < 0.25
    sep = (lambda: rng.choice([b"", b".", b"-", b"_"])) if fancy else (lambda: b"")
    if pre:
        w = rng.choice(PRE_SPELL[pre[0]]) if fancy else PRE_SPELL[pre[0]][0]
        if fancy and rng.random() < 0.3:
            w = w.upper()
        s += sep() + w + sep() + (b"" if (fancy and pre[1] == 0 and post == -1 and dev == -1 and rng.random() < 0.5)
                                   else str(pre[1]).encode())
    if post != -1:
        if fancy and rng.random() < 0.3:
            s += b"-" + str(post).encode()
        elif fancy:
            s += sep() + rng.choice([b"post", b"rev", b"r"]) + sep() + str(post).encode()
        else:
            s += b".post" + str(post).encode()
    if dev != -1:
        if fancy:
            s += sep() + b"dev" + sep() + str(dev).encode()
        else:
            s += b".dev" + str(dev).encode()
    if fancy and rng.random() < 0.2:
        s = b"v" + s
    return s


def _print_pypi(rng, ast, plain):
    parts = []
    for op, v, prefix in ast:
        s = PYPI_OPTEXT[op] + _sp(rng, plain, 0.25)
        if prefix:
            s += _dotted(v[0]) + b".*"
        else:
            s += _pypi_version_text(rng, v, plain)
        parts.append(_sp(rng, plain, 0.15) + s + _sp(rng, plain, 0.15))
    return b",".join(parts)


def _bounds_pypi(ast):
    return [list(v[0]) for _, v, _ in ast]


# ----------------------------------------------------------------------------- maven

def _mvn_cmp(a, b):
    n = max(len(a), len(b))
    a = list(a) + [0] * (n - len(a))
    b = list(b) + [0] * (n - len(b))
    return (a > b) - (a < b)


def _mvn_version(rng):
    return [_num(rng) for _ in range(rng.choice([1, 2, 2, 2, 3, 3, 4]))]


def _mvn_ge(rng, x):
    """a version >= x, often equal in value (same or different spelling) or just above"""
    x = list(x)
    r = rng.random()
    if r < 0.25:
        return x
    if r < 0.35 and len(x) < 4:
        return x + [0]
    if r < 0.42 and len(x) > 1 and x[-1] == 0:
        return x[:-1]
    if r < 0.70:
        return x[:-1] + [x[-1] + 1]
    if r < 0.85:
        return [x[0] + 1] + [0] * (len(x) - 1)
    return x + [1]


def _gen_maven(rng):
    if rng.random() < 0.2:
        return [0, _mvn_version(rng)]
    n = rng.choice([1] * 5 + [2] * 4 + [3] * 2)
    out = []
    prev_hi = None                 # None: the next restriction is unconstrained
    for i in range(n):
        last = i == n - 1
        if prev_hi is None:
            lo = None if rng.random() < 0.3 else _mvn_version(rng)
        else:
            lo = _mvn_ge(rng, prev_hi)
        if lo is not None and rng.random() < 0.2:
            out.append([1, [lo], 1, [lo]])                   # [v]
            prev_hi = lo
            continue
        li = rng.randrange(2)
        hi_i = rng.randrange(2)
        if rng.random() < (0.25 if last else 0.06):
            hi = None
        elif lo is None:
            hi = _mvn_version(rng)
        else:
            hi = _mvn_ge(rng, lo)
            c = _mvn_cmp(hi, lo)
            if c == 0:
                # equal bounds are only legal when both ends are inclusive
                li = hi_i = 1
        if lo is None and hi is None and rng.random() < 0.8:
            hi = _mvn_version(rng)                            # (,) stays rare
        out.append([li, [lo] if lo is not None else [], hi_i, [hi] if hi is not None else []])
        prev_hi = hi
    return [1, out]


def _print_maven(rng, ast, plain):
    if ast[0] == 0:
        return _dotted(ast[1])
    parts = []
    for li, lo, hi_i, hi in ast[1]:
        if lo and hi and lo[0] == hi[0] and li and hi_i:
            parts.append(b"[" + _dotted(lo[0]) + b"]")
            continue
        parts.append((b"[" if li else b"(") + (_dotted(lo[0]) if lo else b"") + b"," +
                     (_dotted(hi[0]) if hi else b"") + (b"]" if hi_i else b")"))
    return b",".join(parts)


def _bounds_maven(ast):
    if ast[0] == 0:
        return [list(ast[1])]
    out = []
    for li, lo, hi_i, hi in ast[1]:
        if lo:
            out.append(list(lo[0]))
        if hi:
            out.append(list(hi[0]))
    return out


# ----------------------------------------------------------------------------- public API

def _deep(x):
    return [_deep(e) for e in x] if isinstance(x, (list, tuple)) else x


def gen_ast(rng, eco):
    """a random requirement AST (fresh nested lists, nothing shared)"""
    if eco == "npm":
        return _deep(_gen_npm(rng))
    if eco == "cargo":
        return _deep(_gen_cargo(rng))
    if eco == "pypi":
        return _deep(_gen_pypi(rng))
    if eco == "maven":
        return _deep(_gen_maven(rng))
    raise ValueError(eco)


def print_ast(rng, eco, ast, plain=False):
    """requirement text (bytes) in the ecosystem's syntax; plain=True switches the variation off"""
    if eco == "npm":
        return _print_npm(rng, ast, plain)
    if eco == "cargo":
        return _print_cargo(rng, ast, plain)
    if eco == "pypi":
        return _print_pypi(rng, ast, plain)
    if eco == "maven":
        return _print_maven(rng, ast, plain)
    raise ValueError(eco)


def bounds(eco, ast):
    """the bound versions occurring in the requirement: sv lists (partials completed with zeros)
    for npm and cargo, release number lists for pypi and maven"""
    if eco == "npm":
        return _bounds_npm(ast)
    if eco == "cargo":
        return _bounds_cargo(ast)
    if eco == "pypi":
        return _bounds_pypi(ast)
    if eco == "maven":
        return _bounds_maven(ast)
    raise ValueError(eco)


def probes(rng, eco, ast, n_random):
    """candidate versions around every bound of the requirement plus n_random random ones"""
    bs = bounds(eco, ast)
    if eco in ("npm", "cargo"):
        out = _sv_probes(bs) + [_rand_sv(rng) for _ in range(n_random)]
    elif eco == "pypi":
        out = [r for r in _release_probes(bs) if r and any(r)]
        out += [_rand_release(rng, True) for _ in range(n_random)]
    elif eco == "maven":
        out = [r for r in _release_probes(bs) if r]
        out += [_rand_release(rng, False) for _ in range(n_random)]
    else:
        raise ValueError(eco)
    return _dedup(out)


def print_version(eco, v):
    if eco in ("npm", "cargo"):
        s = b"%d.%d.%d" % (v[0], v[1], v[2])
        if v[3]:
            s += b"-" + _pre_text(v[3])
        return s
    return _dotted(v)
