"""Decoding of the structure dumps (VerifDump / VerifDumpSet) into python values, and a python
comparison for the SemVer family.  Used ONLY by oracles to classify hits and to choose probes;
never to decide the correspondence."""

INF = 9223372036854775807


class V:
    __slots__ = ("sys", "unc", "isp", "str", "nums", "pre", "build", "ext")

    def __init__(self, d):
        self.sys, self.unc, self.isp, self.str, self.nums, self.pre, self.build, self.ext = d
        self.pre = [bytes(p) for p in self.pre]

    def text(self):
        s = ".".join("∞" if n == INF else ("*" if n == -1 else str(n)) for n in self.nums)
        if self.pre:
            s += "-" + ".".join(p.decode("latin1") for p in self.pre)
        return s


def version(d):
    return None if d == [] else V(d)


class Span:
    __slots__ = ("rank", "min_open", "max_open", "min", "max")

    def __init__(self, d):
        self.rank, self.min_open, self.max_open = d[0], bool(d[1]), bool(d[2])
        self.min, self.max = version(d[3]), version(d[4])

    def text(self):
        if self.rank == 0:
            return "<empty>"
        if self.rank == 1:
            return self.min.text() + ("(open)" if self.min_open or self.max_open else "")
        return "%s%s:%s%s" % ("(" if self.min_open else "[", self.min.text(), self.max.text(), ")" if self.max_open else "]")


class SetInfo:
    """("err") | ("ok" empty string dump)"""

    def __init__(self, x):
        self.ok = x[0] == b"ok"
        if self.ok:
            self.empty = bool(x[1])
            self.string = bytes(x[2])
            self.sys = x[3][0]
            self.spans = [Span(s) for s in x[3][1]]
        else:
            self.empty, self.string, self.spans = None, None, []


def is_numeric(sysi, s):
    if not s or not s.isdigit():
        return None
    if len(s) > 1 and s[:1] == b"0" and sysi != 4:
        return None
    n = int(s)
    if n >= (1 << 31 if sysi == 5 else 1 << 63):
        return None
    return n


def cmp_elem(sysi, a, b):
    na, nb = is_numeric(sysi, a), is_numeric(sysi, b)
    if na is not None and nb is not None:
        return (na > nb) - (na < nb)
    if na is not None:
        return -1
    if nb is not None:
        return 1
    if sysi == 5:
        a, b = a.lower(), b.lower()
    return (a > b) - (a < b)


def cmp_generic(sysi, nums_a, pre_a, nums_b, pre_b):
    n = max(len(nums_a), len(nums_b))
    for i in range(n):
        x = nums_a[i] if i < len(nums_a) else 0
        y = nums_b[i] if i < len(nums_b) else 0
        if x != y:
            return (x > y) - (x < y)
    if not pre_a and not pre_b:
        return 0
    if not pre_a:
        return 1
    if not pre_b:
        return -1
    for i in range(max(len(pre_a), len(pre_b))):
        if i >= len(pre_a):
            return -1
        if i >= len(pre_b):
            return 1
        c = cmp_elem(sysi, pre_a[i], pre_b[i])
        if c:
            return c
    return 0


def cmp_v(a, b):
    return cmp_generic(a.sys, a.nums, a.pre, b.nums, b.pre)


def parse_probe(text):
    """(nums, pre) of a probe text written by gen.reqtext.fmt (SemVer family)"""
    t = text[1:] if text[:1] == b"v" else text
    t = t.split(b"+", 1)[0]
    core, _, pre = t.partition(b"-")
    nums = [int(x) for x in core.split(b".")]
    return nums, (pre.split(b".") if pre else [])
