"""Generators for the PEP 440 work package (PyPI part of C01, C02, C10).

`grammar(rng)`   strings of the PEP 440 grammar (Appendix B), alternative spellings included,
                 with boundary numbers;
`edge(rng)`      token soup around what semver.PyPI.Parse looks at (spaces incl. Unicode ones,
                 infinity sign, wildcards, separators, case variants, numeric edges, bad bytes);
`normal(rng)`    normalised forms only.
All randomness comes from the rng passed in.
"""
from gen import versions

INF = b"\xe2\x88\x9e"
NUM_EDGE = [b"0", b"1", b"2", b"9", b"10", b"00", b"01", b"007", b"255", b"256",
            b"2147483647", b"2147483648", b"4294967296",
            b"9223372036854775806", b"9223372036854775807", b"9223372036854775808",
            b"18446744073709551614", b"18446744073709551615", b"18446744073709551616",
            b"99999999999999999999999", b"000000000000000000000000000001"]
SMALL = [b"0", b"1", b"2", b"3", b"10", b"11"]
PRE = [b"a", b"b", b"c", b"rc", b"alpha", b"beta", b"pre", b"preview"]
POST = [b"post", b"rev", b"r"]
SEPS = [b"", b"", b".", b"-", b"_"]
SPACES = [b" ", b"\t", b"\n", b"\r", b"\x0b", b"\x0c", b"\xc2\x85", b"\xc2\xa0", b"\xe1\x9a\x80",
          b"\xe2\x80\x80", b"\xe2\x80\x8a", b"\xe2\x80\xa8", b"\xe2\x80\xa9", b"\xe2\x80\xaf",
          b"\xe2\x81\x9f", b"\xe3\x80\x80", b"\xe2\x80\x8b", b"\xc2", b"\xa0", b"\xe2\x80"]
LOCALS = [b"abc", b"ABC", b"aBc", b"1", b"01", b"001", b"ubuntu.1", b"ubuntu-1", b"a_b", b"1.2", b"x.10", b"x.9",
          b"a..b", b"a.-b", b"18446744073709551616", b"18446744073709551615", b"18446744073709551614",
          b"1a", b"a1", b"0", b"00", b"z", b"Z", b"007", b"10", b"9", b"abc.01", b"abc.1", b"abc.007", b"abc.10", b"Ubuntu1", b"ubuntu1", b"a.b.c", b"a.b", b"a.0", b"a.1", b"1.a", b"deadbeef", b"2.0.0",
          # segments after an alternative separator decide (seed C02-j)
          b"ubuntu-2", b"ubuntu_2", b"ubuntu_1", b"abc-1", b"abc-2", b"abc_2", b"abc-10", b"x-10", b"x_9", b"a.b-c_2", b"a-b.c.1", b"a_b_c"]


def pick(rng, xs):
    return xs[rng.randrange(len(xs))]


def anycase(rng, w):
    return bytes((c - 32 if (97 <= c <= 122 and rng.random() < 0.3) else c) for c in w)


def number(rng, edge=0.25):
    return pick(rng, NUM_EDGE) if rng.random() < edge else pick(rng, SMALL)


def base_release(rng, edge=0.2):
    """(epoch prefix, release) shared by a cluster of versions"""
    ep = pick(rng, [b"1!", b"2!", b"01!", b"255!"]) if rng.random() < 0.15 else b""
    n = rng.choice([1, 2, 2, 3, 3])
    return ep, b".".join(number(rng, edge) for _ in range(n))


def grammar(rng, edge=0.2, base=None):
    """a string of the PEP 440 grammar (accepted by packaging), mostly; alternative spellings included.
    With base=(epoch prefix, release) the version belongs to that release (possibly with extra zeros)."""
    s = b""
    if rng.random() < 0.05:
        s += pick(rng, SPACES[:6])
    if rng.random() < 0.08:
        s += rng.choice([b"v", b"V"])
    if base is not None:
        ep, rel = base
        if s[-1:] in (b"v", b"V") and ep:
            s = s[:-1]
        s += ep + rel + rng.choice([b"", b"", b"", b".0", b".0.0", b".00"])
    else:
        if rng.random() < 0.15:
            s += pick(rng, [b"0", b"1", b"2", b"00", b"01", b"255", b"256", b"1000"]) + b"!"
        n = rng.choice([1, 2, 2, 3, 3, 3, 4, 5])
        s += b".".join(number(rng, edge) for _ in range(n))
    sep = lambda: pick(rng, SEPS)
    if rng.random() < 0.35:
        s += sep() + anycase(rng, pick(rng, PRE))
        if rng.random() < 0.75:
            s += sep() + number(rng, edge)
    if rng.random() < 0.3:
        if rng.random() < 0.2:
            s += b"-" + number(rng, edge)
        else:
            s += sep() + anycase(rng, pick(rng, POST))
            if rng.random() < 0.75:
                s += sep() + number(rng, edge)
    if rng.random() < 0.3:
        s += sep() + anycase(rng, b"dev")
        if rng.random() < 0.75:
            s += sep() + number(rng, edge)
    if rng.random() < 0.25:
        s += b"+" + pick(rng, LOCALS)
    if rng.random() < 0.05:
        s += pick(rng, SPACES[:16])
    return s


def normal(rng, edge=0.15):
    """normalised forms (str(packaging.version.Version(s)) == s)"""
    s = b""
    if rng.random() < 0.15:
        s += pick(rng, [b"1", b"2", b"255", b"256", b"1000"]) + b"!"
    n = rng.choice([1, 2, 2, 3, 3, 3, 4, 5])
    nz = lambda: str(int(number(rng, edge))).encode()
    s += b".".join(nz() for _ in range(n))
    if rng.random() < 0.35:
        s += pick(rng, [b"a", b"b", b"rc"]) + nz()
    if rng.random() < 0.3:
        s += b".post" + nz()
    if rng.random() < 0.3:
        s += b".dev" + nz()
    if rng.random() < 0.25:
        loc = pick(rng, LOCALS).lower().replace(b"-", b".").replace(b"_", b".").replace(b"..", b".")
        loc = b".".join(str(int(p)).encode() if p.isdigit() else p for p in loc.split(b"."))
        s += b"+" + loc
    return s


TOKENS = ([b".", b".", b".", b"-", b"_", b"+", b"!", b"*", b"x", b"X", b"v", b"V", INF, b"\xe2\x88", b"\x9e", b"\x7f", b"\x80", b"\xff",
           b"@", b"`", b"[", b"{", b"A", b"B", b"C", b"dev", b"DEV", b"Dev", b"post", b"Post", b"rev", b"r", b"R",
           b"alpha", b"Alpha", b"a", b"beta", b"b", b"c", b"rc", b"RC", b"pre", b"preview", b"PREVIEW", b"e", b"l", b"w", b"z", b"q"]
          + NUM_EDGE + SMALL * 3 + SPACES)


def edge(rng):
    r = rng.random()
    if r < 0.45:
        return b"".join(pick(rng, TOKENS) for _ in range(rng.randrange(1, 9)))
    if r < 0.75:
        # a valid string with a few tokens spliced in
        s = bytearray(grammar(rng, 0.3))
        for _ in range(rng.randrange(1, 3)):
            pos = rng.randrange(len(s) + 1)
            s[pos:pos] = pick(rng, TOKENS)
        return bytes(s)
    if r < 0.9:
        return versions.malformed(rng, 6)
    if r < 0.95:
        # wildcard / infinity shapes
        parts = [pick(rng, [b"1", b"0", b"*", INF, b"2", b"1*", b"*1", b"1" + INF]) for _ in range(rng.randrange(1, 6))]
        ep = pick(rng, [b"", b"", b"01!", b"00!", b"1!", b"12!", b"001!"])
        return ep + b".".join(parts) + pick(rng, [b"", b"", b"a1", b".post1", b".dev0", b"+x", b".", b".*"])
    # very long release
    return b".".join([b"1"] * rng.choice([40, 400, 33000])) + pick(rng, [b"", b"a1"])
