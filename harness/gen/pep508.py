"""Generators for C16: PEP 508 requirement strings and environment markers.

Trees are python lists in the sx shape decoded by coq/Extract/CasesPep508.v:
  wsp    bytes of spaces and tabs
  lit    [dq, text]
  atom   [0, var, op, lit] | [1, lit, op, var]          var 0..11, op 0..9
  tree   [0, w1, w2, wn, w3, atom] | [1, l, w, r] (and) | [2, l, w, r] (or) | [3, w1, m, w2] (parens)
  req    [w0, name, w1, extras, w2, spec, w3, marker]
         extras: [] | [w, [[w1, name, w2]...]];  spec: [0] | [1, clause...] | [2, clause...]
         clause: [w1, op, w2, version, w3];  marker: [] | [tree, wt]
Every random choice comes from the rng passed in.
"""

VARS = ["python_version", "python_full_version", "os_name", "sys_platform", "platform_release",
        "platform_system", "platform_version", "platform_machine", "platform_python_implementation",
        "implementation_name", "implementation_version", "extra"]
VERSION_TYPED = {"python_version", "python_full_version", "implementation_version", "platform_release"}
OPS = ["<=", "<", "!=", "==", ">=", ">", "~=", "===", "in", "not in"]
OP_NUM = {o: i + 1 for i, o in enumerate(OPS)}
VOPS = ["<=", "<", "!=", "==", ">=", ">", "~=", "==="]
EXTRA = 11

VERSION_LITS = [b"3.8", b"3.9", b"3.10", b"3", b"2.7", b"3.9.6", b"3.9.0", b"3.9.7", b"3.9.*", b"3.*", b"3.09",
                b"4.0a1", b"3.9.6rc1", b"3.9.6.post1", b"1!3.0", b"3.9+local", b"v3.9", b"3.9.6.dev1", b"3.9.5",
                b"3.11", b"0", b"3.9.6-1", b"3.9.06", b"6.9", b"6.9.10", b"7", b"5.0", b"20"]
STRING_LITS = [b"posix", b"nt", b"linux", b"win32", b"darwin", b"Linux", b"x86_64", b"CPython", b"cpython", b"PyPy",
               b"", b"a", b"z", b"Posix", b"os", b"6.9.10-1rodete5-amd64", b"pos", b"3.8 3.9", b"cp", b"lin",
               b"posix nt", b"x86_64 arm64", b"Windows", b"java", b"aarch64", b"#1 SMP", b"3.8,3.9", b"abc",
               b">=3.8", b"3.9 ", b" 3.9", b"3.8, <4", b"PREEMPT", b"2024"]
EXTRA_LITS = [b"test", b"Foo_Bar", b"foo-bar", b"dev", b"a.b", b"a-b", b"X", b"x", b"docs", b"TEST", b"test", b"dev"]
REQUESTED = [b"test", b"foo-bar", b"Foo_Bar", b"dev", b"a-b", b"x", b"docs", b"a.b"]


def wsp(rng, p=0.45, maxn=3):
    if rng.random() > p:
        return b""
    return bytes(rng.choice(b" \t ") for _ in range(rng.randrange(1, maxn + 1)))


def rand_text(rng, forbid):
    n = rng.randrange(0, 7)
    alphabet = [c for c in range(0x20, 0x7f) if c not in forbid]
    return bytes(rng.choice(alphabet) for _ in range(n))


def gen_lit(rng, var):
    r = rng.random()
    name = VARS[var]
    if var == EXTRA:
        text = rng.choice(EXTRA_LITS) if r < 0.9 else rand_text(rng, (34, 39, 92))
    elif name in VERSION_TYPED:
        text = rng.choice(VERSION_LITS) if r < 0.75 else (rng.choice(STRING_LITS) if r < 0.95 else rand_text(rng, (34, 39, 92)))
    else:
        text = rng.choice(STRING_LITS) if r < 0.8 else (rng.choice(VERSION_LITS) if r < 0.92 else rand_text(rng, (34, 39, 92)))
    dq = 1 if rng.random() < 0.6 else 0
    q = 34 if dq else 39
    if q in text:
        dq = 1 - dq
    return [dq, text]


def gen_atom(rng, realistic):
    r = rng.random()
    if r < 0.22:
        var = 0
    elif r < 0.32:
        var = 1
    elif r < 0.47:
        var = EXTRA
    else:
        var = rng.randrange(len(VARS))
    name = VARS[var]
    if realistic:
        if var == EXTRA:
            op = 3
        elif name in VERSION_TYPED:
            op = rng.choice([0, 1, 2, 3, 4, 5, 3, 4, 6, 8, 9])
        else:
            op = rng.choice([3, 3, 3, 2, 8, 9])
    else:
        op = rng.randrange(len(OPS))
    lit = gen_lit(rng, var)
    if rng.random() < 0.8:
        return [0, var, op, lit]
    return [1, lit, op, var]


def gen_tree(rng, depth, realistic):
    r = rng.random()
    if depth <= 0 or r < 0.35:
        return [0, wsp(rng), wsp(rng), wsp(rng), wsp(rng), gen_atom(rng, realistic)]
    if r < 0.6:
        return [1, gen_tree(rng, depth - 1, realistic), wsp(rng), gen_tree(rng, depth - 1, realistic)]
    if r < 0.85:
        return [2, gen_tree(rng, depth - 1, realistic), wsp(rng), gen_tree(rng, depth - 1, realistic)]
    return [3, wsp(rng), gen_tree(rng, depth - 1, realistic), wsp(rng)]


def tree_atoms(t):
    if t[0] == 0:
        return [t[5]]
    if t[0] in (1, 2):
        return tree_atoms(t[1]) + tree_atoms(t[3])
    return tree_atoms(t[2])


def atom_parts(a):
    """(var index, op index, literal text, literal on the right?)"""
    if a[0] == 0:
        return a[1], a[2], a[3][1], True
    return a[3], a[2], a[1][1], False


def gen_extras_request(rng):
    r = rng.random()
    if r < 0.35:
        return []
    if r < 0.8:
        return [rng.choice(REQUESTED)]
    return rng.sample(REQUESTED, rng.randrange(2, 4))


ALNUM = b"abcdefghijklmnopqrstuvwxyzABCDEFGHIJKLMNOPQRSTUVWXYZ0123456789"


def gen_name(rng):
    """identifier with mixed case and runs of - _ ."""
    n = rng.randrange(1, 5)
    out = bytearray()
    for i in range(n):
        if i:
            out += bytes(rng.choice(b"-_.") for _ in range(rng.choice([1, 1, 1, 2, 3])))
        out += bytes(rng.choice(ALNUM) for _ in range(rng.randrange(1, 5)))
    return bytes(out)


# version texts that packaging's Specifier accepts after the given operator
VERSIONS_ANY = [b"1.0", b"1.2.3", b"2.0a1", b"1!2.0", b"1.0.post1", b"1.0.dev0", b"2022.1", b"1.0-1", b"v1.0", b"0.9rc1",
                b"1.0.0.0", b"0.0"]
VERSIONS_ONE = [b"2", b"0", b"2022"]
VERSIONS_EQ = [b"1.0.*", b"1.0+local", b"2.*", b"1.0+Ubuntu-1"]
VERSIONS_ARBITRARY = [b"1_0", b"*", b"foo", b"1.0.x"]


def gen_clause(rng):
    op = rng.randrange(len(VOPS))
    pool = list(VERSIONS_ANY)
    name = VOPS[op]
    if name != "~=":
        pool += VERSIONS_ONE
    if name in ("==", "!="):
        pool += VERSIONS_EQ
    if name == "===":
        pool += VERSIONS_EQ + VERSIONS_ARBITRARY
    w3 = wsp(rng, 0.3)
    if name == "===" and not w3:
        # packaging's tokenizer reads an arbitrary-equality version up to white space, ';' or ')'
        # (PEP 508's grammar would stop at the comma): keep the two readings equal
        w3 = b" "
    return [wsp(rng, 0.3), op, wsp(rng, 0.3), rng.choice(pool), w3]


def gen_req(rng):
    name = gen_name(rng)
    r = rng.random()
    if r < 0.45:
        extras = []
    else:
        items = [[wsp(rng, 0.3), gen_name(rng), wsp(rng, 0.3)] for _ in range(rng.choice([0, 1, 1, 2, 3]))]
        extras = [wsp(rng, 0.3), items]
    r = rng.random()
    if r < 0.25:
        spec = [0]
    else:
        cl = [gen_clause(rng) for _ in range(rng.choice([1, 1, 2, 3]))]
        spec = [1 if r < 0.65 else 2] + cl
    if rng.random() < 0.5:
        marker = []
    else:
        marker = [gen_tree(rng, rng.choice([0, 1, 2]), True), wsp(rng, 0.3)]
    return [wsp(rng, 0.2), name, wsp(rng, 0.4), extras, wsp(rng, 0.4), spec, wsp(rng, 0.4), marker]


# ---------------------------------------------------------------- malformed streams

MARKER_TOKENS = [b"python_version", b"python_full_version", b"os_name", b"sys_platform", b"platform_release", b"extra",
                 b"platform_python_implementation", b"implementation_name", b"os.name", b"python_implementation",
                 b"and", b"or", b"not", b"in", b"(", b")", b"<=", b"<", b"!=", b"==", b">=", b">", b"~=", b"===", b"=",
                 b"\"3.8\"", b"'3.9'", b"\"posix\"", b"'a\"b'", b"\"", b"'", b" ", b"\t", b"  ", b"3.8", b"x", b";", b"\"\"",
                 b"andor", b"notin", b"extras", b"python_versions", b"platform_", b"e", b"p", b"\xff", b"\n"]


def malformed_marker(rng, valid_pool):
    r = rng.random()
    if r < 0.5:
        n = rng.randrange(0, 9)
        return b"".join(rng.choice(MARKER_TOKENS) for _ in range(n))
    if r < 0.85 and valid_pool:
        s = bytearray(rng.choice(valid_pool))
        for _ in range(rng.randrange(1, 4)):
            k = rng.random()
            if not s:
                break
            i = rng.randrange(len(s))
            if k < 0.4:
                del s[i]
            elif k < 0.7:
                s.insert(i, rng.choice(b"()\"' =<>!~andornti_\t"))
            else:
                s[i] = rng.randrange(256)
        return bytes(s)
    if r < 0.93:
        d = rng.randrange(1, 40)
        return b"(" * d + b"os_name=='a'" + b")" * rng.choice([d, d, d - 1, d + 1])
    return bytes(rng.randrange(256) for _ in range(rng.randrange(0, 12)))


REQ_TOKENS = [b"name", b"A_b", b"x.y", b"[", b"]", b"(", b")", b";", b",", b">=", b"==", b"<", b"~=", b"!=", b"1.0", b"2.*",
              b" ", b"\t", b"  ", b"extra", b"python_version", b"'3.8'", b"@", b"http://x/y", b"-", b"_", b".", b"\n", b"!",
              b"\xc3\xa9", b"="]


def malformed_req(rng, valid_pool):
    r = rng.random()
    if r < 0.5:
        n = rng.randrange(0, 9)
        return b"".join(rng.choice(REQ_TOKENS) for _ in range(n))
    if r < 0.9 and valid_pool:
        s = bytearray(rng.choice(valid_pool))
        for _ in range(rng.randrange(1, 4)):
            if not s:
                break
            k = rng.random()
            i = rng.randrange(len(s))
            if k < 0.4:
                del s[i]
            elif k < 0.7:
                s.insert(i, rng.choice(b"[]();, \t<>=!~"))
            else:
                s[i] = rng.randrange(256)
        return bytes(s)
    return bytes(rng.randrange(256) for _ in range(rng.randrange(0, 12)))


def arbitrary_name(rng):
    r = rng.random()
    if r < 0.6:
        return gen_name(rng)
    if r < 0.9:
        return bytes(rng.choice(b"aB1-_.!@ \t" + ALNUM[:6]) for _ in range(rng.randrange(0, 10)))
    return bytes(rng.randrange(256) for _ in range(rng.randrange(0, 8)))


# ---------------------------------------------------------------- fixed cases (one per known divergence class and boundary)

def _atom(var, op, text, lit_right=True, dq=1):
    v = VARS.index(var)
    o = OPS.index(op)
    a = [0, v, o, [dq, text]] if lit_right else [1, [dq, text], o, v]
    return [0, b"", b" ", b" ", b" ", a]


FIXED_MARKERS = [
    (_atom("python_version", "in", b"3.9"), []),                       # F-C16-1
    (_atom("python_version", "not in", b"3.8"), []),                   # F-C16-1
    (_atom("extra", "!=", b"x"), []),                                  # F-C16-2
    (_atom("extra", "in", b"x y", lit_right=True), [b"x"]),            # F-C16-2
    (_atom("extra", "==", b"Foo_Bar"), [b"foo-bar"]),                  # F-C16-3
    (_atom("extra", "==", b"foo-bar"), [b"Foo_Bar"]),                  # F-C16-3
    (_atom("extra", "==", b""), []),                                   # F-C16-3
    (_atom("os_name", "<", b"z"), []),                                 # F-C16-4
    (_atom("platform_release", ">=", b"5.0"), []),                     # F-C16-4
    (_atom("sys_platform", ">=", b"linux"), []),                       # F-C16-4 (agree by value)
    (_atom("os_name", "===", b"posix"), []),                           # F-C16-5
    (_atom("python_version", "===", b"3.9"), []),                      # F-C16-5 (agree by value)
    (_atom("platform_release", "!=", b"5.0"), []),                     # F-C16-6
    ([1, _atom("extra", "==", b"a-b"), b" ", _atom("extra", "==", b"x")], [b"a-b", b"x"]),   # F-C16-7
    (_atom("python_version", ">=", b"3.9.6rc1", lit_right=False), []), # F-C16-8 (C03)
    (_atom("python_version", "==", b"3.9.*"), []),
    (_atom("python_version", ">=", b"3.8"), []),
    (_atom("python_full_version", "<", b"3.9.6"), []),
    (_atom("python_version", "~=", b"3.8"), []),
    (_atom("python_version", "~=", b"3"), []),
    (_atom("os_name", "~=", b"1.0"), []),
    (_atom("extra", "==", b"test"), [b"test", b"dev"]),
    ([2, _atom("extra", "==", b"test"), b" ", [1, _atom("extra", "==", b"test"), b" ", _atom("os_name", "==", b"nt")]], [b"dev"]),
    ([1, [2, _atom("os_name", "==", b"nt"), b"", _atom("os_name", "==", b"posix")], b"", _atom("python_version", "<", b"3.8")], []),
    (_atom("platform_machine", "in", b"x86_64 arm64"), []),
    (_atom("platform_version", "not in", b"Ubuntu", lit_right=False), []),
]


# ---------------------------------------------------------------- literals taken from the target environment, near-duplicates

def _mk_lit(rng, text):
    if 34 in text and 39 in text:
        return None
    dq = 1 if rng.random() < 0.6 else 0
    if (34 if dq else 39) in text:
        dq = 1 - dq
    return [dq, text]


def env_atom(rng, env):
    """a comparison whose literal comes from the target environment: the value, a piece of it, or nearly so"""
    for _ in range(20):
        var = rng.randrange(len(VARS) - 1)          # not extra
        val = env[VARS[var]]
        r = rng.random()
        if r < 0.3 or len(val) < 2:
            text = val
        else:
            words = val.split(b" ")
            if len(words) > 1 and rng.random() < 0.6:
                i = rng.randrange(len(words) - 1)
                text = b" ".join(words[i:i + rng.choice([2, 2, 3])])
            else:
                i = rng.randrange(len(val))
                text = val[i:rng.randrange(i + 1, len(val) + 1)]
        if 92 in text or any(c < 32 or c > 126 for c in text):
            continue
        lit = _mk_lit(rng, text)
        if lit is None:
            continue
        op = rng.choice([8, 9, 8, 3, 2])            # in, not in, ==, !=
        if op in (8, 9):
            return [1, lit, op, var]                # 'piece' in variable
        return [0, var, op, lit] if rng.random() < 0.7 else [1, lit, op, var]
    return gen_atom(rng, True)


def map_lits(tree, f):
    if tree[0] == 0:
        a = tree[5]
        a2 = [0, a[1], a[2], f(a[3])] if a[0] == 0 else [1, f(a[1]), a[2], a[3]]
        return [0, tree[1], tree[2], tree[3], tree[4], a2]
    if tree[0] in (1, 2):
        return [tree[0], map_lits(tree[1], f), tree[2], map_lits(tree[3], f)]
    return [3, tree[1], map_lits(tree[2], f), tree[3]]


def rewhite(rng, tree):
    if tree[0] == 0:
        return [0, wsp(rng, 0.6), wsp(rng, 0.6), wsp(rng, 0.6), wsp(rng, 0.6), tree[5]]
    if tree[0] in (1, 2):
        return [tree[0], rewhite(rng, tree[1]), wsp(rng, 0.6), rewhite(rng, tree[3])]
    return [3, wsp(rng, 0.6), rewhite(rng, tree[2]), wsp(rng, 0.6)]


def near_duplicates(rng, tree):
    """markers that a careless normalisation would identify with `tree`: white space outside the literals,
    white space inside them, the other quote style, another letter case"""
    def inner_ws(lit):
        t = lit[1]
        sp = [i for i, c in enumerate(t) if c in b" \t"]
        r = rng.random()
        if sp and r < 0.5:
            i = rng.choice(sp)
            t2 = t[:i] + rng.choice([b"  ", b"\t", b" \t"]) + t[i + 1:]
        elif sp and r < 0.7:
            i = rng.choice(sp)
            t2 = t[:i] + t[i + 1:]
        else:
            i = rng.randrange(len(t) + 1)
            t2 = t[:i] + b" " + t[i:]
        return [lit[0], t2]

    def flip(lit):
        q = 39 if lit[0] else 34        # the quote it would get
        return [1 - lit[0], lit[1]] if q not in lit[1] else lit

    def recase(lit):
        t = lit[1]
        t2 = rng.choice([t.upper(), t.lower(), t.swapcase()])
        return [lit[0], t2]

    out = [rewhite(rng, tree), map_lits(tree, inner_ws), map_lits(tree, flip), map_lits(tree, recase)]
    if rng.random() < 0.5:
        out.append(rewhite(rng, map_lits(tree, inner_ws)))
    return [t for t in out if t != tree]


# ---------------------------------------------------------------- wide-sense white space (totality)
# bytes that unicode.IsSpace / strings.TrimSpace / strings.Fields treat as white space but PEP 508 does not,
# plus NUL and a control byte: any code that trims or splits with a wider set than " \t" is exposed by them
WIDE_WS = [b"\n", b"\r", b"\v", b"\f", b"\xc2\x85", b"\xc2\xa0", b"\xe2\x80\xa8", b"\xe3\x80\x80", b"\x00", b"\x1f"]


def ws_mutate(rng, b):
    """insert one or two wide-sense white space tokens, preferably at an end or next to existing white space"""
    for _ in range(rng.choice([1, 1, 2])):
        w = rng.choice(WIDE_WS)
        spots = [0, len(b)] + [i for i, c in enumerate(b) if c in b" \t"] + [i + 1 for i, c in enumerate(b) if c in b" \t"]
        i = rng.choice(spots) if rng.random() < 0.8 else rng.randrange(len(b) + 1)
        b = b[:i] + w + b[i:]
    return b


def wide_ws_requirements(rng, n, valid_pool):
    """requirement-like strings with wide-sense white space next to the name, the brackets and at both ends"""
    out = []
    bases = [b"requests", b"a", b"A_b.c", b"requests[x]", b"requests [ x , y ]", b"requests>=1.0", b"requests (>=1.0)",
             b"requests ; os_name=='a'", b"requests[x]>=1;extra=='t'"]
    for base in bases:
        for w in WIDE_WS:
            out += [base + b" " + w, base + w, w + base, base + b"\t" + w + w, w + b" " + base + b" " + w,
                    base + b" " + w + b"[x]", base + b" " + w + b";os_name=='a'", base + b"[" + w + b"]", base + b"[x]" + b" " + w]
    while len(out) < n:
        r = rng.random()
        if r < 0.5 and valid_pool:
            out.append(ws_mutate(rng, rng.choice(valid_pool)))
        elif r < 0.8:
            out.append(ws_mutate(rng, gen_name(rng) + rng.choice([b"", b" ", b"\t", b"  "])))
        else:
            out.append(ws_mutate(rng, malformed_req(rng, valid_pool)))
    return out


NORMALISED_EXTRAS = [b"test", b"dev", b"docs", b"foo-bar", b"a-b", b"x", b"socks", b"security"]
REAL_ENV_ATOMS = [("python_version", "<", b"3.8"), ("python_version", ">=", b"3.8"), ("python_version", "<", b"3.10"),
                  ("python_full_version", ">=", b"3.9.0"), ("python_version", "==", b"3.9"), ("python_version", "!=", b"3.7"),
                  ("sys_platform", "==", b"win32"), ("sys_platform", "!=", b"win32"), ("sys_platform", "==", b"linux"),
                  ("os_name", "==", b"nt"), ("os_name", "==", b"posix"), ("platform_system", "==", b"Linux"),
                  ("platform_system", "!=", b"Windows"), ("platform_python_implementation", "==", b"CPython"),
                  ("implementation_name", "==", b"cpython"), ("platform_machine", "in", b"x86_64 arm64"),
                  ("python_version", "~=", b"3.8"), ("implementation_version", ">=", b"3.9")]


def extra_and_env(rng, env):
    """extra == "x" and <environment comparison> (either order, sometimes parenthesised or with an or-alternative),
    with two or more normalised requested extras most of the time"""
    x = rng.choice(NORMALISED_EXTRAS)
    ea = [0, wsp(rng, 0.2), wsp(rng), b"", wsp(rng), [0, EXTRA, 3, [1 if rng.random() < 0.6 else 0, x]]]
    v, o, lit = rng.choice(REAL_ENV_ATOMS)
    va = [0, wsp(rng, 0.2), wsp(rng), wsp(rng, 0.2), wsp(rng), [0, VARS.index(v), OPS.index(o), [1 if rng.random() < 0.6 else 0, lit]]]
    r = rng.random()
    if r < 0.5:
        t = [1, ea, wsp(rng), va]
    elif r < 0.75:
        t = [1, va, wsp(rng), ea]
    elif r < 0.9:
        v2, o2, lit2 = rng.choice(REAL_ENV_ATOMS)
        vb = [0, b"", wsp(rng), b" ", wsp(rng), [0, VARS.index(v2), OPS.index(o2), [1, lit2]]]
        t = [1, ea, wsp(rng), [3, wsp(rng, 0.2), [2, va, wsp(rng), vb], wsp(rng, 0.2)]]
    else:
        t = [2, [1, ea, wsp(rng), va], wsp(rng), [1, [0, b"", b" ", b"", b" ", [0, EXTRA, 3, [1, x]]], b" ", va]]
    k = rng.choice([0, 1, 2, 2, 3, 3])
    req = rng.sample(NORMALISED_EXTRAS, k)
    if k and rng.random() < 0.6 and x not in req:
        req[rng.randrange(k)] = x
    return t, req
