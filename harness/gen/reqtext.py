"""Text-level generators of requirement strings and probe versions for the constraint
model (C09, C11 and the correspondence part of C03).

System indices follow semver.System: 0 Default, 1 Cargo, 2 Go, 3 Maven, 4 NPM, 5 NuGet, 6 PyPI.
Numbers are kept small so that bounds of different comparators collide: the interesting cases
of the span algebra are at shared bounds.
"""
import re

SMALLN = [0, 0, 1, 1, 2, 2, 3, 9, 10]
BIGN = [2147483648, 9223372036854775806]
PRE = [b"0", b"1", b"alpha", b"alpha.1", b"beta", b"rc.1", b"a", b"b.2"]
OPS = {
    0: [b"", b"=", b">", b">=", b"<", b"<=", b"^", b"~", b"~>"],
    4: [b"", b"=", b">", b">=", b"<", b"<=", b"^", b"~", b"~>"],
    1: [b"", b"=", b">", b">=", b"<", b"<=", b"^", b"~"],
    6: [b"==", b">", b">=", b"<", b"<=", b"!=", b"~="],
}


def pick(rng, xs):
    return xs[rng.randrange(len(xs))]


def recase(rng, label):
    """the same label in another case: comparison of prerelease identifiers is case-sensitive
    (ASCII order, upper case first) for every system but NuGet, which ignores case and prints
    lower case"""
    r = rng.random()
    if r < 0.4:
        return label.upper()
    if r < 0.7:
        return label.title()
    return bytes(ch ^ 0x20 if (65 <= ch <= 90 or 97 <= ch <= 122) and rng.random() < 0.5 else ch for ch in label)


def pre_label(rng):
    """a prerelease tag; 30% of the alphabetic ones in upper or mixed case (all systems)"""
    label = pick(rng, PRE)
    if rng.random() < 0.3 and any(97 <= ch <= 122 for ch in label):
        label = recase(rng, label)
    return label


def case_variants(pre):
    """probe labels around a tag with letters: its lower-, upper- and title-case forms, and a
    label that sorts strictly between the upper-case and the lower-case form (Beta < C < beta)"""
    if pre is None or not any(65 <= ch <= 90 or 97 <= ch <= 122 for ch in pre):
        return []
    out = [pre.lower(), pre.upper(), pre.title(), pre.swapcase()]
    first = pre[:1].upper()
    if b"A" <= first < b"Z":
        out.append(bytes([first[0] + 1]) + pre[1:].lower())      # between the two case forms
    elif first == b"Z":
        out.append(b"Zz" + pre[1:].lower())
    return [x for i, x in enumerate(out) if x != pre and x not in out[:i]]


def num(rng):
    if rng.random() < 0.04:
        return pick(rng, BIGN)
    return pick(rng, SMALLN)


def core(rng, n=None, wild=0.0, wildchars=(b"x", b"X", b"*")):
    """dotted numbers, possibly partial, possibly with trailing wildcards"""
    if n is None:
        n = rng.choice([1, 2, 3, 3, 3])
    parts = [b"%d" % num(rng) for _ in range(n)]
    if wild and rng.random() < wild:
        k = rng.randrange(0, n)
        w = pick(rng, wildchars)
        for i in range(k, n):
            parts[i] = w
        if rng.random() < 0.3:
            parts = parts[:k + 1]
    return b".".join(parts)


def semver_bound(rng, sysi, partial=True):
    """a version or partial/wildcard version as written in a requirement"""
    s = core(rng, None if partial else 3, wild=0.18 if partial else 0.0,
             wildchars=(b"*",) if sysi in (5, 6) else (b"x", b"X", b"*"))
    if rng.random() < 0.2 and s.count(b".") == 2 and not any(c in s for c in b"xX*"):
        s += b"-" + pre_label(rng)
    elif rng.random() < 0.03:
        s += b"-" + pre_label(rng)          # prerelease on a partial version
    if rng.random() < 0.05:
        s += b"+b1"
    if sysi == 2:
        s = b"v" + s
    elif sysi == 4 and rng.random() < 0.08:
        s = b"v" + s
    return s


def sp(rng, must=False):
    r = rng.random()
    if must:
        return b" " if r < 0.85 else b"  "
    return b"" if r < 0.6 else (b" " if r < 0.95 else b"\t")


def comparator(rng, sysi):
    op = pick(rng, OPS[sysi])
    return op + (sp(rng) if op and rng.random() < 0.15 else b"") + semver_bound(rng, sysi)


def and_list(rng, sysi):
    k = rng.choice([1, 1, 1, 2, 2, 3])
    if sysi in (0, 4) and rng.random() < 0.12:
        a, b = semver_bound(rng, sysi), semver_bound(rng, sysi)
        return a + b" - " + b
    items = [comparator(rng, sysi) for _ in range(k)]
    if sysi == 1:
        return (b"," + sp(rng)).join(items)
    if sysi == 0 and rng.random() < 0.3:
        return (sp(rng) + b"," + sp(rng)).join(items)
    return b" ".join(items)


def semver_req(rng, sysi):
    """Default, Cargo, NPM"""
    if sysi == 1:
        return and_list(rng, sysi)
    k = rng.choice([1, 1, 2, 2, 3])
    return (sp(rng) + b"||" + sp(rng)).join(and_list(rng, sysi) for _ in range(k))


def go_req(rng):
    s = core(rng, rng.choice([3, 3, 3, 3, 2, 1]))
    if rng.random() < 0.25:
        s += b"-" + pre_label(rng)
    if rng.random() < 0.1:
        s += b"+meta"
    return (b"v" if rng.random() < 0.95 else b"") + s


def nuget_version(rng):
    n = rng.choice([1, 2, 3, 3, 3, 4, 4])
    s = core(rng, n)
    if rng.random() < 0.3:
        s += b"-" + pre_label(rng)
    return s


def nuget_req(rng):
    r = rng.random()
    if r < 0.25:
        v = nuget_version(rng)
        return v
    if r < 0.4:
        # floating versions
        return pick(rng, [b"*", b"1.*", b"1.2.*", b"1.0.0-*", b"1.0.0-beta*", b"1.*-*", b"2.1.*-rc*", b"1.2.3.*",
                          b"1.0.0-Beta*", b"2.1.*-RC*", b"1.2.3.4-*", b"1.2.3.4-Alpha*", b"0.0.0.1-*"])
    lo = nuget_version(rng) if rng.random() < 0.8 else b""
    hi = nuget_version(rng) if rng.random() < 0.8 else b""
    lb = pick(rng, [b"[", b"("])
    rb = pick(rng, [b"]", b")"])
    if rng.random() < 0.15:
        return lb + lo + rb
    return lb + lo + sp(rng) + b"," + sp(rng) + hi + rb


def pypi_version(rng, allow_star=True):
    n = rng.choice([1, 2, 2, 3, 3, 4])
    s = core(rng, n)
    r = rng.random()
    if allow_star and r < 0.15:
        return s + b".*"
    if r < 0.3:
        s += pick(rng, [b"a1", b"b2", b"rc1", b"rc0", b".post1", b".post0", b".dev0", b".dev3", b"a1.dev2", b".post1.dev0"])
    elif r < 0.33:
        s = b"1!" + s
    elif r < 0.36:
        s += b"+local.1"
    return s


def pypi_req(rng):
    k = rng.choice([1, 1, 2, 2, 3])
    items = []
    for _ in range(k):
        op = pick(rng, OPS[6])
        items.append(op + sp(rng) + pypi_version(rng, allow_star=op in (b"==", b"!=")))
    if rng.random() < 0.03:
        items[0] = items[0].lstrip(b"=<>!~ ")      # missing operator
    return (sp(rng) + b"," + sp(rng)).join(items)


MVN_Q = [b"", b"", b"", b"-alpha", b"-beta-1", b"-rc1", b"-SNAPSHOT", b"-sp", b"-foo", b".Final"]


def maven_version(rng):
    return core(rng, rng.choice([1, 2, 2, 3, 3, 4])) + pick(rng, MVN_Q)


def maven_req(rng):
    if rng.random() < 0.2:
        return maven_version(rng)
    k = rng.choice([1, 1, 2, 3])
    items = []
    for _ in range(k):
        lo = maven_version(rng) if rng.random() < 0.8 else b""
        hi = maven_version(rng) if rng.random() < 0.8 else b""
        lb = pick(rng, [b"[", b"("])
        rb = pick(rng, [b"]", b")"])
        if rng.random() < 0.15:
            items.append(lb + (lo or b"1.0") + rb)
        else:
            items.append(lb + lo + b"," + hi + rb)
    return b",".join(items)


JUNK = [b"", b" ", b"||", b",", b"-", b" - ", b">", b"=", b"==", b"!", b"!=", b"~=", b"^", b"~", b"*", b"x", b"[", b")", b"(", b"]",
        b"\xe2\x88\x9e", b"\xff", b"1", b".", b"..", b"v", b"1.2.3", b"-alpha", b"+", b"_", b"\x00", b"&", b"{", b"}", b":"]


def mutate(rng, s):
    s = bytearray(s)
    for _ in range(rng.randrange(1, 4)):
        q = rng.random()
        if q < 0.3 and s:
            del s[rng.randrange(len(s))]
        elif q < 0.8:
            pos = rng.randrange(len(s) + 1)
            s[pos:pos] = pick(rng, JUNK)
        elif s:
            s[rng.randrange(len(s))] = rng.choice(b" .-+*xX!_09aZ<>=~^|,()[]")
    return bytes(s)


def overlapping_alts(rng, sysi):
    """an or-list (Default, NPM) of 3-5 intervals over five points, 40% of the bounds with a
    prerelease tag: the alternatives overlap, nest and touch, which is where canon's merge loop
    (skip a neighbour whose tags differ, merge a later one, i++) leaves sets that are not
    canonical: overlapping or redundant spans"""
    base = sorted(set(tuple(rng.choice([0, 1, 2, 3, 4, 5]) if j == 0 else rng.choice([0, 0, 1, 6]) for j in range(3)) for _ in range(8)))
    while len(base) < 5:
        base.append((base[-1][0] + 1, 0, 0))
    pts = [b"%d.%d.%d" % t for t in base[:5]]
    pts = [p + b"-" + pre_label(rng) if rng.random() < 0.4 else p for p in pts]
    alts = []
    for _ in range(rng.choice([3, 3, 4, 5])):
        i = rng.randrange(4)
        j = rng.randrange(i + 1, 5)
        lo_open = rng.random() < 0.3 and b"-" in pts[i]
        alts.append(_interval(rng, sysi, pts[i], lo_open, pts[j], rng.random() < 0.5))
    return (sp(rng) + b"||" + sp(rng)).join(alts)


def requirement(rng, sysi, noise=0.0):
    if sysi in (0, 4) and rng.random() < 0.07:
        s = overlapping_alts(rng, sysi)
    elif sysi in (0, 1, 4):
        s = collapsing(rng, sysi) if rng.random() < 0.08 else semver_req(rng, sysi)
    elif sysi == 2:
        s = go_req(rng)
    elif sysi == 5:
        s = nuget_req(rng)
    elif sysi == 6:
        s = pypi_req(rng)
    elif sysi == 3:
        s = maven_req(rng)
    else:
        s = semver_req(rng, 0)
    if rng.random() < 0.05:
        s = sp(rng) + s + sp(rng)
    if noise and rng.random() < noise:
        s = mutate(rng, s)
    return s


# ----------------------------------------------------------------------------- shared endpoints

def _interval(rng, sysi, lo, lo_open, hi, hi_open):
    """the text of one interval; lo/hi are version texts (lo may be None = unbounded below)"""
    parts = []
    if lo is not None:
        parts.append((b">" if lo_open else b">=") + lo)
    if hi is not None:
        parts.append((b"<" if hi_open else b"<=") + hi)
    if sysi in (0, 4) and lo is not None and hi is not None and not lo_open and not hi_open and rng.random() < 0.3:
        return lo + b" - " + hi
    if rng.random() < 0.5:
        parts.reverse()
    return (b", " if sysi == 1 else b" ").join(parts)


def shared_endpoint_pair(rng, sysi):
    """two requirements (Default, Cargo, NPM) whose spans share a lower or an upper end, with
    every combination of open/closed flags, nested, overlapping or touching; returns
    (textA, textB, [the end points as probe texts])"""
    base = sorted(set(tuple(num(rng) if rng.random() < 0.15 else rng.choice([0, 1, 2, 3]) for _ in range(3)) for _ in range(6)))
    while len(base) < 4:
        base.append((base[-1][0] + 1, 0, 0))
    pts = [b"%d.%d.%d" % t for t in base[:4]]
    if rng.random() < 0.2:
        k = rng.randrange(4)
        pts[k] = pts[k] + b"-" + pick(rng, [b"alpha", b"rc.1", b"0", b"Beta", b"RC.1"])     # an open lower end needs a prerelease bound
    p, q, r, s_ = pts
    mode = rng.choice(["max", "max", "min", "touch", "nest"])
    fl = lambda: rng.random() < 0.5

    def lower(x):
        return (x, fl() if b"-" in x else False)

    if mode == "max":
        a = (lower(rng.choice([p, q])), (r, fl()))
        b = (lower(rng.choice([p, q])), (r, fl()))
    elif mode == "min":
        a = (lower(p), (rng.choice([q, r]), fl()))
        b = (lower(p), (rng.choice([q, r, s_]), fl()))
    elif mode == "touch":
        a = (lower(p), (q, fl()))
        b = (lower(q), (rng.choice([r, s_]), fl()))
    else:
        a = (lower(p), (s_, fl()))
        b = (lower(rng.choice([p, q])), (rng.choice([r, s_]), fl()))
    ta = _interval(rng, sysi, a[0][0], a[0][1], a[1][0], a[1][1])
    tb = _interval(rng, sysi, b[0][0], b[0][1], b[1][0], b[1][1])
    if sysi in (0, 4) and rng.random() < 0.35:
        # a third interval as a further alternative, sharing an end with one of the others
        c = (lower(rng.choice([p, q])), (rng.choice([r, s_]), fl()))
        tc = _interval(rng, sysi, c[0][0], c[0][1], c[1][0], c[1][1])
        if b" - " not in ta and b" - " not in tc or True:
            ta = ta + b" || " + tc if rng.random() < 0.5 else tc + b"||" + ta
    if rng.random() < 0.5:
        ta, tb = tb, ta
    return ta, tb, pts


# ----------------------------------------------------------------------------- and-lists that collapse to one point

def collapsing(rng, sysi):
    """an and-list whose intersection is a single version: >a <=inc(a), >=a <=a, >a inc(a), in
    either order; a may be written with fewer than three components (Default, Cargo, NPM)"""
    n = rng.choice([3, 3, 3, 2, 1])
    comps = [rng.choice([0, 1, 2, 3, 4, 9]) for _ in range(n)]
    a = b".".join(b"%d" % c for c in comps)
    nxt = list(comps)
    nxt[-1] += 1
    b = b".".join(b"%d" % c for c in (nxt + [0, 0])[:3])
    full_a = b".".join(b"%d" % c for c in (comps + [0, 0])[:3])
    form = rng.randrange(4)
    if form == 0:
        parts = [b">" + a, b"<=" + b]
    elif form == 1:
        parts = [b">=" + full_a, b"<=" + full_a]
    elif form == 2:
        parts = [b">" + a, (b"=" if sysi == 1 else rng.choice([b"", b"="])) + b]
    else:
        parts = [b">=" + full_a, b"<" + b] if n == 3 else [b">" + a, b"<=" + b]
    if rng.random() < 0.5:
        parts.reverse()
    text = (b", " if sysi == 1 else b" ").join(parts)
    if sysi in (0, 4) and rng.random() < 0.25:
        other = comparator(rng, sysi)
        text = text + b" || " + other if rng.random() < 0.5 else other + b" || " + text
    return text


LITERAL = re.compile(rb"v?\d[0-9A-Za-z.*+!-]*")


def literals(texts):
    """every version literal of the requirement texts, byte for byte as written"""
    out = []
    for t in texts:
        for tok in LITERAL.findall(t):
            tok = tok.rstrip(b"-.")
            if tok and tok not in out:
                out.append(tok)
    return out


# ----------------------------------------------------------------------------- probes

VERS = re.compile(rb"v?(\d+)(?:\.(\d+|[xX*]))?(?:\.(\d+|[xX*]))?(?:\.(\d+))?(?:-([0-9A-Za-z.-]+))?")


def bounds_of(text):
    """numeric bounds (tuples of three ints, prerelease or None) mentioned in the text"""
    out = []
    for m in VERS.finditer(text):
        nums = []
        for g in m.groups()[:3]:
            if g is None or g in (b"x", b"X", b"*"):
                nums.append(0)
            else:
                nums.append(int(g))
        pre = m.group(5)
        if pre is not None and not re.fullmatch(rb"[0-9A-Za-z-]+(\.[0-9A-Za-z-]+)*", pre):
            pre = None
        if m.group(4) is not None:
            nums.append(int(m.group(4)))
        out.append((tuple(nums), pre))
    return out


def fmt(sysi, nums, pre=None):
    s = b".".join(b"%d" % n for n in nums)
    if pre:
        s += (b"-" if sysi != 6 else b"") + pre
    if sysi == 2:
        s = b"v" + s
    return s


def probes(rng, sysi, texts, n_random=4, cap=28):
    """boundary probes: every bound, its predecessor/successor in each component, prerelease
    neighbours, and some random versions"""
    out = []
    seen = set()

    def add(v):
        if v not in seen:
            seen.add(v)
            out.append(v)

    keep = set()          # case variants of the tags of the bounds: not cut either (at most 6)
    # the operands exactly as they are spelled in the requirement come first and are never cut
    lits = literals(texts)[:8]
    for t in lits:
        add(t)
    bs = []
    for t in texts:
        bs += bounds_of(t)
    rng.shuffle(bs)
    for (nums, pre) in bs[:6]:
        if sysi == 5:
            # NuGet: four-number versions and labels in another case
            n4 = (list(nums) + [0])[:4]
            add(fmt(sysi, n4))
            add(fmt(sysi, n4[:3] + [n4[3] + 1]))
            add(fmt(sysi, n4[:3] + [1], b"Alpha"))
            if pre:
                add(fmt(sysi, nums, pre.upper()))
                add(fmt(sysi, nums, pre.title() + b".0"))
            else:
                add(fmt(sysi, nums, b"RC.1"))
        nums = nums[:3]
        add(fmt(sysi, nums, None))
        if pre and sysi not in (3, 6):
            add(fmt(sysi, nums, pre))
            add(fmt(sysi, nums, pre + b".0"))
            add(fmt(sysi, nums, b"0"))
            for q in case_variants(pre):
                keep.add(fmt(sysi, nums, q))
                add(fmt(sysi, nums, q))
        for i in range(3):
            up = list(nums)
            up[i] += 1
            for j in range(i + 1, 3):
                up[j] = 0
            add(fmt(sysi, up))
            if nums[i] > 0:
                dn = list(nums)
                dn[i] -= 1
                add(fmt(sysi, dn))
                dn2 = list(dn)
                for j in range(i + 1, 3):
                    dn2[j] = 9
                add(fmt(sysi, dn2))
        if sysi in (0, 1, 2, 4, 5):
            add(fmt(sysi, nums, b"0"))
            add(fmt(sysi, nums, b"alpha"))
            add(fmt(sysi, nums, b"rc.1"))
            up = list(nums)
            up[2] += 1
            add(fmt(sysi, up, b"alpha"))
            up = [nums[0] + 1, 0, 0]
            add(fmt(sysi, up, b"0"))
        elif sysi == 6:
            add(fmt(sysi, nums) + b"a1")
            add(fmt(sysi, nums) + b".post1")
            add(fmt(sysi, nums) + b".dev0")
        elif sysi == 3:
            add(fmt(sysi, nums) + b"-alpha")
            add(fmt(sysi, nums) + b"-SNAPSHOT")
    rest = [x for x in out[len(lits):] if x not in keep]
    kept = [x for x in out[len(lits):] if x in keep]
    rng.shuffle(rest)
    rng.shuffle(kept)
    out = out[:len(lits)] + kept[:6] + rest[:max(cap - n_random - len(lits) - min(len(kept), 6), 4)]
    for _ in range(n_random):
        nums = [num(rng) for _ in range(3)]
        pre = pre_label(rng) if (rng.random() < 0.3 and sysi not in (3, 6)) else None
        v = fmt(sysi, nums, pre)
        if v not in seen:
            seen.add(v)
            out.append(v)
    return out


# ----------------------------------------------------------------------------- probes from dumped spans

INF = 9223372036854775807


def span_probes(rng, sysi, spans, have=(), n_neighbours=8):
    """Probes taken from the BOUNDS OF SETS AS GO HOLDS THEM (gen.cdump.Span objects: operands,
    results, re-parsed sets), so that bounds which no requirement text spells are probed too:
    bounds made by inc, by MinVersion, by a merge, with ∞ components.  Every bound is written out
    (∞ as 2^63-2 and as 2^63-1, a wildcard component as 0) and never cut; of their neighbours
    (without the prerelease, smallest prerelease, prerelease + .0, last component +-1) a random
    n_neighbours are kept.  Returns texts not in `have`."""
    seen = set(have)
    lits, neigh, cased = [], [], []

    def add(dst, v):
        if v not in seen:
            seen.add(v)
            dst.append(v)

    for s in spans:
        if s.rank == 0:
            continue
        for v in (s.min, s.max):
            if v is None:
                continue
            nums0 = [0 if n < 0 else n for n in v.nums] or [0]
            pre = b".".join(v.pre) if v.pre else None
            variants = [nums0]
            if INF in nums0:
                variants = [[INF - 1 if n == INF else n for n in nums0], nums0]
            for nums in variants:
                add(lits, fmt(sysi, nums, pre))
                if pre:
                    add(neigh, fmt(sysi, nums, None))
                    add(neigh, fmt(sysi, nums, pre + b".0"))
                    add(neigh, fmt(sysi, nums, b"0"))
                    for q in case_variants(pre):
                        add(cased, fmt(sysi, nums, q))
                else:
                    add(neigh, fmt(sysi, nums, b"0"))
                    add(neigh, fmt(sysi, nums, b"rc.1"))
                last = nums[-1]
                if last < INF - 1:
                    add(neigh, fmt(sysi, nums[:-1] + [last + 1]))
                if 0 < last:
                    add(neigh, fmt(sysi, nums[:-1] + [last - 1]))
                if len(nums) < 3:
                    add(neigh, fmt(sysi, (nums + [0, 0])[:3]))
    rng.shuffle(neigh)
    rng.shuffle(cased)
    return lits + cased[:6] + neigh[:n_neighbours]


# ----------------------------------------------------------------------------- set texts (operands with several spans for every system)

def set_text(rng, sysi):
    """the text form read by ParseSetConstraint, `{[a:b),(c:d],e}`: 1-4 spans in increasing order
    that do not overlap (20% touch at a shared point), unit spans as a bare version, prerelease
    bounds, an unbounded last span; this is the only way to hand Go and Cargo (no ||) an operand
    of several spans"""
    k = rng.choice([1, 2, 2, 3, 3, 4])
    pts = set()
    while len(pts) < 2 * k:
        pts.add(tuple(rng.choice([0, 1, 2, 3, 9]) if rng.random() > 0.05 else num(rng) for _ in range(3)))
    pts = sorted(pts)
    spans = []
    for j in range(k):
        lo, hi = pts[2 * j], pts[2 * j + 1]
        if j > 0 and rng.random() < 0.2:
            lo = pts[2 * j - 1]                      # touches the span before
        lo_t = fmt(sysi, lo, pre_label(rng) if rng.random() < 0.15 else None)
        if rng.random() < 0.2:
            spans.append(lo_t)
            continue
        if j == k - 1 and rng.random() < 0.25:
            inf = "∞".encode()
            hi_t = pick(rng, [inf + b"." + inf + b"." + inf, b"%d." % hi[0] + inf + b"." + inf])
            if sysi == 2:
                hi_t = b"v" + hi_t
        else:
            hi_t = fmt(sysi, hi, pre_label(rng) if rng.random() < 0.15 else None)
        spans.append(pick(rng, [b"[", b"[", b"("]) + lo_t + b":" + hi_t + pick(rng, [b")", b")", b"]"]))
    return b"{" + b",".join(spans) + b"}"


# ----------------------------------------------------------------------------- operands that match nothing

def unsatisfiable(rng, sysi):
    """an operand text whose set is empty (or, where deps.dev keeps a degenerate span, matches
    nothing): two different exact versions, a bound below zero, above everything, a reversed or
    collapsed interval; for Go (no operators) and as a further form everywhere the set text
    {<empty>}"""
    if sysi == 2 or rng.random() < 0.2:
        return b"{<empty>}"
    sep = b", " if sysi == 1 else b" "
    a = [rng.choice([0, 1, 2, 3]) for _ in range(3)]
    b = list(a)
    b[rng.randrange(3)] += rng.choice([1, 2])
    ta, tb = fmt(sysi, a), fmt(sysi, b)
    eq = b"=" if sysi == 1 else pick(rng, [b"", b"="])
    forms = [
        eq + ta + sep + eq + tb,                       # 1.0.0 2.0.0
        b"<0",
        b"<0.0.0",
        b">=" + tb + sep + b"<" + ta,                  # reversed
        b">" + ta + sep + b"<" + ta,                   # collapsed
        b"<" + ta + sep + eq + tb,
        eq + ta + sep + b">" + tb,
    ]
    if sysi != 1:
        forms += [b">*", b"<*", b">x"]
    return pick(rng, forms)


def empty_operand(rng, sysi):
    """an operand that is empty, spelled directly or as a computation on other operands
    (`@I X @@ Y` = X intersected with Y, `@U X @@ Y` = X united with Y; read by the harness):
    the intersection of two empties, of two disjoint intervals, the union of two empties"""
    r = rng.random()
    if r < 0.5:
        return unsatisfiable(rng, sysi)
    if r < 0.7:
        return b"@I " + unsatisfiable(rng, sysi) + b" @@ " + unsatisfiable(rng, sysi)
    if r < 0.85:
        return b"@U " + unsatisfiable(rng, sysi) + b" @@ " + unsatisfiable(rng, sysi)
    lo = [rng.choice([0, 1, 2]), rng.choice([0, 1, 2]), 0]
    x = b"{[" + fmt(sysi, lo) + b":" + fmt(sysi, [lo[0], lo[1], 5]) + b"]}"
    y = b"{[" + fmt(sysi, [lo[0] + 1, 0, 0]) + b":" + fmt(sysi, [lo[0] + 2, 0, 0]) + b")}"
    return b"@I " + x + b" @@ " + y
