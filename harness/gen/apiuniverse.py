"""Generator of npm universes as the deps.dev Insights service would describe them (C18).

U      = ( (pkg*) )
pkg    = ( name fail (ver*) )
ver    = ( version isdefault deps (bundle*) )
deps   = ( (dep*) (dep*) (dep*) (dep*) (name*) )    dependencies, dev, optional, peer, bundleDependencies
dep    = ( name requirement )
bundle = ( path name version deps )

Python form: dict(pkgs=[dict(name, fail, vers=[dict(version, default, deps, bundled=[dict(path,name,version,deps)])])])
with deps = dict(sec=[[(n,r)..] x4], bundle=[n..]).
"""

PLAIN = [b"a", b"b", b"c", b"d", b"e", b"lib", b"Lib", b"left-pad", b"x.y"]
SCOPED = [b"@s/n", b"@s/a", b"@t/b", b"@s/lib"]
ALIASES = [b"al", b"alias-a", b"@al/ias", b"b2", b"A"]
VERSIONS = [b"1.0.0", b"1.0.1", b"1.1.0", b"1.2.3", b"2.0.0", b"2.1.0", b"0.1.0", b"0.0.1", b"3.0.0-beta.1",
            b"1.0.0-rc.1", b"2.0.0-alpha", b"10.0.0", b"1.0.0+build"]
RANGES = [b"^1.0.0", b"~1.0.0", b"*", b"1.x", b">=1.0.0 <2.0.0", b"1.0.0", b"2.x", b"^2.0.0", b">=0.0.1", b"latest",
          b"^0.1.0", b"<1.0.0", b"", b"1.0.0 || 2.0.0", b"^3.0.0-beta", b">=1.0.0-rc.0", b"2.1.0", b"^10.0.0"]
ODD_RANGES = [b"next", b"not a range", b"git+https://x/y.git", b"file:../z", b"1.0.0+build", b"latest "]

MAX_FLAT = 10      # sort.Slice is an insertion sort (stable) up to 12 elements; the model sorts stably
MAX_BUNDLED = 12
# "large" universes (1 in 20) leave that range on purpose: 13-20 flattened dependencies and/or 13-20 bundled
# entries in some response, where Go runs pdqsort and requirements with tying keys may come in another order
# than from the model; such universes are judged order-insensitively (C18.py).
LARGE_FLAT = 20
LARGE_BUNDLED = 20


def pick_name(rng, names):
    return rng.choice(names)


def gen_requirement(rng, names, strict=False):
    """returns (declared name, requirement string)"""
    r = rng.random()
    if r < 0.22:
        real = rng.choice(names)
        q = rng.random()
        if strict or q < 0.86:
            return rng.choice(ALIASES + names[:2]), b"npm:" + real + b"@" + rng.choice(RANGES[:12])
        if q < 0.93:
            return rng.choice(ALIASES), b"npm:" + real          # no range: outside the clause, still modelled
        return rng.choice(ALIASES), b"npm:" + real + b"@" + rng.choice(ODD_RANGES + [b"a@b"])
    if r < 0.27:
        return pick_name(rng, names), rng.choice(ODD_RANGES)
    return pick_name(rng, names), rng.choice(RANGES)


def gen_deps(rng, names, budget, bundle_names=(), alias_of=None, strict=False, many=False):
    """the sections of one package.json: keys are unique within a section (they are JSON object keys);
    the same key may occur in several sections"""
    sec = [[], [], [], []]
    bundle = []
    weights = [0.55, 0.15, 0.15, 0.15]
    n = rng.choice([0, 1, 1, 2, 2, 3, 3, 4, 5, 6])
    if many:
        n = rng.randrange(16, 30)          # collisions of keys within a section drop some
    n = min(n, budget)
    used = 0
    for _ in range(n):
        s = rng.choices(range(4), weights)[0]
        d = gen_requirement(rng, names, strict)
        if any(d[0] == x[0] for x in sec[s]):
            continue
        sec[s].append(d)
        used += 1
    left = budget - used
    for bn in bundle_names:
        if left <= 0:
            break
        if strict and alias_of and bn in alias_of:
            # bundleDependencies naming an alias become a requirement on the alias as if it were a package
            if left > 0 and not any(bn == x[0] for x in sec[0]):
                sec[0].append((bn, b"npm:" + alias_of[bn] + b"@" + rng.choice(RANGES[:8])))
                left -= 1
            continue
        if rng.random() < 0.8:
            bundle.append(bn)
            left -= 1
            if any(bn == x[0] for x in sec[0]):
                continue
            if left > 0 and rng.random() < 0.7:
                if alias_of and bn in alias_of:
                    sec[0].append((bn, b"npm:" + alias_of[bn] + b"@" + rng.choice(RANGES[:8])))
                else:
                    sec[0].append((bn, rng.choice(RANGES[:8])))
                left -= 1
    if left > 0 and rng.random() < 0.1:
        bn = pick_name(rng, names)
        if bn not in bundle:
            bundle.append(bn)
    if rng.random() < 0.1:
        for s in sec:
            rng.shuffle(s)
    return dict(sec=sec, bundle=bundle)


def gen_bundle_tree(rng, names, cls, strict=False, max_bundled=MAX_BUNDLED):
    """returns (entries, top_level_dir_names). cls: 'wf' | 'orphan' | 'dup' | 'noprefix'"""
    entries = []
    alias_of = {}
    MAX_BUNDLED = max_bundled
    large = max_bundled > 12

    def dirname():
        return rng.choice(names + ALIASES[:2])

    def level(prefix, depth, count):
        used = set()
        for _ in range(count):
            if len(entries) >= MAX_BUNDLED:
                return
            d = dirname()
            if d in used:
                continue
            used.add(d)
            if d in ALIASES:
                declared = pick_name(rng, names)     # installed under an alias: npm:declared@range
                alias_of[d] = declared
            else:
                declared = d if rng.random() < 0.9 else pick_name(rng, names)
            path = prefix + b"node_modules/" + d
            e = dict(path=path, name=declared, version=rng.choice(VERSIONS), deps=None, dir=d, depth=depth)
            entries.append(e)
            kids = 0
            if depth < 3 and rng.random() < ((0.55 if depth == 1 else 0.4) if not large else 0.8):
                kids = rng.choice([1, 1, 2, 3] if not large else [2, 3, 4])
            child_dirs_before = len(entries)
            level(path + b"/", depth + 1, kids)
            child_dirs = [x["dir"] for x in entries[child_dirs_before:] if x["depth"] == depth + 1]
            e["deps"] = gen_deps(rng, names, 5, child_dirs, alias_of, strict)

    level(b"", 1, rng.choice([1, 1, 2, 2, 3, 4] if not large else [4, 5, 6, 7]))
    if cls in ("dup",) and len(entries) >= MAX_BUNDLED:
        entries = entries[:MAX_BUNDLED - 1]
    top = [e["dir"] for e in entries if e["depth"] == 1]
    if cls == "orphan" and entries:
        nested = [e for e in entries if e["depth"] > 1]
        if nested:
            victim = rng.choice(nested)
            parent_path = victim["path"].rsplit(b"/node_modules/", 1)[0]
            entries = [e for e in entries if e["path"] != parent_path]
        else:
            entries.append(dict(path=b"node_modules/zz/node_modules/q", name=b"q", version=b"1.0.0",
                                deps=gen_deps(rng, names, 2), dir=b"q", depth=2))
    elif cls == "dup" and entries:
        e = dict(rng.choice(entries))
        e["version"] = rng.choice(VERSIONS)
        entries.append(e)
    elif cls == "noprefix" and entries:
        e = rng.choice(entries)
        if e["depth"] == 1:
            e["path"] = e["dir"]
    rng.shuffle(entries)
    return entries[:MAX_BUNDLED], top, alias_of


def gen_universe(rng, big=False, strict=False, large=False, canon=0):
    """strict: every dependency names a package the service knows, every bundle tree is well formed,
    the service never fails.  large: one version gets 13-20 flattened dependencies and/or 13-20 bundled
    entries.  canon: how the service spells keys in its answers (bit0 other letter case for names, bit1
    GetVersion drops build metadata)."""
    npk = rng.choice([2, 3, 3, 4, 4, 5, 6] + ([8, 10] if big else []))
    if large:
        npk = rng.choice([8, 9, 10, 11])
    pool = PLAIN + SCOPED
    names = rng.sample(pool, min(npk, len(pool)))
    if not any(n.startswith(b"@") for n in names):
        names[rng.randrange(len(names))] = rng.choice(SCOPED)
    # dependency names: mostly known packages, sometimes unknown to the service
    depnames = list(names)
    dangling = (not strict) and rng.random() < 0.12
    if dangling:
        depnames.append(b"ghost")
    pkgs = []
    classes = {}
    large_at = (rng.choice(names), rng.choice(["flat", "bundled", "both"])) if large else None
    for n in names:
        vers = []
        vs = rng.sample(VERSIONS, rng.choice([1, 1, 2, 2, 3, 4]))
        default = rng.choice(vs) if rng.random() < 0.9 else None
        for v in vs:
            cls = "none"
            bundled, top, alias_of = [], [], {}
            lg = large_at is not None and large_at[0] == n and v == vs[0]
            if lg and large_at[1] in ("bundled", "both"):
                cls = "wf"      # (a duplicated path under an unstable sort has no defined winner)
                bundled, top, alias_of = gen_bundle_tree(rng, depnames, cls, strict, LARGE_BUNDLED)
            elif rng.random() < 0.45:
                cls = "wf" if strict else rng.choices(["wf", "orphan", "dup", "noprefix"], [0.91, 0.03, 0.03, 0.03])[0]
                bundled, top, alias_of = gen_bundle_tree(rng, depnames, cls, strict)
            if lg and large_at[1] in ("flat", "both"):
                deps = gen_deps(rng, depnames, LARGE_FLAT, top[:4], alias_of, strict, many=True)
            else:
                deps = gen_deps(rng, depnames, MAX_FLAT, top, alias_of, strict)
            vers.append(dict(version=v, default=(v == default) or (default is not None and rng.random() < 0.02),
                             deps=deps,
                             bundled=[dict(path=e["path"], name=e["name"], version=e["version"], deps=e["deps"])
                                      for e in bundled]))
            classes[(n, v)] = cls
        fail = 0
        if not strict and rng.random() < 0.03:
            fail = rng.choice([1, 2, 4])
        pkgs.append(dict(name=n, fail=fail, vers=vers))
    return dict(pkgs=pkgs, canon=canon), classes


def deps_sx(d):
    return [[[n, r] for n, r in s] for s in d["sec"]] + [list(d["bundle"])]


def universe_sx(u):
    return [[[p["name"], p["fail"],
              [[v["version"], 1 if v["default"] else 0, deps_sx(v["deps"]),
                [[b["path"], b["name"], b["version"], deps_sx(b["deps"])] for b in v["bundled"]]]
               for v in p["vers"]]]
             for p in u["pkgs"]]] + ([u["canon"]] if u.get("canon") else [])


def path_pkgs(path):
    if path.startswith(b"node_modules/"):
        path = path[len(b"node_modules/"):]
    return path.split(b"/node_modules/")


def mangled(root, version, pkgs):
    return root + b">" + version + b">" + b">".join(pkgs)
