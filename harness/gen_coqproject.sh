#!/bin/sh
# Regenerate coq/_CoqProject from the files present (Extract.v is compiled separately).
cd "$(dirname "$0")/../coq"
{
  echo "-Q . DepsDev"
  echo "-arg -w -arg -notation-overridden,-deprecated-hint-without-locality,-deprecated-instance-without-locality,-ambiguous-paths,-future-coercion-class-field"
  find Lib Gen Semver Spec Resolve Maven Pypi Api Properties Extract -name '*.v' 2>/dev/null | grep -v 'Extract/Extract.v' | sort
} > _CoqProject.new
if ! cmp -s _CoqProject.new _CoqProject; then mv _CoqProject.new _CoqProject; coq_makefile -f _CoqProject -o Makefile >/dev/null; else rm _CoqProject.new; fi
[ -f Makefile ] || coq_makefile -f _CoqProject -o Makefile >/dev/null
