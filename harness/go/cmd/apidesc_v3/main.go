// apidesc_v3 prints the descriptors of deps.dev/api/v3 (see package apidesc).
// One binary per API package: both register a file called api.proto.
package main

import (
	apipb "deps.dev/api/v3"
	"verifharness/apidesc"
)

func main() { apidesc.Main("v3", apipb.File_api_proto, apipb.Insights_ServiceDesc, true) }
