package main

// Kinds for property C06 (npm resolver).
//
//	npm_rec  (universe (rootname rootver) nruns fuel)
//	    builds a LocalClient from the universe, resolves the root with the real resolver
//	    through a recording client, evaluates the six clauses of C06 directly on the
//	    graph + install tree, and returns  (VERDICT xCASE xOBS)  where CASE is the text
//	    of an `npm` case (root + recorded finite table) and OBS the projected npmObservable.
//	npm      (fuel root VERSIONS REQUIREMENTS MATCHING SEMVER)
//	    resolves the root with the real resolver against a client that answers from the
//	    table only; returns the projected npmObservable (the extracted model does the same).

import (
	"context"
	"encoding/hex"
	"errors"
	"fmt"
	"os"
	"sort"
	"strings"
	"time"

	"deps.dev/util/resolve"
	"deps.dev/util/resolve/dep"
	"deps.dev/util/resolve/npm"
	"deps.dev/util/resolve/version"
	"deps.dev/util/semver"

	"verifharness/sx"
)

// ---------------------------------------------------------------- sx <-> resolve values

func npmSxVKey(k resolve.VersionKey) sx.V {
	return sx.L(sx.B(k.Name), sx.Int(int(k.VersionType)), sx.B(k.Version))
}

func npmSxVersion(v resolve.Version) sx.V { return sx.L(npmSxVKey(v.VersionKey), dumpVer(v.AttrSet)) }

func npmSxReq(d resolve.RequirementVersion) sx.V {
	t := d.Type
	return sx.L(npmSxVKey(d.VersionKey), dumpDep(&t))
}

func npmDecVKey(a sx.V) resolve.VersionKey {
	return resolve.VersionKey{
		PackageKey:  resolve.PackageKey{System: resolve.NPM, Name: a.Nth(0).Str()},
		VersionType: resolve.VersionType(a.Nth(1).Int()),
		Version:     a.Nth(2).Str(),
	}
}

func npmDecVersion(a sx.V) resolve.Version {
	return resolve.Version{VersionKey: npmDecVKey(a.Nth(0)), AttrSet: buildVer(a.Nth(1))}
}

func npmDecReq(a sx.V) resolve.RequirementVersion {
	return resolve.RequirementVersion{VersionKey: npmDecVKey(a.Nth(0)), Type: buildDep(a.Nth(1))}
}

// npmSxCompare is the total order used to sort observables (mirrors sx_cmp in CasesNpm.v).
func npmSxCompare(a, b sx.V) int {
	if a.Kind != b.Kind {
		if a.Kind < b.Kind {
			return -1
		}
		return 1
	}
	switch a.Kind {
	case 0:
		if a.I < b.I {
			return -1
		}
		if a.I > b.I {
			return 1
		}
		return 0
	case 1:
		return strings.Compare(a.B, b.B)
	}
	for i := 0; i < len(a.L) && i < len(b.L); i++ {
		if c := npmSxCompare(a.L[i], b.L[i]); c != 0 {
			return c
		}
	}
	if len(a.L) < len(b.L) {
		return -1
	}
	if len(a.L) > len(b.L) {
		return 1
	}
	return 0
}

func npmSxSort(l []sx.V) {
	sort.SliceStable(l, func(i, j int) bool { return npmSxCompare(l[i], l[j]) < 0 })
}

func npmSxStrings(l []string) sx.V {
	out := make([]sx.V, len(l))
	for i, s := range l {
		out[i] = sx.B(s)
	}
	return sx.L(out...)
}

// ---------------------------------------------------------------- universe

// universe: ((name ((ver attrs ((depname depver typeattrs) ...)) ...)) ...)
func npmBuildUniverse(u sx.V) (*resolve.LocalClient, bool) {
	lc := resolve.NewLocalClient()
	hasDerived := false
	for _, p := range u.List() {
		name := p.Nth(0).Str()
		for _, v := range p.Nth(1).List() {
			ver := resolve.Version{
				VersionKey: resolve.VersionKey{
					PackageKey:  resolve.PackageKey{System: resolve.NPM, Name: name},
					VersionType: resolve.Concrete,
					Version:     v.Nth(0).Str(),
				},
				AttrSet: buildVer(v.Nth(1)),
			}
			if ver.HasAttr(version.DerivedFrom) {
				hasDerived = true
			}
			var deps []resolve.RequirementVersion
			for _, d := range v.Nth(2).List() {
				deps = append(deps, resolve.RequirementVersion{
					VersionKey: resolve.VersionKey{
						PackageKey:  resolve.PackageKey{System: resolve.NPM, Name: d.Nth(0).Str()},
						VersionType: resolve.Requirement,
						Version:     d.Nth(1).Str(),
					},
					Type: buildDep(d.Nth(2)),
				})
			}
			lc.AddVersion(ver, deps)
		}
	}
	return lc, hasDerived
}

// ---------------------------------------------------------------- recording and table clients

type npmAnswer struct {
	key  resolve.VersionKey
	kind string // ok, nf, err
	val  sx.V
}

type npmRecClient struct {
	inner                  resolve.Client
	vers, reqs, match      []npmAnswer
	seenV, seenR, seenM    map[resolve.VersionKey]bool
	reqStrings, verStrings map[string]bool
	needSem                bool
}

func npmNewRec(inner resolve.Client) *npmRecClient {
	return &npmRecClient{inner: inner,
		seenV: map[resolve.VersionKey]bool{}, seenR: map[resolve.VersionKey]bool{}, seenM: map[resolve.VersionKey]bool{},
		reqStrings: map[string]bool{}, verStrings: map[string]bool{}}
}

func npmErrKind(err error) string {
	if errors.Is(err, resolve.ErrNotFound) {
		return "nf"
	}
	return "err"
}

func (r *npmRecClient) noteVersion(v resolve.Version) {
	r.verStrings[v.Version] = true
	if v.HasAttr(version.DerivedFrom) {
		r.needSem = true
	}
}

func (r *npmRecClient) Version(ctx context.Context, vk resolve.VersionKey) (resolve.Version, error) {
	v, err := r.inner.Version(ctx, vk)
	if !r.seenV[vk] {
		r.seenV[vk] = true
		if err != nil {
			r.vers = append(r.vers, npmAnswer{vk, npmErrKind(err), sx.V{}})
		} else {
			r.vers = append(r.vers, npmAnswer{vk, "ok", npmSxVersion(v)})
			r.noteVersion(v)
		}
	}
	return v, err
}

func (r *npmRecClient) Versions(ctx context.Context, pk resolve.PackageKey) ([]resolve.Version, error) {
	// The npm resolver never asks for the plain version list; pass through.
	return r.inner.Versions(ctx, pk)
}

func (r *npmRecClient) Requirements(ctx context.Context, vk resolve.VersionKey) ([]resolve.RequirementVersion, error) {
	ds, err := r.inner.Requirements(ctx, vk)
	if !r.seenR[vk] {
		r.seenR[vk] = true
		if err != nil {
			r.reqs = append(r.reqs, npmAnswer{vk, npmErrKind(err), sx.V{}})
		} else {
			l := make([]sx.V, len(ds))
			for i, d := range ds {
				l[i] = npmSxReq(d)
				r.reqStrings[d.Version] = true
				if _, ok := d.Type.GetAttr(dep.KnownAs); ok {
					r.needSem = true
				}
			}
			r.reqs = append(r.reqs, npmAnswer{vk, "ok", sx.L(l...)})
		}
	}
	return ds, err
}

func (r *npmRecClient) MatchingVersions(ctx context.Context, vk resolve.VersionKey) ([]resolve.Version, error) {
	vs, err := r.inner.MatchingVersions(ctx, vk)
	if !r.seenM[vk] {
		r.seenM[vk] = true
		if err != nil {
			r.match = append(r.match, npmAnswer{vk, npmErrKind(err), sx.V{}})
		} else {
			l := make([]sx.V, len(vs))
			for i, v := range vs {
				l[i] = npmSxVersion(v)
				r.noteVersion(v)
			}
			r.match = append(r.match, npmAnswer{vk, "ok", sx.L(l...)})
		}
	}
	return vs, err
}

func npmSxAnswers(as []npmAnswer) sx.V {
	out := make([]sx.V, len(as))
	for i, a := range as {
		if a.kind == "ok" {
			out[i] = sx.L(npmSxVKey(a.key), sx.L(sx.Sym("ok"), a.val))
		} else {
			out[i] = sx.L(npmSxVKey(a.key), sx.L(sx.Sym(a.kind)))
		}
	}
	return sx.L(out...)
}

// semTable tabulates ParseConstraint/Match (the resolver's two direct uses of package semver)
// on the requirement strings and version strings the resolution has seen.
func (r *npmRecClient) semTable() sx.V {
	if !r.needSem {
		return sx.L()
	}
	var cs, vs []string
	for c := range r.reqStrings {
		cs = append(cs, c)
	}
	for v := range r.verStrings {
		vs = append(vs, v)
	}
	sort.Strings(cs)
	sort.Strings(vs)
	var out []sx.V
	for _, c := range cs {
		con, err := semver.NPM.ParseConstraint(c)
		var row []sx.V
		if err == nil {
			for _, v := range vs {
				row = append(row, sx.L(sx.B(v), sx.Bool(con.Match(v))))
			}
		}
		out = append(out, sx.L(sx.B(c), sx.Bool(err == nil), sx.L(row...)))
	}
	return sx.L(out...)
}

type npmTableClient struct {
	vers  map[resolve.VersionKey]func() (resolve.Version, error)
	reqs  map[resolve.VersionKey]func() ([]resolve.RequirementVersion, error)
	match map[resolve.VersionKey]func() ([]resolve.Version, error)
}

var npmErrUnrecorded = errors.New("not in the table")

func npmTableErr(kind string) error {
	if kind == "nf" {
		return fmt.Errorf("table: %w", resolve.ErrNotFound)
	}
	return errors.New("table: error")
}

func npmNewTableClient(vt, rt, mt sx.V) *npmTableClient {
	t := &npmTableClient{
		vers:  map[resolve.VersionKey]func() (resolve.Version, error){},
		reqs:  map[resolve.VersionKey]func() ([]resolve.RequirementVersion, error){},
		match: map[resolve.VersionKey]func() ([]resolve.Version, error){},
	}
	for _, e := range vt.List() {
		k, ans := npmDecVKey(e.Nth(0)), e.Nth(1)
		if _, dup := t.vers[k]; dup {
			continue
		}
		if kind := ans.Nth(0).Str(); kind == "ok" {
			t.vers[k] = func() (resolve.Version, error) { return npmDecVersion(ans.Nth(1)), nil }
		} else {
			t.vers[k] = func() (resolve.Version, error) { return resolve.Version{}, npmTableErr(kind) }
		}
	}
	for _, e := range rt.List() {
		k, ans := npmDecVKey(e.Nth(0)), e.Nth(1)
		if _, dup := t.reqs[k]; dup {
			continue
		}
		if kind := ans.Nth(0).Str(); kind == "ok" {
			t.reqs[k] = func() ([]resolve.RequirementVersion, error) {
				var out []resolve.RequirementVersion
				for _, d := range ans.Nth(1).List() {
					out = append(out, npmDecReq(d))
				}
				return out, nil
			}
		} else {
			t.reqs[k] = func() ([]resolve.RequirementVersion, error) { return nil, npmTableErr(kind) }
		}
	}
	for _, e := range mt.List() {
		k, ans := npmDecVKey(e.Nth(0)), e.Nth(1)
		if _, dup := t.match[k]; dup {
			continue
		}
		if kind := ans.Nth(0).Str(); kind == "ok" {
			t.match[k] = func() ([]resolve.Version, error) {
				var out []resolve.Version
				for _, v := range ans.Nth(1).List() {
					out = append(out, npmDecVersion(v))
				}
				return out, nil
			}
		} else {
			t.match[k] = func() ([]resolve.Version, error) { return nil, npmTableErr(kind) }
		}
	}
	return t
}

func (t *npmTableClient) Version(ctx context.Context, vk resolve.VersionKey) (resolve.Version, error) {
	if f, ok := t.vers[vk]; ok {
		return f()
	}
	return resolve.Version{}, npmErrUnrecorded
}
func (t *npmTableClient) Versions(ctx context.Context, pk resolve.PackageKey) ([]resolve.Version, error) {
	return nil, npmErrUnrecorded
}
func (t *npmTableClient) Requirements(ctx context.Context, vk resolve.VersionKey) ([]resolve.RequirementVersion, error) {
	if f, ok := t.reqs[vk]; ok {
		return f()
	}
	return nil, npmErrUnrecorded
}
func (t *npmTableClient) MatchingVersions(ctx context.Context, vk resolve.VersionKey) ([]resolve.Version, error) {
	if f, ok := t.match[vk]; ok {
		return f()
	}
	return nil, npmErrUnrecorded
}

// ---------------------------------------------------------------- one resolution and its observable

type npmRun struct {
	status  string // ok, err, panic, diverged, timeout
	g       *resolve.Graph
	tree    []npm.VerifTreeNode
	calls   int
	retried bool
}

// npmBudgetClient counts client calls and cancels the resolution when a budget is exceeded.
// The install loop of Resolve does not terminate on some universes (alias or bundle cycles,
// known/C06.jsonl N-C06-3); it polls its context once per node, and an ever growing tree keeps
// asking the client, so the call count is a load-independent way to cut such a resolution off.
type npmBudgetClient struct {
	inner  resolve.Client
	calls  int
	cancel context.CancelFunc
}

// npmCallBudget is far above what a terminating resolution of a generated universe needs.
const npmCallBudget = 10000

func (b *npmBudgetClient) tick() {
	b.calls++
	if b.calls == npmCallBudget {
		b.cancel()
	}
}
func (b *npmBudgetClient) Version(ctx context.Context, vk resolve.VersionKey) (resolve.Version, error) {
	b.tick()
	return b.inner.Version(ctx, vk)
}
func (b *npmBudgetClient) Versions(ctx context.Context, pk resolve.PackageKey) ([]resolve.Version, error) {
	b.tick()
	return b.inner.Versions(ctx, pk)
}
func (b *npmBudgetClient) Requirements(ctx context.Context, vk resolve.VersionKey) ([]resolve.RequirementVersion, error) {
	b.tick()
	return b.inner.Requirements(ctx, vk)
}
func (b *npmBudgetClient) MatchingVersions(ctx context.Context, vk resolve.VersionKey) ([]resolve.Version, error) {
	b.tick()
	return b.inner.MatchingVersions(ctx, vk)
}

// Wall-clock deadlines are only a safety net: a root that exceeds the first one is resolved
// once more with the second, so that a loaded machine does not change which roots are judged.
const (
	npmTimeout      = 400 * time.Millisecond
	npmTimeoutRetry = 4 * time.Second
)

func npmResolveOnce(c resolve.Client, root resolve.VersionKey, deadline time.Duration) (out npmRun) {
	defer func() {
		if r := recover(); r != nil {
			if hb, ok := r.(harnessBug); ok {
				panic(hb)
			}
			out = npmRun{status: "panic"}
		}
	}()
	var tree []npm.VerifTreeNode
	tctx, cancelT := context.WithTimeout(context.Background(), deadline)
	defer cancelT()
	bctx, cancelB := context.WithCancel(tctx)
	defer cancelB()
	bc := &npmBudgetClient{inner: c, cancel: cancelB}
	ctx := npm.VerifWithTreeSink(bctx, func(t []npm.VerifTreeNode) { tree = t })
	g, err := npm.NewResolver(bc).Resolve(ctx, root)
	if err != nil && bc.calls >= npmCallBudget {
		return npmRun{status: "diverged", calls: bc.calls}
	}
	if err != nil && tctx.Err() != nil {
		// the main loop polls the context: the resolution was still installing nodes
		return npmRun{status: "timeout", calls: bc.calls}
	}
	if err != nil {
		if os.Getenv("VERIF_DEBUG") != "" {
			fmt.Fprintln(os.Stderr, "resolve error:", err)
		}
		return npmRun{status: "err", calls: bc.calls}
	}
	return npmRun{status: "ok", g: g, tree: tree, calls: bc.calls}
}

func npmResolve(c resolve.Client, root resolve.VersionKey) npmRun {
	r := npmResolveOnce(c, root, npmTimeout)
	if r.status == "timeout" {
		r = npmResolveOnce(c, root, npmTimeoutRetry)
		r.retried = true
	}
	return r
}

func npmSortedKeys(m map[string]int) []string {
	out := make([]string, 0, len(m))
	for k := range m {
		out = append(out, k)
	}
	sort.Strings(out)
	return out
}

// npmGidIndex maps graph node ids to positions in the flattened tree (-1: no tree node).
func npmGidIndex(tree []npm.VerifTreeNode, n int) []int {
	idx := make([]int, n)
	for i := range idx {
		idx[i] = -1
	}
	for _, t := range tree {
		if t.ID != 0 && int(t.ID) < n && idx[t.ID] == -1 {
			idx[t.ID] = t.Index
		}
	}
	if n > 0 {
		idx[0] = 0
	}
	return idx
}

// npmMark separates the compared projection (graph and install tree, the property's
// observables) from the diagnostic fields, which are shown when the compared part differs.
const npmMark = "|"

// npmCompared is the compared part of a printed observable.
func npmCompared(s string) string {
	if i := strings.Index(s, " \""+npmMark+"\" "); i >= 0 {
		return s[:i]
	}
	return s
}

func npmObservable(r npmRun) sx.V {
	if r.status != "ok" {
		return sx.L(sx.Sym(r.status))
	}
	g := r.g
	var tn, diag []sx.V
	for _, t := range r.tree {
		tn = append(tn, sx.L(sx.Int(t.Parent), sx.B(t.Pkg.Name), npmSxVKey(t.Version),
			sx.Bool(t.ID != 0 || t.Parent == -1), sx.Bool(t.Bundled),
			npmSxStrings(npmSortedKeys(t.Children)), npmSxStrings(npmSortedKeys(t.Alias))))
		// the reservation bookkeeping is not an observable of the property
		diag = append(diag, sx.L(npmSxStrings(t.Protected), npmSxStrings(t.AliasProtected)))
	}
	idx := npmGidIndex(r.tree, len(g.Nodes))
	var es []sx.V
	for _, e := range g.Edges {
		ty := e.Type
		es = append(es, sx.L(sx.Int(idx[e.From]), sx.Int(idx[e.To]), npmSxVKey(g.Nodes[e.From].Version),
			npmSxVKey(g.Nodes[e.To].Version), sx.B(e.Requirement), dumpDep(&ty)))
	}
	npmSxSort(es)
	var ne []sx.V
	for i, n := range g.Nodes {
		for _, e := range n.Errors {
			// node and requirement only; no error text is read anywhere
			ne = append(ne, sx.L(sx.Int(idx[i]), npmSxVKey(n.Version), npmSxVKey(e.Req)))
		}
	}
	npmSxSort(ne)
	return sx.L(sx.Sym("ok"), sx.L(tn...), sx.L(es...), sx.L(ne...), sx.Bool(g.Error != ""),
		sx.B(npmMark), sx.L(diag...), sx.B(g.Error), sx.L())
}

// ---------------------------------------------------------------- direct oracle (C06 clauses)

type npmOracle struct {
	lc         *resolve.LocalClient
	g          *resolve.Graph
	tree       []npm.VerifTreeNode
	idx        []int
	hasDerived bool
	viol       []sx.V
	stats      map[string]int
}

func (o *npmOracle) fail(clause string, detail string) {
	if len(o.viol) < 8 {
		o.viol = append(o.viol, sx.L(sx.B(clause), sx.B(detail)))
	}
	o.stats["viol:"+clause]++
}

func npmTypeMatches(d resolve.RequirementVersion, e resolve.Edge) (plain, withSel bool) {
	if d.Type.Compare(e.Type) == 0 {
		plain = true
	}
	dt := d.Type.Clone()
	dt.AddAttr(dep.Selector, "")
	if dt.Compare(e.Type) == 0 {
		withSel = true
	}
	return
}

func npmLookupName(d resolve.RequirementVersion) string {
	if a, ok := d.Type.GetAttr(dep.KnownAs); ok && a != "" {
		return a
	}
	return d.Name
}

// slotName is the name under which tree node i sits in its parent's directory.
func (o *npmOracle) slotName(i int) (string, bool) {
	if i <= 0 {
		return "", false
	}
	p := o.tree[o.tree[i].Parent]
	for k, c := range p.Children {
		if c == i {
			return k, true
		}
	}
	for k, c := range p.Alias {
		if c == i {
			return k, true
		}
	}
	return "", false
}

func npmHasTag(v resolve.Version, tag string) bool {
	tags, _ := v.GetAttr(version.Tags)
	for _, t := range strings.Split(tags, ",") {
		if t == tag {
			return true
		}
	}
	return false
}

// sat says whether the target of edge e satisfies requirement d, and how.
func (o *npmOracle) sat(d resolve.RequirementVersion, e resolve.Edge) string {
	ctx := context.Background()
	tk := o.g.Nodes[e.To].Version
	ti := o.idx[e.To]
	mv, _ := o.lc.MatchingVersions(ctx, d.VersionKey)
	for _, v := range mv {
		if v.VersionKey == tk {
			if _, err := semver.NPM.ParseConstraint(d.Version); err != nil {
				return "tag"
			}
			return "range"
		}
	}
	slot, inTree := o.slotName(ti)
	bundledTarget, from := false, resolve.VersionKey{}
	if ti >= 0 && o.tree[ti].Bundled {
		bundledTarget, from = true, o.tree[ti].Version
	} else if ti < 0 {
		// The tree node is gone (a bundled copy that was used and later replaced at its level):
		// what it was derived from is read from the client.
		if v, err := o.lc.Version(ctx, tk); err == nil {
			if name, ok := v.GetAttr(version.DerivedFrom); ok {
				bundledTarget, from = true, tk
				from.Name = name
				slot = tk.Name[strings.LastIndex(tk.Name, ">")+1:] // the name it was installed under
			}
		}
	}
	if bundledTarget {
		// A bundled copy is a graph node of the derived (mangled) package; it stands for
		// the version it is derived from.
		for _, v := range mv {
			if v.VersionKey == from {
				return "bundled"
			}
		}
		if c, err := semver.NPM.ParseConstraint(d.Version); err == nil && (from.Name == d.Name || slot == npmLookupName(d)) && c.Match(from.Version) {
			return "bundled"
		}
		if d.Version == "*" && (slot == npmLookupName(d) || from.Name == d.Name) {
			return "star"
		}
		return ""
	}
	if inTree && slot == npmLookupName(d) {
		if d.Version == "*" {
			return "star"
		}
		// The copy installed under the name the requirement is loaded by (an alias, or a
		// package installed under an alias equal to the required name): the suite's own
		// golden graphs (alias.want aliasDepth1, aliasCollision4) resolve these by the
		// version string.
		if c, err := semver.NPM.ParseConstraint(d.Version); err == nil && c.Match(tk.Version) {
			return "slot"
		}
	}
	return ""
}

func npmBundledDep(lc *resolve.LocalClient, d resolve.RequirementVersion) bool {
	if !d.Type.IsRegular() {
		return false
	}
	vs, err := lc.MatchingVersions(context.Background(), d.VersionKey)
	if err != nil || len(vs) != 1 {
		return false
	}
	return vs[0].HasAttr(version.DerivedFrom)
}

// expected lists the requirements of a version that the resolver has to resolve: not dev,
// not peer, a regular one gives way to an optional one of the same package, a
// bundle-scoped one to a regular one, and the direct content of a bundle is not a requirement.
func npmExpectedRequirements(lc *resolve.LocalClient, vk resolve.VersionKey) []resolve.RequirementVersion {
	reqs, err := lc.Requirements(context.Background(), vk)
	if err != nil {
		return nil
	}
	opt, reg := map[string]bool{}, map[string]bool{}
	for _, d := range reqs {
		if d.Type.HasAttr(dep.Dev) {
			continue
		}
		if d.Type.HasAttr(dep.Opt) {
			opt[d.Name] = true
		}
		if d.Type.IsRegular() {
			reg[d.Name] = true
		}
	}
	var out []resolve.RequirementVersion
	for _, d := range reqs {
		sc, _ := d.Type.GetAttr(dep.Scope)
		switch {
		case d.Type.HasAttr(dep.Dev), sc == "peer":
		case !d.Type.HasAttr(dep.Opt) && opt[d.Name]:
		case sc == "bundle" && reg[d.Name]:
		case npmBundledDep(lc, d):
		default:
			out = append(out, d)
		}
	}
	return out
}

func (o *npmOracle) expectedPick(d resolve.RequirementVersion) (want []resolve.VersionKey, how string) {
	ctx := context.Background()
	mv, _ := o.lc.MatchingVersions(ctx, d.VersionKey)
	if len(mv) == 0 {
		return nil, "none"
	}
	all, _ := o.lc.Versions(ctx, d.PackageKey)
	var latest []resolve.Version
	for _, v := range all {
		if npmHasTag(v, "latest") {
			latest = append(latest, v)
		}
	}
	if len(latest) == 1 {
		for _, v := range mv {
			if v.VersionKey == latest[0].VersionKey {
				how := "latest"
				if pv, err := semver.NPM.Parse(v.Version); err == nil && pv.IsPrerelease() {
					how = "latest-prerelease"
				}
				return []resolve.VersionKey{v.VersionKey}, how
			}
		}
	}
	pool := mv[:0:0]
	for _, v := range mv {
		if !v.HasAttr(version.Blocked) {
			pool = append(pool, v)
		}
	}
	how = "highest"
	if len(pool) == 0 {
		pool = mv
		how = "all-deprecated"
	} else if len(pool) < len(mv) {
		how = "skip-deprecated"
	}
	// highest by semver order; versions that compare equal are all acceptable
	best := pool[0]
	for _, v := range pool[1:] {
		if semver.NPM.Compare(v.Version, best.Version) > 0 {
			best = v
		}
	}
	for _, v := range pool {
		if semver.NPM.Compare(v.Version, best.Version) == 0 {
			want = append(want, v.VersionKey)
		}
	}
	return want, how
}

func (o *npmOracle) dupLookupName(vk resolve.VersionKey) bool {
	seen := map[string]bool{}
	for _, d := range npmExpectedRequirements(o.lc, vk) {
		n := npmLookupName(d)
		if seen[n] {
			return true
		}
		seen[n] = true
	}
	return false
}

// nodeLookup walks up from tree node x until a directory holds an entry called name.
func (o *npmOracle) nodeLookup(x int, name string) int {
	for y := x; y >= 0; y = o.tree[y].Parent {
		t := o.tree[y]
		if c, ok := t.Children[name]; ok {
			return c
		}
		if c, ok := t.Alias[name]; ok {
			return c
		}
	}
	return -1
}

func (o *npmOracle) run() {
	ctx := context.Background()
	g := o.g
	st := o.stats
	st["tree_nodes"] = len(o.tree)
	depth := make([]int, len(o.tree))
	for i, t := range o.tree {
		if t.Parent >= 0 {
			depth[i] = depth[t.Parent] + 1
		}
		if depth[i] > st["max_depth"] {
			st["max_depth"] = depth[i]
		}
		if depth[i] >= 2 {
			st["nested"]++
		}
		if t.Bundled {
			st["bundled_nodes"]++
		}
		if len(t.Alias) > 0 {
			st["alias_entries"] += len(t.Alias)
		}
	}
	st["graph_nodes"] = len(g.Nodes)
	st["edges"] = len(g.Edges)
	if g.Error != "" {
		st["gerr"] = 1
	}

	// The edge that created a tree node is the first edge to its graph node: freshness is read
	// off the install tree, not off the resolver's own Selector label.
	created := map[resolve.NodeID]int{}
	labelled := map[resolve.NodeID]bool{}
	for ei, e := range g.Edges {
		if _, ok := created[e.To]; !ok {
			created[e.To] = ei
		}
		if e.Type.HasAttr(dep.Selector) {
			labelled[e.To] = true
		}
	}
	for i, t := range o.tree {
		if i == 0 || t.Bundled {
			continue
		}
		where := fmt.Sprintf("tree node %s@%s", t.Pkg.Name, t.Version.Version)
		if _, ok := created[t.ID]; !ok || t.ID == 0 || !labelled[t.ID] {
			o.fail("pick", where+": no edge to it is marked as the one that selected the version")
		}
	}

	// clauses 1, 4, 6 per edge
	perNode := map[resolve.NodeID][]resolve.Edge{}
	for ei, e := range g.Edges {
		perNode[e.From] = append(perNode[e.From], e)
		fk := g.Nodes[e.From].Version
		tk := g.Nodes[e.To].Version
		reqs, _ := o.lc.Requirements(ctx, fk)
		where := fmt.Sprintf("%s@%s -[%s]-> %s@%s", fk.Name, fk.Version, e.Requirement, tk.Name, tk.Version)
		satAny, lookupAny, pickAny, fresh, aliased := false, false, false, false, false
		how := ""
		pickHow, wantHow := "", ""
		for _, d := range reqs {
			if d.Version != e.Requirement {
				continue
			}
			plain, withSel := npmTypeMatches(d, e)
			if !plain && !withSel {
				continue
			}
			h := o.sat(d, e)
			if h == "" {
				continue
			}
			satAny = true
			how = h
			if _, ok := d.Type.GetAttr(dep.KnownAs); ok {
				aliased = true
			}
			fi, ti := o.idx[e.From], o.idx[e.To]
			if fi >= 0 && ti >= 0 && o.nodeLookup(fi, npmLookupName(d)) == ti {
				lookupAny = true
			}
			if created[e.To] == ei && ti > 0 && !o.tree[ti].Bundled {
				fresh = true
				want, ph := o.expectedPick(d)
				wantHow = ph
				for _, w := range want {
					if w == tk {
						pickAny = true
						pickHow = ph
					}
				}
			}
		}
		if !satAny {
			o.fail("edge_sat", where)
			continue
		}
		st["sat:"+how]++
		if e.Type.HasAttr(dep.Selector) {
			st["edge:selector"]++
		} else {
			st["edge:reuse"]++
		}
		if fresh {
			if pickAny {
				st["pick:"+pickHow]++
			} else if wantHow == "latest-prerelease" {
				// the version tagged latest is a prerelease that satisfies the requirement
				o.fail("pick_latest_prerelease", where)
			} else {
				o.fail("pick", where)
			}
		}
		if !o.hasDerived && !lookupAny {
			if o.dupLookupName(fk) {
				// two requirements of one version that are loaded by the same name cannot be
				// written in a package.json; the lookup clause is not evaluated for them
				st["skipped:lookup_dupname"]++
			} else if aliased && fresh {
				// the shadowed edge is a fresh install of an aliased requirement
				o.fail("lookup_fresh_alias", where)
			} else {
				o.fail("lookup", where)
			}
		}
	}

	// clause 2: every expected requirement of every graph node has an edge or an error
	for i, n := range g.Nodes {
		st["nodeerr"] += len(n.Errors)
		for _, d := range npmExpectedRequirements(o.lc, n.Version) {
			done := false
			for _, ne := range n.Errors {
				if ne.Req == d.VersionKey {
					done = true
				}
			}
			for _, e := range perNode[resolve.NodeID(i)] {
				if done {
					break
				}
				if e.Requirement != d.Version {
					continue
				}
				if plain, withSel := npmTypeMatches(d, e); (plain || withSel) && o.sat(d, e) != "" {
					done = true
				}
			}
			if !done {
				o.fail("complete", fmt.Sprintf("%s@%s requires %s@%s", n.Version.Name, n.Version.Version, d.Name, d.Version))
			}
			st["requirements"]++
		}
	}

	// clause 3: reachability
	seen := make([]bool, len(g.Nodes))
	if len(g.Nodes) > 0 {
		seen[0] = true
		todo := []resolve.NodeID{0}
		for len(todo) > 0 {
			n := todo[len(todo)-1]
			todo = todo[:len(todo)-1]
			for _, e := range perNode[n] {
				if !seen[e.To] {
					seen[e.To] = true
					todo = append(todo, e.To)
				}
			}
		}
	}
	for i, s := range seen {
		if !s {
			o.fail("reachable", fmt.Sprintf("%s@%s", g.Nodes[i].Version.Name, g.Nodes[i].Version.Version))
		}
	}

	// clause 5: no directory holds two packages of one name
	if !o.hasDerived {
		for _, t := range o.tree {
			for k := range t.Alias {
				if _, dup := t.Children[k]; dup {
					o.fail("unique_name", fmt.Sprintf("%s in the directory of %s@%s", k, t.Pkg.Name, t.Version.Version))
				}
			}
		}
	}
	// ... and a package sits in its directory under its own name (aliases are the alias map)
	for _, t := range o.tree {
		for k, c := range t.Children {
			if o.tree[c].Pkg.Name != k {
				o.fail("unique_name", fmt.Sprintf("%s@%s is filed as %s in the directory of %s@%s",
					o.tree[c].Pkg.Name, o.tree[c].Version.Version, k, t.Pkg.Name, t.Version.Version))
			}
		}
	}

	// input distribution: dependency cycles (a strongly connected component of several graph
	// nodes) and diamond conflicts (one package installed at two depths of the tree)
	if npmHasCycle(len(g.Nodes), g.Edges) {
		st["cycle"] = 1
	}
	depths := map[string]int{}
	for i, t := range o.tree {
		if i == 0 {
			continue
		}
		if d0, ok := depths[t.Pkg.Name]; ok && d0 != depth[i] {
			st["diamond"] = 1
		}
		depths[t.Pkg.Name] = depth[i]
	}
}

// npmHasCycle reports whether some strongly connected component has more than one node (Tarjan).
func npmHasCycle(n int, edges []resolve.Edge) bool {
	adj := make([][]int, n)
	for _, e := range edges {
		if e.From != e.To {
			adj[e.From] = append(adj[e.From], int(e.To))
		}
	}
	index, low, on := make([]int, n), make([]int, n), make([]bool, n)
	for i := range index {
		index[i] = -1
	}
	var stack []int
	next, found := 0, false
	var visit func(v int)
	visit = func(v int) {
		index[v], low[v] = next, next
		next++
		stack = append(stack, v)
		on[v] = true
		for _, w := range adj[v] {
			if index[w] < 0 {
				visit(w)
				if low[w] < low[v] {
					low[v] = low[w]
				}
			} else if on[w] && index[w] < low[v] {
				low[v] = index[w]
			}
		}
		if low[v] == index[v] {
			size := 0
			for {
				w := stack[len(stack)-1]
				stack = stack[:len(stack)-1]
				on[w] = false
				size++
				if w == v {
					break
				}
			}
			if size > 1 {
				found = true
			}
		}
	}
	for v := 0; v < n; v++ {
		if index[v] < 0 {
			visit(v)
		}
	}
	return found
}

var npmStatKeys = []string{"tree_nodes", "max_depth", "nested", "bundled_nodes", "alias_entries", "graph_nodes", "edges",
	"gerr", "requirements", "edge:selector", "edge:reuse", "sat:range", "sat:tag", "sat:star", "sat:slot",
	"sat:bundled", "pick:latest", "pick:latest-prerelease", "skipped:lookup_dupname", "pick:highest", "pick:skip-deprecated", "pick:all-deprecated",
	"nodeerr", "cycle", "diamond", "calls", "retried"}

// ---------------------------------------------------------------- handlers

func npmRec(arg sx.V) sx.V {
	lc, hasDerived := npmBuildUniverse(arg.Nth(0))
	root := resolve.VersionKey{
		PackageKey:  resolve.PackageKey{System: resolve.NPM, Name: arg.Nth(1).Nth(0).Str()},
		VersionType: resolve.Concrete,
		Version:     arg.Nth(1).Nth(1).Str(),
	}
	nruns := int(arg.Nth(2).Int())
	rec := npmNewRec(lc)
	first := npmResolve(rec, root)
	obs := npmObservable(first).String()
	nondet := 0
	for i := 1; i < nruns && first.status != "timeout" && first.status != "diverged"; i++ {
		r2 := npmResolve(lc, root)
		if r2.status == "timeout" {
			continue // a loaded machine, not a different result
		}
		if o2 := npmObservable(r2).String(); npmCompared(o2) != npmCompared(obs) {
			nondet = 1
		}
	}
	o := &npmOracle{lc: lc, hasDerived: hasDerived, stats: map[string]int{}}
	if first.status == "ok" {
		o.g, o.tree = first.g, first.tree
		o.idx = npmGidIndex(first.tree, len(first.g.Nodes))
		o.run()
	}
	if first.status == "panic" {
		o.fail("panic", "Resolve panicked")
	}
	if nondet == 1 {
		o.fail("nondeterministic", "two resolutions of the same root on the same client differ")
	}
	o.stats["calls"] = first.calls
	if first.retried {
		o.stats["retried"] = 1
	}
	var stats []sx.V
	for _, k := range npmStatKeys {
		stats = append(stats, sx.Int(o.stats[k]))
	}
	// Fuel for the model: the main loop pops at most one entry per installed node and per
	// reused edge, so twice that bound is ample when the model agrees and keeps a model that
	// does not terminate on this table from spinning.
	fuel := 2*(len(rec.reqs)+len(rec.match)) + 50
	if first.status == "ok" {
		fuel += 2 * (len(first.tree) + len(first.g.Edges))
	}
	cas := sx.L(sx.Int(fuel), npmSxVKey(root), npmSxAnswers(rec.vers), npmSxAnswers(rec.reqs), npmSxAnswers(rec.match), rec.semTable())
	verdict := sx.L(sx.Sym(first.status), sx.Bool(hasDerived), sx.L(o.viol...), sx.L(stats...))
	return sx.L(verdict, sx.B(hex.EncodeToString([]byte(cas.String()))), sx.B(hex.EncodeToString([]byte(obs))))
}

func npmTable(arg sx.V) sx.V {
	l := arg.List()
	if len(l) != 6 {
		panic(harnessBug{"npm case needs 6 fields"})
	}
	root := npmDecVKey(l[1])
	tc := npmNewTableClient(l[2], l[3], l[4])
	r1 := npmResolve(tc, root)
	first := npmObservable(r1)
	if r1.status == "timeout" || r1.status == "diverged" {
		return first
	}
	if r2 := npmResolve(tc, root); r2.status != "timeout" {
		if second := npmObservable(r2); npmCompared(first.String()) != npmCompared(second.String()) {
			return sx.L(sx.Sym("nondeterministic"), first, second)
		}
	}
	return first
}

func init() {
	register("npm_rec", npmRec)
	register("npm", npmTable)
}
