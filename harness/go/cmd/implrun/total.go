package main

// C04: every entry point that takes text or bytes from outside is classified
// per input as ok | err | panic | hang.

import (
	"strconv"
	"bytes"
	"context"
	"encoding/xml"
	"fmt"
	"os"
	"strings"
	"time"

	"deps.dev/util/maven"
	pypiutil "deps.dev/util/pypi"
	"deps.dev/util/resolve"
	"deps.dev/util/resolve/dep"
	rmaven "deps.dev/util/resolve/maven"
	rnpm "deps.dev/util/resolve/npm"
	rpypi "deps.dev/util/resolve/pypi"
	"deps.dev/util/resolve/schema"
	"deps.dev/util/resolve/version"

	"verifharness/sx"
)

func cls(err error) sx.V {
	if err != nil {
		return sx.L(sx.Sym("err"))
	}
	return sx.L(sx.Sym("ok"))
}

// watchdog runs f and reports ("hang") when it does not return in time. The
// goroutine of a hanging call is leaked (it cannot be killed).
func watchdog(d time.Duration, f func() sx.V) sx.V {
	ch := make(chan sx.V, 1)
	go func() {
		defer func() {
			if r := recover(); r != nil {
				if hb, ok := r.(harnessBug); ok {
					fmt.Fprintln(os.Stderr, "HARNESS BUG:", hb.msg)
					os.Exit(3)
				}
				if os.Getenv("VERIF_PANIC_TEXT") != "" {
					ch <- sx.L(sx.Sym("panic"), sx.B(fmt.Sprint(r)))
					return
				}
				ch <- sx.L(sx.Sym("panic"))
			}
		}()
		ch <- f()
	}()
	select {
	case v := <-ch:
		return v
	case <-time.After(d):
		return sx.L(sx.Sym("hang"))
	}
}

func resolveSystem(i int64) resolve.System {
	switch i {
	case 0:
		return resolve.NPM
	case 1:
		return resolve.Maven
	default:
		return resolve.PyPI
	}
}

func newResolver(sys resolve.System, c resolve.Client) resolve.Resolver {
	switch sys {
	case resolve.NPM:
		return rnpm.NewResolver(c)
	case resolve.Maven:
		return rmaven.NewResolver(c)
	default:
		return rpypi.NewResolver(c)
	}
}

// buildClient builds a LocalClient from ((name (version attrs ((typepairs name req)...))...)...).
func buildClient(sys resolve.System, u sx.V) *resolve.LocalClient {
	lc := resolve.NewLocalClient()
	for _, p := range u.List() {
		name := p.Nth(0).Str()
		for _, ve := range p.List()[1:] {
			var attr version.AttrSet
			for _, kv := range ve.Nth(1).List() {
				attr.SetAttr(version.AttrKey(kv.Nth(0).Int()), kv.Nth(1).Str())
			}
			v := resolve.Version{
				VersionKey: resolve.VersionKey{
					PackageKey:  resolve.PackageKey{System: sys, Name: name},
					VersionType: resolve.Concrete,
					Version:     ve.Nth(0).Str(),
				},
				AttrSet: attr,
			}
			var deps []resolve.RequirementVersion
			for _, d := range ve.Nth(2).List() {
				var t dep.Type
				for _, kv := range d.Nth(0).List() {
					t.AddAttr(dep.AttrKey(kv.Nth(0).Int()), kv.Nth(1).Str())
				}
				deps = append(deps, resolve.RequirementVersion{
					VersionKey: resolve.VersionKey{
						PackageKey:  resolve.PackageKey{System: sys, Name: d.Nth(1).Str()},
						VersionType: resolve.Requirement,
						Version:     d.Nth(2).Str(),
					},
					Type: t,
				})
			}
			lc.AddVersion(v, deps)
		}
	}
	return lc
}

func init() {
	// total: (entry args...) -> ("ok")|("err")|("panic")|("hang")
	register("total", func(a sx.V) sx.V {
		entry := a.Nth(0).Str()
		arg := func(i int) string { return a.Nth(i).Str() }
		limit := 3 * time.Second
		if strings.HasPrefix(entry, "resolve") {
			limit = 20 * time.Second
		}
		// a hang verdict is confirmed by a second run, alone, with a multiple of the limit (machine load)
		if k, err := strconv.Atoi(os.Getenv("VERIF_WATCHDOG_SCALE")); err == nil && k > 1 {
			limit *= time.Duration(k)
		}
		return watchdog(limit, func() sx.V {
			switch entry {
			case "parse":
				v, err := sysOf(a.Nth(1)).Parse(arg(2))
				if err == nil {
					// every exported accessor on whatever the parser accepted
					_ = v.String()
					_ = v.Canon(true)
					_ = v.Canon(false)
					_ = v.IsWildcard()
					_ = v.IsPrerelease()
					_ = v.IsBuild()
					_ = v.Prerelease()
					_, _ = v.Epoch()
					_, _ = v.Major()
					_ = v.Compare(v)
					_, _ = v.Difference(v)
					m := sysOf(a.Nth(1)).MinVersion(v)
					if m != nil {
						_ = m.Compare(v)
						_ = m.Canon(true)
					}
					if c, err := sysOf(a.Nth(1)).Parse(v.Canon(true)); err == nil {
						_ = c.Compare(v)
						_, _ = c.Difference(v)
					}
				}
				return cls(err)
			case "xmatch":
				// a constraint of one system asked about a version of ANOTHER (compare tolerates mixed systems)
				c, err := sysOf(a.Nth(1)).ParseConstraint(arg(2))
				if err != nil {
					return cls(err)
				}
				v, err := sysOf(a.Nth(3)).Parse(arg(4))
				if err != nil {
					return cls(err)
				}
				_ = c.MatchVersion(v)
				_ = c.MatchVersionPrerelease(v)
				s := c.Set()
				_ = s.MatchVersion(v)
				return cls(nil)
			case "xcompare":
				v1, err1 := sysOf(a.Nth(1)).Parse(arg(2))
				v2, err2 := sysOf(a.Nth(3)).Parse(arg(4))
				if err1 != nil || err2 != nil {
					return sx.L(sx.Sym("err"))
				}
				// compare defines an answer for versions of different systems; (*Version).Difference does not
				// (its Maven branch asserts the other version's extension: note N-C04-8, outside C04's statement,
				// which speaks of System.Difference on two strings of ONE system)
				_ = v1.Compare(v2)
				_ = v2.Compare(v1)
				return cls(nil)
			case "pconstraint":
				c, err := sysOf(a.Nth(1)).ParseConstraint(arg(2))
				if err == nil {
					_ = c.String()
					_ = c.IsSimple()
					_ = c.HasPrerelease()
					s := c.Set()
					_ = s.String()
					_ = s.Empty()
				}
				return cls(err)
			case "psetconstraint":
				c, err := sysOf(a.Nth(1)).ParseSetConstraint(arg(2))
				if err == nil {
					s := c.Set()
					_ = s.String()
				}
				return cls(err)
			case "syscompare":
				_ = sysOf(a.Nth(1)).Compare(arg(2), arg(3))
				return cls(nil)
			case "difference":
				_, _, err := sysOf(a.Nth(1)).Difference(arg(2), arg(3))
				return cls(err)
			case "match":
				sys := sysOf(a.Nth(1))
				c, err := sys.ParseConstraint(arg(2))
				if err != nil {
					return cls(err)
				}
				_ = c.Match(arg(3))
				if v, err := sys.Parse(arg(3)); err == nil {
					_ = c.MatchVersion(v)
					_ = c.MatchVersionPrerelease(v)
					s := c.Set()
					_ = s.MatchVersion(v)
				}
				s := c.Set()
				_, _ = s.Match(arg(3))
				return cls(nil)
			case "setops":
				sys := sysOf(a.Nth(1))
				c1, err1 := sys.ParseConstraint(arg(2))
				c2, err2 := sys.ParseConstraint(arg(3))
				if err1 != nil || err2 != nil {
					return sx.L(sx.Sym("err"))
				}
				s1, s2 := c1.Set(), c2.Set()
				e1 := s1.Union(c2.Set())
				e2 := s2.Intersect(c1.Set())
				_ = s1.String()
				_ = s2.String()
				_ = s1.Empty()
				_ = s2.Empty()
				if e1 != nil || e2 != nil {
					return sx.L(sx.Sym("err"))
				}
				return cls(nil)
			case "parsedep":
				_, err := pypiutil.ParseDependency(arg(1))
				return cls(err)
			case "canonname":
				_ = pypiutil.CanonPackageName(arg(1))
				return cls(nil)
			case "canonversion":
				_ = pypiutil.CanonVersion(arg(1))
				return cls(nil)
			case "parsemetadata":
				_, err := pypiutil.ParseMetadata(context.Background(), arg(1))
				return cls(err)
			case "wheelname":
				_, err := pypiutil.ParseWheelName(arg(1))
				return cls(err)
			case "sdistversion":
				_, _, err := pypiutil.SdistVersion(arg(1), arg(2))
				return cls(err)
			case "wheelmetadata":
				b := []byte(arg(1))
				_, err := pypiutil.WheelMetadata(context.Background(), bytes.NewReader(b), int64(len(b)))
				return cls(err)
			case "sdistmetadata":
				_, err := pypiutil.SdistMetadata(context.Background(), arg(1), strings.NewReader(arg(2)))
				return cls(err)
			case "pom":
				var p maven.Project
				if err := xml.Unmarshal([]byte(arg(1)), &p); err != nil {
					return cls(err)
				}
				if err := p.MergeProfiles(arg(2), maven.ActivationOS{Name: maven.String(arg(3)), Family: maven.String(arg(3))}); err != nil {
					return cls(err)
				}
				if err := p.Interpolate(); err != nil {
					return cls(err)
				}
				p.ProcessDependencies(func(g, a, v maven.String) (maven.DependencyManagement, error) {
					return maven.DependencyManagement{}, nil
				})
				for _, d := range p.Dependencies {
					_ = d.Name()
					_ = d.ExclusionsString()
					_ = d.Key()
					t := resolve.MavenDepType(d, "")
					_, _, _ = resolve.MavenDepTypeToDependency(t)
				}
				return cls(nil)
			case "pomparent":
				var p, q maven.Project
				if err := xml.Unmarshal([]byte(arg(1)), &p); err != nil {
					return cls(err)
				}
				if err := xml.Unmarshal([]byte(arg(2)), &q); err != nil {
					return cls(err)
				}
				p.MergeParent(q)
				return cls(p.Interpolate())
			case "projectkey":
				_, err := maven.MakeProjectKey(arg(1), arg(2))
				return cls(err)
			case "mavendeptype":
				var t dep.Type
				for _, kv := range a.Nth(1).List() {
					t.AddAttr(dep.AttrKey(kv.Nth(0).Int()), kv.Nth(1).Str())
				}
				_, _, err := resolve.MavenDepTypeToDependency(t)
				return cls(err)
			case "schemanew":
				s, err := schema.New(arg(2), resolveSystem(a.Nth(1).Int()))
				if err == nil {
					c := s.NewClient()
					_ = s.ValidateClient(c)
				}
				return cls(err)
			case "parseresolve":
				g, err := schema.ParseResolve(arg(2), resolveSystem(a.Nth(1).Int()))
				if err == nil {
					_ = g.String()
				}
				return cls(err)
			case "depparse":
				_, err := schema.VerifDepParseString(arg(1))
				return cls(err)
			case "verparse":
				_, err := schema.VerifVersionParseString(arg(1))
				_, _ = schema.VerifVersionParseSingle(arg(1))
				return cls(err)
			case "resolve":
				sys := resolveSystem(a.Nth(1).Int())
				lc := buildClient(sys, a.Nth(2))
				r := newResolver(sys, lc)
				vk := resolve.VersionKey{
					PackageKey:  resolve.PackageKey{System: sys, Name: arg(3)},
					VersionType: resolve.Concrete,
					Version:     arg(4),
				}
				// A resolver that only stops because its context expired did not terminate
				// on its own: that is reported as a hang (an unbounded run would also grow
				// without limit, so the deadline is short).
				ctx, cancel := context.WithTimeout(context.Background(), 6*time.Second)
				defer cancel()
				g, err := r.Resolve(ctx, vk)
				if ctx.Err() != nil {
					return sx.L(sx.Sym("hang"))
				}
				if err == nil {
					_ = g.Canon()
					_ = g.String()
				}
				// the same resolver is asked again, and about every other version of the root package:
				// per-resolver caches must not turn an error into a panic
				_, _ = r.Resolve(ctx, vk)
				if vs, verr := lc.Versions(ctx, vk.PackageKey); verr == nil {
					for _, v := range vs {
						_, _ = r.Resolve(ctx, v.VersionKey)
					}
				}
				if ctx.Err() != nil {
					return sx.L(sx.Sym("hang"))
				}
				return cls(err)
			case "resolveschema":
				sys := resolveSystem(a.Nth(1).Int())
				s, err := schema.New(arg(2), sys)
				if err != nil {
					return cls(err)
				}
				lc := s.NewClient()
				r := newResolver(sys, lc)
				vk := resolve.VersionKey{
					PackageKey:  resolve.PackageKey{System: sys, Name: arg(3)},
					VersionType: resolve.Concrete,
					Version:     arg(4),
				}
				ctx, cancel := context.WithTimeout(context.Background(), 6*time.Second)
				defer cancel()
				g, err := r.Resolve(ctx, vk)
				if ctx.Err() != nil {
					return sx.L(sx.Sym("hang"))
				}
				if err == nil {
					_ = g.Canon()
					_ = g.String()
				}
				return cls(err)
			}
			panic(harnessBug{"unknown total entry " + entry})
		})
	})
}
