package main

// Case kinds for the constraint / span / set algebra of util/semver (C03, C09, C11).
// Every kind that also exists in the model takes a trailing parse table which the
// implementation ignores (the model uses it in place of the version parser).

import (
	"deps.dev/util/resolve"
	"deps.dev/util/semver"
	"strings"

	"verifharness/sx"
)

func csBit(b bool) int {
	if b {
		return 1
	}
	return 0
}

// parseEntry runs System.parse(str, allowInfinity) and renders the outcome as
// ("ok" dump) | ("err" dump-or-(nil)) | ("panic").
func csParseEntry(sys semver.System, str string, allowInf bool) (out sx.V) {
	defer func() {
		if r := recover(); r != nil {
			out = sx.L(sx.Sym("panic"))
		}
	}()
	v, err := semver.VerifParseInternal(sys, str, allowInf)
	if err != nil {
		return sx.L(sx.Sym("err"), rawSx(semver.VerifDumpOpt(v)))
	}
	return sx.L(sx.Sym("ok"), rawSx(semver.VerifDumpOpt(v)))
}

type csProbe struct {
	v  *semver.Version
	ok bool
}

func csParseProbes(sys semver.System, l []sx.V) []csProbe {
	out := make([]csProbe, len(l))
	for i, p := range l {
		func() {
			defer func() {
				if r := recover(); r != nil {
					out[i] = csProbe{nil, false}
				}
			}()
			v, err := sys.Parse(p.Str())
			out[i] = csProbe{v, err == nil}
		}()
	}
	return out
}

func csSetInfo(s semver.Set) sx.V {
	return sx.L(sx.Sym("ok"), sx.Int(csBit(s.Empty())), sx.B(s.String()), rawSx(semver.VerifDumpSet(s)))
}

func init() {
	// cparse: (sys ((allowInf str)...)) -> (outcome...)
	register("cparse", func(a sx.V) sx.V {
		sys := sysOf(a.Nth(0))
		var out []sx.V
		for _, e := range a.Nth(1).List() {
			out = append(out, csParseEntry(sys, e.Nth(1).Str(), e.Nth(0).Int() != 0))
		}
		return sx.L(out...)
	})
	// ctok: (sys text) -> ((typ tok n)...) successive tokens up to EOF / invalid
	register("ctok", func(a sx.V) sx.V {
		sys := sysOf(a.Nth(0))
		rest := a.Nth(1).Str()
		var out []sx.V
		for k := 0; k < 200; k++ {
			t, s, n := semver.VerifToken(sys, rest)
			out = append(out, sx.L(sx.Int(t), sx.B(s), sx.Int(n)))
			if t == 19 || t == 0 || n == 0 { // tokEOF, tokInvalid
				break
			}
			rest = rest[n:]
		}
		return sx.L(out...)
	})
	// pconstraint: (sys text table) -> ("err") | ("ok" simple setString setDump)
	register("pconstraint", func(a sx.V) sx.V {
		sys := sysOf(a.Nth(0))
		c, err := sys.ParseConstraint(a.Nth(1).Str())
		if err != nil {
			return sx.L(sx.Sym("err"))
		}
		return sx.L(sx.Sym("ok"), sx.Int(csBit(c.IsSimple())), sx.B(c.Set().String()), rawSx(semver.VerifDumpSet(c.Set())))
	})
	// cmatch: (sys text (probe...) table) -> ("err") | ("ok" (row...)), row =
	//   ("verr" Match(string) MatchRequirement) | (MatchVersion MatchVersionPrerelease Set.MatchVersion Match(string) MatchRequirement)
	// Match(string) is Constraint.Match on the candidate TEXT; MatchRequirement is
	// resolve.MatchRequirement for npm, Maven and PyPI (membership of the candidate in its result), -1 otherwise.
	register("cmatch", func(a sx.V) sx.V {
		sys := sysOf(a.Nth(0))
		c, err := sys.ParseConstraint(a.Nth(1).Str())
		if err != nil {
			return sx.L(sx.Sym("err"))
		}
		texts := a.Nth(2).List()
		ps := csParseProbes(sys, texts)
		inReq := map[string]bool{}
		rsys, viaResolve := resolve.NPM, sys == semver.NPM
		switch sys {
		case semver.Maven:
			rsys, viaResolve = resolve.Maven, true
		case semver.PyPI:
			rsys, viaResolve = resolve.PyPI, true
		}
		if viaResolve {
			var vs []resolve.Version
			for _, t := range texts {
				vs = append(vs, resolve.Version{VersionKey: resolve.VersionKey{
					PackageKey: resolve.PackageKey{System: rsys, Name: "p"}, VersionType: resolve.Concrete, Version: t.Str()}})
			}
			req := resolve.VersionKey{PackageKey: resolve.PackageKey{System: rsys, Name: "p"},
				VersionType: resolve.Requirement, Version: a.Nth(1).Str()}
			for _, m := range resolve.MatchRequirement(req, vs) {
				inReq[m.Version] = true
			}
		}
		var rows []sx.V
		for k, p := range ps {
			ms := sx.Int(csBit(c.Match(texts[k].Str())))
			mr := sx.Int(-1)
			if viaResolve {
				mr = sx.Int(csBit(inReq[texts[k].Str()]))
			}
			if !p.ok {
				rows = append(rows, sx.L(sx.Sym("verr"), ms, mr))
				continue
			}
			rows = append(rows, sx.L(sx.Int(csBit(c.MatchVersion(p.v))), sx.Int(csBit(c.MatchVersionPrerelease(p.v))),
				sx.Int(csBit(c.Set().MatchVersion(p.v))), ms, mr))
		}
		return sx.L(sx.Sym("ok"), sx.L(rows...))
	})
	// creqseq: ((sys text (cand...) table)...) -> ("ok" ((mr...) (direct...))...)
	// A SEQUENCE of resolve.MatchRequirement calls executed in order inside one handler
	// invocation (sys is the semver.System number of npm, Maven or PyPI).  mr = membership of
	// each candidate in the result of MatchRequirement; direct = what the semver package
	// answers for the same (system, requirement, candidate) without going through resolve:
	// ParseConstraint + Constraint.Match, or string equality when the requirement does not parse.
	// Any state kept between calls shows as a call whose answer depends on its predecessors.
	register("creqseq", func(a sx.V) sx.V {
		var out []sx.V
		for _, call := range a.List() {
			sys := sysOf(call.Nth(0))
			text := call.Nth(1).Str()
			cands := call.Nth(2).List()
			rsys := resolve.NPM
			switch sys {
			case semver.Maven:
				rsys = resolve.Maven
			case semver.PyPI:
				rsys = resolve.PyPI
			}
			var vs []resolve.Version
			for _, t := range cands {
				vs = append(vs, resolve.Version{VersionKey: resolve.VersionKey{
					PackageKey: resolve.PackageKey{System: rsys, Name: "p"}, VersionType: resolve.Concrete, Version: t.Str()}})
			}
			req := resolve.VersionKey{PackageKey: resolve.PackageKey{System: rsys, Name: "p"},
				VersionType: resolve.Requirement, Version: text}
			in := map[string]bool{}
			for _, m := range resolve.MatchRequirement(req, vs) {
				in[m.Version] = true
			}
			c, err := sys.ParseConstraint(text)
			var mr, direct []sx.V
			for _, t := range cands {
				mr = append(mr, sx.Int(csBit(in[t.Str()])))
				if err != nil {
					direct = append(direct, sx.Int(csBit(t.Str() == text)))
				} else {
					direct = append(direct, sx.Int(csBit(c.Match(t.Str()))))
				}
			}
			out = append(out, sx.L(sx.L(mr...), sx.L(direct...)))
		}
		return sx.L(sx.Sym("ok"), sx.L(out...))
	})
	// setop: (sys textA textB (probe...) table) ->
	//   ("err") | ("ok" A B U I U' I' (row...) (argok...) AU AI)
	// U = A union B, I = A intersect B, U' = B union A, I' = B intersect A, AU = A union A,
	// AI = A intersect A; A, B and the results are ("err") | ("ok" empty string dump); every
	// operation works on freshly parsed operands.  An operand text that starts with { is read by
	// ParseSetConstraint (multi-span operands for every system), any other by ParseConstraint.
	// row = ("verr") | (aE aI bE bI uE uI iE iI u'E u'I i'E i'I pU pI pU' pI' auE auI aiE aiI):
	// E = Set.MatchVersion, I = matchVersion(v, true), p* = the public route
	// ParseSetConstraint(result.String()).MatchVersionPrerelease(v) (-2 when the printed result is
	// rejected), au*/ai* = membership in A union A / A intersect A; -1 where the operation failed.
	// argok: per operation 1 when the ARGUMENT prints and matches every probe as before the call.
	register("setop", func(a sx.V) sx.V {
		sys := sysOf(a.Nth(0))
		ta, tb := a.Nth(1).Str(), a.Nth(2).Str()
		// an operand is a requirement text, a set text ({...}, read by ParseSetConstraint) or a
		// computation on two such operands: "@I X @@ Y" (X intersected with Y), "@U X @@ Y"
		var parse1 func(t string) (semver.Set, bool)
		parse1 = func(t string) (semver.Set, bool) {
			if strings.HasPrefix(t, "@I ") || strings.HasPrefix(t, "@U ") {
				parts := strings.SplitN(t[3:], " @@ ", 2)
				if len(parts) != 2 {
					return semver.Set{}, false
				}
				x, ok := parse1(parts[0])
				if !ok {
					return semver.Set{}, false
				}
				y, ok := parse1(parts[1])
				if !ok {
					return semver.Set{}, false
				}
				var err error
				if t[1] == 'I' {
					err = x.Intersect(y)
				} else {
					err = x.Union(y)
				}
				return x, err == nil
			}
			var c *semver.Constraint
			var err error
			if len(t) > 0 && t[0] == '{' {
				c, err = sys.ParseSetConstraint(t)
			} else {
				c, err = sys.ParseConstraint(t)
			}
			if err != nil {
				return semver.Set{}, false
			}
			return c.Set(), true
		}
		parse2 := func() (semver.Set, semver.Set, bool) {
			x, ok := parse1(ta)
			if !ok {
				return semver.Set{}, semver.Set{}, false
			}
			y, ok := parse1(tb)
			return x, y, ok
		}
		sa, sb, ok := parse2()
		if !ok {
			return sx.L(sx.Sym("err"))
		}
		ps := csParseProbes(sys, a.Nth(3).List())
		rowOf := func(s semver.Set) []int {
			var r []int
			for _, p := range ps {
				if !p.ok {
					r = append(r, -9, -9)
					continue
				}
				r = append(r, csBit(s.MatchVersion(p.v)), csBit(semver.VerifSetMatch(s, p.v, true)))
			}
			return r
		}
		same := func(x, y []int) bool {
			if len(x) != len(y) {
				return false
			}
			for i := range x {
				if x[i] != y[i] {
					return false
				}
			}
			return true
		}
		type opres struct {
			s     semver.Set
			ok    bool
			argok bool
			pub   *semver.Constraint
			pubOK bool
		}
		var ops [6]opres
		for k := 0; k < 6; k++ {
			x, y, _ := parse2()
			if k == 2 || k == 3 {
				x, y = y, x
			}
			if k >= 4 {
				y = x // receiver = argument
			}
			before, beforeStr := rowOf(y), y.String()
			var err error
			if k%2 == 0 {
				err = x.Union(y)
			} else {
				err = x.Intersect(y)
			}
			r := opres{s: x, ok: err == nil}
			r.argok = k >= 4 || (same(before, rowOf(y)) && beforeStr == y.String())
			if r.ok && k < 4 {
				c2, err2 := sys.ParseSetConstraint(x.String())
				r.pub, r.pubOK = c2, err2 == nil
			}
			ops[k] = r
		}
		var rows []sx.V
		for _, p := range ps {
			if !p.ok {
				rows = append(rows, sx.L(sx.Sym("verr")))
				continue
			}
			row := []sx.V{
				sx.Int(csBit(sa.MatchVersion(p.v))), sx.Int(csBit(semver.VerifSetMatch(sa, p.v, true))),
				sx.Int(csBit(sb.MatchVersion(p.v))), sx.Int(csBit(semver.VerifSetMatch(sb, p.v, true))),
			}
			for k := 0; k < 4; k++ {
				if !ops[k].ok {
					row = append(row, sx.Int(-1), sx.Int(-1))
					continue
				}
				row = append(row, sx.Int(csBit(ops[k].s.MatchVersion(p.v))), sx.Int(csBit(semver.VerifSetMatch(ops[k].s, p.v, true))))
			}
			for k := 0; k < 4; k++ {
				switch {
				case !ops[k].ok:
					row = append(row, sx.Int(-1))
				case !ops[k].pubOK:
					row = append(row, sx.Int(-2))
				default:
					row = append(row, sx.Int(csBit(ops[k].pub.MatchVersionPrerelease(p.v))))
				}
			}
			for k := 4; k < 6; k++ {
				if !ops[k].ok {
					row = append(row, sx.Int(-1), sx.Int(-1))
					continue
				}
				row = append(row, sx.Int(csBit(ops[k].s.MatchVersion(p.v))), sx.Int(csBit(semver.VerifSetMatch(ops[k].s, p.v, true))))
			}
			rows = append(rows, sx.L(row...))
		}
		out := []sx.V{sx.Sym("ok"), csSetInfo(sa), csSetInfo(sb)}
		info := func(k int) sx.V {
			if ops[k].ok {
				return csSetInfo(ops[k].s)
			}
			return sx.L(sx.Sym("err"))
		}
		for k := 0; k < 4; k++ {
			out = append(out, info(k))
		}
		out = append(out, sx.L(rows...))
		var argok []sx.V
		for k := 0; k < 4; k++ {
			argok = append(argok, sx.Int(csBit(ops[k].argok)))
		}
		out = append(out, sx.L(argok...), info(4), info(5))
		return sx.L(out...)
	})
	// setrt: (sys text (probe...) table) ->
	//   ("err") | ("ok" str1 R (row...) dump1), R = ("err") | ("ok" str2 simple2 dump2)
	// row = ("verr") | (origIncl rtIncl origExcl rtExcl), rt = -1 when R is err.
	register("setrt", func(a sx.V) sx.V {
		sys := sysOf(a.Nth(0))
		c, err := sys.ParseConstraint(a.Nth(1).Str())
		if err != nil {
			return sx.L(sx.Sym("err"))
		}
		s1 := c.Set().String()
		c2, err2 := sys.ParseSetConstraint(s1)
		var r sx.V
		if err2 != nil {
			r = sx.L(sx.Sym("err"))
		} else {
			r = sx.L(sx.Sym("ok"), sx.B(c2.Set().String()), sx.Int(csBit(c2.IsSimple())), rawSx(semver.VerifDumpSet(c2.Set())))
		}
		ps := csParseProbes(sys, a.Nth(2).List())
		var rows []sx.V
		for _, p := range ps {
			if !p.ok {
				rows = append(rows, sx.L(sx.Sym("verr")))
				continue
			}
			ri, re := -1, -1
			if err2 == nil {
				ri = csBit(c2.MatchVersionPrerelease(p.v))
				re = csBit(c2.MatchVersion(p.v))
			}
			rows = append(rows, sx.L(sx.Int(csBit(c.MatchVersionPrerelease(p.v))), sx.Int(ri), sx.Int(csBit(c.MatchVersion(p.v))), sx.Int(re)))
		}
		return sx.L(sx.Sym("ok"), sx.B(s1), r, sx.L(rows...), rawSx(semver.VerifDumpSet(c.Set())))
	})
}
