package main

import (
	"deps.dev/util/resolve"

	"verifharness/sx"
)

// Graph cases (property C13).
//
//	graph := (nodes edges error [perm])
//	node  := (system name versiontype version (nodeerr*))
//	nodeerr := (system name versiontype version text)
//	edge  := (from to requirement (attrpair*))      attrpair as in attr.go buildDep
//	perm  := (int*)   old index -> new index, applied before Canon (perm[0] must be 0)
//
// Nodes and edges are added through AddNode/AddEdge; errors through AddError for even
// nodes and by appending to the exported Errors slice for odd nodes.
//
// The result of canon_graph is ("ok" nodes edges error) in exactly the input
// syntax (so an output can be fed back), ("err") when Canon returns an error,
// ("adderr") when AddEdge/AddError rejects an id, and ("panic") on a panic.
// Dependency types are dumped through GetAttr (never compared with
// reflect.DeepEqual: nil and empty attribute maps differ).

func vkOf(v sx.V, at int) resolve.VersionKey {
	return resolve.VersionKey{
		PackageKey:  resolve.PackageKey{System: resolve.System(v.Nth(at).Int()), Name: v.Nth(at + 1).Str()},
		VersionType: resolve.VersionType(v.Nth(at + 2).Int()),
		Version:     v.Nth(at + 3).Str(),
	}
}

func vkDump(k resolve.VersionKey) []sx.V {
	return []sx.V{sx.Int(int(k.System)), sx.B(k.Name), sx.Int(int(k.VersionType)), sx.B(k.Version)}
}

// buildGraph constructs the graph through the public constructors.
// ok is false when one of them returned an error.
func buildGraph(arg sx.V) (g *resolve.Graph, ok bool) {
	nodes := arg.Nth(0).List()
	edges := arg.Nth(1).List()
	g = &resolve.Graph{Error: arg.Nth(2).Str()}
	n := len(nodes)
	// old index -> new index
	perm := make([]int, n)
	for i := range perm {
		perm[i] = i
	}
	if len(arg.List()) > 3 && len(arg.Nth(3).List()) > 0 {
		pl := arg.Nth(3).List()
		if len(pl) != n {
			panic(harnessBug{"perm length"})
		}
		seen := make([]bool, n)
		for i, p := range pl {
			j := int(p.Int())
			if j < 0 || j >= n || seen[j] {
				panic(harnessBug{"perm is not a permutation"})
			}
			seen[j] = true
			perm[i] = j
		}
	}
	inv := make([]int, n)
	for i, j := range perm {
		inv[j] = i
	}
	for j := 0; j < n; j++ {
		nd := nodes[inv[j]]
		id := g.AddNode(vkOf(nd, 0))
		for _, e := range nd.Nth(4).List() {
			if j%2 == 1 {
				// Nodes and Errors are exported: a graph may also be filled in directly.
				// Odd nodes get their errors that way, even nodes through AddError.
				g.Nodes[id].Errors = append(g.Nodes[id].Errors, resolve.NodeError{Req: vkOf(e, 0), Error: e.Nth(4).Str()})
				continue
			}
			if err := g.AddError(id, vkOf(e, 0), e.Nth(4).Str()); err != nil {
				return g, false
			}
		}
	}
	mapID := func(i int64) resolve.NodeID {
		if i >= 0 && int(i) < n {
			return resolve.NodeID(perm[i])
		}
		return resolve.NodeID(i)
	}
	for _, e := range edges {
		if err := g.AddEdge(mapID(e.Nth(0).Int()), mapID(e.Nth(1).Int()), e.Nth(2).Str(), buildDep(e.Nth(3))); err != nil {
			return g, false
		}
	}
	return g, true
}

func dumpGraph(g *resolve.Graph) []sx.V {
	var nodes, edges []sx.V
	for _, n := range g.Nodes {
		var errs []sx.V
		for _, e := range n.Errors {
			errs = append(errs, sx.L(append(vkDump(e.Req), sx.B(e.Error))...))
		}
		nodes = append(nodes, sx.L(append(vkDump(n.Version), sx.L(errs...))...))
	}
	for i := range g.Edges {
		e := &g.Edges[i]
		edges = append(edges, sx.L(sx.Int(int(e.From)), sx.Int(int(e.To)), sx.B(e.Requirement), dumpDep(&e.Type)))
	}
	return []sx.V{sx.L(nodes...), sx.L(edges...), sx.B(g.Error)}
}

func canonGraph(arg sx.V) sx.V {
	g, ok := buildGraph(arg)
	if !ok {
		return sx.L(sx.Sym("adderr"))
	}
	if err := g.Canon(); err != nil {
		return sx.L(sx.Sym("err"))
	}
	return sx.L(append([]sx.V{sx.Sym("ok")}, dumpGraph(g)...)...)
}

func sgn(c int) sx.V {
	switch {
	case c < 0:
		return sx.Int(-1)
	case c > 0:
		return sx.Int(1)
	}
	return sx.Int(0)
}

func init() {
	register("canon_graph", canonGraph)
	// resolve_systems: the numbers of the three systems resolve knows (implementation only)
	register("resolve_systems", func(sx.V) sx.V {
		return sx.L(sx.Int(int(resolve.NPM)), sx.Int(int(resolve.Maven)), sx.Int(int(resolve.PyPI)))
	})
	// graph_build: the graph as built (after the optional renumbering), not canonicalised
	register("graph_build", func(arg sx.V) sx.V {
		g, ok := buildGraph(arg)
		if !ok {
			return sx.L(sx.Sym("adderr"))
		}
		return sx.L(append([]sx.V{sx.Sym("ok")}, dumpGraph(g)...)...)
	})
	// node_compare: ((node node) ...) -> signs of Node.Compare; errors are compared as given
	register("node_compare", func(arg sx.V) sx.V {
		mk := func(nd sx.V) resolve.Node {
			n := resolve.Node{Version: vkOf(nd, 0)}
			for _, e := range nd.Nth(4).List() {
				n.Errors = append(n.Errors, resolve.NodeError{Req: vkOf(e, 0), Error: e.Nth(4).Str()})
			}
			return n
		}
		return sgn(mk(arg.Nth(0)).Compare(mk(arg.Nth(1))))
	})
	// nodeerr_compare: (nodeerr nodeerr) -> sign of NodeError.Compare
	register("nodeerr_compare", func(arg sx.V) sx.V {
		mk := func(e sx.V) resolve.NodeError { return resolve.NodeError{Req: vkOf(e, 0), Error: e.Nth(4).Str()} }
		return sgn(mk(arg.Nth(0)).Compare(mk(arg.Nth(1))))
	})
	// deptype_compare: (pairs pairs) -> sign of dep.Type.Compare
	register("deptype_compare", func(arg sx.V) sx.V {
		return sgn(buildDep(arg.Nth(0)).Compare(buildDep(arg.Nth(1))))
	})
}
