package main

import (
	"deps.dev/util/resolve"
	"deps.dev/util/resolve/schema"

	"verifharness/sx"
)

// parseresolve_model (property C04): (system text) -> ("err") | ("ok" nodes edges error)
//
// schema.ParseResolve on the text; the returned (canonical) graph is dumped in the syntax of
// graph.go (dumpGraph), the error text is never compared. A panic is reported as ("panic") by
// the dispatcher. The model side is Resolve/SchemaResolve.v composed with the Canon model of C13.
func init() {
	register("parseresolve_model", func(a sx.V) sx.V {
		g, err := schema.ParseResolve(a.Nth(1).Str(), resolve.System(a.Nth(0).Int()))
		if err != nil {
			return sx.L(sx.Sym("err"))
		}
		return sx.L(append([]sx.V{sx.Sym("ok")}, dumpGraph(g)...)...)
	})
}
