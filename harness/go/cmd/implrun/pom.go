package main

// C15: the documented POM pipeline (profile activation, parent inheritance,
// interpolation, dependency-management import and injection) run on a lineage
// that is carried by the case itself instead of being fetched from the network.
//
// kinds
//
//	pom       (env poms jdktable) -> ("ok" deps mgmt) | ("err")     projects built as Go values
//	pomxml    same case, every project rendered as XML text and decoded by the
//	          package's own decoder (covers UnmarshalXML of String, FalsyBool, Properties)
//	pomrender same case -> the XML texts (used to feed an optional reference run)
//	interp    (table string) -> (result ok) | ("hang")              Project.Interpolate on one field,
//	          under a watchdog
//	jdkprobe  ((spec jdk)*) -> ((spec jdk r)*)   r: 1 passes, 0 does not, 2 error
//	          (the JDK clause of Profile.activated, observed through MergeProfiles)

import (
	"encoding/xml"
	"errors"
	"fmt"
	"os"
	"runtime/debug"
	"strconv"
	"strings"
	"time"

	"deps.dev/util/maven"

	"verifharness/sx"
)

func sxDep(v sx.V) maven.Dependency {
	l := v.List()
	if len(l) != 8 {
		panic(harnessBug{"dependency tuple must have 8 fields"})
	}
	d := maven.Dependency{
		GroupID:    maven.String(l[0].Str()),
		ArtifactID: maven.String(l[1].Str()),
		Version:    maven.String(l[2].Str()),
		Type:       maven.String(l[3].Str()),
		Classifier: maven.String(l[4].Str()),
		Scope:      maven.String(l[5].Str()),
		Optional:   maven.FalsyBool(l[6].Str()),
	}
	for _, e := range l[7].List() {
		d.Exclusions = append(d.Exclusions, maven.Exclusion{GroupID: maven.String(e.Nth(0).Str()), ArtifactID: maven.String(e.Nth(1).Str())})
	}
	return d
}

func sxDeps(v sx.V) []maven.Dependency {
	var out []maven.Dependency
	for _, d := range v.List() {
		out = append(out, sxDep(d))
	}
	return out
}

func sxProps(v sx.V) maven.Properties {
	var out []maven.Property
	for _, p := range v.List() {
		out = append(out, maven.Property{Name: p.Nth(0).Str(), Value: p.Nth(1).Str()})
	}
	return maven.Properties{Properties: out}
}

func sxOS(v sx.V) maven.ActivationOS {
	return maven.ActivationOS{
		Name:    maven.String(v.Nth(0).Str()),
		Family:  maven.String(v.Nth(1).Str()),
		Arch:    maven.String(v.Nth(2).Str()),
		Version: maven.String(v.Nth(3).Str()),
	}
}

// pom := (g a v (pg pa pv) packaging props deps mgmt profiles)
// profile := (id (activeByDefault jdk (osname osfamily osarch osversion) (propname propvalue)) props deps mgmt)
func sxProject(v sx.V) maven.Project {
	l := v.List()
	if len(l) != 9 {
		panic(harnessBug{"pom tuple must have 9 fields"})
	}
	p := maven.Project{
		ProjectKey: maven.ProjectKey{GroupID: maven.String(l[0].Str()), ArtifactID: maven.String(l[1].Str()), Version: maven.String(l[2].Str())},
		Parent: maven.Parent{ProjectKey: maven.ProjectKey{
			GroupID: maven.String(l[3].Nth(0).Str()), ArtifactID: maven.String(l[3].Nth(1).Str()), Version: maven.String(l[3].Nth(2).Str())}},
		Packaging:            maven.String(l[4].Str()),
		Properties:           sxProps(l[5]),
		Dependencies:         sxDeps(l[6]),
		DependencyManagement: maven.DependencyManagement{Dependencies: sxDeps(l[7])},
	}
	for _, pv := range l[8].List() {
		pl := pv.List()
		act := pl[1].List()
		p.Profiles = append(p.Profiles, maven.Profile{
			ID: maven.String(pl[0].Str()),
			Activation: maven.Activation{
				ActiveByDefault: maven.FalsyBool(act[0].Str()),
				JDK:             maven.String(act[1].Str()),
				OS:              sxOS(act[2]),
				Property:        maven.ActivationProperty{Name: maven.String(act[3].Nth(0).Str()), Value: maven.String(act[3].Nth(1).Str())},
			},
			Properties:           sxProps(pl[2]),
			Dependencies:         sxDeps(pl[3]),
			DependencyManagement: maven.DependencyManagement{Dependencies: sxDeps(pl[4])},
		})
	}
	return p
}

// ---- XML rendering (harness side) and decoding (repository side)

func esc(s string) string {
	var sb strings.Builder
	xml.EscapeText(&sb, []byte(s))
	return sb.String()
}

// xmlStyle chooses, deterministically from the case's style number and the position of the text,
// one of the spellings XML allows for the same decoded value.  Style 0 is the plain spelling.
type xmlStyle struct {
	seed uint64
	n    uint64
}

func (st *xmlStyle) pick(k uint64) uint64 {
	if st == nil || st.seed == 0 {
		return 0
	}
	st.n++
	x := st.seed*0x9E3779B97F4A7C15 + st.n*0xBF58476D1CE4E5B9
	x ^= x >> 31
	x *= 0x94D049BB133111EB
	x ^= x >> 29
	return x % k
}

// text writes <name>val</name> in one of its equivalent spellings.
func (st *xmlStyle) text(sb *strings.Builder, name, val string) {
	if val == "" {
		switch st.pick(4) {
		case 1:
			fmt.Fprintf(sb, "<%s/>", name)
		case 2:
			fmt.Fprintf(sb, "<%s>  \n\t </%s>", name, name)
		case 3:
			fmt.Fprintf(sb, "<%s><![CDATA[]]></%s>", name, name)
		default:
			fmt.Fprintf(sb, "<%s></%s>", name, name)
		}
		return
	}
	switch st.pick(8) {
	case 1:
		fmt.Fprintf(sb, "<%s>  %s\n  </%s>", name, esc(val), name)
	case 2:
		if !strings.Contains(val, "]]>") {
			fmt.Fprintf(sb, "<%s><![CDATA[%s]]></%s>", name, val, name)
			return
		}
		fmt.Fprintf(sb, "<%s>%s</%s>", name, esc(val), name)
	case 3:
		if !strings.Contains(val, "]]>") {
			fmt.Fprintf(sb, "<%s> <![CDATA[ %s ]]>\n</%s>", name, val, name)
			return
		}
		fmt.Fprintf(sb, "<%s>%s</%s>", name, esc(val), name)
	default:
		fmt.Fprintf(sb, "<%s>%s</%s>", name, esc(val), name)
	}
}

// el writes an optional element: nothing at all when the value is empty.
func el(st *xmlStyle, sb *strings.Builder, name, val string) {
	if val != "" {
		st.text(sb, name, val)
	}
}

// boolean texts are read case-insensitively
func elBool(st *xmlStyle, sb *strings.Builder, name, val string) {
	if (val == "true" || val == "false") && st.pick(4) == 1 {
		val = strings.ToUpper(val[:1]) + val[1:]
	}
	el(st, sb, name, val)
}

func renderDeps(st *xmlStyle, sb *strings.Builder, deps []maven.Dependency) {
	if len(deps) == 0 {
		return
	}
	sb.WriteString("<dependencies>")
	for _, d := range deps {
		sb.WriteString("<dependency>")
		el(st, sb, "groupId", string(d.GroupID))
		el(st, sb, "artifactId", string(d.ArtifactID))
		el(st, sb, "version", string(d.Version))
		el(st, sb, "type", string(d.Type))
		el(st, sb, "classifier", string(d.Classifier))
		el(st, sb, "scope", string(d.Scope))
		elBool(st, sb, "optional", string(d.Optional))
		if len(d.Exclusions) > 0 {
			sb.WriteString("<exclusions>")
			for _, e := range d.Exclusions {
				sb.WriteString("<exclusion>")
				el(st, sb, "groupId", string(e.GroupID))
				el(st, sb, "artifactId", string(e.ArtifactID))
				sb.WriteString("</exclusion>")
			}
			sb.WriteString("</exclusions>")
		}
		sb.WriteString("</dependency>")
	}
	sb.WriteString("</dependencies>")
}

func renderBase(st *xmlStyle, sb *strings.Builder, props maven.Properties, deps, mgmt []maven.Dependency) {
	if len(props.Properties) > 0 {
		sb.WriteString("<properties>")
		for _, p := range props.Properties {
			// a property is always written, also when its value is empty
			st.text(sb, p.Name, p.Value)
		}
		sb.WriteString("</properties>")
	}
	if len(mgmt) > 0 {
		sb.WriteString("<dependencyManagement>")
		renderDeps(st, sb, mgmt)
		sb.WriteString("</dependencyManagement>")
	}
	renderDeps(st, sb, deps)
}

func renderPOM(p maven.Project, st *xmlStyle) string {
	var sb strings.Builder
	sb.WriteString("<project><modelVersion>4.0.0</modelVersion>")
	if p.Parent.GroupID != "" || p.Parent.ArtifactID != "" || p.Parent.Version != "" {
		sb.WriteString("<parent>")
		el(st, &sb, "groupId", string(p.Parent.GroupID))
		el(st, &sb, "artifactId", string(p.Parent.ArtifactID))
		el(st, &sb, "version", string(p.Parent.Version))
		sb.WriteString("</parent>")
	}
	el(st, &sb, "groupId", string(p.GroupID))
	el(st, &sb, "artifactId", string(p.ArtifactID))
	el(st, &sb, "version", string(p.Version))
	el(st, &sb, "packaging", string(p.Packaging))
	renderBase(st, &sb, p.Properties, p.Dependencies, p.DependencyManagement.Dependencies)
	if len(p.Profiles) > 0 {
		sb.WriteString("<profiles>")
		for _, pr := range p.Profiles {
			sb.WriteString("<profile>")
			el(st, &sb, "id", string(pr.ID))
			a := pr.Activation
			sb.WriteString("<activation>")
			elBool(st, &sb, "activeByDefault", string(a.ActiveByDefault))
			el(st, &sb, "jdk", string(a.JDK))
			if a.OS != (maven.ActivationOS{}) {
				sb.WriteString("<os>")
				el(st, &sb, "name", string(a.OS.Name))
				el(st, &sb, "family", string(a.OS.Family))
				el(st, &sb, "arch", string(a.OS.Arch))
				el(st, &sb, "version", string(a.OS.Version))
				sb.WriteString("</os>")
			}
			if a.Property != (maven.ActivationProperty{}) {
				sb.WriteString("<property>")
				el(st, &sb, "name", string(a.Property.Name))
				el(st, &sb, "value", string(a.Property.Value))
				sb.WriteString("</property>")
			}
			sb.WriteString("</activation>")
			renderBase(st, &sb, pr.Properties, pr.Dependencies, pr.DependencyManagement.Dependencies)
			sb.WriteString("</profile>")
		}
		sb.WriteString("</profiles>")
	}
	sb.WriteString("</project>")
	return sb.String()
}

// ---- the lineage table standing in for the repository

type lineage struct {
	jdk   string
	os    maven.ActivationOS
	root  func() (maven.Project, error)
	fetch func(maven.ProjectKey) (maven.Project, error)
}

// caseStyle is the optional fourth element of a case: how the XML text is spelled (0: plainly).
func caseStyle(arg sx.V) uint64 {
	if l := arg.List(); len(l) > 3 {
		return uint64(l[3].Int())
	}
	return 0
}

// pomStyle gives every POM of a case its own sequence of spellings.
func pomStyle(style uint64, i int) *xmlStyle {
	if style == 0 {
		return nil
	}
	return &xmlStyle{seed: style*1000003 + uint64(i) + 1}
}

func parseLineage(arg sx.V, viaXML bool) lineage {
	env := arg.Nth(0).List()
	var ln lineage
	ln.jdk = env[0].Str()
	ln.os = maven.ActivationOS{Name: maven.String(env[1].Str()), Family: maven.String(env[2].Str()), Arch: maven.String(env[3].Str()), Version: maven.String(env[4].Str())}
	poms := arg.Nth(1).List()
	if len(poms) == 0 {
		panic(harnessBug{"lineage without root"})
	}
	style := caseStyle(arg)
	// Every access builds a fresh value, as decoding a fetched file does.
	get := func(i int, v sx.V) (maven.Project, error) {
		p := sxProject(v)
		if !viaXML {
			return p, nil
		}
		var q maven.Project
		if err := xml.NewDecoder(strings.NewReader(renderPOM(p, pomStyle(style, i)))).Decode(&q); err != nil {
			return maven.Project{}, err
		}
		return q, nil
	}
	ln.root = func() (maven.Project, error) { return get(0, poms[0]) }
	ln.fetch = func(pk maven.ProjectKey) (maven.Project, error) {
		// The key of a stored POM is what its own file declares (group and version may be
		// inherited from its parent element, as Maven allows).
		for i, v := range poms[1:] {
			l := v.List()
			g, a, ver := l[0].Str(), l[1].Str(), l[2].Str()
			if g == "" {
				g = l[3].Nth(0).Str()
			}
			if ver == "" {
				ver = l[3].Nth(2).Str()
			}
			if g == string(pk.GroupID) && a == string(pk.ArtifactID) && ver == string(pk.Version) {
				return get(i+1, v)
			}
		}
		return maven.Project{}, errors.New("not found")
	}
	return ln
}

// maxParent is MaxParent of examples/go/maven_parse_resolve/main.go.
const maxParent = 100

// mergeParents is mergeParents of examples/go/maven_parse_resolve/main.go with
// fetchProject replaced by the case's table (the documented order: per ancestor
// MergeProfiles then MergeParent, and Interpolate at the end).
func (ln lineage) mergeParents(current maven.ProjectKey, start int, result *maven.Project) error {
	visited := make(map[maven.ProjectKey]bool, maxParent)
	for n := start; n < maxParent; n++ {
		if current.GroupID == "" || current.ArtifactID == "" || current.Version == "" {
			break
		}
		if visited[current] {
			return errors.New("cycle of parent projects")
		}
		visited[current] = true

		proj, err := ln.fetch(current)
		if err != nil {
			return err
		}
		if n > 0 && proj.Packaging != "pom" {
			return fmt.Errorf("invalid packaging for parent project %s", proj.Packaging)
		}
		if err := proj.MergeProfiles(ln.jdk, ln.os); err != nil {
			return err
		}
		result.MergeParent(proj)
		current = proj.Parent.ProjectKey
	}
	return result.Interpolate()
}

// effective is the whole documented pipeline: the root's own profiles are merged
// first (util/resolve/maven.go mavenRequirements), then mergeParents, then
// ProcessDependencies with imports served by mergeParents on an empty project
// (examples/go/maven_parse_resolve main).
func (ln lineage) effective() (maven.Project, error) {
	project, err := ln.root()
	if err != nil {
		return maven.Project{}, err
	}
	if err := project.MergeProfiles(ln.jdk, ln.os); err != nil {
		return maven.Project{}, err
	}
	if err := ln.mergeParents(project.Parent.ProjectKey, 1, &project); err != nil {
		return maven.Project{}, err
	}
	project.ProcessDependencies(func(groupID, artifactID, version maven.String) (maven.DependencyManagement, error) {
		var result maven.Project
		root := maven.ProjectKey{GroupID: groupID, ArtifactID: artifactID, Version: version}
		if err := ln.mergeParents(root, 0, &result); err != nil {
			return maven.DependencyManagement{}, err
		}
		return result.DependencyManagement, nil
	})
	return project, nil
}

func depsOut(deps []maven.Dependency) sx.V {
	out := make([]sx.V, 0, len(deps))
	for _, d := range deps {
		exs := make([]sx.V, 0, len(d.Exclusions))
		for _, e := range d.Exclusions {
			exs = append(exs, sx.L(sx.B(string(e.GroupID)), sx.B(string(e.ArtifactID))))
		}
		out = append(out, sx.L(sx.B(string(d.GroupID)), sx.B(string(d.ArtifactID)), sx.B(string(d.Version)), sx.B(string(d.Type)),
			sx.B(string(d.Classifier)), sx.B(string(d.Scope)), sx.B(string(d.Optional)), sx.L(exs...)))
	}
	return sx.L(out...)
}

func propsOut(ps maven.Properties) sx.V {
	out := make([]sx.V, 0, len(ps.Properties))
	for _, p := range ps.Properties {
		out = append(out, sx.L(sx.B(p.Name), sx.B(p.Value)))
	}
	return sx.L(out...)
}

// projectOut is the inverse of sxProject.
func projectOut(p maven.Project) sx.V {
	profs := make([]sx.V, 0, len(p.Profiles))
	for _, pr := range p.Profiles {
		a := pr.Activation
		profs = append(profs, sx.L(sx.B(string(pr.ID)),
			sx.L(sx.B(string(a.ActiveByDefault)), sx.B(string(a.JDK)),
				sx.L(sx.B(string(a.OS.Name)), sx.B(string(a.OS.Family)), sx.B(string(a.OS.Arch)), sx.B(string(a.OS.Version))),
				sx.L(sx.B(string(a.Property.Name)), sx.B(string(a.Property.Value)))),
			propsOut(pr.Properties), depsOut(pr.Dependencies), depsOut(pr.DependencyManagement.Dependencies)))
	}
	return sx.L(sx.B(string(p.GroupID)), sx.B(string(p.ArtifactID)), sx.B(string(p.Version)),
		sx.L(sx.B(string(p.Parent.GroupID)), sx.B(string(p.Parent.ArtifactID)), sx.B(string(p.Parent.Version))),
		sx.B(string(p.Packaging)), propsOut(p.Properties), depsOut(p.Dependencies), depsOut(p.DependencyManagement.Dependencies),
		sx.L(profs...))
}

func pomHandler(viaXML bool) handler {
	return func(arg sx.V) sx.V {
		ln := parseLineage(arg, viaXML)
		p, err := ln.effective()
		if err != nil {
			return sx.L(sx.Sym("err"))
		}
		return sx.L(sx.Sym("ok"), depsOut(p.Dependencies), depsOut(p.DependencyManagement.Dependencies))
	}
}

// interpolate one string against a property table through the exported API:
// a project whose only content is the table and one dependency carrying the string
// as its version.  Interpolate drops the dependency when the flag is false, so the
// string is also carried by Packaging, which is always kept.
func interpOnce(table sx.V, s string) sx.V {
	p := maven.Project{Properties: sxProps(table), Packaging: maven.String(s)}
	p.Dependencies = []maven.Dependency{{GroupID: "g", ArtifactID: "a", Version: maven.String(s)}}
	if err := p.Interpolate(); err != nil {
		return sx.L(sx.Sym("err"))
	}
	return sx.L(sx.B(string(p.Packaging)), sx.Bool(len(p.Dependencies) == 1))
}

// interpLimit is the wall-clock limit of one interpolation (VERIF_INTERP_TIMEOUT seconds, default 20).
// The driver repeats a "hang" alone with ten times the limit before it reports it.
func interpLimit() time.Duration {
	if v, err := strconv.Atoi(os.Getenv("VERIF_INTERP_TIMEOUT")); err == nil && v > 0 {
		return time.Duration(v) * time.Second
	}
	return 20 * time.Second
}

func interpHandler(arg sx.V) sx.V {
	table, s := arg.Nth(0), arg.Nth(1).Str()
	done := make(chan sx.V, 1)
	go func() {
		defer func() {
			if r := recover(); r != nil {
				done <- sx.L(sx.Sym("panic"))
			}
		}()
		done <- interpOnce(table, s)
	}()
	select {
	case v := <-done:
		return v
	case <-time.After(interpLimit()):
		return sx.L(sx.Sym("hang"))
	}
}

func jdkProbe(arg sx.V) sx.V {
	var out []sx.V
	for _, q := range arg.List() {
		spec, jdk := q.Nth(0).Str(), q.Nth(1).Str()
		p := maven.Project{Profiles: []maven.Profile{{
			Activation:   maven.Activation{JDK: maven.String(spec)},
			Dependencies: []maven.Dependency{{GroupID: "probe", ArtifactID: "probe"}},
		}}}
		r := 0
		// A non-blank OS setting skips the early return; the profile has no OS clause.
		if err := p.MergeProfiles(jdk, maven.ActivationOS{Name: "probe"}); err != nil {
			r = 2
		} else if len(p.Dependencies) == 1 {
			r = 1
		}
		out = append(out, sx.L(sx.B(spec), sx.B(jdk), sx.Int(r)))
	}
	return sx.L(out...)
}

func init() {
	// A runaway recursion is a fatal error in Go (not a panic); with a smaller stack limit the
	// process dies quickly and the driver bisects to the input.  1000-deep property chains need
	// well under a megabyte.
	debug.SetMaxStack(64 << 20)
	register("pom", pomHandler(false))
	register("pomxml", pomHandler(true))
	register("pomrender", func(arg sx.V) sx.V {
		var out []sx.V
		for i, v := range arg.Nth(1).List() {
			out = append(out, sx.B(renderPOM(sxProject(v), pomStyle(caseStyle(arg), i))))
		}
		return sx.L(out...)
	})
	// what the package's decoder makes of the XML texts, in the form of the case's own POMs
	register("pomdecode", func(arg sx.V) sx.V {
		var out []sx.V
		for i, v := range arg.Nth(1).List() {
			var q maven.Project
			if err := xml.NewDecoder(strings.NewReader(renderPOM(sxProject(v), pomStyle(caseStyle(arg), i)))).Decode(&q); err != nil {
				return sx.L(sx.Sym("err"))
			}
			out = append(out, projectOut(q))
		}
		return sx.L(sx.Sym("ok"), sx.L(out...))
	})
	register("interp", interpHandler)
	register("jdkprobe", jdkProbe)
}
