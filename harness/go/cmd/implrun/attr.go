package main

import (
	"deps.dev/util/resolve"
	"deps.dev/util/resolve/dep"
	"deps.dev/util/resolve/schema"
	"deps.dev/util/resolve/version"

	"verifharness/sx"
)

// singleBitKeys are the negative keys whose GetAttr reads exactly one mask bit.
var singleBitKeys = []int{-1, -2, -4, -8, -16, -32, -64, -128}

func dumpDep(t *dep.Type) sx.V {
	var out []sx.V
	for _, k := range singleBitKeys {
		if _, ok := t.GetAttr(dep.AttrKey(k)); ok {
			out = append(out, sx.L(sx.Int(k), sx.B("")))
		}
	}
	for k := 0; k < 128; k++ {
		if v, ok := t.GetAttr(dep.AttrKey(k)); ok {
			out = append(out, sx.L(sx.Int(k), sx.B(v)))
		}
	}
	return sx.L(out...)
}

func dumpVer(t version.AttrSet) sx.V {
	var out []sx.V
	for _, k := range singleBitKeys {
		if _, ok := t.GetAttr(version.AttrKey(k)); ok {
			out = append(out, sx.L(sx.Int(k), sx.B("")))
		}
	}
	for k := 0; k < 128; k++ {
		if v, ok := t.GetAttr(version.AttrKey(k)); ok {
			out = append(out, sx.L(sx.Int(k), sx.B(v)))
		}
	}
	return sx.L(out...)
}

func buildDep(pairs sx.V) dep.Type {
	var t dep.Type
	for _, p := range pairs.List() {
		t.AddAttr(dep.AttrKey(p.Nth(0).Int()), p.Nth(1).Str())
	}
	return t
}

func buildVer(pairs sx.V) version.AttrSet {
	var t version.AttrSet
	for _, p := range pairs.List() {
		t.SetAttr(version.AttrKey(p.Nth(0).Int()), p.Nth(1).Str())
	}
	return t
}

func safely(f func()) (panicked bool) {
	defer func() {
		if r := recover(); r != nil {
			panicked = true
		}
	}()
	f()
	return false
}

const attrVars = 4

// attr_history: (flavor ops); ops:
// (0 v key val) set/add; (1 dst src) clone; (2 dst src) plain Go assignment;
// (3 a b) compare; (4 a key) getattr; (5 a) String; (6 a) IsRegular/Empty;
// (7 a) dump.
func attrHistory(arg sx.V) sx.V {
	flavor := arg.Nth(0).Int()
	var out []sx.V
	if flavor == 0 {
		vars := make([]dep.Type, attrVars)
		for _, op := range arg.Nth(1).List() {
			o := op.List()
			switch o[0].Int() {
			case 0:
				v, k, val := o[1].Int(), o[2].Int(), o[3].Str()
				if safely(func() { vars[v].AddAttr(dep.AttrKey(k), val) }) {
					out = append(out, sx.Sym("panic"))
				}
			case 1:
				vars[o[1].Int()] = vars[o[2].Int()].Clone()
			case 2:
				vars[o[1].Int()] = vars[o[2].Int()]
			case 3:
				out = append(out, sx.Int(vars[o[1].Int()].Compare(vars[o[2].Int()])))
			case 4:
				v, ok := vars[o[1].Int()].GetAttr(dep.AttrKey(o[2].Int()))
				out = append(out, sx.L(sx.B(v), sx.Bool(ok)))
			case 5:
				out = append(out, sx.B(vars[o[1].Int()].String()))
			case 6:
				out = append(out, sx.Bool(vars[o[1].Int()].IsRegular()))
			case 7:
				out = append(out, dumpDep(&vars[o[1].Int()]))
			default:
				panic(harnessBug{"bad attr op"})
			}
		}
	} else {
		vars := make([]version.AttrSet, attrVars)
		for _, op := range arg.Nth(1).List() {
			o := op.List()
			switch o[0].Int() {
			case 0:
				v, k, val := o[1].Int(), o[2].Int(), o[3].Str()
				if safely(func() { vars[v].SetAttr(version.AttrKey(k), val) }) {
					out = append(out, sx.Sym("panic"))
				}
			case 1:
				vars[o[1].Int()] = vars[o[2].Int()].Clone()
			case 2:
				vars[o[1].Int()] = vars[o[2].Int()]
			case 3:
				// version.AttrSet exposes Equal only.
				out = append(out, sx.Bool(vars[o[1].Int()].Equal(vars[o[2].Int()])))
			case 4:
				v, ok := vars[o[1].Int()].GetAttr(version.AttrKey(o[2].Int()))
				out = append(out, sx.L(sx.B(v), sx.Bool(ok)))
			case 5:
				out = append(out, sx.B(vars[o[1].Int()].String()))
			case 6:
				out = append(out, sx.Bool(vars[o[1].Int()].Empty()))
			case 7:
				out = append(out, dumpVer(vars[o[1].Int()]))
			default:
				panic(harnessBug{"bad attr op"})
			}
		}
	}
	return sx.L(out...)
}

func errOr(err error, ok sx.V) sx.V {
	if err != nil {
		return sx.L(sx.Sym("err"))
	}
	return sx.L(sx.Sym("ok"), ok)
}

func init() {
	register("attr_history", attrHistory)
	register("dep_keyname", func(a sx.V) sx.V { return sx.B(dep.AttrKey(a.Int()).String()) })
	register("ver_keyname", func(a sx.V) sx.V { return sx.B(version.AttrKey(a.Int()).String()) })
	register("dep_parse", func(a sx.V) sx.V {
		t, err := schema.VerifDepParseString(a.Str())
		return errOr(err, dumpDep(&t))
	})
	register("ver_parse", func(a sx.V) sx.V {
		t, err := schema.VerifVersionParseString(a.Str())
		return errOr(err, dumpVer(t))
	})
	register("ver_parse_single", func(a sx.V) sx.V {
		t, err := schema.VerifVersionParseSingle(a.Str())
		return errOr(err, dumpVer(t))
	})
	register("ver_write", func(a sx.V) sx.V {
		return sx.B(schema.VerifVersionString(buildVer(a)))
	})
	register("dep_string", func(a sx.V) sx.V {
		t := buildDep(a)
		return sx.B(t.String())
	})
	// via_schema: (which text): the same texts through the entry points the schema syntax is used by:
	// 0 = dependency type on an edge of schema.ParseResolve, 1 = dependency type on an import of schema.New,
	// 2 = version attributes on a version line of schema.New.  -> ("ok" dump) | ("err") | ("missing")
	register("via_schema", func(a sx.V) sx.V {
		which, text := a.Nth(0).Int(), a.Nth(1).Str()
		switch which {
		case 0:
			g, err := schema.ParseResolve("a 1.0.0\n\t"+text+"|b@^1 1.0.0\n", resolve.NPM)
			if err != nil {
				return sx.L(sx.Sym("err"))
			}
			if len(g.Edges) != 1 {
				return sx.L(sx.Sym("missing"))
			}
			t := g.Edges[0].Type
			return sx.L(sx.Sym("ok"), dumpDep(&t))
		case 1:
			sc, err := schema.New("a\n\t1.0.0\n\t\t"+text+"|b@^1\nb\n\t1.0.0\n", resolve.NPM)
			if err != nil {
				return sx.L(sx.Sym("err"))
			}
			pa := sc.Package("a")
			if pa == nil || len(pa.Versions) != 1 || len(pa.Versions[0].Requirements) != 1 {
				return sx.L(sx.Sym("missing"))
			}
			r := pa.Versions[0].Requirements[0]
			t := r.Type
			return sx.L(sx.Sym("ok"), dumpDep(&t), sx.B(r.Name))
		default:
			sc, err := schema.New("a\n\t"+text+"|1.0.0\n", resolve.NPM)
			if err != nil {
				return sx.L(sx.Sym("err"))
			}
			pa := sc.Package("a")
			if pa == nil || len(pa.Versions) != 1 {
				return sx.L(sx.Sym("missing"))
			}
			return sx.L(sx.Sym("ok"), dumpVer(pa.Versions[0].Attr), sx.B(pa.Versions[0].Version))
		}
	})
	// attr_equal: (flavor pairsA pairsB) -> (Equal(a,b) Equal(b,a) Compare-or-0 dumpA dumpB): equality is observed
	// through every exported entry point, in both directions
	register("attr_equal", func(a sx.V) sx.V {
		if a.Nth(0).Int() == 0 {
			x, y := buildDep(a.Nth(1)), buildDep(a.Nth(2))
			return sx.L(sx.Bool(x.Equal(y)), sx.Bool(y.Equal(x)), sx.Int(x.Compare(y)), dumpDep(&x), dumpDep(&y))
		}
		x, y := buildVer(a.Nth(1)), buildVer(a.Nth(2))
		return sx.L(sx.Bool(x.Equal(y)), sx.Bool(y.Equal(x)), sx.Int(0), dumpVer(x), dumpVer(y))
	})
	// parse_twice: (flavor text key val): parse, dump, write one attribute into the RESULT, parse the same text
	// again and dump: a parsed set is a value of its own, so both dumps are equal
	register("parse_twice", func(a sx.V) sx.V {
		text, k, val := a.Nth(1).Str(), a.Nth(2).Int(), a.Nth(3).Str()
		if a.Nth(0).Int() == 0 {
			t1, err := schema.VerifDepParseString(text)
			if err != nil {
				return sx.L(sx.Sym("err"))
			}
			d1 := dumpDep(&t1)
			safely(func() { t1.AddAttr(dep.AttrKey(k), val) })
			t2, err := schema.VerifDepParseString(text)
			if err != nil {
				return sx.L(sx.Sym("err2"))
			}
			return sx.L(sx.Sym("ok"), d1, dumpDep(&t2))
		}
		t1, err := schema.VerifVersionParseString(text)
		if err != nil {
			return sx.L(sx.Sym("err"))
		}
		d1 := dumpVer(t1)
		safely(func() { t1.SetAttr(version.AttrKey(k), val) })
		t2, err := schema.VerifVersionParseString(text)
		if err != nil {
			return sx.L(sx.Sym("err2"))
		}
		return sx.L(sx.Sym("ok"), d1, dumpVer(t2))
	})
}
