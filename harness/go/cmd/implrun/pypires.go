package main

// PyPI resolver (property C08).
//
// Kinds:
//
//	pypi_record  (universe (root...))  Go only, one case per universe. Resolves on the real LocalClient, (a) raw, several
//	             times on fresh clients, (b) through a RECORDING client that logs every answer
//	             at call time (the resolver no longer writes to the client's slices since the
//	             repair of F-C05-1, so the answers are handed on as they are). Returns the
//	             observables of both, the recorded table, the semver/marker oracle tables the
//	             model needs, and the universe-level answers the direct oracle needs.
//	pypi         (oracles ((root table)...))  both sides, one case per universe. Go runs the real
//	             resolver against a client that answers from the table only; the model resolves
//	             against the same table.
//
// Shapes: vk = (name vtype version); req = (name vtype version typedump);
// typedump = ((key value)...) as in attr.go; an answer is (1 (items...)) or (0) for an error.

import (
	"context"
	"errors"
	"sort"
	"strings"
	"syscall"
	"time"

	"deps.dev/util/resolve"
	"deps.dev/util/resolve/dep"
	"deps.dev/util/resolve/pypi"
	"deps.dev/util/semver"

	"verifharness/sx"
)

func pyVkSx(vk resolve.VersionKey) sx.V {
	return sx.L(sx.B(vk.Name), sx.Int(int(vk.VersionType)), sx.B(vk.Version))
}

func pySxVK(v sx.V) resolve.VersionKey {
	return resolve.VersionKey{
		PackageKey:  resolve.PackageKey{System: resolve.PyPI, Name: v.Nth(0).Str()},
		VersionType: resolve.VersionType(v.Nth(1).Int()),
		Version:     v.Nth(2).Str(),
	}
}

func pyReqSx(r resolve.RequirementVersion) sx.V {
	t := r.Type
	return sx.L(sx.B(r.Name), sx.Int(int(r.VersionType)), sx.B(r.Version), dumpDep(&t))
}

func pySxReq(v sx.V) resolve.RequirementVersion {
	return resolve.RequirementVersion{
		VersionKey: pySxVK(v),
		Type:       buildDep(v.Nth(3)),
	}
}

// universe: ((pkgname ((version ((depname reqstring typedump) ...)) ...)) ...)
type pyUniverse struct {
	arg sx.V
}

func (u pyUniverse) client() *resolve.LocalClient {
	lc := resolve.NewLocalClient()
	for _, p := range u.arg.List() {
		pk := resolve.PackageKey{System: resolve.PyPI, Name: p.Nth(0).Str()}
		for _, v := range p.Nth(1).List() {
			vk := resolve.VersionKey{PackageKey: pk, VersionType: resolve.Concrete, Version: v.Nth(0).Str()}
			var reqs []resolve.RequirementVersion
			for _, d := range v.Nth(1).List() {
				reqs = append(reqs, resolve.RequirementVersion{
					VersionKey: resolve.VersionKey{
						PackageKey:  resolve.PackageKey{System: resolve.PyPI, Name: d.Nth(0).Str()},
						VersionType: resolve.Requirement,
						Version:     d.Nth(1).Str(),
					},
					Type: buildDep(d.Nth(2)),
				})
			}
			lc.AddVersion(resolve.Version{VersionKey: vk}, reqs)
		}
	}
	return lc
}

// ---- observables

func pyObserve(g *resolve.Graph, err error) sx.V {
	if err != nil {
		return sx.L(sx.Sym("harderr"))
	}
	if g.Error != "" {
		// presence only: the text of a graph-level error is never compared
		return sx.L(sx.Sym("gerr"))
	}
	canon := 1
	if cerr := g.Canon(); cerr != nil {
		canon = 0
	}
	var nodes []sx.V
	nerrs := 0
	for _, n := range g.Nodes {
		nodes = append(nodes, pyVkSx(n.Version))
		nerrs += len(n.Errors)
	}
	var edges []sx.V
	for _, e := range g.Edges {
		t := e.Type
		edges = append(edges, sx.L(pyVkSx(g.Nodes[e.From].Version), pyVkSx(g.Nodes[e.To].Version), sx.B(e.Requirement), dumpDep(&t)))
	}
	return sx.L(sx.Sym("ok"), sx.L(nodes...), sx.L(edges...), sx.Int(nerrs), sx.Int(canon))
}

// A resolution of these small universes takes milliseconds. A resolver that no longer terminates
// (the main loop polls the context every 100 rounds, backtrack does not) is abandoned in its
// goroutine and reported as ("timeout"), which the model never answers. The allowance is CPU time
// of this process, not wall-clock time, so that a stalled machine cannot produce a timeout. After a
// few of them the allowance shrinks, and after more the process stops resolving at all, so that a
// run ends.
var pyTimeouts int

func pyCPU() time.Duration {
	var ru syscall.Rusage
	if err := syscall.Getrusage(syscall.RUSAGE_SELF, &ru); err != nil {
		return 0
	}
	return time.Duration(ru.Utime.Nano() + ru.Stime.Nano())
}

func pyResolve(c resolve.Client, root resolve.VersionKey) sx.V {
	if pyTimeouts >= 8 {
		return sx.L(sx.Sym("timeout"))
	}
	limit := 20 * time.Second
	if pyTimeouts >= 3 {
		limit = 2 * time.Second
	}
	ctx, cancel := context.WithCancel(context.Background())
	defer cancel()
	done := make(chan sx.V, 1)
	go func() {
		defer func() {
			if r := recover(); r != nil {
				done <- sx.L(sx.Sym("panic"))
			}
		}()
		r := pypi.NewResolver(c)
		g, err := r.Resolve(ctx, root)
		if err != nil && ctx.Err() != nil {
			done <- sx.L(sx.Sym("timeout"))
			return
		}
		done <- pyObserve(g, err)
	}()
	start := pyCPU()
	tick := time.NewTicker(50 * time.Millisecond)
	defer tick.Stop()
	for {
		select {
		case o := <-done:
			return o
		case <-tick.C:
			if pyCPU()-start > limit {
				pyTimeouts++
				cancel()
				return sx.L(sx.Sym("timeout"))
			}
		}
	}
}

// ---- recording client

type pyRecEntry struct {
	key sx.V
	val sx.V
}

type pyRecClient struct {
	inner        *resolve.LocalClient
	versions     []pyRecEntry
	requirements []pyRecEntry
	matching     []pyRecEntry
	seen         map[string]string
	inconsistent bool
}

func (rc *pyRecClient) note(tab *[]pyRecEntry, tag string, key, val sx.V) {
	k := tag + key.String()
	v := val.String()
	if old, ok := rc.seen[k]; ok {
		if old != v {
			rc.inconsistent = true
		}
		return
	}
	rc.seen[k] = v
	*tab = append(*tab, pyRecEntry{key, val})
}

func (rc *pyRecClient) Version(ctx context.Context, vk resolve.VersionKey) (resolve.Version, error) {
	return rc.inner.Version(ctx, vk)
}

func (rc *pyRecClient) Versions(ctx context.Context, pk resolve.PackageKey) ([]resolve.Version, error) {
	vs, err := rc.inner.Versions(ctx, pk)
	if err != nil {
		rc.note(&rc.versions, "V", sx.B(pk.Name), sx.L(sx.Int(0)))
		return nil, err
	}
	var items []sx.V
	for _, v := range vs {
		items = append(items, pyVkSx(v.VersionKey))
	}
	rc.note(&rc.versions, "V", sx.B(pk.Name), sx.L(sx.Int(1), sx.L(items...)))
	return vs, nil
}

func (rc *pyRecClient) Requirements(ctx context.Context, vk resolve.VersionKey) ([]resolve.RequirementVersion, error) {
	rs, err := rc.inner.Requirements(ctx, vk)
	if err != nil {
		rc.note(&rc.requirements, "R", pyVkSx(vk), sx.L(sx.Int(0)))
		return nil, err
	}
	var items []sx.V
	for _, r := range rs {
		items = append(items, pyReqSx(r))
	}
	rc.note(&rc.requirements, "R", pyVkSx(vk), sx.L(sx.Int(1), sx.L(items...)))
	return rs, nil
}

func (rc *pyRecClient) MatchingVersions(ctx context.Context, vk resolve.VersionKey) ([]resolve.Version, error) {
	vs, err := rc.inner.MatchingVersions(ctx, vk)
	if err != nil {
		rc.note(&rc.matching, "M", pyVkSx(vk), sx.L(sx.Int(0)))
		return nil, err
	}
	var items []sx.V
	for _, v := range vs {
		items = append(items, pyVkSx(v.VersionKey))
	}
	rc.note(&rc.matching, "M", pyVkSx(vk), sx.L(sx.Int(1), sx.L(items...)))
	return vs, nil
}

func pyEntriesSx(es []pyRecEntry) sx.V {
	var out []sx.V
	for _, e := range es {
		out = append(out, sx.L(e.key, e.val))
	}
	return sx.L(out...)
}

// ---- table client (answers only from a recorded table)

type pyTabClient struct {
	versions     map[string]sx.V
	requirements map[string]sx.V
	matching     map[string]sx.V
	missing      int
}

var pyErrTable = errors.New("table client: error answer")

func pyNewTabClient(tab sx.V) *pyTabClient {
	tc := &pyTabClient{versions: map[string]sx.V{}, requirements: map[string]sx.V{}, matching: map[string]sx.V{}}
	for _, e := range tab.Nth(0).List() {
		tc.versions[e.Nth(0).String()] = e.Nth(1)
	}
	for _, e := range tab.Nth(1).List() {
		tc.requirements[e.Nth(0).String()] = e.Nth(1)
	}
	for _, e := range tab.Nth(2).List() {
		tc.matching[e.Nth(0).String()] = e.Nth(1)
	}
	return tc
}

func (tc *pyTabClient) answer(m map[string]sx.V, key sx.V) ([]sx.V, error) {
	a, ok := m[key.String()]
	if !ok {
		tc.missing++
		return nil, pyErrTable
	}
	if a.Nth(0).Int() == 0 {
		return nil, pyErrTable
	}
	return a.Nth(1).List(), nil
}

func (tc *pyTabClient) Version(ctx context.Context, vk resolve.VersionKey) (resolve.Version, error) {
	tc.missing++
	return resolve.Version{}, pyErrTable
}

func (tc *pyTabClient) Versions(ctx context.Context, pk resolve.PackageKey) ([]resolve.Version, error) {
	l, err := tc.answer(tc.versions, sx.B(pk.Name))
	if err != nil {
		return nil, err
	}
	var out []resolve.Version
	for _, v := range l {
		out = append(out, resolve.Version{VersionKey: pySxVK(v)})
	}
	return out, nil
}

func (tc *pyTabClient) Requirements(ctx context.Context, vk resolve.VersionKey) ([]resolve.RequirementVersion, error) {
	l, err := tc.answer(tc.requirements, pyVkSx(vk))
	if err != nil {
		return nil, err
	}
	var out []resolve.RequirementVersion
	for _, r := range l {
		out = append(out, pySxReq(r))
	}
	return out, nil
}

func (tc *pyTabClient) MatchingVersions(ctx context.Context, vk resolve.VersionKey) ([]resolve.Version, error) {
	l, err := tc.answer(tc.matching, pyVkSx(vk))
	if err != nil {
		return nil, err
	}
	var out []resolve.Version
	for _, v := range l {
		out = append(out, resolve.Version{VersionKey: pySxVK(v)})
	}
	return out, nil
}

// ---- oracle tables (what resolve.go asks of semver and of the marker evaluator)

func pySubsets(names []string) [][]string {
	out := [][]string{nil}
	for _, n := range names {
		k := len(out)
		for i := 0; i < k; i++ {
			s := append(append([]string(nil), out[i]...), n)
			out = append(out, s)
		}
	}
	for _, s := range out {
		sort.Strings(s)
	}
	return out
}

func pyOracles(u pyUniverse) (oracles sx.V, direct sx.V) {
	extraSet := map[string]bool{}
	markerSet := map[string]bool{}
	type pr struct{ pkg, req string }
	reqSet := map[pr]bool{}
	versionsOf := map[string][]string{}
	var pkgOrder []string
	for _, p := range u.arg.List() {
		name := p.Nth(0).Str()
		pkgOrder = append(pkgOrder, name)
		for _, v := range p.Nth(1).List() {
			versionsOf[name] = append(versionsOf[name], v.Nth(0).Str())
			for _, d := range v.Nth(1).List() {
				reqSet[pr{d.Nth(0).Str(), d.Nth(1).Str()}] = true
				t := buildDep(d.Nth(2))
				if m, ok := t.GetAttr(dep.Environment); ok {
					markerSet[m] = true
				}
				if es, ok := t.GetAttr(dep.EnabledDependencies); ok {
					for _, e := range strings.Split(es, ",") {
						extraSet[e] = true
					}
				}
			}
		}
	}
	var extras, markers []string
	for e := range extraSet {
		extras = append(extras, e)
	}
	sort.Strings(extras)
	if len(extras) > 6 {
		panic(harnessBug{"too many extras for the marker table"})
	}
	for m := range markerSet {
		markers = append(markers, m)
	}
	sort.Strings(markers)
	var mk []sx.V
	for _, m := range markers {
		for _, s := range pySubsets(extras) {
			em := map[string]bool{}
			var el []sx.V
			for _, e := range s {
				em[e] = true
				el = append(el, sx.B(e))
			}
			ok, val, _ := pypi.VerifParseEvalMarker(m, em)
			mk = append(mk, sx.L(sx.B(m), sx.L(el...), sx.Bool(ok), sx.Bool(val)))
		}
	}
	var reqs []pr
	for r := range reqSet {
		reqs = append(reqs, r)
	}
	sort.Slice(reqs, func(i, j int) bool {
		if reqs[i].pkg != reqs[j].pkg {
			return reqs[i].pkg < reqs[j].pkg
		}
		return reqs[i].req < reqs[j].req
	})
	var cons, prem, dir []sx.V
	seenCons := map[string]bool{}
	seenPrem := map[[2]string]bool{}
	pristine := u.client()
	for _, r := range reqs {
		c, err := semver.PyPI.ParseConstraint(r.req)
		if !seenCons[r.req] {
			seenCons[r.req] = true
			cons = append(cons, sx.L(sx.B(r.req), sx.Bool(err == nil), sx.Bool(err == nil && c.HasPrerelease())))
		}
		var withPre []sx.V
		for _, v := range versionsOf[r.pkg] {
			m := false
			if err == nil {
				if ver, perr := semver.PyPI.Parse(v); perr == nil {
					m = c.MatchVersionPrerelease(ver)
				}
			}
			if m {
				withPre = append(withPre, sx.B(v))
			}
			k := [2]string{r.req, v}
			if !seenPrem[k] {
				seenPrem[k] = true
				prem = append(prem, sx.L(sx.B(r.req), sx.B(v), sx.Bool(m)))
			}
		}
		// what the pristine client answers for this requirement (direct oracle)
		mvs, merr := pristine.MatchingVersions(context.Background(), resolve.VersionKey{
			PackageKey:  resolve.PackageKey{System: resolve.PyPI, Name: r.pkg},
			VersionType: resolve.Requirement,
			Version:     r.req,
		})
		var ml []sx.V
		for _, v := range mvs {
			ml = append(ml, sx.B(v.Version))
		}
		dir = append(dir, sx.L(sx.B(r.pkg), sx.B(r.req), sx.Bool(merr == nil), sx.L(ml...), sx.L(withPre...),
			sx.Bool(err == nil && c.HasPrerelease())))
	}
	var vlt []sx.V
	seenLt := map[[2]string]bool{}
	for _, p := range pkgOrder {
		vs := versionsOf[p]
		for _, a := range vs {
			for _, b := range vs {
				k := [2]string{a, b}
				if seenLt[k] {
					continue
				}
				seenLt[k] = true
				av, _ := semver.PyPI.Parse(a)
				bv, _ := semver.PyPI.Parse(b)
				lt := false
				if av == nil || bv == nil {
					lt = a < b
				} else {
					lt = av.Compare(bv) < 0
				}
				vlt = append(vlt, sx.L(sx.B(a), sx.B(b), sx.Bool(lt)))
			}
		}
	}
	return sx.L(sx.L(mk...), sx.L(cons...), sx.L(prem...), sx.L(vlt...)), sx.L(dir...)
}

// pyCanonObs sorts what came out of maps: the nodes after the root and the edges.
func pyCanonObs(o sx.V) sx.V {
	if o.Kind != 2 || len(o.L) != 5 || o.L[0].Kind != 1 || o.L[0].B != "ok" {
		return o
	}
	nodes := append([]sx.V(nil), o.L[1].L...)
	if len(nodes) > 1 {
		rest := nodes[1:]
		sort.Slice(rest, func(i, j int) bool { return rest[i].String() < rest[j].String() })
	}
	edges := append([]sx.V(nil), o.L[2].L...)
	sort.Slice(edges, func(i, j int) bool { return edges[i].String() < edges[j].String() })
	return sx.L(o.L[0], sx.L(nodes...), sx.L(edges...), o.L[3], o.L[4])
}

func pyTableWF(rc *pyRecClient) bool {
	for _, e := range rc.versions {
		if e.val.Nth(0).Int() == 1 {
			for _, v := range e.val.Nth(1).List() {
				if v.Nth(0).Str() != e.key.Str() {
					return false
				}
			}
		}
	}
	for _, e := range rc.matching {
		if e.val.Nth(0).Int() == 1 {
			for _, v := range e.val.Nth(1).List() {
				if v.Nth(0).Str() != e.key.Nth(0).Str() || v.Nth(1).Int() != int64(resolve.Concrete) {
					return false
				}
			}
		}
	}
	for _, e := range rc.requirements {
		if e.val.Nth(0).Int() == 1 {
			for _, r := range e.val.Nth(1).List() {
				if r.Nth(1).Int() != int64(resolve.Requirement) {
					return false
				}
			}
		}
	}
	return true
}

// pyTableOrdered: the hypotheses of C08_candidates_exact_client_partial on a recorded table: every
// MatchingVersions and Versions answer is strictly ascending under semver.PyPI's comparison (which is
// also what the comparator of matchingVersionsWithPrereleases decides).
func pyTableOrdered(rc *pyRecClient) bool {
	asc := func(items []sx.V) bool {
		for i := 1; i < len(items); i++ {
			a, ea := semver.PyPI.Parse(items[i-1].Nth(2).Str())
			b, eb := semver.PyPI.Parse(items[i].Nth(2).Str())
			if ea != nil || eb != nil || a.Compare(b) >= 0 {
				return false
			}
		}
		return true
	}
	for _, tab := range [][]pyRecEntry{rc.matching, rc.versions} {
		for _, e := range tab {
			if e.val.Nth(0).Int() == 1 && !asc(e.val.Nth(1).List()) {
				return false
			}
		}
	}
	return true
}

func init() {
	// (universe (root...)) -> (markers direct ((rec rawdiffers rawobs nondet inconsistent wf rejected)...) modelcase)
	register("pypi_record", func(a sx.V) sx.V {
		u := pyUniverse{a.Nth(0)}
		oracles, direct := pyOracles(u)
		var per, cases []sx.V
		for _, rv := range a.Nth(1).List() {
			root := pySxVK(rv)
			// (a) raw LocalClient, fresh per run
			var raws []sx.V
			for i := 0; i < 2; i++ {
				raws = append(raws, pyCanonObs(pyResolve(u.client(), root)))
			}
			nondet := raws[1].String() != raws[0].String()
			// (b) recording client
			rc := &pyRecClient{inner: u.client(), seen: map[string]string{}}
			rec := pyCanonObs(pyResolve(rc, root))
			table := sx.L(pyEntriesSx(rc.versions), pyEntriesSx(rc.requirements), pyEntriesSx(rc.matching))
			rawDiffers := raws[0].String() != rec.String()
			rawObs := sx.L()
			if rawDiffers || nondet {
				rawObs = sx.L(raws...)
			}
			// versions whose requirements were asked for but that are not in the graph
			rejected := 0
			if rec.Kind == 2 && len(rec.L) == 5 {
				in := map[string]bool{}
				for _, n := range rec.L[1].L {
					in[n.String()] = true
				}
				for _, e := range rc.requirements {
					if !in[e.key.String()] {
						rejected++
					}
				}
			}
			per = append(per, sx.L(rec, sx.Bool(rawDiffers), rawObs, sx.Bool(nondet), sx.Bool(rc.inconsistent),
				sx.Bool(pyTableWF(rc)), sx.Int(rejected), sx.Bool(pyTableOrdered(rc))))
			cases = append(cases, sx.L(rv, table))
		}
		return sx.L(oracles.Nth(0), direct, sx.L(per...), sx.B(sx.L(oracles, sx.L(cases...)).String()))
	})
	// (oracles ((root table)...)) -> (obs...)
	register("pypi", func(a sx.V) sx.V {
		var out []sx.V
		for _, c := range a.Nth(1).List() {
			root := pySxVK(c.Nth(0))
			tc := pyNewTabClient(c.Nth(1))
			obs := pyCanonObs(pyResolve(tc, root))
			if tc.missing > 0 {
				obs = sx.L(sx.Sym("missing"))
			}
			out = append(out, obs)
		}
		return sx.L(out...)
	})
}
