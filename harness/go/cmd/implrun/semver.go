package main

import (
	"sync"
	"deps.dev/util/resolve"
	"deps.dev/util/semver"

	"verifharness/sx"
)

func sysOf(v sx.V) semver.System { return semver.System(v.Int()) }

// rawSx wraps pre-rendered sx text produced by semver.VerifDump.
func rawSx(text string) sx.V {
	v, err := sx.Parse(text)
	if err != nil {
		panic(harnessBug{"VerifDump produced bad sx: " + text})
	}
	return v
}

func svSign(x int) int {
	switch {
	case x < 0:
		return -1
	case x > 0:
		return 1
	}
	return 0
}

// lawViolations checks the four preorder laws on an n x n comparison matrix
// and returns up to max witnesses as (law i j k).
func lawViolations(m []int, n, max int) sx.V {
	var out []sx.V
	add := func(law string, i, j, k int) bool {
		out = append(out, sx.L(sx.Sym(law), sx.Int(i), sx.Int(j), sx.Int(k)))
		return len(out) >= max
	}
	for i := 0; i < n; i++ {
		if m[i*n+i] != 0 && add("refl", i, i, i) {
			return sx.L(out...)
		}
		for j := 0; j < n; j++ {
			if svSign(m[i*n+j]) != -svSign(m[j*n+i]) && add("antisym", i, j, j) {
				return sx.L(out...)
			}
		}
	}
	for i := 0; i < n; i++ {
		for j := 0; j < n; j++ {
			cij := m[i*n+j]
			for k := 0; k < n; k++ {
				if cij <= 0 && m[j*n+k] <= 0 && m[i*n+k] > 0 && add("trans", i, j, k) {
					return sx.L(out...)
				}
				if cij == 0 && svSign(m[i*n+k]) != svSign(m[j*n+k]) && add("congr", i, j, k) {
					return sx.L(out...)
				}
			}
		}
	}
	return sx.L(out...)
}

func init() {
	// sv_parse: (sys str) -> ("ok" dump) | ("err")
	register("sv_parse", func(a sx.V) sx.V {
		v, err := sysOf(a.Nth(0)).Parse(a.Nth(1).Str())
		if err != nil {
			return sx.L(sx.Sym("err"))
		}
		return sx.L(sx.Sym("ok"), rawSx(semver.VerifDump(v)))
	})
	// sv_parsei: (sys str) internal parse with infinity allowed
	register("sv_parsei", func(a sx.V) sx.V {
		v, err := semver.VerifParseInternal(sysOf(a.Nth(0)), a.Nth(1).Str(), true)
		if err != nil {
			return sx.L(sx.Sym("err"))
		}
		return sx.L(sx.Sym("ok"), rawSx(semver.VerifDump(v)))
	})
	// sv_pool: (sys (str...)) -> per string ("ok" dump)|("err"), then the full
	// comparison matrix over the accepted ones (row-major), computed twice in
	// two different call orders; entries that differ between the passes are
	// reported as ("unstable" i j).
	register("sv_pool", func(a sx.V) sx.V {
		sys := sysOf(a.Nth(0))
		var vs []*semver.Version
		var parsed []sx.V
		for _, s := range a.Nth(1).List() {
			v, err := sys.Parse(s.Str())
			if err != nil {
				parsed = append(parsed, sx.L(sx.Sym("err")))
				continue
			}
			parsed = append(parsed, sx.L(sx.Sym("ok"), rawSx(semver.VerifDump(v))))
			vs = append(vs, v)
		}
		n := len(vs)
		m := make([]int, n*n)
		for i := 0; i < n; i++ {
			for j := 0; j < n; j++ {
				m[i*n+j] = vs[i].Compare(vs[j])
			}
		}
		// second pass: every string parsed AGAIN (fresh objects: compare short-cuts pointer-identical operands, and
		// anything memoised on a *Version would differ between a used and a fresh one), in reverse order, on a
		// second goroutine running concurrently with a third pass over the first objects
		vs2 := make([]*semver.Version, n)
		for i, v := range vs {
			w, err := sys.Parse(v.String())
			if err != nil {
				w = v
			}
			vs2[i] = w
		}
		var unstable []sx.V
		var mu sync.Mutex
		var wg sync.WaitGroup
		wg.Add(2)
		go func() {
			defer wg.Done()
			for j := n - 1; j >= 0; j-- {
				for i := n - 1; i >= 0; i-- {
					if c := vs2[i].Compare(vs[j]); c != m[i*n+j] {
						mu.Lock()
						unstable = append(unstable, sx.L(sx.Int(i), sx.Int(j)))
						mu.Unlock()
					}
				}
			}
		}()
		go func() {
			defer wg.Done()
			for i := 0; i < n; i++ {
				for j := n - 1; j >= 0; j-- {
					if c := vs[i].Compare(vs2[j]); c != m[i*n+j] {
						mu.Lock()
						unstable = append(unstable, sx.L(sx.Int(i), sx.Int(j)))
						mu.Unlock()
					}
				}
			}
		}()
		wg.Wait()
		mv := make([]sx.V, len(m))
		for i, c := range m {
			mv[i] = sx.Int(c)
		}
		return sx.L(sx.L(parsed...), sx.L(mv...), sx.L(unstable...), lawViolations(m, n, 20))
	})
	// sv_canon: (sys str) -> ("err") | ("ok" dump canonTrue canonFalse reparse)
	// reparse = ("err") | ("ok" dump2 cmp(orig,reparsed) canonTrue(reparsed))
	register("sv_canon", func(a sx.V) sx.V {
		sys := sysOf(a.Nth(0))
		v, err := sys.Parse(a.Nth(1).Str())
		if err != nil {
			return sx.L(sx.Sym("err"))
		}
		c1 := v.Canon(true)
		c0 := v.Canon(false)
		var re sx.V
		v2, err := sys.Parse(c1)
		if err != nil {
			re = sx.L(sx.Sym("err"))
		} else {
			re = sx.L(sx.Sym("ok"), rawSx(semver.VerifDump(v2)), sx.Int(v.Compare(v2)), sx.B(v2.Canon(true)))
		}
		return sx.L(sx.Sym("ok"), rawSx(semver.VerifDump(v)), sx.B(c1), sx.B(c0), re)
	})
	// sv_canon0: (sys str) -> the same three clauses for the build-less canonical form Canon(false):
	// ("err") | ("ok" canon0 ("err") | ("ok" cmp(orig,reparsed) canon0(reparsed)))
	register("sv_canon0", func(a sx.V) sx.V {
		sys := sysOf(a.Nth(0))
		v, err := sys.Parse(a.Nth(1).Str())
		if err != nil {
			return sx.L(sx.Sym("err"))
		}
		c0 := v.Canon(false)
		v2, err := sys.Parse(c0)
		if err != nil {
			return sx.L(sx.Sym("ok"), sx.B(c0), sx.L(sx.Sym("err")))
		}
		return sx.L(sx.Sym("ok"), sx.B(c0), sx.L(sx.Sym("ok"), sx.Int(v.Compare(v2)), sx.B(v2.Canon(false))))
	})
	// sv_difference: (sys a b) -> ("ok" c d dumpA dumpB) | ("err"): System.Difference(a, b) with the dumps of both
	// parsed versions (the model of Difference runs on the dumps)
	register("sv_difference", func(a sx.V) sx.V {
		sys := sysOf(a.Nth(0))
		c, d, err := sys.Difference(a.Nth(1).Str(), a.Nth(2).Str())
		if err != nil {
			return sx.L(sx.Sym("err"))
		}
		va, _ := sys.Parse(a.Nth(1).Str())
		vb, _ := sys.Parse(a.Nth(2).Str())
		return sx.L(sx.Sym("ok"), sx.Int(c), sx.Int(int(d)), rawSx(semver.VerifDump(va)), rawSx(semver.VerifDump(vb)))
	})
	// sv_syscompare: (sys a b) -> System.Compare(a,b)
	register("sv_syscompare", func(a sx.V) sx.V {
		return sx.Int(sysOf(a.Nth(0)).Compare(a.Nth(1).Str(), a.Nth(2).Str()))
	})
}

// sv_sortseq: ((rsys (str...) (perm...))...) -> for each list, in order and in one process,
// resolve.SortVersions on the list and on a permuted copy; reports ("unsorted" i a b) when two
// adjacent parsable versions are out of order by the system's own Compare, and ("classes" i k)
// when the two results differ at position k by more than an equivalence.
func init() {
	register("sv_sortseq", func(a sx.V) sx.V {
		var out []sx.V
		for li, l := range a.List() {
			rsys := resolveSystem(l.Nth(0).Int())
			ssys := rsys.Semver()
			mk := func(strs []sx.V) []resolve.Version {
				var vs []resolve.Version
				for _, s := range strs {
					vs = append(vs, resolve.Version{VersionKey: resolve.VersionKey{
						PackageKey:  resolve.PackageKey{System: rsys, Name: "p"},
						VersionType: resolve.Concrete, Version: s.Str()}})
				}
				return vs
			}
			// C01 is about versions that parse in the system: others are dropped here
			var strs []sx.V
			for _, s := range l.Nth(1).List() {
				if _, err := ssys.Parse(s.Str()); err == nil {
					strs = append(strs, s)
				}
			}
			v1 := mk(strs)
			perm := l.Nth(2).List()
			shuffled := append([]sx.V(nil), strs...)
			for i := len(shuffled) - 1; i > 0 && len(perm) > 0; i-- {
				j := int(perm[i%len(perm)].Int()) % (i + 1)
				shuffled[i], shuffled[j] = shuffled[j], shuffled[i]
			}
			v2 := mk(shuffled)
			resolve.SortVersions(v1)
			resolve.SortVersions(v2)
			for i := 0; i+1 < len(v1); i++ {
				x, ex := ssys.Parse(v1[i].Version)
				y, ey := ssys.Parse(v1[i+1].Version)
				if ex == nil && ey == nil && x.Compare(y) > 0 {
					out = append(out, sx.L(sx.Sym("unsorted"), sx.Int(li), sx.B(v1[i].Version), sx.B(v1[i+1].Version)))
				}
			}
			for k := range v1 {
				if v1[k].Version == v2[k].Version {
					continue
				}
				x, ex := ssys.Parse(v1[k].Version)
				y, ey := ssys.Parse(v2[k].Version)
				if ex != nil || ey != nil || x.Compare(y) != 0 {
					out = append(out, sx.L(sx.Sym("classes"), sx.Int(li), sx.B(v1[k].Version), sx.B(v2[k].Version)))
				}
			}
		}
		return sx.L(out...)
	})
}
