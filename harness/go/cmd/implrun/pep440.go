package main

import (
	"deps.dev/util/pypi"

	"verifharness/sx"
)

func init() {
	// pypi_canonversion: (str) -> pypi.CanonVersion(str)
	register("pypi_canonversion", func(a sx.V) sx.V {
		return sx.B(pypi.CanonVersion(a.Nth(0).Str()))
	})
}
