package main

// Case kinds for the Maven resolver (property C07).
//
//	maven_rec  (universe root)  implementation only: builds a LocalClient from the
//	           structured universe, resolves through a RECORDING client and returns
//	           (table obs raw passes): every client call with its answer, the semver
//	           answers for the strings involved, the observable, the raw graph in
//	           creation order and the number of passes of the retry loop.
//	maven      (root table)     both sides: the real resolver runs against a client
//	           that answers from the table only; a call the table lacks is reported
//	           as ("missing").  Run several times (the later runs on one shared
//	           resolver); differing results = ("nondet" ..).
//	maven_match (req ver)       semver.Maven constraint match, ground truth for the
//	           direct oracle: 0/1, 2 = constraint does not parse; second field
//	           1 = simple (soft) requirement.
//
// universe := ((name ((version ((depname req typepairs)...))...))...)
// vk       := (system name versiontype version)
// obs      := ("ok" (vk...) ((fromvk tovk req typedump)...) ((nodevk reqvk 1)...))
//           | ("err" "incompatible"|"notfound"|"other") | ("missing") | ("canonerr")

import (
	"context"
	"errors"
	"fmt"
	"sort"

	"deps.dev/util/resolve"
	"deps.dev/util/resolve/dep"
	"deps.dev/util/resolve/maven"
	"deps.dev/util/resolve/schema"
	"deps.dev/util/resolve/version"
	"deps.dev/util/semver"

	"verifharness/sx"
)

func init() {
	register("maven_rec", mavenRec)
	register("maven", mavenTable)
	register("maven_match", mavenMatch)
}

func vkSx(vk resolve.VersionKey) sx.V {
	return sx.L(sx.Int(int(vk.System)), sx.B(vk.Name), sx.Int(int(vk.VersionType)), sx.B(vk.Version))
}

func sxVK(v sx.V) resolve.VersionKey {
	return resolve.VersionKey{
		PackageKey:  resolve.PackageKey{System: resolve.System(v.Nth(0).Int()), Name: v.Nth(1).Str()},
		VersionType: resolve.VersionType(v.Nth(2).Int()),
		Version:     v.Nth(3).Str(),
	}
}

func pkSx(pk resolve.PackageKey) sx.V { return sx.L(sx.Int(int(pk.System)), sx.B(pk.Name)) }

func hasRegistries(v resolve.Version) bool {
	_, ok := v.GetAttr(version.Registries)
	return ok
}

func versionSx(v resolve.Version) sx.V { return sx.L(vkSx(v.VersionKey), sx.Bool(hasRegistries(v))) }

func sxVersion(v sx.V) resolve.Version {
	out := resolve.Version{VersionKey: sxVK(v.Nth(0))}
	if v.Nth(1).Int() != 0 {
		out.SetAttr(version.Registries, "")
	}
	return out
}

func errSx(err error) sx.V {
	if errors.Is(err, resolve.ErrNotFound) {
		return sx.L(sx.Sym("nf"))
	}
	return sx.L(sx.Sym("err"))
}

// ---------------------------------------------------------------- recording client

type recClient struct {
	inner    resolve.Client
	vers     []sx.V
	vlists   []sx.V
	reqs     []sx.V
	seen     map[string]string
	unstable bool
	// strings seen, per package name
	reqStrings map[string]map[string]bool
	verStrings map[string]map[string]bool
	lists      [][]resolve.Version
}

func newRec(inner resolve.Client) *recClient {
	return &recClient{inner: inner, seen: map[string]string{}, reqStrings: map[string]map[string]bool{}, verStrings: map[string]map[string]bool{}}
}

func addStr(m map[string]map[string]bool, name, s string) {
	if m[name] == nil {
		m[name] = map[string]bool{}
	}
	m[name][s] = true
}

func (r *recClient) note(key string, ans sx.V, into *[]sx.V, k sx.V) {
	a := ans.String()
	if old, ok := r.seen[key]; ok {
		if old != a {
			r.unstable = true
		}
		return
	}
	r.seen[key] = a
	*into = append(*into, sx.L(k, ans))
}

// noteList is note for Versions answers: a later answer may be a permutation
// of the first one (the resolver reorders the client's slice in place).
func (r *recClient) noteList(key string, ans sx.V, k sx.V) {
	canon := func(a sx.V) string {
		if a.Nth(0).Str() != "ok" {
			return a.String()
		}
		var l []string
		for _, e := range a.Nth(1).List() {
			l = append(l, e.String())
		}
		sort.Strings(l)
		return fmt.Sprint(l)
	}
	a := canon(ans)
	if old, ok := r.seen[key]; ok {
		if old != a {
			r.unstable = true
		}
		return
	}
	r.seen[key] = a
	r.vlists = append(r.vlists, sx.L(k, ans))
}

func (r *recClient) Version(ctx context.Context, vk resolve.VersionKey) (resolve.Version, error) {
	v, err := r.inner.Version(ctx, vk)
	var ans sx.V
	if err != nil {
		ans = errSx(err)
	} else {
		ans = sx.L(sx.Sym("ok"), versionSx(v))
		addStr(r.verStrings, v.Name, v.Version)
	}
	r.note("V"+vkSx(vk).String(), ans, &r.vers, vkSx(vk))
	return v, err
}

func (r *recClient) Versions(ctx context.Context, pk resolve.PackageKey) ([]resolve.Version, error) {
	vs, err := r.inner.Versions(ctx, pk)
	var ans sx.V
	if err != nil {
		ans = errSx(err)
	} else {
		var l []sx.V
		for _, v := range vs {
			l = append(l, versionSx(v))
			addStr(r.verStrings, v.Name, v.Version)
		}
		ans = sx.L(sx.Sym("ok"), sx.L(l...))
		r.lists = append(r.lists, append([]resolve.Version(nil), vs...))
	}
	r.noteList("L"+pkSx(pk).String(), ans, pkSx(pk))
	// Hand the client's own slice through unchanged, so that the recorded run
	// has the real aliasing (a resolver that reorders it in place would make
	// later answers differ from the first one in order; the table keeps the
	// first answer and python compares the recorded run with the table run).
	return vs, err
}

func (r *recClient) Requirements(ctx context.Context, vk resolve.VersionKey) ([]resolve.RequirementVersion, error) {
	rs, err := r.inner.Requirements(ctx, vk)
	var ans sx.V
	if err != nil {
		ans = errSx(err)
	} else {
		var l []sx.V
		for _, q := range rs {
			t := q.Type
			l = append(l, sx.L(vkSx(q.VersionKey), dumpDep(&t)))
			addStr(r.reqStrings, q.Name, q.Version)
		}
		ans = sx.L(sx.Sym("ok"), sx.L(l...))
	}
	r.note("R"+vkSx(vk).String(), ans, &r.reqs, vkSx(vk))
	return rs, err
}

func (r *recClient) MatchingVersions(ctx context.Context, vk resolve.VersionKey) ([]resolve.Version, error) {
	// The Maven resolver never calls this; answer from the inner client.
	return r.inner.MatchingVersions(ctx, vk)
}

func sortedKeys(m map[string]bool) []string {
	var out []string
	for k := range m {
		out = append(out, k)
	}
	sort.Strings(out)
	return out
}

func sortedNames(m map[string]map[string]bool) []string {
	var out []string
	for k := range m {
		out = append(out, k)
	}
	sort.Strings(out)
	return out
}

// mavenSimple: 0 not simple, 1 simple, 2 does not parse.
func mavenSimple(req string) int {
	c, err := semver.Maven.ParseConstraint(req)
	if err != nil {
		return 2
	}
	if c.IsSimple() {
		return 1
	}
	return 0
}

func mavenMatches(req, ver string) bool {
	c, err := semver.Maven.ParseConstraint(req)
	if err != nil {
		return false
	}
	return c.Match(ver)
}

// versionLess reports the comparator of resolve.SortVersions on two versions,
// observed through the real function: an insertion sort of [b a] swaps exactly
// when less(a, b).
func versionLess(a, b resolve.Version) bool {
	if a.VersionKey == b.VersionKey {
		return false
	}
	s := []resolve.Version{b, a}
	resolve.SortVersions(s)
	return s[0].VersionKey == a.VersionKey
}

func (r *recClient) semverTables() (simple, match, less sx.V) {
	var sl, ml, ll []sx.V
	seenS := map[string]bool{}
	seenM := map[string]bool{}
	for _, name := range sortedNames(r.reqStrings) {
		reqs := sortedKeys(r.reqStrings[name])
		cands := map[string]bool{}
		for v := range r.verStrings[name] {
			cands[v] = true
		}
		for _, q := range reqs {
			cands[q] = true
		}
		cl := sortedKeys(cands)
		for _, q := range reqs {
			s := mavenSimple(q)
			if !seenS[q] {
				seenS[q] = true
				sl = append(sl, sx.L(sx.B(q), sx.Int(s)))
			}
			if s != 0 {
				continue
			}
			for _, c := range cl {
				k := sx.L(sx.B(q), sx.B(c)).String()
				if seenM[k] {
					continue
				}
				seenM[k] = true
				ml = append(ml, sx.L(sx.B(q), sx.B(c), sx.Bool(mavenMatches(q, c))))
			}
		}
	}
	seenL := map[string]bool{}
	for _, vs := range r.lists {
		for _, a := range vs {
			for _, b := range vs {
				k := sx.L(vkSx(a.VersionKey), vkSx(b.VersionKey)).String()
				if seenL[k] {
					continue
				}
				seenL[k] = true
				ll = append(ll, sx.L(vkSx(a.VersionKey), vkSx(b.VersionKey), sx.Bool(versionLess(a, b))))
			}
		}
	}
	return sx.L(sl...), sx.L(ml...), sx.L(ll...)
}

// ---------------------------------------------------------------- table client

var errMissing = errors.New("verif: table lacks this call")

type tableClient struct {
	vers    map[string]sx.V
	vlists  map[string]sx.V
	reqs    map[string]sx.V
	missing bool
}

func newTableClient(table sx.V) *tableClient {
	t := &tableClient{vers: map[string]sx.V{}, vlists: map[string]sx.V{}, reqs: map[string]sx.V{}}
	for _, e := range table.Nth(0).List() {
		t.vers[e.Nth(0).String()] = e.Nth(1)
	}
	for _, e := range table.Nth(1).List() {
		t.vlists[e.Nth(0).String()] = e.Nth(1)
	}
	for _, e := range table.Nth(2).List() {
		t.reqs[e.Nth(0).String()] = e.Nth(1)
	}
	return t
}

func ansErr(a sx.V) error {
	switch a.Nth(0).Str() {
	case "nf":
		return fmt.Errorf("table: %w", resolve.ErrNotFound)
	case "err":
		return errors.New("table: client error")
	}
	return nil
}

func (t *tableClient) Version(ctx context.Context, vk resolve.VersionKey) (resolve.Version, error) {
	a, ok := t.vers[vkSx(vk).String()]
	if !ok {
		t.missing = true
		return resolve.Version{}, errMissing
	}
	if err := ansErr(a); err != nil {
		return resolve.Version{}, err
	}
	return sxVersion(a.Nth(1)), nil
}

func (t *tableClient) Versions(ctx context.Context, pk resolve.PackageKey) ([]resolve.Version, error) {
	a, ok := t.vlists[pkSx(pk).String()]
	if !ok {
		t.missing = true
		return nil, errMissing
	}
	if err := ansErr(a); err != nil {
		return nil, err
	}
	var out []resolve.Version
	for _, v := range a.Nth(1).List() {
		out = append(out, sxVersion(v))
	}
	return out, nil
}

func (t *tableClient) Requirements(ctx context.Context, vk resolve.VersionKey) ([]resolve.RequirementVersion, error) {
	a, ok := t.reqs[vkSx(vk).String()]
	if !ok {
		t.missing = true
		return nil, errMissing
	}
	if err := ansErr(a); err != nil {
		return nil, err
	}
	var out []resolve.RequirementVersion
	for _, q := range a.Nth(1).List() {
		out = append(out, resolve.RequirementVersion{VersionKey: sxVK(q.Nth(0)), Type: buildDep(q.Nth(1))})
	}
	return out, nil
}

func (t *tableClient) MatchingVersions(ctx context.Context, vk resolve.VersionKey) ([]resolve.Version, error) {
	t.missing = true
	return nil, errMissing
}

// ---------------------------------------------------------------- observable

func sortSx(l []sx.V) []sx.V {
	sort.Slice(l, func(i, j int) bool { return l[i].String() < l[j].String() })
	return l
}

func mavenObs(g *resolve.Graph, err error) sx.V {
	if err != nil {
		switch {
		case errors.Is(err, maven.VerifErrIncompatible):
			return sx.L(sx.Sym("err"), sx.Sym("incompatible"))
		case errors.Is(err, resolve.ErrNotFound):
			return sx.L(sx.Sym("err"), sx.Sym("notfound"))
		}
		return sx.L(sx.Sym("err"), sx.Sym("other"))
	}
	if cerr := g.Canon(); cerr != nil {
		return sx.L(sx.Sym("canonerr"))
	}
	var nodes, edges, errs []sx.V
	for _, n := range g.Nodes {
		nodes = append(nodes, vkSx(n.Version))
		for _, ne := range n.Errors {
			errs = append(errs, sx.L(vkSx(n.Version), vkSx(ne.Req), sx.Int(1)))
		}
	}
	for _, e := range g.Edges {
		t := e.Type
		edges = append(edges, sx.L(vkSx(g.Nodes[e.From].Version), vkSx(g.Nodes[e.To].Version), sx.B(e.Requirement), dumpDep(&t)))
	}
	return sx.L(sx.Sym("ok"), sx.L(sortSx(nodes)...), sx.L(sortSx(edges)...), sx.L(sortSx(errs)...))
}

func rawGraph(g *resolve.Graph) sx.V {
	if g == nil {
		return sx.L()
	}
	var nodes, edges []sx.V
	for _, n := range g.Nodes {
		nodes = append(nodes, vkSx(n.Version))
	}
	for _, e := range g.Edges {
		t := e.Type
		edges = append(edges, sx.L(sx.Int(int(e.From)), sx.Int(int(e.To)), sx.B(e.Requirement), dumpDep(&t)))
	}
	return sx.L(sx.L(nodes...), sx.L(edges...))
}

// ---------------------------------------------------------------- handlers

func buildUniverse(u sx.V) *resolve.LocalClient {
	lc := resolve.NewLocalClient()
	for _, p := range u.List() {
		name := p.Nth(0).Str()
		for _, v := range p.Nth(1).List() {
			ver := resolve.Version{VersionKey: resolve.VersionKey{
				PackageKey:  resolve.PackageKey{System: resolve.Maven, Name: name},
				VersionType: resolve.Concrete,
				Version:     v.Nth(0).Str(),
			}}
			var deps []resolve.RequirementVersion
			for _, d := range v.Nth(1).List() {
				deps = append(deps, resolve.RequirementVersion{
					VersionKey: resolve.VersionKey{
						PackageKey:  resolve.PackageKey{System: resolve.Maven, Name: d.Nth(0).Str()},
						VersionType: resolve.Requirement,
						Version:     d.Nth(1).Str(),
					},
					Type: buildDep(d.Nth(2)),
				})
			}
			lc.AddVersion(ver, deps)
		}
	}
	return lc
}

func mavenRec(arg sx.V) sx.V {
	lc := buildUniverse(arg.Nth(0))
	rootv := arg.Nth(1)
	root := resolve.VersionKey{
		PackageKey:  resolve.PackageKey{System: resolve.Maven, Name: rootv.Nth(0).Str()},
		VersionType: resolve.Concrete,
		Version:     rootv.Nth(1).Str(),
	}
	rec := newRec(lc)
	// passes of the retry loop = calls of Version(root) made by resolve() itself;
	// counted through Requirements(root), asked exactly twice per pass
	// (dependencyManagement and imports) because the root is never re-enqueued.
	cnt := &countingClient{Client: rec, root: root}
	g, err := maven.NewResolver(cnt).Resolve(context.Background(), root)
	raw := rawGraph(g)
	obs := mavenObs(g, err)
	if rec.unstable {
		panic(harnessBug{"LocalClient answered the same call differently"})
	}
	simple, match, less := rec.semverTables()
	table := sx.L(sx.L(rec.vers...), sx.L(rec.vlists...), sx.L(rec.reqs...), simple, match, less)
	return sx.L(table, obs, raw, sx.Int((cnt.rootReqs+1)/2))
}

type countingClient struct {
	resolve.Client
	root     resolve.VersionKey
	rootReqs int
}

func (c *countingClient) Requirements(ctx context.Context, vk resolve.VersionKey) ([]resolve.RequirementVersion, error) {
	if vk == c.root {
		c.rootReqs++
	}
	return c.Client.Requirements(ctx, vk)
}

const mavenRuns = 3

func mavenTable(arg sx.V) sx.V {
	root := sxVK(arg.Nth(0))
	var first sx.V
	// The first run uses a fresh resolver; the later runs share one resolver
	// (and its client), as a caller that resolves repeatedly does: state kept
	// by a resolver between calls shows up as a differing result.
	var shared resolve.Resolver
	var sharedClient *tableClient
	for i := 0; i < mavenRuns; i++ {
		tc := newTableClient(arg.Nth(1))
		res := maven.NewResolver(tc)
		if i >= 1 {
			if shared == nil {
				shared, sharedClient = res, tc
			}
			res, tc = shared, sharedClient
		}
		g, err := res.Resolve(context.Background(), root)
		var obs sx.V
		if tc.missing {
			obs = sx.L(sx.Sym("missing"))
		} else {
			obs = mavenObs(g, err)
		}
		if i == 0 {
			first = obs
		} else if obs.String() != first.String() {
			return sx.L(sx.Sym("nondet"), first, obs)
		}
	}
	return first
}

func mavenMatch(arg sx.V) sx.V {
	req, ver := arg.Nth(0).Str(), arg.Nth(1).Str()
	s := mavenSimple(req)
	if s == 2 {
		return sx.L(sx.Int(2), sx.Int(0))
	}
	return sx.L(sx.Bool(mavenMatches(req, ver)), sx.Int(s))
}

var _ = dep.Selector

// maven_schema: universe text in the schema format of util/resolve/schema ->
// the structured universe used by maven_rec (version attributes are dropped:
// single registry), or ("err") when the text does not parse.
func init() { register("maven_schema", mavenSchema) }

func mavenSchema(arg sx.V) sx.V {
	s, err := schema.New(arg.Str(), resolve.Maven)
	if err != nil {
		return sx.L(sx.Sym("err"))
	}
	var pkgs []sx.V
	for _, p := range s.Packages {
		var vers []sx.V
		for _, v := range p.Versions {
			if v.VersionType != resolve.Concrete {
				continue
			}
			var deps []sx.V
			for _, d := range v.Requirements {
				t := d.Type
				deps = append(deps, sx.L(sx.B(d.Name), sx.B(d.Version), dumpDep(&t)))
			}
			vers = append(vers, sx.L(sx.B(v.Version), sx.L(deps...)))
		}
		pkgs = append(pkgs, sx.L(sx.B(p.Name), sx.L(vers...)))
	}
	return sx.L(sx.Sym("ok"), sx.L(pkgs...))
}

// maven_seq: (universe (root...)) -> ((ref seq table passes)... ) (concurrent-differences...)
// One resolver (over one client) resolves the roots one after the other, as a
// caller that keeps a Resolver does; ref is the observable of a FRESH resolver
// for the same root, seq the observable of the shared resolver, table/passes
// the calls recorded during the shared run (for the oracle).  Then the same
// roots are resolved again by goroutines sharing one more resolver: every
// result that differs from ref is listed as (index obs).  A Go fatal error
// (concurrent map writes) kills the process; the driver survives that.
func init() { register("maven_seq", mavenSeq) }

// switchClient lets the shared resolver keep one client value while the
// recording underneath is renewed for every root.
type switchClient struct{ cur resolve.Client }

func (s *switchClient) Version(ctx context.Context, vk resolve.VersionKey) (resolve.Version, error) {
	return s.cur.Version(ctx, vk)
}
func (s *switchClient) Versions(ctx context.Context, pk resolve.PackageKey) ([]resolve.Version, error) {
	return s.cur.Versions(ctx, pk)
}
func (s *switchClient) Requirements(ctx context.Context, vk resolve.VersionKey) ([]resolve.RequirementVersion, error) {
	return s.cur.Requirements(ctx, vk)
}
func (s *switchClient) MatchingVersions(ctx context.Context, vk resolve.VersionKey) ([]resolve.Version, error) {
	return s.cur.MatchingVersions(ctx, vk)
}

func mavenSeq(arg sx.V) sx.V {
	lc := buildUniverse(arg.Nth(0))
	var roots []resolve.VersionKey
	for _, r := range arg.Nth(1).List() {
		roots = append(roots, resolve.VersionKey{
			PackageKey:  resolve.PackageKey{System: resolve.Maven, Name: r.Nth(0).Str()},
			VersionType: resolve.Concrete,
			Version:     r.Nth(1).Str(),
		})
	}
	ctx := context.Background()
	sw := &switchClient{}
	shared := maven.NewResolver(sw)
	var out []sx.V
	var refs []string
	for _, root := range roots {
		g0, err0 := maven.NewResolver(lc).Resolve(ctx, root)
		ref := mavenObs(g0, err0)
		refs = append(refs, ref.String())
		rec := newRec(lc)
		cnt := &countingClient{Client: rec, root: root}
		sw.cur = cnt
		g, err := shared.Resolve(ctx, root)
		seq := mavenObs(g, err)
		simple, match, less := rec.semverTables()
		table := sx.L(sx.L(rec.vers...), sx.L(rec.vlists...), sx.L(rec.reqs...), simple, match, less)
		out = append(out, sx.L(ref, seq, table, sx.Int((cnt.rootReqs+1)/2)))
	}
	// concurrent use of one resolver
	conc := maven.NewResolver(lc)
	const workers = 4
	type diff struct {
		idx int
		obs sx.V
	}
	ch := make(chan []diff, workers)
	for w := 0; w < workers; w++ {
		go func(w int) {
			var ds []diff
			for k := range roots {
				i := (k + w) % len(roots)
				g, err := conc.Resolve(ctx, roots[i])
				o := mavenObs(g, err)
				if o.String() != refs[i] {
					ds = append(ds, diff{i, o})
				}
			}
			ch <- ds
		}(w)
	}
	var cd []sx.V
	for w := 0; w < workers; w++ {
		for _, d := range <-ch {
			cd = append(cd, sx.L(sx.Int(d.idx), d.obs))
		}
	}
	return sx.L(sx.L(out...), sx.L(cd...))
}

// maven_full: (universe) -> the COMPLETE client table of the universe: every
// Version (each version of each package, and each declared requirement string
// read as a concrete version), Versions and Requirements call a resolution of
// any root can make, with the semver answers for all strings involved.  Used
// to run the model beyond what a particular Go run asked the client.
func init() { register("maven_full", mavenFull) }

func mavenFull(arg sx.V) sx.V {
	lc := buildUniverse(arg.Nth(0))
	rec := newRec(lc)
	ctx := context.Background()
	for _, p := range arg.Nth(0).List() {
		pk := resolve.PackageKey{System: resolve.Maven, Name: p.Nth(0).Str()}
		rec.Versions(ctx, pk)
		for _, v := range p.Nth(1).List() {
			vk := resolve.VersionKey{PackageKey: pk, VersionType: resolve.Concrete, Version: v.Nth(0).Str()}
			rec.Version(ctx, vk)
			rec.Requirements(ctx, vk)
			for _, d := range v.Nth(1).List() {
				dk := resolve.PackageKey{System: resolve.Maven, Name: d.Nth(0).Str()}
				rec.Versions(ctx, dk)
				rec.Version(ctx, resolve.VersionKey{PackageKey: dk, VersionType: resolve.Concrete, Version: d.Nth(1).Str()})
			}
		}
	}
	simple, match, less := rec.semverTables()
	return sx.L(sx.L(rec.vers...), sx.L(rec.vlists...), sx.L(rec.reqs...), simple, match, less)
}
