package main

// C16: PEP 508 requirement strings and environment markers.
//
// Kinds:
//   pep508        s                      -> ("ok" name extras constraint environment) | ("err")
//   canon_name    s                      -> name
//   pep440_tables raw                    -> (valid-table sat-table)   (oracle values for the model)
//   marker        (raw (extra...) ...)   -> ("ok" val tree) | ("err") | ("nondet" a b); 8 repetitions
//   marker_edge   (raw (extra...))       -> ("edge" 0|1) | ("err") | ("grapherr")
//   marker_multi  ((root...) ...)        -> one result per root, several guarded edges, one resolver

import (
	"context"
	"sort"
	"strconv"
	"strings"

	pypimeta "deps.dev/util/pypi"
	"deps.dev/util/resolve"
	"deps.dev/util/resolve/dep"
	pypires "deps.dev/util/resolve/pypi"
	"deps.dev/util/semver"

	"verifharness/sx"
)

func pep508Parse(arg sx.V) sx.V {
	d, err := pypimeta.ParseDependency(arg.Str())
	if err != nil {
		return sx.L(sx.Sym("err"))
	}
	return sx.L(sx.Sym("ok"), sx.B(d.Name), sx.B(d.Extras), sx.B(d.Constraint), sx.B(d.Environment))
}

func canonName(arg sx.V) sx.V { return sx.B(pypimeta.CanonPackageName(arg.Str())) }

// markerStrings returns the target environment's values followed by every
// string that could be read as a quoted literal starting at any position of raw.
func markerStrings(raw string) []string {
	seen := map[string]bool{}
	var out []string
	add := func(s string) {
		if !seen[s] {
			seen[s] = true
			out = append(out, s)
		}
	}
	env := pypires.VerifMarkers()
	keys := make([]string, 0, len(env))
	for k := range env {
		keys = append(keys, k)
	}
	sort.Strings(keys)
	for _, k := range keys {
		add(env[k])
	}
	add("") // the value of the variable extra
	for i := 0; i < len(raw); i++ {
		if raw[i] == '\'' || raw[i] == '"' {
			j := strings.IndexByte(raw[i+1:], raw[i])
			if j >= 0 {
				add(raw[i+1 : i+1+j])
			}
		}
	}
	return out
}

// numbered marker operators that may reach ParseConstraint (everything but ===, 8).
var constraintOps = []int{1, 2, 3, 4, 5, 6, 7, 9, 10}

func satOne(op int, spec, cand string) (r int) {
	defer func() {
		if recover() != nil {
			r = 3
		}
	}()
	c, err := semver.PyPI.ParseConstraint(pypires.VerifMarkerOpString(op) + spec)
	if err != nil {
		return 2
	}
	v, err := semver.PyPI.Parse(cand)
	if err != nil {
		return 2
	}
	if c.MatchVersion(v) {
		return 1
	}
	return 0
}

func pep440Tables(arg sx.V) sx.V {
	ss := markerStrings(arg.Str())
	var valid []sx.V
	var vs []string
	for _, s := range ss {
		_, err := semver.PyPI.Parse(s)
		valid = append(valid, sx.L(sx.B(s), sx.Bool(err == nil)))
		if err == nil {
			vs = append(vs, s)
		}
	}
	var sat []sx.V
	if len(vs) <= 40 {
		for _, op := range constraintOps {
			for _, spec := range vs {
				for _, cand := range vs {
					sat = append(sat, sx.L(sx.Int(op), sx.B(spec), sx.B(cand), sx.Int(satOne(op, spec, cand))))
				}
			}
		}
	}
	return sx.L(sx.L(valid...), sx.L(sat...))
}

func extrasMap(l sx.V) map[string]bool {
	m := map[string]bool{}
	for _, e := range l.List() {
		m[e.Str()] = true
	}
	return m
}

func dumpTree(n *pypires.VerifMarkerNode) sx.V {
	switch n.Kind {
	case "expr":
		return sx.L(sx.Int(0), sx.Int(n.Op),
			sx.L(sx.B(n.LName), sx.B(n.LValue), sx.Bool(n.LVersion)),
			sx.L(sx.B(n.RName), sx.B(n.RValue), sx.Bool(n.RVersion)),
			sx.Bool(n.Constraint))
	case "and":
		return sx.L(sx.Int(1), dumpTree(n.Left), dumpTree(n.Right))
	case "or":
		return sx.L(sx.Int(2), dumpTree(n.Left), dumpTree(n.Right))
	}
	return sx.L(sx.Int(9))
}

func markerOnce(raw string, extras map[string]bool) (out string) {
	defer func() {
		if recover() != nil {
			out = `("panic")`
		}
	}()
	ok, val, tree := pypires.VerifParseMarkerTree(raw, extras)
	if !ok {
		return `("err")`
	}
	// The plain hook must agree with the tree hook.
	ok2, val2, _ := pypires.VerifParseEvalMarker(raw, extras)
	if !ok2 || val2 != val {
		return `("hookmismatch")`
	}
	return sx.L(sx.Sym("ok"), sx.Bool(val), dumpTree(tree)).String()
}

// markerRepeat: parseMarkerVar ranges over a Go map; Go randomises the order, so
// an order dependence would show as differing answers among repetitions.
const markerRepeat = 8

func markerEval(arg sx.V) sx.V {
	raw := arg.Nth(0).Str()
	extras := extrasMap(arg.Nth(1))
	first := markerOnce(raw, extras)
	for i := 1; i < markerRepeat; i++ {
		if again := markerOnce(raw, extras); again != first {
			return sx.L(sx.Sym("nondet"), rawSx(first), rawSx(again))
		}
	}
	return rawSx(first)
}

// markerEdge resolves  root 1.0 -> mid[extras] -> (marker) guarded  with the
// real PyPI resolver over a LocalClient and reports whether the guarded edge
// is present in the resolved graph.
func markerEdge(arg sx.V) sx.V {
	raw := arg.Nth(0).Str()
	var extras []string
	for _, e := range arg.Nth(1).List() {
		extras = append(extras, e.Str())
	}
	pk := func(name string) resolve.PackageKey { return resolve.PackageKey{System: resolve.PyPI, Name: name} }
	conc := func(name string) resolve.Version {
		return resolve.Version{VersionKey: resolve.VersionKey{PackageKey: pk(name), VersionType: resolve.Concrete, Version: "1.0"}}
	}
	req := func(name string, t dep.Type) resolve.RequirementVersion {
		return resolve.RequirementVersion{
			VersionKey: resolve.VersionKey{PackageKey: pk(name), VersionType: resolve.Requirement, Version: ""},
			Type:       t,
		}
	}
	var midType, guardType dep.Type
	if len(extras) > 0 {
		midType.AddAttr(dep.EnabledDependencies, strings.Join(extras, ","))
	}
	guardType.AddAttr(dep.Environment, raw)
	lc := resolve.NewLocalClient()
	lc.AddVersion(conc("guarded"), nil)
	lc.AddVersion(conc("mid"), []resolve.RequirementVersion{req("guarded", guardType)})
	lc.AddVersion(conc("root"), []resolve.RequirementVersion{req("mid", midType)})
	r := pypires.NewResolver(lc)
	g, err := r.Resolve(context.Background(), conc("root").VersionKey)
	if err != nil {
		return sx.L(sx.Sym("err"))
	}
	if g.Error != "" {
		return sx.L(sx.Sym("grapherr"))
	}
	midID, guardID := -1, -1
	for i, n := range g.Nodes {
		switch n.Version.Name {
		case "mid":
			midID = i
		case "guarded":
			guardID = i
		}
	}
	if midID < 0 {
		return sx.L(sx.Sym("grapherr"))
	}
	present := false
	for _, e := range g.Edges {
		if int(e.From) == midID && int(e.To) == guardID && guardID >= 0 {
			present = true
		}
	}
	if present != (guardID >= 0) {
		// a guarded node without the edge (or the reverse) would be a resolver defect worth seeing
		return sx.L(sx.Sym("inconsistent"))
	}
	return sx.L(sx.Sym("edge"), sx.Bool(present))
}

// pypiEnv: the target environment as the running code sees it, sorted by key.
func pypiEnv(sx.V) sx.V {
	env := pypires.VerifMarkers()
	keys := make([]string, 0, len(env))
	for k := range env {
		keys = append(keys, k)
	}
	sort.Strings(keys)
	var out []sx.V
	for _, k := range keys {
		out = append(out, sx.L(sx.B(k), sx.B(env[k])))
	}
	return sx.L(out...)
}

// markerMulti: ((root...) ...), root = ((raw (extra...)) ...). One universe, ONE resolver:
//   root<j> 1.0 -> mid<j>_<i>[extras_i] -> (marker_i) g<j>_<i>
// The roots are resolved one after the other on the same resolver, so that anything the
// resolver remembers about one marker (caches) can leak into another. Result per root:
// ("err") | ("grapherr") | ("edges" b...), b = presence of the edge mid<j>_<i> -> g<j>_<i>.
func markerMulti(arg sx.V) sx.V {
	pk := func(name string) resolve.PackageKey { return resolve.PackageKey{System: resolve.PyPI, Name: name} }
	conc := func(name string) resolve.Version {
		return resolve.Version{VersionKey: resolve.VersionKey{PackageKey: pk(name), VersionType: resolve.Concrete, Version: "1.0"}}
	}
	req := func(name string, t dep.Type) resolve.RequirementVersion {
		return resolve.RequirementVersion{
			VersionKey: resolve.VersionKey{PackageKey: pk(name), VersionType: resolve.Requirement, Version: ""},
			Type:       t,
		}
	}
	roots := arg.Nth(0).List()
	lc := resolve.NewLocalClient()
	for j, root := range roots {
		var rootReqs []resolve.RequirementVersion
		for i, item := range root.List() {
			raw := item.Nth(0).Str()
			var extras []string
			for _, e := range item.Nth(1).List() {
				extras = append(extras, e.Str())
			}
			mid := "mid" + strconv.Itoa(j) + "x" + strconv.Itoa(i)
			g := "g" + strconv.Itoa(j) + "x" + strconv.Itoa(i)
			var midType, guardType dep.Type
			if len(extras) > 0 {
				midType.AddAttr(dep.EnabledDependencies, strings.Join(extras, ","))
			}
			guardType.AddAttr(dep.Environment, raw)
			lc.AddVersion(conc(g), nil)
			lc.AddVersion(conc(mid), []resolve.RequirementVersion{req(g, guardType)})
			rootReqs = append(rootReqs, req(mid, midType))
		}
		lc.AddVersion(conc("root"+strconv.Itoa(j)), rootReqs)
	}
	r := pypires.NewResolver(lc)
	var out []sx.V
	for j, root := range roots {
		g, err := r.Resolve(context.Background(), conc("root"+strconv.Itoa(j)).VersionKey)
		if err != nil {
			out = append(out, sx.L(sx.Sym("err")))
			continue
		}
		if g.Error != "" {
			out = append(out, sx.L(sx.Sym("grapherr")))
			continue
		}
		id := map[string]int{}
		for k, n := range g.Nodes {
			id[n.Version.Name] = k
		}
		has := map[[2]int]bool{}
		for _, e := range g.Edges {
			has[[2]int{int(e.From), int(e.To)}] = true
		}
		res := []sx.V{sx.Sym("edges")}
		bad := false
		for i := range root.List() {
			m, okm := id["mid"+strconv.Itoa(j)+"x"+strconv.Itoa(i)]
			gi, okg := id["g"+strconv.Itoa(j)+"x"+strconv.Itoa(i)]
			if !okm {
				bad = true
				break
			}
			present := okg && has[[2]int{m, gi}]
			if present != okg {
				bad = true
				break
			}
			res = append(res, sx.Bool(present))
		}
		if bad {
			out = append(out, sx.L(sx.Sym("inconsistent")))
			continue
		}
		out = append(out, sx.L(res...))
	}
	return sx.L(out...)
}

func init() {
	register("marker_multi", markerMulti)
	register("pypi_env", pypiEnv)
	register("pep508", pep508Parse)
	register("canon_name", canonName)
	register("pep440_tables", pep440Tables)
	register("marker", markerEval)
	register("marker_edge", markerEdge)
}
