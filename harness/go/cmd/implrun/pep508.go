package main

// C16: PEP 508 requirement strings and environment markers.
//
// Kinds:
//   pep508        s                      -> ("ok" name extras constraint environment) | ("err")
//   canon_name    s                      -> name
//   pep440_tables raw                    -> (valid-table sat-table)   (oracle values for the model)
//   marker        (raw (extra...) vt st grid) -> ("ok" val (grid values) tree) | ("err") | ("nondet" a b); 8 repetitions;
//                                           the tree is a diagnostic, the harness compares ok/val/grid values
//   marker_edge   (raw (extra...))       -> ("edge" 0|1) | ("err") | ("grapherr")
//   marker_multi  ((root...) ...)        -> one result per root, several guarded edges, one resolver

import (
	"context"
	"sort"
	"strconv"
	"strings"

	pypimeta "deps.dev/util/pypi"
	"deps.dev/util/resolve"
	"deps.dev/util/resolve/dep"
	pypires "deps.dev/util/resolve/pypi"
	"deps.dev/util/semver"

	"verifharness/sx"
)

func pep508Parse(arg sx.V) sx.V {
	d, err := pypimeta.ParseDependency(arg.Str())
	if err != nil {
		return sx.L(sx.Sym("err"))
	}
	return sx.L(sx.Sym("ok"), sx.B(d.Name), sx.B(d.Extras), sx.B(d.Constraint), sx.B(d.Environment))
}

func canonName(arg sx.V) sx.V { return sx.B(pypimeta.CanonPackageName(arg.Str())) }

// markerStrings returns the target environment's values followed by every
// string that could be read as a quoted literal starting at any position of raw.
func markerStrings(raw string) []string {
	seen := map[string]bool{}
	var out []string
	add := func(s string) {
		if !seen[s] {
			seen[s] = true
			out = append(out, s)
		}
	}
	env := pypires.VerifMarkers()
	keys := make([]string, 0, len(env))
	for k := range env {
		keys = append(keys, k)
	}
	sort.Strings(keys)
	for _, k := range keys {
		add(env[k])
	}
	add("") // the value of the variable extra
	for i := 0; i < len(raw); i++ {
		if raw[i] == '\'' || raw[i] == '"' {
			j := strings.IndexByte(raw[i+1:], raw[i])
			if j >= 0 {
				add(raw[i+1 : i+1+j])
			}
		}
	}
	return out
}

// numbered marker operators that may reach ParseConstraint (everything but ===, 8).
var constraintOps = []int{1, 2, 3, 4, 5, 6, 7, 9, 10}

func satOne(op int, spec, cand string) (r int) {
	defer func() {
		if recover() != nil {
			r = 3
		}
	}()
	c, err := semver.PyPI.ParseConstraint(pypires.VerifMarkerOpString(op) + spec)
	if err != nil {
		return 2
	}
	v, err := semver.PyPI.Parse(cand)
	if err != nil {
		return 2
	}
	if c.MatchVersion(v) {
		return 1
	}
	return 0
}

func pep440Tables(arg sx.V) sx.V {
	ss := markerStrings(arg.Str())
	var valid []sx.V
	var vs []string
	for _, s := range ss {
		_, err := semver.PyPI.Parse(s)
		valid = append(valid, sx.L(sx.B(s), sx.Bool(err == nil)))
		if err == nil {
			vs = append(vs, s)
		}
	}
	var sat []sx.V
	if len(vs) <= 40 {
		for _, op := range constraintOps {
			for _, spec := range vs {
				for _, cand := range vs {
					sat = append(sat, sx.L(sx.Int(op), sx.B(spec), sx.B(cand), sx.Int(satOne(op, spec, cand))))
				}
			}
		}
	}
	return sx.L(sx.L(valid...), sx.L(sat...))
}

func extrasMap(l sx.V) map[string]bool {
	m := map[string]bool{}
	for _, e := range l.List() {
		m[e.Str()] = true
	}
	return m
}

func dumpTree(n *pypires.VerifMarkerNode) sx.V {
	switch n.Kind {
	case "expr":
		return sx.L(sx.Int(0), sx.Int(n.Op),
			sx.L(sx.B(n.LName), sx.B(n.LValue), sx.Bool(n.LVersion)),
			sx.L(sx.B(n.RName), sx.B(n.RValue), sx.Bool(n.RVersion)),
			sx.Bool(n.Constraint))
	case "and":
		return sx.L(sx.Int(1), dumpTree(n.Left), dumpTree(n.Right))
	case "or":
		return sx.L(sx.Int(2), dumpTree(n.Left), dumpTree(n.Right))
	}
	return sx.L(sx.Int(9))
}

func markerOnce(raw string, extras map[string]bool, grid []map[string]bool) (out string) {
	defer func() {
		if recover() != nil {
			out = `("panic")`
		}
	}()
	ok, val, tree := pypires.VerifParseMarkerTree(raw, extras)
	if !ok {
		return `("err")`
	}
	// The plain hook must agree with the tree hook.
	ok2, val2, _ := pypires.VerifParseEvalMarker(raw, extras)
	if !ok2 || val2 != val {
		return `("hookmismatch")`
	}
	// observables: accepted, the value for the requested extras, the values over a grid of
	// other extras sets; the parse tree comes last and is a diagnostic only
	var gv []sx.V
	for _, g := range grid {
		_, v, _ := pypires.VerifParseEvalMarker(raw, g)
		gv = append(gv, sx.Bool(v))
	}
	return sx.L(sx.Sym("ok"), sx.Bool(val), sx.L(gv...), dumpTree(tree)).String()
}

// markerRepeat: parseMarkerVar ranges over a Go map; Go randomises the order, so
// an order dependence would show as differing answers among repetitions.
const markerRepeat = 8

func markerEval(arg sx.V) sx.V {
	raw := arg.Nth(0).Str()
	extras := extrasMap(arg.Nth(1))
	var grid []map[string]bool
	if len(arg.List()) > 4 {
		for _, g := range arg.Nth(4).List() {
			grid = append(grid, extrasMap(g))
		}
	}
	first := markerOnce(raw, extras, grid)
	for i := 1; i < markerRepeat; i++ {
		if again := markerOnce(raw, extras, grid); again != first {
			return sx.L(sx.Sym("nondet"), rawSx(first), rawSx(again))
		}
	}
	return rawSx(first)
}

// markerEdge resolves  root 1.0 -> mid[extras] -> (marker) guarded  with the
// real PyPI resolver over a LocalClient and reports whether the guarded edge
// is present in the resolved graph.
func markerEdge(arg sx.V) sx.V {
	raw := arg.Nth(0).Str()
	var extras []string
	for _, e := range arg.Nth(1).List() {
		extras = append(extras, e.Str())
	}
	pk := func(name string) resolve.PackageKey { return resolve.PackageKey{System: resolve.PyPI, Name: name} }
	conc := func(name string) resolve.Version {
		return resolve.Version{VersionKey: resolve.VersionKey{PackageKey: pk(name), VersionType: resolve.Concrete, Version: "1.0"}}
	}
	req := func(name string, t dep.Type) resolve.RequirementVersion {
		return resolve.RequirementVersion{
			VersionKey: resolve.VersionKey{PackageKey: pk(name), VersionType: resolve.Requirement, Version: ""},
			Type:       t,
		}
	}
	var midType, guardType dep.Type
	if len(extras) > 0 {
		midType.AddAttr(dep.EnabledDependencies, strings.Join(extras, ","))
	}
	guardType.AddAttr(dep.Environment, raw)
	lc := resolve.NewLocalClient()
	lc.AddVersion(conc("guarded"), nil)
	lc.AddVersion(conc("mid"), []resolve.RequirementVersion{req("guarded", guardType)})
	lc.AddVersion(conc("root"), []resolve.RequirementVersion{req("mid", midType)})
	r := pypires.NewResolver(lc)
	g, err := r.Resolve(context.Background(), conc("root").VersionKey)
	if err != nil {
		return sx.L(sx.Sym("err"))
	}
	if g.Error != "" {
		return sx.L(sx.Sym("grapherr"))
	}
	midID, guardID := -1, -1
	for i, n := range g.Nodes {
		switch n.Version.Name {
		case "mid":
			midID = i
		case "guarded":
			guardID = i
		}
	}
	if midID < 0 {
		return sx.L(sx.Sym("grapherr"))
	}
	present := false
	for _, e := range g.Edges {
		if int(e.From) == midID && int(e.To) == guardID && guardID >= 0 {
			present = true
		}
	}
	if present != (guardID >= 0) {
		// a guarded node without the edge (or the reverse) would be a resolver defect worth seeing
		return sx.L(sx.Sym("inconsistent"))
	}
	return sx.L(sx.Sym("edge"), sx.Bool(present))
}

// pypiEnv: the target environment as the running code sees it, sorted by key.
func pypiEnv(sx.V) sx.V {
	env := pypires.VerifMarkers()
	keys := make([]string, 0, len(env))
	for k := range env {
		keys = append(keys, k)
	}
	sort.Strings(keys)
	var out []sx.V
	for _, k := range keys {
		out = append(out, sx.L(sx.B(k), sx.B(env[k])))
	}
	return sx.L(out...)
}

// markerMulti: ((root...) ...), root = (item...), item = (raw (extra...) shape (extra2...)).
// One universe, ONE resolver; the roots are resolved one after the other on it, so that anything
// the resolver remembers about one marker (caches) can leak into another. Shapes of an item i of root j:
//   0  root -> mid[extras] -> (marker) g                    one requirer
//   1  root -> (marker) g                                   the marker sits on a direct requirement of the root
//   2  root -> a -> mid[extras], root -> b -> mid[extras2], mid -> (marker) g      two requirers, different extras
//   3  root -> mid[extras] -> (marker) g[zz],  g -> (extra == "zz") h              the guarded requirement enables an extra
//   4  root -> q, root -> mid[extras], mid -> (marker) g; q 2.0 -> mid[extras2], zmissing==9 (no such version, so q 2.0
//      is rejected after its requirement on mid was looked at), q 1.0 -> nothing: extras2 are requested by nobody in the result
//   5  root -> helper -> root[extras], root -> (marker) g: the root is asked for twice, plainly and, through the cycle, with
//      extras; its guarded requirement is followed when the marker holds for either request (at most one such item per root)
// Result per root: ("err") | ("grapherr") | ("inconsistent") | ("edges" b...), b = presence of the guarded edge
// (for shape 3 also: h hangs under g exactly when g is there).
func markerMulti(arg sx.V) sx.V {
	pk := func(name string) resolve.PackageKey { return resolve.PackageKey{System: resolve.PyPI, Name: name} }
	conc := func(name string) resolve.Version {
		return resolve.Version{VersionKey: resolve.VersionKey{PackageKey: pk(name), VersionType: resolve.Concrete, Version: "1.0"}}
	}
	req := func(name string, t dep.Type) resolve.RequirementVersion {
		return resolve.RequirementVersion{
			VersionKey: resolve.VersionKey{PackageKey: pk(name), VersionType: resolve.Requirement, Version: ""},
			Type:       t,
		}
	}
	strs := func(v sx.V) []string {
		var out []string
		for _, e := range v.List() {
			out = append(out, e.Str())
		}
		return out
	}
	withExtras := func(ex []string) dep.Type {
		var t dep.Type
		if len(ex) > 0 {
			t.AddAttr(dep.EnabledDependencies, strings.Join(ex, ","))
		}
		return t
	}
	type edge struct{ from, to, also string }
	roots := arg.Nth(0).List()
	lc := resolve.NewLocalClient()
	guards := make([][]edge, len(roots))
	for j, root := range roots {
		rootName := "root" + strconv.Itoa(j)
		var rootReqs []resolve.RequirementVersion
		for i, item := range root.List() {
			raw := item.Nth(0).Str()
			extras := strs(item.Nth(1))
			shape := 0
			var extras2 []string
			if len(item.List()) > 2 {
				shape = int(item.Nth(2).Int())
				extras2 = strs(item.Nth(3))
			}
			sfx := strconv.Itoa(j) + "x" + strconv.Itoa(i)
			mid, g := "mid"+sfx, "g"+sfx
			var guardType dep.Type
			guardType.AddAttr(dep.Environment, raw)
			switch shape {
			case 1:
				lc.AddVersion(conc(g), nil)
				rootReqs = append(rootReqs, req(g, guardType))
				guards[j] = append(guards[j], edge{rootName, g, ""})
			case 2:
				a, b := "a"+sfx, "b"+sfx
				lc.AddVersion(conc(g), nil)
				lc.AddVersion(conc(mid), []resolve.RequirementVersion{req(g, guardType)})
				lc.AddVersion(conc(a), []resolve.RequirementVersion{req(mid, withExtras(extras))})
				lc.AddVersion(conc(b), []resolve.RequirementVersion{req(mid, withExtras(extras2))})
				rootReqs = append(rootReqs, req(a, dep.Type{}), req(b, dep.Type{}))
				guards[j] = append(guards[j], edge{mid, g, ""})
			case 3:
				h := "h" + sfx
				var hType dep.Type
				hType.AddAttr(dep.Environment, `extra == "zz"`)
				guardType.AddAttr(dep.EnabledDependencies, "zz")
				lc.AddVersion(conc(h), nil)
				lc.AddVersion(conc(g), []resolve.RequirementVersion{req(h, hType)})
				lc.AddVersion(conc(mid), []resolve.RequirementVersion{req(g, guardType)})
				rootReqs = append(rootReqs, req(mid, withExtras(extras)))
				guards[j] = append(guards[j], edge{mid, g, h})
			case 4:
				q, zm := "a"+sfx+"q", "zmissing"+sfx
				q2 := conc(q)
				q2.Version = "2.0"
				zreq := req(zm, dep.Type{})
				zreq.Version = "==9"
				lc.AddVersion(conc(zm), nil)
				lc.AddVersion(conc(g), nil)
				lc.AddVersion(conc(mid), []resolve.RequirementVersion{req(g, guardType)})
				lc.AddVersion(conc(q), nil)
				lc.AddVersion(q2, []resolve.RequirementVersion{req(mid, withExtras(extras2)), zreq})
				rootReqs = append(rootReqs, req(q, dep.Type{}), req(mid, withExtras(extras)))
				guards[j] = append(guards[j], edge{mid, g, ""})
			case 5:
				helper := "a" + sfx + "h"
				lc.AddVersion(conc(g), nil)
				lc.AddVersion(conc(helper), []resolve.RequirementVersion{req(rootName, withExtras(extras))})
				rootReqs = append(rootReqs, req(helper, dep.Type{}), req(g, guardType))
				guards[j] = append(guards[j], edge{rootName, g, ""})
			default:
				lc.AddVersion(conc(g), nil)
				lc.AddVersion(conc(mid), []resolve.RequirementVersion{req(g, guardType)})
				rootReqs = append(rootReqs, req(mid, withExtras(extras)))
				guards[j] = append(guards[j], edge{mid, g, ""})
			}
		}
		lc.AddVersion(conc(rootName), rootReqs)
	}
	r := pypires.NewResolver(lc)
	var out []sx.V
	for j := range roots {
		g, err := r.Resolve(context.Background(), conc("root"+strconv.Itoa(j)).VersionKey)
		if err != nil {
			out = append(out, sx.L(sx.Sym("err")))
			continue
		}
		if g.Error != "" {
			out = append(out, sx.L(sx.Sym("grapherr")))
			continue
		}
		id := map[string]int{}
		for k, n := range g.Nodes {
			id[n.Version.Name] = k
		}
		has := func(from, to string) (present, nodeThere bool) {
			f, okf := id[from]
			t, okt := id[to]
			if !okf || !okt {
				return false, okt
			}
			for _, e := range g.Edges {
				if int(e.From) == f && int(e.To) == t {
					return true, true
				}
			}
			return false, true
		}
		res := []sx.V{sx.Sym("edges")}
		bad := false
		for _, e := range guards[j] {
			if _, ok := id[e.from]; !ok {
				bad = true
				break
			}
			present, there := has(e.from, e.to)
			if present != there {
				bad = true // the guarded package without its guarded edge, or the reverse
				break
			}
			if e.also != "" {
				if hp, _ := has(e.to, e.also); hp != present {
					bad = true // g[zz] was followed but its extra-guarded dependency was not (or the reverse)
					break
				}
			}
			res = append(res, sx.Bool(present))
		}
		if bad {
			out = append(out, sx.L(sx.Sym("inconsistent")))
			continue
		}
		out = append(out, sx.L(res...))
	}
	return sx.L(out...)
}

func init() {
	register("marker_multi", markerMulti)
	register("pypi_env", pypiEnv)
	register("pep508", pep508Parse)
	register("canon_name", canonName)
	register("pep440_tables", pep440Tables)
	register("marker", markerEval)
	register("marker_edge", markerEdge)
}
