package main

// C05: resolution is a pure function of the universe and the root.

import (
	"context"
	"errors"
	"fmt"
	"sort"
	"strings"
	"sync"

	"deps.dev/util/resolve"
	"deps.dev/util/resolve/dep"
	"deps.dev/util/resolve/version"

	"verifharness/sx"
	"os"
	"strconv"
	"time"
)

// purityAttrs renders a version's attribute set with every key probed explicitly.
func purityAttrs(a version.AttrSet) string {
	var b strings.Builder
	b.WriteString(a.String())
	for k := -8; k <= 24; k++ {
		if k == 0 {
			continue
		}
		if v, ok := a.GetAttr(version.AttrKey(k)); ok {
			fmt.Fprintf(&b, "#%d=%q", k, v)
		}
	}
	return b.String()
}

// purityType renders a dependency type with every attribute key probed explicitly (String
// and Compare need not show all of them: a key written into shared storage must be seen).
func purityType(t dep.Type) string {
	var b strings.Builder
	b.WriteString(t.String())
	for k := -8; k <= 24; k++ {
		if k == 0 {
			continue
		}
		if t.HasAttr(dep.AttrKey(k)) {
			v, _ := t.GetAttr(dep.AttrKey(k))
			fmt.Fprintf(&b, "#%d=%q", k, v)
		}
	}
	return b.String()
}

// graphText renders a canonicalised graph as sorted tuples (never DeepEqual).
func graphText(g *resolve.Graph, err error) string {
	if err != nil {
		// the KIND of failure is part of the answer (never its text)
		if errors.Is(err, resolve.ErrNotFound) {
			return "RESOLVE-ERROR notfound"
		}
		return "RESOLVE-ERROR other"
	}
	if cerr := g.Canon(); cerr != nil {
		return "CANON-ERROR"
	}
	var b strings.Builder
	if g.Error != "" {
		// the graph-wide error is a field of the graph: its text belongs to the answer (all comparisons are
		// between answers of this one binary)
		fmt.Fprintf(&b, "GRAPH-ERROR %q\n", g.Error)
	}
	for i, n := range g.Nodes {
		fmt.Fprintf(&b, "n%d %s %s", i, n.Version.Name, n.Version.Version)
		var es []string
		for _, e := range n.Errors {
			es = append(es, e.Req.Name+"@"+e.Req.Version)
		}
		sort.Strings(es)
		fmt.Fprintf(&b, " errs=%q\n", es)
	}
	var es []string
	for _, e := range g.Edges {
		es = append(es, fmt.Sprintf("e %d->%d %q %s", e.From, e.To, e.Requirement, purityType(e.Type)))
	}
	sort.Strings(es)
	b.WriteString(strings.Join(es, "\n"))
	return b.String()
}

// snapshot records what the client reports for every package, version and requirement of the universe.
func snapshot(lc *resolve.LocalClient, sys resolve.System, u sx.V) string {
	ctx := context.Background()
	var b strings.Builder
	for _, p := range u.List() {
		pk := resolve.PackageKey{System: sys, Name: p.Nth(0).Str()}
		vs, err := lc.Versions(ctx, pk)
		fmt.Fprintf(&b, "P %s err=%v:", pk.Name, err != nil)
		for _, v := range vs {
			fmt.Fprintf(&b, " %s%s", v.Version, purityAttrs(v.AttrSet))
		}
		b.WriteByte('\n')
		for _, ve := range p.List()[1:] {
			vk := resolve.VersionKey{PackageKey: pk, VersionType: resolve.Concrete, Version: ve.Nth(0).Str()}
			v, err := lc.Version(ctx, vk)
			fmt.Fprintf(&b, " V %s err=%v %s\n", vk.Version, err != nil, purityAttrs(v.AttrSet))
			rs, err := lc.Requirements(ctx, vk)
			fmt.Fprintf(&b, " R err=%v:", err != nil)
			for _, r := range rs {
				fmt.Fprintf(&b, " [%s %s@%s]", purityType(r.Type), r.Name, r.Version)
			}
			b.WriteByte('\n')
			for _, d := range ve.Nth(2).List() {
				rk := resolve.VersionKey{PackageKey: resolve.PackageKey{System: sys, Name: d.Nth(1).Str()},
					VersionType: resolve.Requirement, Version: d.Nth(2).Str()}
				ms, err := lc.MatchingVersions(ctx, rk)
				fmt.Fprintf(&b, " M %s@%s err=%v:", rk.Name, rk.Version, err != nil)
				for _, m := range ms {
					fmt.Fprintf(&b, " %s", m.Version)
				}
				b.WriteByte('\n')
			}
		}
	}
	return b.String()
}

// permuteVersions returns the universe with the version entries of every package,
// and the packages themselves, reordered by the given permutation seeds.
func permuteUniverse(u sx.V, perm []int64) sx.V {
	ps := append([]sx.V(nil), u.List()...)
	k := 0
	next := func(n int) int {
		if n <= 1 || len(perm) == 0 {
			return 0
		}
		x := int(perm[k%len(perm)]) % n
		k++
		if x < 0 {
			x = -x
		}
		return x
	}
	shuffle := func(l []sx.V) {
		for i := len(l) - 1; i > 0; i-- {
			j := next(i + 1)
			l[i], l[j] = l[j], l[i]
		}
	}
	shuffle(ps)
	for i, p := range ps {
		items := append([]sx.V(nil), p.List()...)
		shuffle(items[1:])
		ps[i] = sx.L(items...)
	}
	return sx.L(ps...)
}

func init() {
	// purity: (sysr universe ((name version)...) (perm...) goroutines) -> list of discrepancies
	register("purity", func(a sx.V) sx.V {
		sys := resolveSystem(a.Nth(0).Int())
		u := a.Nth(1)
		var roots []resolve.VersionKey
		for _, r := range a.Nth(2).List() {
			roots = append(roots, resolve.VersionKey{
				PackageKey:  resolve.PackageKey{System: sys, Name: r.Nth(0).Str()},
				VersionType: resolve.Concrete, Version: r.Nth(1).Str()})
		}
		var perm []int64
		for _, p := range a.Nth(3).List() {
			perm = append(perm, p.Int())
		}
		ng := int(a.Nth(4).Int())
		// one deadline for the whole history: a resolver that does not terminate on its own (npm on alias
		// cycles, finding F-C04-6 of C04) stops when the context expires; such a history decides nothing about
		// C05 and is answered ("undecided")
		limit := 120 * time.Second
		if sc, err := strconv.Atoi(os.Getenv("VERIF_WATCHDOG_SCALE")); err == nil && sc > 0 {
			limit *= time.Duration(sc)
		}
		ctx, cancel := context.WithTimeout(context.Background(), limit)
		defer cancel()
		var out []sx.V
		bad := func(kind string, i int, detail string) {
			if len(out) < 8 {
				out = append(out, sx.L(sx.Sym(kind), sx.Int(i), sx.B(detail)))
			}
		}

		lcA := buildClient(sys, u)
		s0 := snapshot(lcA, sys, u)
		rA := newResolver(sys, lcA)
		seq := make([]string, len(roots))
		for i, vk := range roots {
			g, err := rA.Resolve(ctx, vk)
			seq[i] = graphText(g, err)
		}
		if s1 := snapshot(lcA, sys, u); s1 != s0 {
			bad("client-changed-by-resolve", 0, firstDiff(s0, s1))
		}
		// asked again, after the others
		for i, vk := range roots {
			g, err := rA.Resolve(ctx, vk)
			if t := graphText(g, err); t != seq[i] {
				bad("differs-when-asked-again", i, firstDiff(seq[i], t))
			}
		}
		// fresh client and resolver
		for i, vk := range roots {
			lcB := buildClient(sys, u)
			g, err := newResolver(sys, lcB).Resolve(ctx, vk)
			if t := graphText(g, err); t != seq[i] {
				bad("differs-from-fresh-client", i, firstDiff(seq[i], t))
			}
		}
		// same data inserted in another order
		up := permuteUniverse(u, perm)
		lcC := buildClient(sys, up)
		if sc := snapshot(lcC, sys, u); sc != s0 {
			bad("client-depends-on-insertion-order", 0, firstDiff(s0, sc))
		}
		rC := newResolver(sys, lcC)
		for i, vk := range roots {
			g, err := rC.Resolve(ctx, vk)
			if t := graphText(g, err); t != seq[i] {
				bad("differs-by-insertion-order", i, firstDiff(seq[i], t))
			}
		}
		// concurrent resolutions over one client: all goroutines are released together from one barrier and
		// each resolves ALL roots twice in its own rotation, so that calls really overlap; run once on
		// a client loaded in the original order and once on the one loaded in the permuted order
		if ng > 0 && len(roots) > 0 {
			for which, uu := range []sx.V{u, up} {
				lcD := buildClient(sys, uu)
				shared := newResolver(sys, lcD)
				type ans struct {
					root int
					text string
				}
				res := make([][]ans, ng)
				start := make(chan struct{})
				var wg sync.WaitGroup
				for k := 0; k < ng; k++ {
					wg.Add(1)
					go func(k int) {
						defer wg.Done()
						defer func() {
							if r := recover(); r != nil {
								res[k] = append(res[k], ans{0, "PANIC"})
							}
						}()
						r := shared
						if sys == resolve.PyPI {
							r = newResolver(sys, lcD) // one resolver per goroutine over a shared client
						}
						<-start
						for round := 0; round < 2; round++ {
							for j := range roots {
								i := (j + k + round) % len(roots)
								g, err := r.Resolve(ctx, roots[i])
								res[k] = append(res[k], ans{i, graphText(g, err)})
							}
						}
					}(k)
				}
				close(start)
				wg.Wait()
				for k := 0; k < ng; k++ {
					for _, a := range res[k] {
						if a.text != seq[a.root] {
							bad("differs-when-concurrent", a.root, firstDiff(seq[a.root], a.text))
						}
					}
				}
				if sd := snapshot(lcD, sys, u); sd != s0 {
					bad("client-changed-by-concurrent-resolve", which, firstDiff(s0, sd))
				}
			}
		}
		ok := 0
		for _, s := range seq {
			if !strings.Contains(s, "ERROR") {
				ok++
			}
		}
		if ctx.Err() != nil {
			return sx.L(sx.Sym("undecided"))
		}
		return sx.L(sx.L(out...), sx.Int(ok), sx.Int(len(seq)))
	})
}

func firstDiff(a, b string) string {
	la, lb := strings.Split(a, "\n"), strings.Split(b, "\n")
	for i := 0; i < len(la) || i < len(lb); i++ {
		var x, y string
		if i < len(la) {
			x = la[i]
		}
		if i < len(lb) {
			y = lb[i]
		}
		if x != y {
			return fmt.Sprintf("line %d: %q vs %q", i, x, y)
		}
	}
	return ""
}
