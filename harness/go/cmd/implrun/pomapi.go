package main

// C15: the REAL driver of the POM pipeline in util/resolve/maven.go
// (APIClient.Requirements -> mavenRequirements -> fetchMavenParents), reached without any hook:
// the lineage of a `pom` case is served as Requirements_Maven messages by a fake Insights client.
//
// kind pomapi: (env poms jdktable [style]) -> ("ok" ((name version opt test scope type classifier exclusions)*))
//              | ("err") | ("notfound")
// The environment of the case is not used: that driver merges default profiles only.

import (
	"context"
	"errors"

	"google.golang.org/grpc"
	"google.golang.org/grpc/codes"
	"google.golang.org/grpc/status"

	pb "deps.dev/api/v3"
	"deps.dev/util/resolve"
	"deps.dev/util/resolve/dep"

	"verifharness/sx"
)

type fakeMavenInsights struct {
	pb.InsightsClient
	poms  []sx.V // poms[0] is the root
	calls int
}

// pomKey is the key a stored POM answers to: what its file declares, group and version falling
// back to the parent element (the convention of the `pom` kind).
func pomKey(v sx.V) (name, version string) {
	l := v.List()
	g, a, ver := l[0].Str(), l[1].Str(), l[2].Str()
	if g == "" {
		g = l[3].Nth(0).Str()
	}
	if ver == "" {
		ver = l[3].Nth(2).Str()
	}
	return g + ":" + a, ver
}

func pbMavenDeps(v sx.V) []*pb.Requirements_Maven_Dependency {
	var out []*pb.Requirements_Maven_Dependency
	for _, dv := range v.List() {
		l := dv.List()
		d := &pb.Requirements_Maven_Dependency{
			Name: l[0].Str() + ":" + l[1].Str(), Version: l[2].Str(), Type: l[3].Str(), Classifier: l[4].Str(),
			Scope: l[5].Str(), Optional: l[6].Str(),
		}
		for _, e := range l[7].List() {
			d.Exclusions = append(d.Exclusions, e.Nth(0).Str()+":"+e.Nth(1).Str())
		}
		out = append(out, d)
	}
	return out
}

func pbMavenProps(v sx.V) []*pb.Requirements_Maven_Property {
	var out []*pb.Requirements_Maven_Property
	for _, p := range v.List() {
		out = append(out, &pb.Requirements_Maven_Property{Name: p.Nth(0).Str(), Value: p.Nth(1).Str()})
	}
	return out
}

func pbMaven(v sx.V) *pb.Requirements_Maven {
	l := v.List()
	m := &pb.Requirements_Maven{
		Dependencies:         pbMavenDeps(l[6]),
		DependencyManagement: pbMavenDeps(l[7]),
		Properties:           pbMavenProps(l[5]),
	}
	if pg, pa, pv := l[3].Nth(0).Str(), l[3].Nth(1).Str(), l[3].Nth(2).Str(); pg != "" || pa != "" || pv != "" {
		m.Parent = &pb.VersionKey{System: pb.System_MAVEN, Name: pg + ":" + pa, Version: pv}
	}
	for _, pv := range l[8].List() {
		pl := pv.List()
		act := pl[1].List()
		a := &pb.Requirements_Maven_Profile_Activation{ActiveByDefault: act[0].Str()}
		if act[1].Str() != "" {
			a.Jdk = &pb.Requirements_Maven_Profile_Activation_JDK{Jdk: act[1].Str()}
		}
		if o := act[2].List(); o[0].Str() != "" || o[1].Str() != "" || o[2].Str() != "" || o[3].Str() != "" {
			a.Os = &pb.Requirements_Maven_Profile_Activation_OS{Name: o[0].Str(), Family: o[1].Str(), Arch: o[2].Str(), Version: o[3].Str()}
		}
		if pn, pval := act[3].Nth(0).Str(), act[3].Nth(1).Str(); pn != "" || pval != "" {
			a.Property = &pb.Requirements_Maven_Profile_Activation_Property{Property: &pb.Requirements_Maven_Property{Name: pn, Value: pval}}
		}
		m.Profiles = append(m.Profiles, &pb.Requirements_Maven_Profile{
			Id: pl[0].Str(), Activation: a, Properties: pbMavenProps(pl[2]),
			Dependencies: pbMavenDeps(pl[3]), DependencyManagement: pbMavenDeps(pl[4]),
		})
	}
	return m
}

func (f *fakeMavenInsights) GetRequirements(ctx context.Context, in *pb.GetRequirementsRequest, opts ...grpc.CallOption) (*pb.Requirements, error) {
	if in.VersionKey.System != pb.System_MAVEN {
		return nil, status.Error(codes.InvalidArgument, "system")
	}
	// the first request is the one for the root itself; every later one (parents, imports) is
	// answered from the other POMs, as the table lookup of the `pom` kind does
	f.calls++
	if f.calls == 1 {
		return &pb.Requirements{Maven: pbMaven(f.poms[0])}, nil
	}
	for _, v := range f.poms[1:] {
		if n, ver := pomKey(v); n == in.VersionKey.Name && ver == in.VersionKey.Version {
			return &pb.Requirements{Maven: pbMaven(v)}, nil
		}
	}
	return nil, status.Error(codes.NotFound, "version not found")
}

func pomAPI(arg sx.V) sx.V {
	poms := arg.Nth(1).List()
	if len(poms) == 0 {
		panic(harnessBug{"lineage without root"})
	}
	f := &fakeMavenInsights{poms: poms}
	name, version := pomKey(poms[0])
	c := resolve.NewAPIClient(f)
	reqs, err := c.Requirements(context.Background(), resolve.VersionKey{
		PackageKey: resolve.PackageKey{System: resolve.Maven, Name: name}, VersionType: resolve.Concrete, Version: version})
	if err != nil {
		if errors.Is(err, resolve.ErrNotFound) {
			return sx.L(sx.Sym("notfound"))
		}
		return sx.L(sx.Sym("err"))
	}
	out := make([]sx.V, 0, len(reqs))
	for i := range reqs {
		t := reqs[i].Type
		_, opt := t.GetAttr(dep.Opt)
		_, test := t.GetAttr(dep.Test)
		scope, _ := t.GetAttr(dep.Scope)
		typ, _ := t.GetAttr(dep.MavenArtifactType)
		cl, _ := t.GetAttr(dep.MavenClassifier)
		ex, hasEx := t.GetAttr(dep.MavenExclusions)
		out = append(out, sx.L(sx.B(reqs[i].Name), sx.B(reqs[i].Version), sx.Bool(opt), sx.Bool(test), sx.B(scope), sx.B(typ),
			sx.B(cl), sx.Bool(hasEx), sx.B(ex)))
	}
	return sx.L(sx.Sym("ok"), sx.L(out...))
}

func init() { register("pomapi", pomAPI) }
