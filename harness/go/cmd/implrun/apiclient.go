package main

// C18: the API-backed client (util/resolve/api.go) driven through an in-process
// fake of pb.InsightsClient. No network, no gRPC server: APIClient only needs
// the Go interface.
//
// Universe (sx):
//   U      = ( (pkg*) [canon] )     canon: bit0 answers spell names in another case, bit1 GetVersion drops +build
//   pkg    = ( name fail (ver*) )          fail: bit0 GetPackage, bit1 GetVersion, bit2 GetRequirements answer Unavailable
//   ver    = ( version isdefault deps (bundle*) )
//   deps   = ( (dep*) (dep*) (dep*) (dep*) (name*) )   dependencies, dev, optional, peer, bundleDependencies
//   dep    = ( name requirement )
//   bundle = ( path name version deps )
//
// Case kinds:
//   api        (U table ops)      -> one result per op, one APIClient for the whole history (table is for the model only)
//   api_table  (U (name req)*)    -> resolve.MatchRequirement over the versions the service lists, as version strings
//   api_graph  (U name version)   -> (graphAPI graphLocal traceAPI traceLocal)
//   api_conc   (U roots n rounds [direct]) -> per goroutine: result equals sequential result? (+ race flag);
//              direct=1: odd goroutines call the client directly instead of resolving

import (
	"context"
	"errors"
	"fmt"
	"os"
	"runtime"
	"sort"
	"strings"
	"sync"

	"google.golang.org/grpc"
	"google.golang.org/grpc/codes"
	"google.golang.org/grpc/status"

	pb "deps.dev/api/v3"
	"deps.dev/util/resolve"
	"deps.dev/util/resolve/dep"
	"deps.dev/util/resolve/npm"
	"deps.dev/util/resolve/version"

	"verifharness/sx"
)

// ---------------------------------------------------------------- universe

type uDep struct{ name, req string }
type uDeps struct {
	sec    [4][]uDep
	bundle []string
}
type uBundle struct {
	path, name, version string
	deps                uDeps
}
type uVer struct {
	version   string
	isDefault bool
	deps      uDeps
	bundled   []uBundle
}
type uPkg struct {
	name string
	fail int
	vers []uVer
}
type universe struct {
	pkgs  []uPkg
	index map[string]int
	// canon: the service answers with canonicalised keys, as the real one may:
	// bit0 names come back in another letter case, bit1 GetVersion reports a
	// version without its build metadata ("1.0.0" for "1.0.0+build").
	canon int
}

func decDeps(v sx.V) uDeps {
	var d uDeps
	l := v.List()
	if len(l) != 5 {
		panic(harnessBug{"deps shape"})
	}
	for i := 0; i < 4; i++ {
		for _, e := range l[i].List() {
			d.sec[i] = append(d.sec[i], uDep{e.Nth(0).Str(), e.Nth(1).Str()})
		}
	}
	for _, e := range l[4].List() {
		d.bundle = append(d.bundle, e.Str())
	}
	return d
}

func decUniverse(v sx.V) *universe {
	u := &universe{index: map[string]int{}}
	if len(v.List()) > 1 {
		u.canon = int(v.Nth(1).Int())
	}
	for _, p := range v.Nth(0).List() {
		pk := uPkg{name: p.Nth(0).Str(), fail: int(p.Nth(1).Int())}
		for _, ve := range p.Nth(2).List() {
			uv := uVer{version: ve.Nth(0).Str(), isDefault: ve.Nth(1).Int() != 0, deps: decDeps(ve.Nth(2))}
			for _, b := range ve.Nth(3).List() {
				uv.bundled = append(uv.bundled, uBundle{b.Nth(0).Str(), b.Nth(1).Str(), b.Nth(2).Str(), decDeps(b.Nth(3))})
			}
			pk.vers = append(pk.vers, uv)
		}
		if _, dup := u.index[pk.name]; dup {
			panic(harnessBug{"duplicate package in universe"})
		}
		u.index[pk.name] = len(u.pkgs)
		u.pkgs = append(u.pkgs, pk)
	}
	return u
}

func (u *universe) pkg(name string) *uPkg {
	i, ok := u.index[name]
	if !ok {
		return nil
	}
	return &u.pkgs[i]
}

func (p *uPkg) ver(v string) *uVer {
	for i := range p.vers {
		if p.vers[i].version == v {
			return &p.vers[i]
		}
	}
	return nil
}

// ---------------------------------------------------------------- fake Insights service

// fakeInsights answers GetPackage/GetVersion/GetRequirements from a universe.
// Every answer is a freshly built message (as a real gRPC client would hand
// out), so nothing the caller does to a response is shared between calls.
// The embedded nil interface makes any other method panic.
type fakeInsights struct {
	pb.InsightsClient
	u     *universe
	yield bool
}

// canonName / canonVersion: how the service spells a key in its answers.
func (f *fakeInsights) canonName(n string) string {
	if f.u.canon&1 != 0 {
		if up := strings.ToUpper(n); up != n {
			return up
		}
		return strings.ToLower(n)
	}
	return n
}

func (f *fakeInsights) canonVersion(v string) string {
	if f.u.canon&2 != 0 {
		if i := strings.IndexByte(v, '+'); i >= 0 {
			return v[:i]
		}
	}
	return v
}

func (f *fakeInsights) pause() {
	if f.yield {
		runtime.Gosched()
	}
}

func (f *fakeInsights) GetPackage(ctx context.Context, in *pb.GetPackageRequest, opts ...grpc.CallOption) (*pb.Package, error) {
	f.pause()
	if in.PackageKey.System != pb.System_NPM {
		return nil, status.Error(codes.InvalidArgument, "system")
	}
	p := f.u.pkg(in.PackageKey.Name)
	if p == nil {
		return nil, status.Error(codes.NotFound, "package not found")
	}
	if p.fail&1 != 0 {
		return nil, status.Error(codes.Unavailable, "unavailable")
	}
	// the listed version strings are data; only the spelling of the name is the service's
	out := &pb.Package{PackageKey: &pb.PackageKey{System: pb.System_NPM, Name: f.canonName(p.name)}}
	for _, v := range p.vers {
		out.Versions = append(out.Versions, &pb.Package_Version{
			VersionKey: &pb.VersionKey{System: pb.System_NPM, Name: f.canonName(p.name), Version: v.version},
			IsDefault:  v.isDefault,
		})
	}
	return out, nil
}

func (f *fakeInsights) GetVersion(ctx context.Context, in *pb.GetVersionRequest, opts ...grpc.CallOption) (*pb.Version, error) {
	f.pause()
	p := f.u.pkg(in.VersionKey.Name)
	if p == nil {
		return nil, status.Error(codes.NotFound, "package not found")
	}
	if p.fail&2 != 0 {
		return nil, status.Error(codes.Unavailable, "unavailable")
	}
	v := p.ver(in.VersionKey.Version)
	if v == nil {
		return nil, status.Error(codes.NotFound, "version not found")
	}
	return &pb.Version{
		VersionKey: &pb.VersionKey{System: pb.System_NPM, Name: f.canonName(p.name), Version: f.canonVersion(v.version)},
		IsDefault:  v.isDefault,
	}, nil
}

func pbDeps(d uDeps) *pb.Requirements_NPM_Dependencies {
	conv := func(l []uDep) []*pb.Requirements_NPM_Dependencies_Dependency {
		var out []*pb.Requirements_NPM_Dependencies_Dependency
		for _, e := range l {
			out = append(out, &pb.Requirements_NPM_Dependencies_Dependency{Name: e.name, Requirement: e.req})
		}
		return out
	}
	if len(d.sec[0])+len(d.sec[1])+len(d.sec[2])+len(d.sec[3])+len(d.bundle) == 0 {
		// an absent message, as protobuf delivers an empty sub-message that was never set
		return nil
	}
	return &pb.Requirements_NPM_Dependencies{
		Dependencies:         conv(d.sec[0]),
		DevDependencies:      conv(d.sec[1]),
		OptionalDependencies: conv(d.sec[2]),
		PeerDependencies:     conv(d.sec[3]),
		BundleDependencies:   append([]string(nil), d.bundle...),
	}
}

func (f *fakeInsights) GetRequirements(ctx context.Context, in *pb.GetRequirementsRequest, opts ...grpc.CallOption) (*pb.Requirements, error) {
	f.pause()
	p := f.u.pkg(in.VersionKey.Name)
	if p == nil {
		return nil, status.Error(codes.NotFound, "package not found")
	}
	if p.fail&4 != 0 {
		return nil, status.Error(codes.Unavailable, "unavailable")
	}
	v := p.ver(in.VersionKey.Version)
	if v == nil {
		return nil, status.Error(codes.NotFound, "version not found")
	}
	n := &pb.Requirements_NPM{Dependencies: pbDeps(v.deps)}
	for _, b := range v.bundled {
		n.Bundled = append(n.Bundled, &pb.Requirements_NPM_Bundle{Path: b.path, Name: b.name, Version: b.version, Dependencies: pbDeps(b.deps)})
	}
	return &pb.Requirements{Npm: n}, nil
}

// ---------------------------------------------------------------- projections

func npmPK(name string) resolve.PackageKey { return resolve.PackageKey{System: resolve.NPM, Name: name} }
func npmVK(name string, t resolve.VersionType, v string) resolve.VersionKey {
	return resolve.VersionKey{PackageKey: npmPK(name), VersionType: t, Version: v}
}

func apiVkSx(k resolve.VersionKey) sx.V {
	return sx.L(sx.Int(int(k.System)), sx.B(k.Name), sx.Int(int(k.VersionType)), sx.B(k.Version))
}

func verSx(v resolve.Version) sx.V { return sx.L(apiVkSx(v.VersionKey), dumpVer(v.AttrSet)) }

func versSx(vs []resolve.Version) sx.V {
	out := make([]sx.V, len(vs))
	for i, v := range vs {
		out[i] = verSx(v)
	}
	return sx.L(out...)
}

func reqsSx(rs []resolve.RequirementVersion) sx.V {
	out := make([]sx.V, len(rs))
	for i := range rs {
		t := rs[i].Type
		// the type as the resolvers observe it: every attribute (GetAttr/HasAttr), IsRegular, and
		// Equal/Compare against the same type built from the zero value by AddAttr (what a
		// LocalClient holds): a type that went through Clone must not differ in any of these
		d := dumpDep(&t)
		fresh := buildDep(d)
		same := t.Compare(fresh) == 0 && fresh.Compare(t) == 0 && t.Equal(fresh) && t.IsRegular() == fresh.IsRegular()
		out[i] = sx.L(apiVkSx(rs[i].VersionKey), d, sx.Bool(t.IsRegular()), sx.Bool(same))
	}
	return sx.L(out...)
}

func apiErrSx(err error) sx.V {
	if errors.Is(err, errBudget) || errors.Is(err, context.Canceled) {
		return sx.L(sx.Sym("budget"))
	}
	if errors.Is(err, resolve.ErrNotFound) {
		return sx.L(sx.Sym("notfound"))
	}
	return sx.L(sx.Sym("err"))
}

// doOp performs one client call described by op = (code name [version]).
func doOp(ctx context.Context, c resolve.Client, op sx.V) sx.V {
	o := op.List()
	switch o[0].Int() {
	case 0:
		v, err := c.Version(ctx, npmVK(o[1].Str(), resolve.Concrete, o[2].Str()))
		if err != nil {
			return apiErrSx(err)
		}
		return sx.L(sx.Sym("ok"), verSx(v))
	case 1:
		vs, err := c.Versions(ctx, npmPK(o[1].Str()))
		if err != nil {
			return apiErrSx(err)
		}
		return sx.L(sx.Sym("ok"), versSx(vs))
	case 2:
		rs, err := c.Requirements(ctx, npmVK(o[1].Str(), resolve.Concrete, o[2].Str()))
		if err != nil {
			return apiErrSx(err)
		}
		return sx.L(sx.Sym("ok"), reqsSx(rs))
	case 3:
		vs, err := c.MatchingVersions(ctx, npmVK(o[1].Str(), resolve.Requirement, o[2].Str()))
		if err != nil {
			return apiErrSx(err)
		}
		return sx.L(sx.Sym("ok"), versSx(vs))
	}
	panic(harnessBug{"bad api op"})
}

func safeOp(ctx context.Context, c resolve.Client, op sx.V) (out sx.V) {
	defer func() {
		if r := recover(); r != nil {
			if hb, ok := r.(harnessBug); ok {
				panic(hb)
			}
			out = sx.L(sx.Sym("panic"))
		}
	}()
	return doOp(ctx, c, op)
}

func apiHistory(arg sx.V) sx.V {
	u := decUniverse(arg.Nth(0))
	c := resolve.NewAPIClient(&fakeInsights{u: u})
	ctx := context.Background()
	var out []sx.V
	for _, op := range arg.Nth(2).List() {
		out = append(out, safeOp(ctx, c, op))
	}
	return sx.L(out...)
}

// serviceVersions is what APIClient.Versions is documented to build from a
// GetPackage answer: one Concrete version per entry, tagged latest if default.
func serviceVersions(p *uPkg) []resolve.Version {
	var vs []resolve.Version
	for _, v := range p.vers {
		rv := resolve.Version{VersionKey: npmVK(p.name, resolve.Concrete, v.version)}
		if v.isDefault {
			rv.SetAttr(version.Tags, "latest")
		}
		vs = append(vs, rv)
	}
	return vs
}

// apiTable tabulates the semver oracle the model takes as a parameter:
// resolve.MatchRequirement(req, versions listed by the service), as version strings.
func apiTable(arg sx.V) sx.V {
	u := decUniverse(arg.Nth(0))
	var out []sx.V
	for _, q := range arg.Nth(1).List() {
		name, req := q.Nth(0).Str(), q.Nth(1).Str()
		var strs []sx.V
		if p := u.pkg(name); p != nil {
			for _, m := range resolve.MatchRequirement(npmVK(name, resolve.Requirement, req), serviceVersions(p)) {
				strs = append(strs, sx.B(m.Version))
			}
		}
		out = append(out, sx.L(sx.B(name), sx.B(req), sx.L(strs...)))
	}
	return sx.L(out...)
}

// ---------------------------------------------------------------- the same data in a LocalClient

// The loader below is written from the text of C18, not from api.go: sections
// become requirements of the documented dependency types, an alias
// npm:name@range becomes a requirement on name carrying KnownAs, every bundled
// entry becomes a package with a mangled name root>version>path... holding one
// concrete version that records DerivedFrom, and its bundling parent requires
// exactly that version.

func specDeps(d uDeps) []resolve.RequirementVersion {
	var out []resolve.RequirementVersion
	add := func(l []uDep, mk func() dep.Type) {
		for _, e := range l {
			t := mk()
			name, req := e.name, e.req
			if strings.HasPrefix(req, "npm:") {
				t.AddAttr(dep.KnownAs, e.name)
				rest := req[4:]
				if i := strings.LastIndexByte(rest, '@'); i >= 0 {
					name, req = rest[:i], rest[i+1:]
				}
			}
			out = append(out, resolve.RequirementVersion{VersionKey: npmVK(name, resolve.Requirement, req), Type: t})
		}
	}
	add(d.sec[0], func() dep.Type { return dep.NewType() })
	add(d.sec[1], func() dep.Type { return dep.NewType(dep.Dev) })
	add(d.sec[2], func() dep.Type { return dep.NewType(dep.Opt) })
	add(d.sec[3], func() dep.Type { t := dep.NewType(); t.AddAttr(dep.Scope, "peer"); return t })
	for _, n := range d.bundle {
		t := dep.NewType()
		t.AddAttr(dep.Scope, "bundle")
		out = append(out, resolve.RequirementVersion{VersionKey: npmVK(n, resolve.Requirement, "*"), Type: t})
	}
	return out
}

func pathPkgs(path string) []string {
	return strings.Split(strings.TrimPrefix(path, "node_modules/"), "/node_modules/")
}

func specMangled(root, ver string, pkgs []string) string {
	return root + ">" + ver + ">" + strings.Join(pkgs, ">")
}

// loadLocal returns a LocalClient holding the universe. ok is false when a
// bundle tree is not well formed (an entry whose enclosing bundle is absent, or
// two entries with one path); such a version has no defined local form.
func loadLocal(u *universe) (lc *resolve.LocalClient, ok bool) {
	lc = resolve.NewLocalClient()
	ok = true
	for pi := range u.pkgs {
		p := &u.pkgs[pi]
		for vi := range p.vers {
			v := &p.vers[vi]
			type ent struct {
				b    *uBundle
				deps []resolve.RequirementVersion
			}
			ents := map[string]*ent{}
			rootDeps := specDeps(v.deps)
			// parents before children
			idx := make([]int, len(v.bundled))
			for i := range idx {
				idx[i] = i
			}
			sort.SliceStable(idx, func(a, b int) bool {
				return len(pathPkgs(v.bundled[idx[a]].path)) < len(pathPkgs(v.bundled[idx[b]].path))
			})
			var order []string
			for _, i := range idx {
				b := &v.bundled[i]
				pkgs := pathPkgs(b.path)
				m := specMangled(p.name, v.version, pkgs)
				if _, dup := ents[m]; dup {
					ok = false
					continue
				}
				ents[m] = &ent{b: b, deps: specDeps(b.deps)}
				order = append(order, m)
				r := resolve.RequirementVersion{VersionKey: npmVK(m, resolve.Requirement, b.version), Type: dep.NewType()}
				if len(pkgs) == 1 {
					rootDeps = append(rootDeps, r)
				} else if pe := ents[specMangled(p.name, v.version, pkgs[:len(pkgs)-1])]; pe != nil {
					pe.deps = append(pe.deps, r)
				} else {
					ok = false
				}
			}
			rv := resolve.Version{VersionKey: npmVK(p.name, resolve.Concrete, v.version)}
			if v.isDefault {
				rv.SetAttr(version.Tags, "latest")
			}
			lc.AddVersion(rv, rootDeps)
			for _, m := range order {
				e := ents[m]
				bv := resolve.Version{VersionKey: npmVK(m, resolve.Concrete, e.b.version)}
				bv.SetAttr(version.DerivedFrom, e.b.name)
				lc.AddVersion(bv, e.deps)
			}
		}
	}
	return lc, ok
}

// ---------------------------------------------------------------- recording client, graphs

// apiRecClient logs every call with its projected result. It also enforces a call
// budget: the npm resolver does not terminate on every universe (install trees
// can grow for ever), so after budget calls every further call fails and the
// context is cancelled. The cut-off depends only on the number of calls the
// resolver has made, hence it is the same for every client answering alike.
type apiRecClient struct {
	inner  resolve.Client
	mu     sync.Mutex
	log    []sx.V
	quiet  bool // count only
	calls  int
	budget int
	cancel context.CancelFunc
}

var errBudget = errors.New("verification harness: call budget exhausted")

const defaultBudget = 1500

func apiNewRec(inner resolve.Client, quiet bool) (*apiRecClient, context.Context) {
	ctx, cancel := context.WithCancel(context.Background())
	return &apiRecClient{inner: inner, quiet: quiet, budget: defaultBudget, cancel: cancel}, ctx
}

func (r *apiRecClient) over() bool {
	r.mu.Lock()
	defer r.mu.Unlock()
	r.calls++
	if r.calls > r.budget {
		r.cancel()
		return true
	}
	return false
}

func (r *apiRecClient) rec(op sx.V, res sx.V) {
	if r.quiet {
		return
	}
	r.mu.Lock()
	r.log = append(r.log, sx.L(op, res))
	r.mu.Unlock()
}

func (r *apiRecClient) Version(ctx context.Context, vk resolve.VersionKey) (resolve.Version, error) {
	if r.over() {
		return resolve.Version{}, errBudget
	}
	v, err := r.inner.Version(ctx, vk)
	op := sx.L(sx.Int(0), sx.B(vk.Name), sx.B(vk.Version))
	if err != nil {
		r.rec(op, apiErrSx(err))
	} else {
		r.rec(op, sx.L(sx.Sym("ok"), verSx(v)))
	}
	return v, err
}
func (r *apiRecClient) Versions(ctx context.Context, pk resolve.PackageKey) ([]resolve.Version, error) {
	if r.over() {
		return nil, errBudget
	}
	vs, err := r.inner.Versions(ctx, pk)
	op := sx.L(sx.Int(1), sx.B(pk.Name))
	if err != nil {
		r.rec(op, apiErrSx(err))
	} else {
		r.rec(op, sx.L(sx.Sym("ok"), versSx(vs)))
	}
	return vs, err
}
func (r *apiRecClient) Requirements(ctx context.Context, vk resolve.VersionKey) ([]resolve.RequirementVersion, error) {
	if r.over() {
		return nil, errBudget
	}
	rs, err := r.inner.Requirements(ctx, vk)
	op := sx.L(sx.Int(2), sx.B(vk.Name), sx.B(vk.Version))
	if err != nil {
		r.rec(op, apiErrSx(err))
	} else {
		r.rec(op, sx.L(sx.Sym("ok"), reqsSx(rs)))
	}
	return rs, err
}
func (r *apiRecClient) MatchingVersions(ctx context.Context, vk resolve.VersionKey) ([]resolve.Version, error) {
	if r.over() {
		return nil, errBudget
	}
	vs, err := r.inner.MatchingVersions(ctx, vk)
	op := sx.L(sx.Int(3), sx.B(vk.Name), sx.B(vk.Version))
	if err != nil {
		r.rec(op, apiErrSx(err))
	} else {
		r.rec(op, sx.L(sx.Sym("ok"), versSx(vs)))
	}
	return vs, err
}

// graphSx projects a resolution result: after Canon, the sorted tuples of
// edges (from, to, requirement, type), the sorted nodes with their errors, and
// the graph error. A failed resolution is ("err" kind).
func graphSx(g *resolve.Graph, err error) sx.V {
	if err != nil {
		return sx.L(sx.Sym("err"), apiErrSx(err).Nth(0))
	}
	canonErr := g.Canon()
	var nodes, edges []string
	nodeSx := map[string]sx.V{}
	for _, n := range g.Nodes {
		var es []sx.V
		for _, e := range n.Errors {
			es = append(es, sx.L(apiVkSx(e.Req), sx.B(e.Error)))
		}
		v := sx.L(apiVkSx(n.Version), sx.L(es...))
		s := v.String()
		nodes = append(nodes, s)
		nodeSx[s] = v
	}
	edgeSx := map[string]sx.V{}
	for _, e := range g.Edges {
		t := e.Type
		v := sx.L(apiVkSx(g.Nodes[e.From].Version), apiVkSx(g.Nodes[e.To].Version), sx.B(e.Requirement), dumpDep(&t))
		s := v.String()
		edges = append(edges, s)
		edgeSx[s] = v
	}
	root := sx.L()
	if len(g.Nodes) > 0 {
		root = apiVkSx(g.Nodes[0].Version)
	}
	sort.Strings(nodes)
	sort.Strings(edges)
	var ns, es []sx.V
	for _, s := range nodes {
		ns = append(ns, nodeSx[s])
	}
	for _, s := range edges {
		es = append(es, edgeSx[s])
	}
	return sx.L(sx.Sym("ok"), root, sx.L(ns...), sx.L(es...), sx.B(g.Error), sx.Bool(canonErr != nil))
}

func resolveOver(ctx context.Context, c resolve.Client, name, ver string) (g *resolve.Graph, err error, panicked bool) {
	defer func() {
		if r := recover(); r != nil {
			if hb, ok := r.(harnessBug); ok {
				panic(hb)
			}
			panicked = true
		}
	}()
	g, err = npm.NewResolver(c).Resolve(ctx, npmVK(name, resolve.Concrete, ver))
	return
}

// resolveSx resolves name@ver over c (wrapped in a budgeted recording client)
// and returns the projected graph and the recorder.
func resolveSx(c resolve.Client, name, ver string, quiet bool) (sx.V, *apiRecClient) {
	rc, ctx := apiNewRec(c, quiet)
	defer rc.cancel()
	return resolveCtx(ctx, rc, name, ver), rc
}

func resolveCtx(ctx context.Context, c resolve.Client, name, ver string) sx.V {
	g, err, p := resolveOver(ctx, c, name, ver)
	if p {
		return sx.L(sx.Sym("panic"))
	}
	return graphSx(g, err)
}

func apiGraph(arg sx.V) sx.V {
	u := decUniverse(arg.Nth(0))
	name, ver := arg.Nth(1).Str(), arg.Nth(2).Str()
	ga, ra := resolveSx(resolve.NewAPIClient(&fakeInsights{u: u}), name, ver, false)
	lc, wf := loadLocal(u)
	gl, rl := resolveSx(lc, name, ver, false)
	return sx.L(ga, gl, sx.L(ra.log...), sx.L(rl.log...), sx.Bool(wf))
}

// ---------------------------------------------------------------- concurrency

var raceLogSize int64

// raceReported tells whether the race detector has written a new report since
// the last call (GORACE=log_path=<VERIF_RACE_LOG> makes it write to <path>.<pid>).
func raceReported() bool {
	base := os.Getenv("VERIF_RACE_LOG")
	if base == "" {
		return false
	}
	st, err := os.Stat(fmt.Sprintf("%s.%d", base, os.Getpid()))
	if err != nil {
		return false
	}
	grown := st.Size() > raceLogSize
	raceLogSize = st.Size()
	return grown
}

// apiConc: n goroutines share ONE APIClient; goroutine i resolves roots[i mod len]
// (rounds times, to let later rounds meet a populated bundle map). Each result
// must equal the sequential result of the same root over a fresh client.
func apiConc(arg sx.V) sx.V {
	u := decUniverse(arg.Nth(0))
	roots := arg.Nth(1).List()
	n := int(arg.Nth(2).Int())
	rounds := int(arg.Nth(3).Int())
	direct := len(arg.List()) > 4 && arg.Nth(4).Int() != 0
	if len(roots) == 0 {
		panic(harnessBug{"api_conc without roots"})
	}
	ctx := context.Background()
	seq := make([]string, len(roots))
	// per root, for the goroutines that call the client directly: the resolver's recorded calls
	// for that root restricted to Requirements of plain versions and to calls on mangled names
	// (a sequence obeying the trace discipline), with the answers a client used by nobody else gives.
	calls := make([][]sx.V, len(roots))
	want := make([][]string, len(roots))
	for i, r := range roots {
		g, rec := resolveSx(resolve.NewAPIClient(&fakeInsights{u: u}), r.Nth(0).Str(), r.Nth(1).Str(), !direct)
		seq[i] = g.String()
		if direct {
			for _, e := range rec.log {
				op := e.Nth(0)
				mangled := strings.Contains(op.Nth(1).Str(), ">")
				if mangled || op.Nth(0).Int() == 2 {
					// Requirements of every plain version the resolver visited (the root first), and
					// every call on a mangled name
					calls[i] = append(calls[i], op)
				}
			}
			alone := resolve.NewAPIClient(&fakeInsights{u: u})
			for _, op := range calls[i] {
				want[i] = append(want[i], safeOp(ctx, alone, op).String())
			}
		}
	}
	shared := resolve.NewAPIClient(&fakeInsights{u: u, yield: true})
	got := make([][]string, n)
	var bad []sx.V
	var badMu sync.Mutex
	report := func(v sx.V) {
		badMu.Lock()
		bad = append(bad, v)
		badMu.Unlock()
	}
	start := make(chan struct{})
	var wg sync.WaitGroup
	for i := 0; i < n; i++ {
		wg.Add(1)
		go func(i int) {
			defer wg.Done()
			<-start
			for k := 0; k < rounds; k++ {
				ri := (i + k) % len(roots)
				r := roots[ri]
				switch {
				case direct && i%8 == 7:
					// a client that never asks for the root itself: each mangled name is either still
					// unknown or already what Requirements of the root stores, nothing else
					for j, op := range calls[ri] {
						if !strings.Contains(op.Nth(1).Str(), ">") {
							continue
						}
						a := safeOp(ctx, shared, op).String()
						if a != want[ri][j] && a != `("notfound")` {
							report(sx.L(sx.Int(i), sx.Int(k), sx.Int(ri), sx.B("free-rider "+op.String()+" -> "+a), sx.B(want[ri][j]+` or ("notfound")`)))
						}
					}
					got[i] = append(got[i], seq[ri])
				case direct && i%2 == 1:
					for j, op := range calls[ri] {
						a := safeOp(ctx, shared, op).String()
						if a != want[ri][j] {
							report(sx.L(sx.Int(i), sx.Int(k), sx.Int(ri), sx.B("direct "+op.String()+" -> "+a), sx.B(want[ri][j])))
						}
					}
					got[i] = append(got[i], seq[ri])
				default:
					g, _ := resolveSx(shared, r.Nth(0).Str(), r.Nth(1).Str(), true)
					got[i] = append(got[i], g.String())
				}
			}
		}(i)
	}
	close(start)
	wg.Wait()
	for i := 0; i < n; i++ {
		for k := 0; k < rounds; k++ {
			ri := (i + k) % len(roots)
			if got[i][k] != seq[ri] {
				bad = append(bad, sx.L(sx.Int(i), sx.Int(k), sx.Int(ri), sx.B(got[i][k]), sx.B(seq[ri])))
			}
		}
	}
	return sx.L(sx.Int(len(bad)), sx.L(bad...), sx.Bool(raceReported()))
}

func init() {
	register("api", apiHistory)
	register("api_table", apiTable)
	register("api_graph", apiGraph)
	register("api_conc", apiConc)
}
