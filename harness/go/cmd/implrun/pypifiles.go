package main

// Correspondence kinds for the file-name parsers of util/pypi (model: coq/Pypi/Files.v).

import (
	pypiutil "deps.dev/util/pypi"

	"verifharness/sx"
)

func init() {
	// sdist_version: (canon filename) -> ("ok" name version) | ("err")
	register("sdist_version", func(a sx.V) sx.V {
		n, v, err := pypiutil.SdistVersion(a.Nth(0).Str(), a.Nth(1).Str())
		if err != nil {
			return sx.L(sx.Sym("err"))
		}
		return sx.L(sx.Sym("ok"), sx.B(n), sx.B(v))
	})
	// wheel_name: (name) -> ("ok" name version num tag ((py abi plat)...)) | ("err")
	register("wheel_name", func(a sx.V) sx.V {
		w, err := pypiutil.ParseWheelName(a.Nth(0).Str())
		if err != nil {
			return sx.L(sx.Sym("err"))
		}
		var ps []sx.V
		for _, p := range w.Platforms {
			ps = append(ps, sx.L(sx.B(p.Python), sx.B(p.ABI), sx.B(p.Platform)))
		}
		return sx.L(sx.Sym("ok"), sx.B(w.Name), sx.B(w.Version), sx.Int(w.BuildTag.Num), sx.B(w.BuildTag.Tag), sx.L(ps...))
	})
}
