package main

// Case kinds for resolve.LocalClient, SortVersions and MatchRequirement
// (properties C14 and C12).
//
//	oracle_table   ((sys (version...) (requirement...)) ...)
//	    -> ((sys (version...) (parses...) (prerelease...) ((clSign...)...) (requirement...) (sat...)) ...)
//	    the answers of deps.dev/util/semver for exactly the calls match.go makes:
//	    sys.Parse(v) ok?, parsed.IsPrerelease(), clSign(vi.Compare(vj)) (0 when one does not parse),
//	    sys.ParseConstraint(r): ("err") or ("ok" Match(v)...).
//	client_history (variant table ops) -> (observation...)   variant and table are for the model only
//	sortv          (table sys versions perm cfg) -> (version...)       table and cfg are for the model only
//	matchreq       (table sys requirement versions perm cfg) -> ((version...) (the caller's slice afterwards))
//
// A version record is (string vtype attrpairs); printed as (string vtype attrdump).

import (
	"context"
	"errors"

	"deps.dev/util/resolve"
	"deps.dev/util/resolve/dep"
	"deps.dev/util/resolve/version"
	"deps.dev/util/semver"

	"verifharness/sx"
)

func clSign(c int) int {
	switch {
	case c < 0:
		return -1
	case c > 0:
		return 1
	}
	return 0
}

func clOracleTable(arg sx.V) sx.V {
	var out []sx.V
	for _, e := range arg.List() {
		sysN := e.Nth(0).Int()
		sys := resolve.System(sysN).Semver()
		vs := e.Nth(1).List()
		rs := e.Nth(2).List()
		parsed := make([]*semver.Version, len(vs))
		var parses, pre, rows []sx.V
		for i, v := range vs {
			pv, err := sys.Parse(v.Str())
			if err == nil {
				parsed[i] = pv
			}
			parses = append(parses, sx.Bool(parsed[i] != nil))
			pre = append(pre, sx.Bool(parsed[i] != nil && parsed[i].IsPrerelease()))
		}
		for i := range vs {
			row := make([]sx.V, len(vs))
			for j := range vs {
				if parsed[i] != nil && parsed[j] != nil {
					row[j] = sx.Int(clSign(parsed[i].Compare(parsed[j])))
				} else {
					row[j] = sx.Int(0)
				}
			}
			rows = append(rows, sx.L(row...))
		}
		var sat []sx.V
		for _, r := range rs {
			c, err := sys.ParseConstraint(r.Str())
			if err != nil {
				sat = append(sat, sx.L(sx.Sym("err")))
				continue
			}
			row := []sx.V{sx.Sym("ok")}
			for _, v := range vs {
				row = append(row, sx.Bool(c.Match(v.Str())))
			}
			sat = append(sat, sx.L(row...))
		}
		out = append(out, sx.L(sx.I(sysN), sx.L(vs...), sx.L(parses...), sx.L(pre...), sx.L(rows...), sx.L(rs...), sx.L(sat...)))
	}
	return sx.L(out...)
}

func clMkVersion(sys, vtype int64, name, ver string, attrs sx.V) resolve.Version {
	return resolve.Version{
		VersionKey: resolve.VersionKey{
			PackageKey:  resolve.PackageKey{System: resolve.System(sys), Name: name},
			VersionType: resolve.VersionType(vtype),
			Version:     ver,
		},
		AttrSet: buildVer(attrs),
	}
}

func clMkKey(sys, vtype int64, name, ver string) resolve.VersionKey {
	return resolve.VersionKey{
		PackageKey:  resolve.PackageKey{System: resolve.System(sys), Name: name},
		VersionType: resolve.VersionType(vtype),
		Version:     ver,
	}
}

// (version vtype attrdump system name): the whole key, so that a record returned under a
// wrong package key is seen.
func clDumpVersion(v resolve.Version) sx.V {
	return sx.L(sx.B(v.Version), sx.Int(int(v.VersionType)), dumpVer(v.AttrSet), sx.Int(int(v.System)), sx.B(v.Name))
}

func clDumpVersions(vs []resolve.Version) sx.V {
	out := make([]sx.V, len(vs))
	for i, v := range vs {
		out[i] = clDumpVersion(v)
	}
	return sx.L(out...)
}

func clDumpReqs(rs []resolve.RequirementVersion) sx.V {
	out := make([]sx.V, len(rs))
	for i := range rs {
		r := rs[i]
		out[i] = sx.L(sx.Int(int(r.System)), sx.B(r.Name), sx.Int(int(r.VersionType)), sx.B(r.Version), dumpDep(&r.Type))
	}
	return sx.L(out...)
}

func clLookupResult(err error, ok func() sx.V) sx.V {
	if err != nil {
		if errors.Is(err, resolve.ErrNotFound) {
			return sx.L(sx.Sym("notfound"))
		}
		return sx.L(sx.Sym("err"))
	}
	return sx.L(sx.Sym("ok"), ok())
}

func clMkDeps(l sx.V) []resolve.RequirementVersion {
	var deps []resolve.RequirementVersion
	for _, d := range l.List() {
		deps = append(deps, resolve.RequirementVersion{
			VersionKey: clMkKey(d.Nth(0).Int(), d.Nth(2).Int(), d.Nth(1).Str(), d.Nth(3).Str()),
			Type:       buildDep(d.Nth(4)),
		})
	}
	return deps
}

// ops: (0 sys name vtype ver attrpairs ((sys name vtype req typepairs)...))  AddVersion
//
//	(1 sys name vtype ver) Version   (2 sys name) Versions
//	(3 sys name vtype ver) Requirements   (4 sys name vtype req) MatchingVersions
//	(5 flag sys name vtype ver1 attrs1 n ver2 attrs2 m deps)  a caller that reuses one buffer:
//	    buf := deps; AddVersion(v1, buf[:n]); AddVersion(v2, buf[:m]); observes buf afterwards
//	    (flag is for the model only)
func clClientHistory(arg sx.V) sx.V {
	ctx := context.Background()
	lc := resolve.NewLocalClient()
	var out []sx.V
	for _, op := range arg.Nth(2).List() {
		o := op.List()
		switch o[0].Int() {
		case 0:
			v := clMkVersion(o[1].Int(), o[3].Int(), o[2].Str(), o[4].Str(), o[5])
			lc.AddVersion(v, clMkDeps(o[6]))
		case 5:
			buf := clMkDeps(o[11])
			v1 := clMkVersion(o[2].Int(), o[4].Int(), o[3].Str(), o[5].Str(), o[6])
			v2 := clMkVersion(o[2].Int(), o[4].Int(), o[3].Str(), o[8].Str(), o[9])
			lc.AddVersion(v1, buf[:o[7].Int()])
			lc.AddVersion(v2, buf[:o[10].Int()])
			out = append(out, sx.L(sx.Sym("ok"), clDumpReqs(buf)))
		case 1:
			v, err := lc.Version(ctx, clMkKey(o[1].Int(), o[3].Int(), o[2].Str(), o[4].Str()))
			out = append(out, clLookupResult(err, func() sx.V { return clDumpVersion(v) }))
		case 2:
			vs, err := lc.Versions(ctx, resolve.PackageKey{System: resolve.System(o[1].Int()), Name: o[2].Str()})
			out = append(out, clLookupResult(err, func() sx.V { return clDumpVersions(vs) }))
		case 3:
			rs, err := lc.Requirements(ctx, clMkKey(o[1].Int(), o[3].Int(), o[2].Str(), o[4].Str()))
			out = append(out, clLookupResult(err, func() sx.V { return clDumpReqs(rs) }))
		case 4:
			vs, err := lc.MatchingVersions(ctx, clMkKey(o[1].Int(), o[3].Int(), o[2].Str(), o[4].Str()))
			out = append(out, clLookupResult(err, func() sx.V { return clDumpVersions(vs) }))
		default:
			panic(harnessBug{"bad client op"})
		}
	}
	return sx.L(out...)
}

func clVersionList(sys int64, l sx.V, perm sx.V) []resolve.Version {
	recs := l.List()
	var vs []resolve.Version
	for _, p := range perm.List() {
		r := recs[p.Int()]
		vs = append(vs, clMkVersion(sys, r.Nth(1).Int(), "p", r.Nth(0).Str(), r.Nth(2)))
	}
	return vs
}

func init() {
	_ = dep.Dev
	_ = version.Tags
	register("oracle_table", clOracleTable)
	register("client_history", clClientHistory)
	register("sortv", func(a sx.V) sx.V {
		vs := clVersionList(a.Nth(1).Int(), a.Nth(2), a.Nth(3))
		resolve.SortVersions(vs)
		return clDumpVersions(vs)
	})
	register("matchreq", func(a sx.V) sx.V {
		sys := a.Nth(1).Int()
		vs := clVersionList(sys, a.Nth(3), a.Nth(4))
		ms := resolve.MatchRequirement(clMkKey(sys, int64(resolve.Requirement), "p", a.Nth(2).Str()), vs)
		// the result, and the caller's slice after the call (the code sorts a copy)
		return sx.L(clDumpVersions(ms), clDumpVersions(vs))
	})
}
