// implrun runs the deps.dev implementation on case lines read from stdin.
// Each line is "kind<TAB>sx"; one result line (sx) is printed per case.
package main

import (
	"bufio"
	"fmt"
	"os"
	"strings"

	"verifharness/sx"
)

type handler func(sx.V) sx.V

var handlers = map[string]handler{}

func register(kind string, h handler) { handlers[kind] = h }

// HarnessBug marks a panic raised by the harness itself (bad case shape),
// which must never be mistaken for a panic of the code under test.
type harnessBug struct{ msg string }

func runOne(h handler, arg sx.V) (out sx.V) {
	defer func() {
		if r := recover(); r != nil {
			if hb, ok := r.(harnessBug); ok {
				fmt.Fprintln(os.Stderr, "HARNESS BUG:", hb.msg)
				os.Exit(3)
			}
			out = sx.L(sx.Sym("panic"))
			if os.Getenv("VERIF_PANIC_TEXT") != "" {
				out = sx.L(sx.Sym("panic"), sx.B(fmt.Sprint(r)))
			}
		}
	}()
	return h(arg)
}

func main() {
	in := bufio.NewReaderSize(os.Stdin, 1<<20)
	out := bufio.NewWriterSize(os.Stdout, 1<<20)
	defer out.Flush()
	for {
		line, err := in.ReadString('\n')
		if len(line) > 0 {
			line = strings.TrimRight(line, "\n")
			if line != "" {
				kind, rest, ok := strings.Cut(line, "\t")
				if !ok {
					fmt.Fprintln(os.Stderr, "bad case line:", line)
					os.Exit(3)
				}
				h, ok := handlers[kind]
				if !ok {
					fmt.Fprintln(os.Stderr, "unknown kind:", kind)
					os.Exit(3)
				}
				arg, perr := sx.Parse(rest)
				if perr != nil {
					fmt.Fprintln(os.Stderr, "bad sx:", perr, rest)
					os.Exit(3)
				}
				res := runOne(h, arg)
				out.WriteString(res.String())
				out.WriteByte('\n')
			}
		}
		if err != nil {
			break
		}
	}
}
