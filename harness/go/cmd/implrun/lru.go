package main

import (
	"deps.dev/util/resolve/pypi"

	"verifharness/sx"
)

func init() {
	// lru_ops: (size ((0 k v) | (1 k) ...)) -> (result of every Get)
	register("lru_ops", func(a sx.V) sx.V {
		var ops [][3]int64
		for _, o := range a.Nth(1).List() {
			l := o.List()
			op := [3]int64{l[0].Int(), l[1].Int(), 0}
			if len(l) > 2 {
				op[2] = l[2].Int()
			}
			ops = append(ops, op)
		}
		res := pypi.VerifLRU(int(a.Nth(0).Int()), ops)
		out := make([]sx.V, len(res))
		for i, r := range res {
			out[i] = sx.I(r)
		}
		return sx.L(out...)
	})
}
