// apidesc_v3alpha prints the descriptors of deps.dev/api/v3alpha (see package apidesc).
// One binary per API package: both register a file called api.proto.
package main

import (
	apipb "deps.dev/api/v3alpha"
	"verifharness/apidesc"
)

func main() { apidesc.Main("v3alpha", apipb.File_api_proto, apipb.Insights_ServiceDesc, false) }
