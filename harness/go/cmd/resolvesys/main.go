// resolvesys prints the values the compiled package deps.dev/util/resolve gives
// its System constants (see apidesc.RuntimeSystems). It is a separate binary so
// that the descriptor translators do not depend on util/resolve compiling.
package main

import (
	"deps.dev/util/resolve"
	"verifharness/apidesc"
)

func main() {
	apidesc.RuntimeSystems([]apidesc.EnumValue{
		{Name: "UnknownSystem", Number: int64(resolve.UnknownSystem)},
		{Name: "NPM", Number: int64(resolve.NPM)},
		{Name: "Maven", Number: int64(resolve.Maven)},
		{Name: "PyPI", Number: int64(resolve.PyPI)},
	})
}
