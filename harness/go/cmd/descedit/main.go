// descedit rewrites the raw descriptor embedded in a generated api.pb.go, the
// way a regeneration after an edit of api.proto would (used by
// harness/tools/c17_selftest.py to build consistent changes).
// usage: descedit <api.pb.go> <mode> [args]
//
//	check                          the descriptor round-trips byte-identically
//	add-binding <rpc> <get path>   append additional_bindings { get: path } to the http rule of rpc
//	add-import <path>              append an import
//	field-behavior <msg> <field>   set [(google.api.field_behavior) = OPTIONAL] on a top-level message's field
package main

import (
	"bytes"
	"fmt"
	"os"
	"regexp"
	"strconv"
	"strings"

	"google.golang.org/genproto/googleapis/api/annotations"
	"google.golang.org/protobuf/proto"
	"google.golang.org/protobuf/types/descriptorpb"
)

const head = "var file_api_proto_rawDesc = []byte{\n"

func must(err error) {
	if err != nil {
		fmt.Fprintln(os.Stderr, "descedit:", err)
		os.Exit(2)
	}
}

func main() {
	path, mode := os.Args[1], os.Args[2]
	src, err := os.ReadFile(path)
	must(err)
	start := bytes.Index(src, []byte(head))
	if start < 0 {
		must(fmt.Errorf("no rawDesc literal in %s", path))
	}
	bodyStart := start + len(head)
	end := bytes.Index(src[bodyStart:], []byte("\n}\n")) + bodyStart
	var raw []byte
	for _, m := range regexp.MustCompile(`0x[0-9a-f]{2}`).FindAllString(string(src[bodyStart:end]), -1) {
		v, _ := strconv.ParseUint(m[2:], 16, 8)
		raw = append(raw, byte(v))
	}
	fd := &descriptorpb.FileDescriptorProto{}
	must(proto.Unmarshal(raw, fd))
	rt, err := proto.MarshalOptions{Deterministic: true}.Marshal(fd)
	must(err)
	if !bytes.Equal(rt, raw) {
		must(fmt.Errorf("round trip not identical"))
	}
	switch mode {
	case "check":
		fmt.Println("round trip ok", len(raw))
		return
	case "add-binding":
		done := false
		for _, s := range fd.Service {
			for _, m := range s.Method {
				if m.GetName() == os.Args[3] {
					r := proto.GetExtension(m.Options, annotations.E_Http).(*annotations.HttpRule)
					r.AdditionalBindings = append(r.AdditionalBindings, &annotations.HttpRule{Pattern: &annotations.HttpRule_Get{Get: os.Args[4]}})
					proto.SetExtension(m.Options, annotations.E_Http, r)
					done = true
				}
			}
		}
		if !done {
			must(fmt.Errorf("rpc %s not found", os.Args[3]))
		}
	case "add-import":
		fd.Dependency = append(fd.Dependency, os.Args[3])
	case "field-behavior":
		done := false
		for _, m := range fd.MessageType {
			if m.GetName() != os.Args[3] {
				continue
			}
			for _, f := range m.Field {
				if f.GetName() == os.Args[4] {
					if f.Options == nil {
						f.Options = &descriptorpb.FieldOptions{}
					}
					proto.SetExtension(f.Options, annotations.E_FieldBehavior, []annotations.FieldBehavior{annotations.FieldBehavior_OPTIONAL})
					done = true
				}
			}
		}
		if !done {
			must(fmt.Errorf("field %s.%s not found", os.Args[3], os.Args[4]))
		}
	default:
		must(fmt.Errorf("unknown mode %s", mode))
	}
	out, err := proto.MarshalOptions{Deterministic: true}.Marshal(fd)
	must(err)
	var sb strings.Builder
	for i := 0; i < len(out); i += 16 {
		sb.WriteString("\t")
		j := i + 16
		if j > len(out) {
			j = len(out)
		}
		for k := i; k < j; k++ {
			if k > i {
				sb.WriteString(" ")
			}
			fmt.Fprintf(&sb, "0x%02x,", out[k])
		}
		if j < len(out) {
			sb.WriteString("\n")
		}
	}
	res := append([]byte{}, src[:bodyStart]...)
	res = append(res, sb.String()...)
	res = append(res, src[end:]...)
	must(os.WriteFile(path, res, 0o644))
}
