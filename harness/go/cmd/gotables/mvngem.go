package main

import (
	"fmt"
	"go/ast"
	"go/token"
)

// Variant switches of the Maven model: which of two known forms a piece of
// util/semver/maven.go has in the working tree. The model (MavenParse.v,
// Maven.v) selects its behaviour by these booleans, so it follows the tree;
// any other form is reported as unreadable rather than guessed.

func mvnFindFunc(f *ast.File, recv, name string) *ast.FuncDecl {
	for _, d := range f.Decls {
		fd, ok := d.(*ast.FuncDecl)
		if !ok || fd.Name.Name != name {
			continue
		}
		if recv == "" {
			if fd.Recv == nil {
				return fd
			}
			continue
		}
		if fd.Recv != nil && len(fd.Recv.List) == 1 {
			t := fd.Recv.List[0].Type
			if st, ok := t.(*ast.StarExpr); ok {
				t = st.X
			}
			if id, ok := t.(*ast.Ident); ok && id.Name == recv {
				return fd
			}
		}
	}
	return nil
}

// mvnIsCmp reports whether e is `<ident> <op> <basic literal lit>`.
func mvnIsCmp(e ast.Expr, ident string, op token.Token, lit string) bool {
	b, ok := e.(*ast.BinaryExpr)
	if !ok || b.Op != op {
		return false
	}
	if mvnSelText(b.X) != ident {
		return false
	}
	bl, ok := b.Y.(*ast.BasicLit)
	return ok && bl.Value == lit
}

func mvnSelText(e ast.Expr) string {
	switch x := e.(type) {
	case *ast.Ident:
		return x.Name
	case *ast.SelectorExpr:
		return mvnSelText(x.X) + "." + x.Sel.Name
	}
	return ""
}

func mvnFirstIf(body *ast.BlockStmt) *ast.IfStmt {
	var found *ast.IfStmt
	ast.Inspect(body, func(n ast.Node) bool {
		if found != nil {
			return false
		}
		if s, ok := n.(*ast.IfStmt); ok {
			found = s
			return false
		}
		return true
	})
	return found
}

func mvnCoqBool(b bool) string {
	if b {
		return "true"
	}
	return "false"
}

func init() {
	registerEmitter("MavenVariants", func() {
		mvn := parseFile("util/semver/maven.go")

		// isEmptyMavenElem: `if s == "0"` (a zero spelled 00 is not empty, F-C02-11) or
		// `if s != "" && strings.Trim(s, "0") == ""` (every all-zero numeral is empty).
		fe := mvnFindFunc(mvn, "", "isEmptyMavenElem")
		must(fe != nil, "maven.go: func isEmptyMavenElem")
		ifs := mvnFirstIf(fe.Body)
		must(ifs != nil, "maven.go: isEmptyMavenElem: first if")
		var zeroFixed bool
		switch {
		case mvnIsCmp(ifs.Cond, "s", token.EQL, `"0"`):
			zeroFixed = false
		default:
			b, ok := ifs.Cond.(*ast.BinaryExpr)
			okForm := ok && b.Op == token.LAND && mvnIsCmp(b.X, "s", token.NEQ, `""`)
			if okForm {
				y, ok := b.Y.(*ast.BinaryExpr)
				okForm = ok && y.Op == token.EQL
				if okForm {
					call, ok := y.X.(*ast.CallExpr)
					lit, ok2 := y.Y.(*ast.BasicLit)
					okForm = ok && ok2 && lit.Value == `""` && mvnSelText(call.Fun) == "strings.Trim" && len(call.Args) == 2 && mvnSelText(call.Args[0]) == "s"
					if okForm {
						a1, ok := call.Args[1].(*ast.BasicLit)
						okForm = ok && a1.Value == `"0"`
					}
				}
			}
			must(okForm, "maven.go: isEmptyMavenElem: zero test in neither of the two known forms")
			zeroFixed = true
		}
		out.WriteString("(* isEmptyMavenElem: false = tests the spelling \"0\"; true = every all-zero numeral is empty *)\n")
		fmt.Fprintf(&out, "Definition go_mvn_zero_spelling_fixed : bool := %s.\n\n", mvnCoqBool(zeroFixed))

		// mavenExtension.canon: `if i > 0` (the separator of the first element is never printed,
		// F-C10-2) or `if i > 0 || e.sep != 0`.
		fc := mvnFindFunc(mvn, "mavenExtension", "canon")
		must(fc != nil, "maven.go: func (*mavenExtension) canon")
		ifc := mvnFirstIf(fc.Body)
		must(ifc != nil, "maven.go: canon: first if")
		var headSep bool
		switch {
		case mvnIsCmp(ifc.Cond, "i", token.GTR, "0"):
			headSep = false
		default:
			b, ok := ifc.Cond.(*ast.BinaryExpr)
			must(ok && b.Op == token.LOR && mvnIsCmp(b.X, "i", token.GTR, "0") && mvnIsCmp(b.Y, "e.sep", token.NEQ, "0"),
				"maven.go: canon: separator condition in neither of the two known forms")
			headSep = true
		}
		out.WriteString("(* mavenExtension.canon: false = first separator never printed; true = printed when not 0 *)\n")
		fmt.Fprintf(&out, "Definition go_mvn_canon_head_sep : bool := %s.\n", mvnCoqBool(headSep))
	})
}
