// gotables regenerates coq/Gen/Tables.v from the Go sources in the repository
// working tree. It prints what go/parser read; it computes no verdict.
package main

import (
	"fmt"
	"go/ast"
	"go/parser"
	"go/token"
	"os"
	"path/filepath"
	"sort"
	"strconv"
	"strings"
)

var repo = "/repo"

func parseFile(rel string) *ast.File {
	fset := token.NewFileSet()
	f, err := parser.ParseFile(fset, filepath.Join(repo, rel), nil, 0)
	if err != nil {
		panic(emitFail{err.Error()})
	}
	return f
}

func coqBytes(s string) string {
	var sb strings.Builder
	sb.WriteString("[")
	for i := 0; i < len(s); i++ {
		if i > 0 {
			sb.WriteString(";")
		}
		sb.WriteString(strconv.Itoa(int(s[i])))
	}
	sb.WriteString("]%N")
	return sb.String()
}

func coqZ(i int64) string {
	if i < 0 {
		return fmt.Sprintf("(%d)%%Z", i)
	}
	return fmt.Sprintf("%d%%Z", i)
}

// evalInt evaluates the small constant expressions used in the tables.
func evalInt(e ast.Expr, env map[string]int64) (int64, bool) {
	switch x := e.(type) {
	case *ast.BasicLit:
		if x.Kind == token.INT {
			v, err := strconv.ParseInt(x.Value, 0, 64)
			return v, err == nil
		}
		if x.Kind == token.CHAR {
			r, _, _, err := strconv.UnquoteChar(x.Value[1:len(x.Value)-1], '\'')
			return int64(r), err == nil
		}
	case *ast.UnaryExpr:
		v, ok := evalInt(x.X, env)
		if !ok {
			return 0, false
		}
		switch x.Op {
		case token.SUB:
			return -v, true
		case token.ADD:
			return v, true
		}
	case *ast.ParenExpr:
		return evalInt(x.X, env)
	case *ast.Ident:
		v, ok := env[x.Name]
		return v, ok
	case *ast.BinaryExpr:
		a, ok1 := evalInt(x.X, env)
		b, ok2 := evalInt(x.Y, env)
		if !ok1 || !ok2 {
			return 0, false
		}
		switch x.Op {
		case token.ADD:
			return a + b, true
		case token.SUB:
			return a - b, true
		case token.MUL:
			return a * b, true
		case token.SHL:
			return a << uint(b), true
		}
	case *ast.CallExpr: // conversions like System(1)
		if len(x.Args) == 1 {
			return evalInt(x.Args[0], env)
		}
	}
	return 0, false
}

type constEntry struct {
	Name string
	Val  int64
}

// intConsts returns the integer constants of a file in declaration order
// (iota-based blocks are supported).
func intConsts(f *ast.File) []constEntry {
	env := map[string]int64{}
	var out []constEntry
	for _, d := range f.Decls {
		gd, ok := d.(*ast.GenDecl)
		if !ok || gd.Tok != token.CONST {
			continue
		}
		var lastExpr ast.Expr
		for i, s := range gd.Specs {
			vs := s.(*ast.ValueSpec)
			for j, n := range vs.Names {
				var e ast.Expr
				if len(vs.Values) > j {
					e = vs.Values[j]
					lastExpr = e
				} else {
					e = lastExpr
				}
				if e == nil {
					continue
				}
				env["iota"] = int64(i)
				v, ok := evalInt(e, env)
				if !ok {
					continue
				}
				env[n.Name] = v
				if n.Name != "_" {
					out = append(out, constEntry{n.Name, v})
				}
			}
		}
	}
	return out
}

func findVar(f *ast.File, name string) ast.Expr {
	for _, d := range f.Decls {
		gd, ok := d.(*ast.GenDecl)
		if !ok || gd.Tok != token.VAR {
			continue
		}
		for _, s := range gd.Specs {
			vs := s.(*ast.ValueSpec)
			for j, n := range vs.Names {
				if n.Name == name && len(vs.Values) > j {
					return vs.Values[j]
				}
			}
		}
	}
	return nil
}

// selName returns X for pkg.X or X.
func selName(e ast.Expr) string {
	switch x := e.(type) {
	case *ast.SelectorExpr:
		return x.Sel.Name
	case *ast.Ident:
		return x.Name
	}
	return ""
}

// emitFail aborts ONE emitter: its Gen file is left as it was (stale) and the failure is reported
// to the driver, which counts it against the properties whose proofs depend on that file only.
type emitFail struct{ msg string }

func must(ok bool, what string) {
	if !ok {
		panic(emitFail{"cannot read " + what})
	}
}

var out strings.Builder

// emitters maps a generated file name (coq/Gen/<name>.v) to the function that
// writes its body into out. Each area registers its own from an init().
var emitters = map[string]func(){}

func registerEmitter(name string, f func()) { emitters[name] = f }


func emitKeyTables(prefix, keyFile, testFile string) {
	kf := parseFile(keyFile)
	consts := intConsts(kf)
	env := map[string]int64{}
	fmt.Fprintf(&out, "Definition %s_keys : list (bytes * Z) := [\n", prefix)
	first := true
	var maskLen int64 = -1
	for _, c := range consts {
		env[c.Name] = c.Val
		if c.Name == "maskLen" {
			maskLen = c.Val
			continue
		}
		if !first {
			out.WriteString(";\n")
		}
		first = false
		fmt.Fprintf(&out, "  (%s, %s) (* %s *)", coqBytes(c.Name), coqZ(c.Val), c.Name)
	}
	out.WriteString("].\n")
	must(maskLen >= 0, keyFile+": maskLen")
	fmt.Fprintf(&out, "Definition %s_mask_len : Z := %s.\n", prefix, coqZ(maskLen))

	tf := parseFile(testFile)
	all, ok := findVar(tf, "allKeys").(*ast.CompositeLit)
	must(ok, testFile+": allKeys")
	fmt.Fprintf(&out, "Definition %stest_all_keys : list Z := [", prefix)
	for i, e := range all.Elts {
		v, ok := env[selName(e)]
		must(ok, testFile+": allKeys element "+selName(e))
		if i > 0 {
			out.WriteString("; ")
		}
		out.WriteString(coqZ(v))
	}
	out.WriteString("].\n")
	flags, ok := findVar(tf, "flagKeys").(*ast.CompositeLit)
	must(ok, testFile+": flagKeys")
	var fl []int64
	for _, e := range flags.Elts {
		kv := e.(*ast.KeyValueExpr)
		if id, ok := kv.Value.(*ast.Ident); ok && id.Name == "true" {
			v, ok := env[selName(kv.Key)]
			must(ok, testFile+": flagKeys element")
			fl = append(fl, v)
		}
	}
	sort.Slice(fl, func(i, j int) bool { return fl[i] < fl[j] })
	fmt.Fprintf(&out, "Definition %stest_flag_keys : list Z := [", prefix)
	for i, v := range fl {
		if i > 0 {
			out.WriteString("; ")
		}
		out.WriteString(coqZ(v))
	}
	out.WriteString("].\n\n")
}

// flush writes the accumulated text to coq/Gen/<name>.v, only when changed,
// so that make does not rebuild needlessly.
func flush(outDir, name string) {
	text := "(* GENERATED by harness/go/cmd/gotables from the repository working tree. Do not edit. *)\n" +
		"From DepsDev Require Import Lib.Base.\n\n" + out.String()
	out.Reset()
	p := filepath.Join(outDir, name+".v")
	old, err := os.ReadFile(p)
	if err == nil && string(old) == text {
		return
	}
	if err := os.WriteFile(p, []byte(text), 0o644); err != nil {
		fmt.Fprintln(os.Stderr, "gotables:", err)
		os.Exit(2)
	}
}

func main() {
	if len(os.Args) > 1 {
		repo = os.Args[1]
	}
	outDir := "/verif/coq/Gen"
	if len(os.Args) > 2 {
		outDir = os.Args[2]
	}
	names := make([]string, 0, len(emitters))
	for n := range emitters {
		names = append(names, n)
	}
	sort.Strings(names)
	failed := 0
	for _, n := range names {
		reason := runEmitter(n)
		if reason == "" {
			flush(outDir, n)
			continue
		}
		out.Reset()
		failed++
		// one line per failed emitter on stdout: the driver decides which properties that concerns
		fmt.Printf("EMITTER-FAILED\t%s\t%s\n", n, strings.ReplaceAll(reason, "\n", " "))
		if _, err := os.Stat(filepath.Join(outDir, n+".v")); err != nil {
			// no earlier version to keep: nothing can be built
			fmt.Fprintln(os.Stderr, "gotables:", n, reason)
			os.Exit(2)
		}
	}
}

// runEmitter runs one emitter and returns the reason of its failure ("" = ok). Any panic (an
// unexpected shape of the syntax tree included) fails that emitter only.
func runEmitter(n string) (reason string) {
	defer func() {
		if r := recover(); r != nil {
			if f, ok := r.(emitFail); ok {
				reason = f.msg
			} else {
				reason = fmt.Sprint("unexpected source shape: ", r)
			}
		}
	}()
	emitters[n]()
	return ""
}
