package main

import (
	"fmt"
	"go/ast"
	"go/token"
	"strconv"
)

// PypiTables: the constants the PyPI resolver model takes from the sources:
// the round limit of resolution.resolve (a const local to Resolver.Resolve),
// the attribute keys read by getDependencies / unionExtras, the VersionType
// numbers, the name that getPreference delays, and the LRU sizes.
func init() {
	registerEmitter("PypiTables", func() {
		rf := parseFile("util/resolve/pypi/resolve.go")
		var maxRounds int64 = -1
		var lruSizes []int64
		delayed := ""
		ast.Inspect(rf, func(n ast.Node) bool {
			switch x := n.(type) {
			case *ast.GenDecl:
				if x.Tok != token.CONST {
					return true
				}
				for _, s := range x.Specs {
					vs := s.(*ast.ValueSpec)
					for j, nm := range vs.Names {
						if nm.Name == "maxRounds" && len(vs.Values) > j {
							if v, ok := evalInt(vs.Values[j], nil); ok {
								maxRounds = v
							}
						}
					}
				}
			case *ast.CallExpr:
				// lru.New[...](N)
				if ix, ok := x.Fun.(*ast.IndexListExpr); ok && selName(ix.X) == "New" && len(x.Args) == 1 {
					if v, ok := evalInt(x.Args[0], nil); ok {
						lruSizes = append(lruSizes, v)
					}
				}
			case *ast.BinaryExpr:
				// strings.ToLower(key.name) == "setuptools"
				if x.Op == token.EQL {
					if c, ok := x.X.(*ast.CallExpr); ok && selName(c.Fun) == "ToLower" {
						if bl, ok := x.Y.(*ast.BasicLit); ok && bl.Kind == token.STRING {
							if s, err := strconv.Unquote(bl.Value); err == nil {
								delayed = s
							}
						}
					}
				}
			}
			return true
		})
		must(maxRounds > 0, "pypi/resolve.go: maxRounds")
		must(delayed != "", "pypi/resolve.go: delayed package name in getPreference")
		fmt.Fprintf(&out, "Definition pypi_max_rounds : N := %d%%N.\n", maxRounds)
		fmt.Fprintf(&out, "Definition pypi_delayed_name : bytes := %s. (* %s *)\n", coqBytes(delayed), delayed)
		out.WriteString("Definition pypi_lru_sizes : list N := [")
		for i, v := range lruSizes {
			if i > 0 {
				out.WriteString("; ")
			}
			fmt.Fprintf(&out, "%d%%N", v)
		}
		out.WriteString("].\n")

		env := map[string]int64{}
		for _, c := range intConsts(parseFile("util/resolve/dep/key.go")) {
			env[c.Name] = c.Val
		}
		e, ok1 := env["Environment"]
		en, ok2 := env["EnabledDependencies"]
		must(ok1 && ok2, "dep/key.go: Environment, EnabledDependencies")
		fmt.Fprintf(&out, "Definition dep_key_environment : Z := %s.\n", coqZ(e))
		fmt.Fprintf(&out, "Definition dep_key_enabled_dependencies : Z := %s.\n", coqZ(en))

		venv := map[string]int64{}
		for _, c := range intConsts(parseFile("util/resolve/resolve.go")) {
			venv[c.Name] = c.Val
		}
		conc, ok3 := venv["Concrete"]
		reqt, ok4 := venv["Requirement"]
		must(ok3 && ok4, "resolve.go: Concrete, Requirement")
		fmt.Fprintf(&out, "Definition version_type_concrete : N := %d%%N.\n", conc)
		fmt.Fprintf(&out, "Definition version_type_requirement : N := %d%%N.\n", reqt)
	})
}
