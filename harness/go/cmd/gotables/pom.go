package main

// C15 tables: limits of the POM pipeline and the documented order of its steps,
// read from the sources on every run.

import (
	"fmt"
	"go/ast"
	"go/token"
	"strconv"
)

func findConstInt(rel, name string) int64 {
	for _, c := range intConsts(parseFile(rel)) {
		if c.Name == name {
			return c.Val
		}
	}
	must(false, rel+": "+name)
	return 0
}

func findConstString(f *ast.File, name string) (string, bool) {
	for _, d := range f.Decls {
		gd, ok := d.(*ast.GenDecl)
		if !ok || gd.Tok != token.CONST {
			continue
		}
		for _, s := range gd.Specs {
			vs := s.(*ast.ValueSpec)
			for j, n := range vs.Names {
				if n.Name == name && len(vs.Values) > j {
					if bl, ok := vs.Values[j].(*ast.BasicLit); ok && bl.Kind == token.STRING {
						v, err := strconv.Unquote(bl.Value)
						return v, err == nil
					}
				}
			}
		}
	}
	return "", false
}

// callOrder lists, in source order, the calls to the named pipeline steps made
// inside function fn of file rel.
func callOrder(rel, fn string, steps map[string]bool) []string {
	f := parseFile(rel)
	var out []string
	found := false
	for _, d := range f.Decls {
		fd, ok := d.(*ast.FuncDecl)
		if !ok || fd.Name.Name != fn || fd.Body == nil {
			continue
		}
		found = true
		ast.Inspect(fd.Body, func(n ast.Node) bool {
			if ce, ok := n.(*ast.CallExpr); ok {
				if name := selName(ce.Fun); steps[name] {
					out = append(out, name)
				}
			}
			return true
		})
	}
	must(found, rel+": func "+fn)
	return out
}

func emitOrder(name string, calls []string) {
	fmt.Fprintf(&out, "Definition %s : list bytes := [", name)
	for i, c := range calls {
		if i > 0 {
			out.WriteString("; ")
		}
		fmt.Fprintf(&out, "%s (* %s *)", coqBytes(c), c)
	}
	out.WriteString("].\n")
}

func init() {
	registerEmitter("PomTables", func() {
		fmt.Fprintf(&out, "Definition max_imports : nat := %d%%nat. (* maven.MaxImports *)\n",
			findConstInt("util/maven/dependency.go", "MaxImports"))
		fmt.Fprintf(&out, "Definition max_parent : nat := %d%%nat. (* MaxParent of examples/go/maven_parse_resolve *)\n",
			findConstInt("examples/go/maven_parse_resolve/main.go", "MaxParent"))
		fmt.Fprintf(&out, "Definition max_maven_parent : nat := %d%%nat. (* resolve.MaxMavenParent *)\n",
			findConstInt("util/resolve/maven.go", "MaxMavenParent"))

		pf := parseFile("util/maven/profile.go")
		jdk, ok := findConstString(pf, "JDKProfileActivation")
		must(ok, "profile.go: JDKProfileActivation")
		fmt.Fprintf(&out, "Definition jdk_profile_activation : bytes := %s. (* %s *)\n", coqBytes(jdk), jdk)
		osv, ok := findVar(pf, "OSProfileActivation").(*ast.CompositeLit)
		must(ok, "profile.go: OSProfileActivation")
		fields := map[string]string{}
		for _, e := range osv.Elts {
			kv, ok := e.(*ast.KeyValueExpr)
			must(ok, "profile.go: OSProfileActivation field")
			bl, ok := kv.Value.(*ast.BasicLit)
			must(ok && bl.Kind == token.STRING, "profile.go: OSProfileActivation value")
			v, err := strconv.Unquote(bl.Value)
			must(err == nil, "profile.go: OSProfileActivation string")
			fields[selName(kv.Key)] = v
		}
		for _, k := range []string{"Name", "Family", "Arch", "Version"} {
			fmt.Fprintf(&out, "Definition os_profile_activation_%s : bytes := %s. (* %s *)\n", k, coqBytes(fields[k]), fields[k])
		}

		steps := map[string]bool{"MergeProfiles": true, "MergeParent": true, "Interpolate": true, "ProcessDependencies": true,
			"mergeParents": true, "fetchMavenParents": true}
		emitOrder("order_example_mergeParents", callOrder("examples/go/maven_parse_resolve/main.go", "mergeParents", steps))
		emitOrder("order_example_main", callOrder("examples/go/maven_parse_resolve/main.go", "main", steps))
		emitOrder("order_resolve_fetchMavenParents", callOrder("util/resolve/maven.go", "fetchMavenParents", steps))
		emitOrder("order_resolve_mavenRequirements", callOrder("util/resolve/maven.go", "mavenRequirements", steps))
	})
}
