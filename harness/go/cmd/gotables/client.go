package main

// ResolveTables: the constants of util/resolve that the client / matching models
// (Resolve/MatchReq.v, Resolve/Client.v) refer to: system numbers, version types,
// the version attributes Deleted and Tags, the dependency attributes Dev and KnownAs.

import (
	"fmt"
	"go/ast"
	"go/token"
)

func clConstMap(rel string) map[string]int64 {
	m := map[string]int64{}
	for _, c := range intConsts(parseFile(rel)) {
		m[c.Name] = c.Val
	}
	return m
}

func init() {
	registerEmitter("ResolveTables", func() {
		api := clConstMap("api/v3/api.pb.go")
		rf := parseFile("util/resolve/resolve.go")
		// NPM = System(apipb.System_NPM) etc.
		sys := map[string]int64{}
		for _, d := range rf.Decls {
			gd, ok := d.(*ast.GenDecl)
			if !ok || gd.Tok != token.CONST {
				continue
			}
			for _, s := range gd.Specs {
				vs := s.(*ast.ValueSpec)
				for j, n := range vs.Names {
					if len(vs.Values) <= j {
						continue
					}
					call, ok := vs.Values[j].(*ast.CallExpr)
					if !ok || len(call.Args) != 1 || selName(call.Fun) != "System" {
						continue
					}
					if v, ok := api[selName(call.Args[0])]; ok {
						sys[n.Name] = v
					}
				}
			}
		}
		for _, n := range []string{"NPM", "Maven", "PyPI"} {
			v, ok := sys[n]
			must(ok, "util/resolve/resolve.go: system "+n)
			fmt.Fprintf(&out, "Definition sys_%s : N := %d.\n", map[string]string{"NPM": "npm", "Maven": "maven", "PyPI": "pypi"}[n], v)
		}
		rc := clConstMap("util/resolve/resolve.go")
		for _, n := range []string{"Concrete", "Requirement"} {
			v, ok := rc[n]
			must(ok, "util/resolve/resolve.go: "+n)
			fmt.Fprintf(&out, "Definition vt_%s : N := %d.\n", map[string]string{"Concrete": "concrete", "Requirement": "requirement"}[n], v)
		}
		vk := clConstMap("util/resolve/version/key.go")
		for _, n := range []string{"Deleted", "Tags"} {
			v, ok := vk[n]
			must(ok, "util/resolve/version/key.go: "+n)
			fmt.Fprintf(&out, "Definition ver_%s : Z := %s.\n", map[string]string{"Deleted": "deleted", "Tags": "tags"}[n], coqZ(v))
		}
		dk := clConstMap("util/resolve/dep/key.go")
		for _, n := range []string{"Dev", "KnownAs"} {
			v, ok := dk[n]
			must(ok, "util/resolve/dep/key.go: "+n)
			fmt.Fprintf(&out, "Definition dep_%s : Z := %s.\n", map[string]string{"Dev": "dev", "KnownAs": "knownas"}[n], coqZ(v))
		}
	})
}
