package main

import (
	"fmt"
	"go/ast"
	"go/token"
	"strconv"
)

// SchemaTables: the string literals and slice offsets of util/resolve/schema/resolve.go that the
// model of ParseResolve (coq/Resolve/SchemaResolve.v) depends on, read from the source on every run:
//
//   - replaceArt: the prefixes of the []string literal it ranges over (an empty prefix would make
//     the recursion diverge: the totality proof needs every prefix non-empty);
//   - parseResolve: the separators looked for in the trimmed line tl, in source order
//     (strings.Index(tl, LIT): "#", " ERROR: ", ": ", "|"; strings.HasPrefix(tl, LIT): "ERROR:")
//     and the offsets of the slicings of tl that follow them (tl[6:], tl[i+8:], tl[i+2:], tl[i+1:]).
//     The totality proof needs each offset to be at most the length of its separator.
func init() {
	registerEmitter("SchemaTables", func() {
		const file = "util/resolve/schema/resolve.go"
		f := parseFile(file)
		fn := func(name string) *ast.FuncDecl {
			for _, d := range f.Decls {
				if fd, ok := d.(*ast.FuncDecl); ok && fd.Recv == nil && fd.Name.Name == name && fd.Body != nil {
					return fd
				}
			}
			must(false, file+": func "+name)
			return nil
		}
		strLit := func(e ast.Expr) (string, bool) {
			bl, ok := e.(*ast.BasicLit)
			if !ok || bl.Kind != token.STRING {
				return "", false
			}
			s, err := strconv.Unquote(bl.Value)
			return s, err == nil
		}
		intLit := func(e ast.Expr) (int64, bool) {
			bl, ok := e.(*ast.BasicLit)
			if !ok || bl.Kind != token.INT {
				return 0, false
			}
			v, err := strconv.ParseInt(bl.Value, 0, 64)
			return v, err == nil
		}
		isIdent := func(e ast.Expr, name string) bool {
			id, ok := e.(*ast.Ident)
			return ok && id.Name == name
		}

		// --- replaceArt
		var pats []string
		nlits := 0
		ast.Inspect(fn("replaceArt").Body, func(n ast.Node) bool {
			cl, ok := n.(*ast.CompositeLit)
			if !ok {
				return true
			}
			at, ok := cl.Type.(*ast.ArrayType)
			if !ok || !isIdent(at.Elt, "string") {
				return true
			}
			nlits++
			for _, e := range cl.Elts {
				s, ok := strLit(e)
				must(ok, file+": replaceArt prefix literal")
				pats = append(pats, s)
			}
			return false
		})
		must(nlits == 1 && len(pats) > 0, file+": the []string literal of replaceArt")
		fmt.Fprintf(&out, "(* %s: replaceArt, the prefixes replaced by a tab *)\n", file)
		out.WriteString("Definition schema_art_patterns : list bytes := [\n")
		for i, p := range pats {
			if i > 0 {
				out.WriteString(";\n")
			}
			fmt.Fprintf(&out, "  %s", coqBytes(p))
		}
		out.WriteString("].\n\n")

		// --- parseResolve: separators and offsets on tl, in source order
		var idxLits, prefLits []string
		var topSkips, midSkips []int64
		ast.Inspect(fn("parseResolve").Body, func(n ast.Node) bool {
			switch x := n.(type) {
			case *ast.CallExpr:
				se, ok := x.Fun.(*ast.SelectorExpr)
				if !ok || !isIdent(se.X, "strings") || len(x.Args) != 2 || !isIdent(x.Args[0], "tl") {
					return true
				}
				if s, ok := strLit(x.Args[1]); ok {
					switch se.Sel.Name {
					case "Index":
						idxLits = append(idxLits, s)
					case "HasPrefix":
						prefLits = append(prefLits, s)
					}
				}
			case *ast.SliceExpr:
				if !isIdent(x.X, "tl") || x.High != nil || x.Low == nil {
					return true
				}
				if v, ok := intLit(x.Low); ok {
					topSkips = append(topSkips, v)
				} else if be, ok := x.Low.(*ast.BinaryExpr); ok && be.Op == token.ADD && isIdent(be.X, "i") {
					v, ok := intLit(be.Y)
					must(ok, file+": parseResolve tl[i+N:]")
					midSkips = append(midSkips, v)
				} else {
					must(false, file+": parseResolve: shape of a tl[...:] slicing")
				}
			}
			return true
		})
		must(len(idxLits) == 4 && len(prefLits) == 1 && len(topSkips) == 1 && len(midSkips) == 3,
			file+": parseResolve: four strings.Index(tl, lit), one strings.HasPrefix(tl, lit), tl[N:], three tl[i+N:]")
		must(len(idxLits[0]) == 1 && len(idxLits[3]) == 1, file+": parseResolve: one-byte comment and dep-type separators")
		fmt.Fprintf(&out, "(* %s: parseResolve, separators looked for in the trimmed line and the offsets sliced after them *)\n", file)
		fmt.Fprintf(&out, "Definition schema_comment : N := %d%%N.\n", idxLits[0][0])
		fmt.Fprintf(&out, "Definition schema_error_top : bytes := %s.\n", coqBytes(prefLits[0]))
		fmt.Fprintf(&out, "Definition schema_error_top_skip : Z := %s.\n", coqZ(topSkips[0]))
		fmt.Fprintf(&out, "Definition schema_error_mid : bytes := %s.\n", coqBytes(idxLits[1]))
		fmt.Fprintf(&out, "Definition schema_error_mid_skip : Z := %s.\n", coqZ(midSkips[0]))
		fmt.Fprintf(&out, "Definition schema_colon : bytes := %s.\n", coqBytes(idxLits[2]))
		fmt.Fprintf(&out, "Definition schema_colon_skip : Z := %s.\n", coqZ(midSkips[1]))
		fmt.Fprintf(&out, "Definition schema_bar : N := %d%%N.\n", idxLits[3][0])
		fmt.Fprintf(&out, "Definition schema_bar_skip : Z := %s.\n", coqZ(midSkips[2]))
	})
}
