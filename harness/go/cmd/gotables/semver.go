package main

import (
	"fmt"
	"go/ast"
	"go/token"
	"sort"
	"strconv"
)

func strLit(e ast.Expr) (string, bool) {
	bl, ok := e.(*ast.BasicLit)
	if !ok || bl.Kind != token.STRING {
		return "", false
	}
	s, err := strconv.Unquote(bl.Value)
	return s, err == nil
}

func constEnv(files ...*ast.File) map[string]int64 {
	env := map[string]int64{}
	for _, f := range files {
		for _, c := range intConsts(f) {
			env[c.Name] = c.Val
		}
	}
	return env
}

func init() {
	registerEmitter("SemverTables", func() {
		ver := parseFile("util/semver/version.go")
		mvn := parseFile("util/semver/maven.go")
		pep := parseFile("util/semver/pep440.go")
		tok := parseFile("util/semver/token.go")
		env := constEnv(ver, mvn, pep, tok)

		// System constants.
		out.WriteString("(* semver.System constants, in declaration order *)\n")
		out.WriteString("Definition system_consts : list (bytes * Z) := [")
		names := []string{"DefaultSystem", "Cargo", "Go", "Maven", "NPM", "NuGet", "PyPI", "RubyGems", "Composer"}
		for i, n := range names {
			v, ok := env[n]
			must(ok, "semver System constant "+n)
			if i > 0 {
				out.WriteString("; ")
			}
			fmt.Fprintf(&out, "(%s, %s)", coqBytes(n), coqZ(v))
		}
		out.WriteString("].\n\n")

		// Maven qualifier order.
		must(true, "")
		v, ok := env["mavenEmptyQualifier"]
		must(ok, "mavenEmptyQualifier")
		fmt.Fprintf(&out, "Definition maven_empty_qualifier : Z := %s.\n", coqZ(v))
		ql, ok := findVar(mvn, "mavenVersionQualifierOrder").(*ast.CompositeLit)
		must(ok, "mavenVersionQualifierOrder")
		type kv struct {
			k string
			v int64
		}
		var kvs []kv
		for _, e := range ql.Elts {
			p := e.(*ast.KeyValueExpr)
			k, ok1 := strLit(p.Key)
			val, ok2 := evalInt(p.Value, env)
			must(ok1 && ok2, "mavenVersionQualifierOrder entry")
			kvs = append(kvs, kv{k, val})
		}
		sort.Slice(kvs, func(i, j int) bool { return kvs[i].k < kvs[j].k })
		out.WriteString("Definition maven_qualifier_order : list (bytes * Z) := [\n")
		for i, e := range kvs {
			if i > 0 {
				out.WriteString(";\n")
			}
			fmt.Fprintf(&out, "  (%s, %s) (* %q *)", coqBytes(e.k), coqZ(e.v), e.k)
		}
		out.WriteString("].\n\n")

		// PEP 440 spellings.
		pre, ok := findVar(pep, "pep440PreStrings").(*ast.CompositeLit)
		must(ok, "pep440PreStrings")
		out.WriteString("Definition pep440_pre_strings : list (bytes * bytes) := [")
		for i, e := range pre.Elts {
			cl := e.(*ast.CompositeLit)
			a, ok1 := strLit(cl.Elts[0])
			b, ok2 := strLit(cl.Elts[1])
			must(ok1 && ok2, "pep440PreStrings entry")
			if i > 0 {
				out.WriteString("; ")
			}
			fmt.Fprintf(&out, "(%s, %s)", coqBytes(a), coqBytes(b))
		}
		out.WriteString("].\n")
		post, ok := findVar(pep, "pep440PostStrings").(*ast.CompositeLit)
		must(ok, "pep440PostStrings")
		out.WriteString("Definition pep440_post_strings : list bytes := [")
		for i, e := range post.Elts {
			a, ok1 := strLit(e)
			must(ok1, "pep440PostStrings entry")
			if i > 0 {
				out.WriteString("; ")
			}
			out.WriteString(coqBytes(a))
		}
		out.WriteString("].\n")
		for _, d := range pep.Decls {
			gd, ok := d.(*ast.GenDecl)
			if !ok || gd.Tok != token.CONST {
				continue
			}
			for _, s := range gd.Specs {
				vs := s.(*ast.ValueSpec)
				for j, n := range vs.Names {
					if n.Name == "lettersInPyPI" {
						l, ok := strLit(vs.Values[j])
						must(ok, "lettersInPyPI")
						fmt.Fprintf(&out, "Definition letters_in_pypi : bytes := %s.\n", coqBytes(l))
					}
				}
			}
		}
		for _, n := range []string{"pep440Dev", "pep440Alpha", "pep440Beta", "pep440Prerelease", "pep440Empty", "pep440Local", "pep440Post"} {
			v, ok := env[n]
			must(ok, n)
			fmt.Fprintf(&out, "Definition go_%s : Z := %s.\n", n, coqZ(v))
		}
		out.WriteString("\n")

		// Token tables.
		for _, n := range []string{"tXX", "tWS", "tVS", "tOP", "tBR"} {
			v, ok := env[n]
			must(ok, n)
			fmt.Fprintf(&out, "Definition go_%s : N := %d%%N.\n", n, v)
		}
		bt, ok := findVar(tok, "byteType").(*ast.CompositeLit)
		must(ok, "byteType")
		out.WriteString("Definition byte_type : list N := [")
		for i, e := range bt.Elts {
			v, ok := evalInt(e, env)
			must(ok, "byteType entry")
			if i > 0 {
				out.WriteString(";")
			}
			fmt.Fprintf(&out, "%d", v)
		}
		out.WriteString("]%N.\n")
		tokNames := []string{"tokInvalid", "tokInternalError", "tokEmpty", "tokEqual", "tokGreater", "tokGreaterEqual",
			"tokLess", "tokLessEqual", "tokNotEqual", "tokCaret", "tokTilde", "tokBacon", "tokComma", "tokOr",
			"tokHyphen", "tokLbracket", "tokRbracket", "tokVersion", "tokWildcard", "tokEOF"}
		for _, n := range tokNames {
			v, ok := env[n]
			must(ok, n)
			fmt.Fprintf(&out, "Definition go_%s : Z := %s.\n", n, coqZ(v))
		}
		// operators: a slice literal with keyed elements; emit as a dense list up
		// to the largest index, so that its LENGTH is the real slice length.
		ops, ok := findVar(tok, "operators").(*ast.CompositeLit)
		must(ok, "operators")
		table := map[int64][]kv{}
		var maxIdx int64 = -1
		next := int64(0)
		for _, e := range ops.Elts {
			idx := next
			val := e
			if p, ok := e.(*ast.KeyValueExpr); ok {
				i, ok := evalInt(p.Key, env)
				must(ok, "operators index")
				idx = i
				val = p.Value
			}
			next = idx + 1
			if idx > maxIdx {
				maxIdx = idx
			}
			cl, ok := val.(*ast.CompositeLit)
			must(ok, "operators entry")
			var l []kv
			for _, me := range cl.Elts {
				p := me.(*ast.KeyValueExpr)
				k, ok1 := strLit(p.Key)
				v, ok2 := evalInt(p.Value, env)
				must(ok1 && ok2, "operators map entry")
				l = append(l, kv{k, v})
			}
			sort.Slice(l, func(i, j int) bool { return l[i].k < l[j].k })
			table[idx] = l
		}
		out.WriteString("Definition operators : list (list (bytes * Z)) := [\n")
		for i := int64(0); i <= maxIdx; i++ {
			if i > 0 {
				out.WriteString(";\n")
			}
			out.WriteString("  [")
			for j, e := range table[i] {
				if j > 0 {
					out.WriteString("; ")
				}
				fmt.Fprintf(&out, "(%s, %s)", coqBytes(e.k), coqZ(e.v))
			}
			out.WriteString("]")
		}
		out.WriteString("].\n")
	})
}
