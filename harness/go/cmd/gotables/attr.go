package main

func init() {
	registerEmitter("AttrTables", func() {
		emitKeyTables("dep", "util/resolve/dep/key.go", "util/resolve/internal/deptest/deptest.go")
		emitKeyTables("ver", "util/resolve/version/key.go", "util/resolve/internal/versiontest/versiontest.go")
	})
}
