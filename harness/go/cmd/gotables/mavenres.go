package main

// Constants the Maven resolver model (coq/Resolve/MavenRes.v) takes from the Go
// sources: the retry bound, the importsOpt bits, the dependency attribute keys
// the resolver reads, the system and version-type numbers.

import (
	"fmt"
	"go/ast"
	"go/token"
)

// localConst finds `const name = <int>` declared inside a function body.
func localConst(f *ast.File, fn, name string) (int64, bool) {
	var val int64
	found := false
	for _, d := range f.Decls {
		fd, ok := d.(*ast.FuncDecl)
		if !ok || fd.Name.Name != fn || fd.Body == nil {
			continue
		}
		ast.Inspect(fd.Body, func(n ast.Node) bool {
			gd, ok := n.(*ast.GenDecl)
			if !ok || gd.Tok != token.CONST {
				return true
			}
			for _, s := range gd.Specs {
				vs := s.(*ast.ValueSpec)
				for j, nm := range vs.Names {
					if nm.Name == name && len(vs.Values) > j {
						if v, ok := evalInt(vs.Values[j], map[string]int64{}); ok {
							val, found = v, true
						}
					}
				}
			}
			return true
		})
	}
	return val, found
}

func constOf(cs []constEntry, name string) (int64, bool) {
	for _, c := range cs {
		if c.Name == name {
			return c.Val, true
		}
	}
	return 0, false
}

func init() {
	registerEmitter("MavenResTables", func() {
		rf := parseFile("util/resolve/maven/resolve.go")
		mr, ok := localConst(rf, "Resolve", "maxRetries")
		must(ok, "maven/resolve.go: maxRetries")
		fmt.Fprintf(&out, "Definition maven_max_retries : nat := %d%%nat.\n", mr)
		rc := intConsts(rf)
		for _, n := range []string{"testImports", "optImports", "providedImports"} {
			v, ok := constOf(rc, n)
			must(ok, "maven/resolve.go: "+n)
			fmt.Fprintf(&out, "Definition maven_%s : N := %d%%N.\n", n, v)
		}
		kc := intConsts(parseFile("util/resolve/dep/key.go"))
		for _, n := range []string{"Opt", "Test", "Scope", "MavenClassifier", "MavenArtifactType", "MavenDependencyOrigin", "MavenExclusions", "Selector"} {
			v, ok := constOf(kc, n)
			must(ok, "dep/key.go: "+n)
			if v < 0 {
				// compact keys: the mask bit is the negated key
				fmt.Fprintf(&out, "Definition depkey_%s_mask : N := %d%%N.\n", n, -v)
			} else {
				fmt.Fprintf(&out, "Definition depkey_%s : N := %d%%N.\n", n, v)
			}
		}
		pc := intConsts(parseFile("api/v3/api.pb.go"))
		v, ok := constOf(pc, "System_MAVEN")
		must(ok, "api.pb.go: System_MAVEN")
		fmt.Fprintf(&out, "Definition system_Maven : N := %d%%N.\n", v)
		vc := intConsts(parseFile("util/resolve/resolve.go"))
		for _, n := range []string{"Concrete", "Requirement"} {
			v, ok := constOf(vc, n)
			must(ok, "resolve.go: "+n)
			fmt.Fprintf(&out, "Definition vtype_%s : N := %d%%N.\n", n, v)
		}
	})
}
