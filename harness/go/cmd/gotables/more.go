package main

// emitMore emits the tables added as the model grows.
func emitMore(outDir string) {}
