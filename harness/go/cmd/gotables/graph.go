package main

import (
	"fmt"
	"go/ast"
	"go/parser"
	"go/token"
	"path/filepath"
	"runtime"
)

// GraphTables: two facts the model of Graph.Canon depends on.
//
//   - sort_max_insertion: the length up to which package sort uses insertion
//     sort (const maxInsertion in GOROOT/src/sort/zsortinterface.go). The model
//     follows Go's insertion sort literally up to this length.
//   - canon_dupe_by_scan: false when (*Graph).Canon decides "there are duplicate
//     nodes" by reading on.Dupe, the flag set as a side effect of
//     orderedNodes.Less (finding F-C13-1); true when Canon no longer mentions
//     on.Dupe (the duplicate test is then a function of the sorted nodes).
func init() {
	registerEmitter("GraphTables", func() {
		// --- insertion sort cut-off of the toolchain that builds the harness
		fset := token.NewFileSet()
		sf := filepath.Join(runtime.GOROOT(), "src", "sort", "zsortinterface.go")
		f, err := parser.ParseFile(fset, sf, nil, 0)
		must(err == nil, "cannot parse "+sf)
		var maxIns int64 = -1
		usesInsertion := false
		ast.Inspect(f, func(n ast.Node) bool {
			switch x := n.(type) {
			case *ast.ValueSpec:
				for i, nm := range x.Names {
					if nm.Name == "maxInsertion" && len(x.Values) > i {
						if v, ok := evalInt(x.Values[i], map[string]int64{}); ok {
							maxIns = v
						}
					}
				}
			case *ast.FuncDecl:
				if x.Name.Name == "pdqsort" {
					ast.Inspect(x.Body, func(m ast.Node) bool {
						if c, ok := m.(*ast.CallExpr); ok {
							if id, ok := c.Fun.(*ast.Ident); ok && id.Name == "insertionSort" {
								usesInsertion = true
							}
						}
						return true
					})
				}
			}
			return true
		})
		must(maxIns >= 0 && usesInsertion, sf+": maxInsertion / insertionSort in pdqsort")
		fmt.Fprintf(&out, "(* %s: const maxInsertion *)\n", "GOROOT/src/sort/zsortinterface.go")
		fmt.Fprintf(&out, "Definition sort_max_insertion : nat := %d%%nat.\n\n", maxIns)

		// --- does Canon read the flag set inside Less?
		gf := parseFile("util/resolve/graph.go")
		found := false
		mentions := false
		for _, d := range gf.Decls {
			fd, ok := d.(*ast.FuncDecl)
			if !ok || fd.Name.Name != "Canon" || fd.Recv == nil {
				continue
			}
			found = true
			ast.Inspect(fd.Body, func(n ast.Node) bool {
				if se, ok := n.(*ast.SelectorExpr); ok && se.Sel.Name == "Dupe" {
					mentions = true
				}
				return true
			})
		}
		must(found, "util/resolve/graph.go: (*Graph).Canon")
		fmt.Fprintf(&out, "(* util/resolve/graph.go: Graph.Canon %s the Dupe flag set inside orderedNodes.Less *)\n",
			map[bool]string{true: "reads", false: "does not read"}[mentions])
		fmt.Fprintf(&out, "Definition canon_dupe_by_scan : bool := %v.\n", !mentions)
	})
}
