package main

import (
	"fmt"
	"go/ast"
	"go/token"
	"sort"
)

// ApiClientTables: what the model of resolve.APIClient takes from the working
// tree: the api System number of npm, the VersionType numbers, and the lock
// discipline around the bundledVersions map. (String literals of api.go are
// deliberately not tied: a harmless rewrite of a format string must not break
// a proof obligation; their effect is observed by the correspondence check.)
//
// Lock discipline: for every function of api.go that touches the field
// bundledVersions of a value (reads it, assigns to an element of it, deletes
// from it), the table lists whether it writes the map and which methods it
// calls on the field bundledVersionsMu. The function that only creates the map
// in a composite literal (NewAPIClient) does not select the field and is not
// listed. Names of functions are not part of any obligation.
func init() {
	registerEmitter("ApiClientTables", func() {
		env := constEnv(parseFile("api/v3/api.pb.go"), parseFile("util/resolve/resolve.go"))
		for _, n := range []struct{ coq, goName string }{
			{"api_system_npm", "System_NPM"},
			{"api_vt_concrete", "Concrete"},
			{"api_vt_requirement", "Requirement"},
		} {
			v, ok := env[n.goName]
			must(ok, "constant "+n.goName)
			fmt.Fprintf(&out, "Definition %s : Z := %s.\n", n.coq, coqZ(v))
		}

		f := parseFile("util/resolve/api.go")
		isMapSel := func(e ast.Expr) bool {
			s, ok := e.(*ast.SelectorExpr)
			return ok && s.Sel.Name == "bundledVersions"
		}
		touchesMap := func(e ast.Expr) bool {
			found := false
			ast.Inspect(e, func(n ast.Node) bool {
				if x, ok := n.(ast.Expr); ok && isMapSel(x) {
					found = true
				}
				return !found
			})
			return found
		}
		out.WriteString("(* functions of api.go touching the bundledVersions map: (name, writes the map, methods called on bundledVersionsMu) *)\n")
		out.WriteString("Definition api_map_functions : list (bytes * bool * list bytes) := [")
		first := true
		for _, d := range f.Decls {
			fd, ok := d.(*ast.FuncDecl)
			if !ok || fd.Body == nil {
				continue
			}
			touches, writes := false, false
			methods := map[string]bool{}
			ast.Inspect(fd.Body, func(n ast.Node) bool {
				switch x := n.(type) {
				case *ast.SelectorExpr:
					if x.Sel.Name == "bundledVersions" {
						touches = true
					}
				case *ast.AssignStmt:
					for _, l := range x.Lhs {
						if ix, ok := l.(*ast.IndexExpr); ok && touchesMap(ix.X) {
							writes = true
						}
						if isMapSel(l) {
							writes = true
						}
					}
				case *ast.IncDecStmt:
					if ix, ok := x.X.(*ast.IndexExpr); ok && touchesMap(ix.X) {
						writes = true
					}
				case *ast.CallExpr:
					if id, ok := x.Fun.(*ast.Ident); ok && (id.Name == "delete" || id.Name == "clear") && len(x.Args) > 0 && touchesMap(x.Args[0]) {
						writes = true
					}
					if s, ok := x.Fun.(*ast.SelectorExpr); ok {
						if r, ok := s.X.(*ast.SelectorExpr); ok && r.Sel.Name == "bundledVersionsMu" {
							methods[s.Sel.Name] = true
						}
					}
				}
				return true
			})
			if !touches {
				continue
			}
			var ms []string
			for m := range methods {
				ms = append(ms, m)
			}
			sort.Strings(ms)
			if !first {
				out.WriteString(";")
			}
			first = false
			fmt.Fprintf(&out, "\n  (%s (* %s *), %v, [", coqBytes(fd.Name.Name), fd.Name.Name, writes)
			for i, m := range ms {
				if i > 0 {
					out.WriteString("; ")
				}
				fmt.Fprintf(&out, "%s (* %s *)", coqBytes(m), m)
			}
			out.WriteString("])")
		}
		out.WriteString("].\n")
		_ = token.NoPos
	})
}
