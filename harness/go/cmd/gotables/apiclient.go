package main

import (
	"fmt"
	"go/ast"
	"go/token"
	"sort"
)

// ApiClientTables: the constants the model of resolve.APIClient depends on,
// read from the working tree: the api System number of npm, the VersionType
// numbers, and every string literal of the npm-related functions of api.go
// (sorted, per function), so that an edit to "npm:", "node_modules/", ">" ...
// is re-proved against (ApiClient_proofs.api_literals_ok).
func init() {
	registerEmitter("ApiClientTables", func() {
		env := constEnv(parseFile("api/v3/api.pb.go"), parseFile("util/resolve/resolve.go"))
		for _, n := range []struct{ coq, goName string }{
			{"api_system_npm", "System_NPM"},
			{"api_vt_concrete", "Concrete"},
			{"api_vt_requirement", "Requirement"},
		} {
			v, ok := env[n.goName]
			must(ok, "constant "+n.goName)
			fmt.Fprintf(&out, "Definition %s : Z := %s.\n", n.coq, coqZ(v))
		}
		f := parseFile("util/resolve/api.go")
		for _, fn := range []string{"flattenNPMDeps", "npmRequirements", "mangledName", "isNPMBundle", "makeVersion"} {
			var body *ast.BlockStmt
			for _, d := range f.Decls {
				if fd, ok := d.(*ast.FuncDecl); ok && fd.Name.Name == fn {
					body = fd.Body
				}
			}
			must(body != nil, "util/resolve/api.go: func "+fn)
			set := map[string]bool{}
			ast.Inspect(body, func(n ast.Node) bool {
				// error texts are not observed (DESIGN 4.3): skip fmt.Errorf / errors.New arguments
				if ce, ok := n.(*ast.CallExpr); ok {
					if nm := selName(ce.Fun); nm == "Errorf" || nm == "New" {
						return false
					}
				}
				if bl, ok := n.(*ast.BasicLit); ok && bl.Kind == token.STRING {
					if s, ok := strLit(bl); ok {
						set[s] = true
					}
				}
				return true
			})
			var lits []string
			for s := range set {
				lits = append(lits, s)
			}
			sort.Strings(lits)
			fmt.Fprintf(&out, "Definition api_literals_%s : list bytes := [", fn)
			for i, s := range lits {
				if i > 0 {
					out.WriteString("; ")
				}
				fmt.Fprintf(&out, "%s (* %q *)", coqBytes(s), s)
			}
			out.WriteString("].\n")
		}
	})
}
