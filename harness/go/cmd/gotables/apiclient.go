package main

import "fmt"

// ApiClientTables: the numeric constants the model of resolve.APIClient
// depends on, read from the working tree: the api System number of npm and the
// VersionType numbers. (String literals of api.go are deliberately not tied:
// a harmless rewrite of a format string must not break a proof obligation;
// their effect is observed by the correspondence check.)
func init() {
	registerEmitter("ApiClientTables", func() {
		env := constEnv(parseFile("api/v3/api.pb.go"), parseFile("util/resolve/resolve.go"))
		for _, n := range []struct{ coq, goName string }{
			{"api_system_npm", "System_NPM"},
			{"api_vt_concrete", "Concrete"},
			{"api_vt_requirement", "Requirement"},
		} {
			v, ok := env[n.goName]
			must(ok, "constant "+n.goName)
			fmt.Fprintf(&out, "Definition %s : Z := %s.\n", n.coq, coqZ(v))
		}
	})
}
