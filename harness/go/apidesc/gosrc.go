package apidesc

// What go/ast reads in the generated Go files and in util/resolve/resolve.go.

import (
	"bytes"
	"fmt"
	"go/ast"
	"go/parser"
	"go/printer"
	"go/token"
	"path/filepath"
	"reflect"
	"strconv"
	"strings"
)

func parseGo(path string) (*ast.File, *token.FileSet, error) {
	fset := token.NewFileSet()
	f, err := parser.ParseFile(fset, path, nil, 0)
	return f, fset, err
}

// typedIntConsts returns, per declared type name, the integer constants
// declared with that explicit type (NAME Type = 3), in declaration order.
func typedIntConsts(f *ast.File) ([]GoEnum, map[string]int64) {
	var out []GoEnum
	index := map[string]int{}
	all := map[string]int64{}
	for _, d := range f.Decls {
		gd, ok := d.(*ast.GenDecl)
		if !ok || gd.Tok != token.CONST {
			continue
		}
		for _, s := range gd.Specs {
			vs := s.(*ast.ValueSpec)
			id, ok := vs.Type.(*ast.Ident)
			if !ok || len(vs.Names) != 1 || len(vs.Values) != 1 {
				continue
			}
			v, ok := intLit(vs.Values[0])
			if !ok {
				continue
			}
			i, seen := index[id.Name]
			if !seen {
				i = len(out)
				index[id.Name] = i
				out = append(out, GoEnum{GoType: id.Name})
			}
			out[i].Consts = append(out[i].Consts, EnumValue{vs.Names[0].Name, v})
			all[vs.Names[0].Name] = v
		}
	}
	return out, all
}

func intLit(e ast.Expr) (int64, bool) {
	switch x := e.(type) {
	case *ast.BasicLit:
		if x.Kind == token.INT {
			v, err := strconv.ParseInt(x.Value, 0, 64)
			return v, err == nil
		}
	case *ast.UnaryExpr:
		if x.Op == token.SUB {
			v, ok := intLit(x.X)
			return -v, ok
		}
	case *ast.ParenExpr:
		return intLit(x.X)
	}
	return 0, false
}

// GoEnums reads the enum constants of a generated .pb.go file.
func GoEnums(pbgo string) ([]GoEnum, error) {
	f, _, err := parseGo(pbgo)
	if err != nil {
		return nil, err
	}
	es, _ := typedIntConsts(f)
	return es, nil
}

// GoStructs reads the struct types whose fields carry protobuf tags.
func GoStructs(pbgo string) ([]GoStruct, error) {
	f, _, err := parseGo(pbgo)
	if err != nil {
		return nil, err
	}
	var out []GoStruct
	for _, d := range f.Decls {
		gd, ok := d.(*ast.GenDecl)
		if !ok || gd.Tok != token.TYPE {
			continue
		}
		for _, s := range gd.Specs {
			ts := s.(*ast.TypeSpec)
			st, ok := ts.Type.(*ast.StructType)
			if !ok {
				continue
			}
			gs := GoStruct{GoType: ts.Name.Name}
			isMsg := false
			for _, fl := range st.Fields.List {
				if len(fl.Names) == 1 && fl.Names[0].Name == "state" {
					isMsg = true
				}
				if fl.Tag == nil || len(fl.Names) != 1 {
					continue
				}
				tag, err := strconv.Unquote(fl.Tag.Value)
				if err != nil {
					continue
				}
				st := reflect.StructTag(tag)
				pb, ok1 := st.Lookup("protobuf")
				oo, ok2 := st.Lookup("protobuf_oneof")
				if ok1 || ok2 {
					gs.Fields = append(gs.Fields, GoField{fl.Names[0].Name, pb, oo})
				}
			}
			if isMsg || len(gs.Fields) > 0 {
				out = append(out, gs)
			}
		}
	}
	return out, nil
}

// GrpcSource adds to g what go/ast reads in the *_grpc.pb.go file: the
// FullMethodName string constants and the exported methods of the client and
// server interfaces of the service.
func GrpcSource(g *Grpc, grpcgo, service string) error {
	f, _, err := parseGo(grpcgo)
	if err != nil {
		return err
	}
	for _, d := range f.Decls {
		gd, ok := d.(*ast.GenDecl)
		if !ok {
			continue
		}
		for _, s := range gd.Specs {
			switch x := s.(type) {
			case *ast.ValueSpec:
				if gd.Tok != token.CONST {
					continue
				}
				for i, n := range x.Names {
					if !strings.HasSuffix(n.Name, "_FullMethodName") || i >= len(x.Values) {
						continue
					}
					if bl, ok := x.Values[i].(*ast.BasicLit); ok && bl.Kind == token.STRING {
						if v, err := strconv.Unquote(bl.Value); err == nil {
							g.FullNames = append(g.FullNames, NamedString{n.Name, v})
						}
					}
				}
			case *ast.TypeSpec:
				it, ok := x.Type.(*ast.InterfaceType)
				if !ok {
					continue
				}
				var names []string
				for _, m := range it.Methods.List {
					for _, n := range m.Names {
						if n.IsExported() {
							names = append(names, n.Name)
						}
					}
				}
				switch x.Name.Name {
				case service + "Client":
					g.ClientIface = names
				case service + "Server":
					g.ServerIface = names
				}
			}
		}
	}
	return nil
}

// ResolveSystems reads the constants of type System in util/resolve/resolve.go.
// They are written System(apipb.System_X): the number is looked up among the
// constants of the imported API package's api.pb.go.  Returns the constants and
// the import path of the API package.
func ResolveSystems(repo string) ([]ResolveConst, string, error) {
	f, fset, err := parseGo(filepath.Join(repo, "util/resolve/resolve.go"))
	if err != nil {
		return nil, "", err
	}
	imports := map[string]string{} // local name -> path
	for _, im := range f.Imports {
		path, _ := strconv.Unquote(im.Path.Value)
		name := filepath.Base(path)
		if im.Name != nil {
			name = im.Name.Name
		}
		imports[name] = path
	}
	apiImport := ""
	pkgConsts := map[string]map[string]int64{}
	lookupPkg := func(local string) (map[string]int64, bool) {
		path, ok := imports[local]
		if !ok || !strings.HasPrefix(path, "deps.dev/api/") {
			return nil, false
		}
		apiImport = path
		if m, ok := pkgConsts[path]; ok {
			return m, true
		}
		pf, _, err := parseGo(filepath.Join(repo, "api", strings.TrimPrefix(path, "deps.dev/api/"), "api.pb.go"))
		if err != nil {
			return nil, false
		}
		_, m := typedIntConsts(pf)
		pkgConsts[path] = m
		return m, true
	}
	env := map[string]int64{}
	var eval func(e ast.Expr, iota int64) (int64, bool)
	eval = func(e ast.Expr, iota int64) (int64, bool) {
		switch x := e.(type) {
		case *ast.BasicLit, *ast.UnaryExpr:
			return intLit(e)
		case *ast.ParenExpr:
			return eval(x.X, iota)
		case *ast.Ident:
			if x.Name == "iota" {
				return iota, true
			}
			v, ok := env[x.Name]
			return v, ok
		case *ast.SelectorExpr:
			if id, ok := x.X.(*ast.Ident); ok {
				if m, ok := lookupPkg(id.Name); ok {
					v, ok := m[x.Sel.Name]
					return v, ok
				}
			}
		case *ast.CallExpr: // conversion System(...)
			if len(x.Args) == 1 {
				if id, ok := x.Fun.(*ast.Ident); ok && (id.Name == "System" || id.Name == "byte" || id.Name == "int") {
					return eval(x.Args[0], iota)
				}
			}
		case *ast.BinaryExpr:
			a, ok1 := eval(x.X, iota)
			b, ok2 := eval(x.Y, iota)
			if ok1 && ok2 {
				switch x.Op {
				case token.ADD:
					return a + b, true
				case token.SUB:
					return a - b, true
				}
			}
		}
		return 0, false
	}
	isSystemExpr := func(vs *ast.ValueSpec, e ast.Expr) bool {
		if id, ok := vs.Type.(*ast.Ident); ok && id.Name == "System" {
			return true
		}
		if c, ok := e.(*ast.CallExpr); ok {
			if id, ok := c.Fun.(*ast.Ident); ok && id.Name == "System" {
				return true
			}
		}
		return false
	}
	var out []ResolveConst
	for _, d := range f.Decls {
		gd, ok := d.(*ast.GenDecl)
		if !ok || gd.Tok != token.CONST {
			continue
		}
		var last *ast.ValueSpec
		for i, s := range gd.Specs {
			vs := s.(*ast.ValueSpec)
			src := vs
			if len(vs.Values) == 0 && vs.Type == nil && last != nil {
				src = last // implicit repetition
			} else {
				last = vs
			}
			for j, n := range vs.Names {
				if j >= len(src.Values) {
					continue
				}
				e := src.Values[j]
				if !isSystemExpr(src, e) || n.Name == "_" {
					continue
				}
				var sb bytes.Buffer
				printer.Fprint(&sb, fset, e)
				rc := ResolveConst{Name: n.Name, Expr: sb.String()}
				if v, ok := eval(e, int64(i)); ok {
					env[n.Name] = v
					rc.Value = &v
				}
				out = append(out, rc)
			}
		}
	}
	if len(out) == 0 {
		return nil, apiImport, fmt.Errorf("no constants of type System found in util/resolve/resolve.go")
	}
	return out, apiImport, nil
}
