package apidesc

// What go/ast reads in the generated Go files and in util/resolve/resolve.go.

import (
	"bytes"
	"fmt"
	"go/ast"
	"go/build"
	"go/parser"
	"go/printer"
	"go/token"
	"os"
	"path/filepath"
	"reflect"
	"strconv"
	"strings"
)

func parseGo(path string) (*ast.File, *token.FileSet, error) {
	fset := token.NewFileSet()
	f, err := parser.ParseFile(fset, path, nil, 0)
	return f, fset, err
}

// typedIntConsts returns, per declared type name, the integer constants
// declared with that explicit type (NAME Type = 3), in declaration order.
func typedIntConsts(f *ast.File) ([]GoEnum, map[string]int64) {
	var out []GoEnum
	index := map[string]int{}
	all := map[string]int64{}
	for _, d := range f.Decls {
		gd, ok := d.(*ast.GenDecl)
		if !ok || gd.Tok != token.CONST {
			continue
		}
		for _, s := range gd.Specs {
			vs := s.(*ast.ValueSpec)
			id, ok := vs.Type.(*ast.Ident)
			if !ok || len(vs.Names) != 1 || len(vs.Values) != 1 {
				continue
			}
			v, ok := intLit(vs.Values[0])
			if !ok {
				continue
			}
			i, seen := index[id.Name]
			if !seen {
				i = len(out)
				index[id.Name] = i
				out = append(out, GoEnum{GoType: id.Name})
			}
			out[i].Consts = append(out[i].Consts, EnumValue{vs.Names[0].Name, v})
			all[vs.Names[0].Name] = v
		}
	}
	return out, all
}

func intLit(e ast.Expr) (int64, bool) {
	switch x := e.(type) {
	case *ast.BasicLit:
		if x.Kind == token.INT {
			v, err := strconv.ParseInt(x.Value, 0, 64)
			return v, err == nil
		}
	case *ast.UnaryExpr:
		if x.Op == token.SUB {
			v, ok := intLit(x.X)
			return -v, ok
		}
	case *ast.ParenExpr:
		return intLit(x.X)
	}
	return 0, false
}

// GoEnums reads the enum constants of a generated .pb.go file.
func GoEnums(pbgo string) ([]GoEnum, error) {
	f, _, err := parseGo(pbgo)
	if err != nil {
		return nil, err
	}
	es, _ := typedIntConsts(f)
	return es, nil
}

// typeExpr prints a Go type expression; a package qualifier is replaced by the
// import path it stands for (timestamppb.Timestamp becomes
// google.golang.org/protobuf/types/known/timestamppb.Timestamp).
func typeExpr(e ast.Expr, imports map[string]string) string {
	switch x := e.(type) {
	case *ast.Ident:
		return x.Name
	case *ast.StarExpr:
		return "*" + typeExpr(x.X, imports)
	case *ast.ArrayType:
		if x.Len == nil {
			return "[]" + typeExpr(x.Elt, imports)
		}
		return "[?]" + typeExpr(x.Elt, imports)
	case *ast.MapType:
		return "map[" + typeExpr(x.Key, imports) + "]" + typeExpr(x.Value, imports)
	case *ast.SelectorExpr:
		if id, ok := x.X.(*ast.Ident); ok {
			if path, ok := imports[id.Name]; ok {
				return path + "." + x.Sel.Name
			}
			return id.Name + "." + x.Sel.Name
		}
	case *ast.Ellipsis:
		return "..." + typeExpr(x.Elt, imports)
	case *ast.InterfaceType:
		return "interface{}"
	}
	return "?"
}

// fileImports maps the local name of each import of a file to its path. The
// local name of an unnamed import is taken to be the last path element.
func fileImports(f *ast.File) map[string]string {
	out := map[string]string{}
	for _, im := range f.Imports {
		path, _ := strconv.Unquote(im.Path.Value)
		name := path[strings.LastIndexByte(path, '/')+1:]
		if im.Name != nil {
			name = im.Name.Name
		}
		out[name] = path
	}
	return out
}

// GoStructs reads the struct types whose fields carry protobuf tags.
func GoStructs(pbgo string) ([]GoStruct, error) {
	f, _, err := parseGo(pbgo)
	if err != nil {
		return nil, err
	}
	var out []GoStruct
	imports := fileImports(f)
	for _, d := range f.Decls {
		gd, ok := d.(*ast.GenDecl)
		if !ok || gd.Tok != token.TYPE {
			continue
		}
		for _, s := range gd.Specs {
			ts := s.(*ast.TypeSpec)
			st, ok := ts.Type.(*ast.StructType)
			if !ok {
				continue
			}
			gs := GoStruct{GoType: ts.Name.Name}
			isMsg := false
			for _, fl := range st.Fields.List {
				if len(fl.Names) == 1 && fl.Names[0].Name == "state" {
					isMsg = true
				}
				if fl.Tag == nil || len(fl.Names) != 1 {
					continue
				}
				tag, err := strconv.Unquote(fl.Tag.Value)
				if err != nil {
					continue
				}
				st := reflect.StructTag(tag)
				pb, ok1 := st.Lookup("protobuf")
				oo, ok2 := st.Lookup("protobuf_oneof")
				if ok1 || ok2 {
					gs.Fields = append(gs.Fields, GoField{GoName: fl.Names[0].Name, Type: typeExpr(fl.Type, imports), Tag: pb,
						JSON: st.Get("json"), Oneof: oo, Key: st.Get("protobuf_key"), Val: st.Get("protobuf_val")})
				}
			}
			if isMsg || len(gs.Fields) > 0 {
				out = append(out, gs)
			}
		}
	}
	return out, nil
}

// GrpcSource adds to g what go/ast reads in the *_grpc.pb.go file: the
// FullMethodName string constants and the exported methods of the client and
// server interfaces of the service.
func GrpcSource(g *Grpc, grpcgo, service string) error {
	f, _, err := parseGo(grpcgo)
	if err != nil {
		return err
	}
	for _, d := range f.Decls {
		gd, ok := d.(*ast.GenDecl)
		if !ok {
			continue
		}
		for _, s := range gd.Specs {
			switch x := s.(type) {
			case *ast.ValueSpec:
				if gd.Tok != token.CONST {
					continue
				}
				for i, n := range x.Names {
					if !strings.HasSuffix(n.Name, "_FullMethodName") || i >= len(x.Values) {
						continue
					}
					if bl, ok := x.Values[i].(*ast.BasicLit); ok && bl.Kind == token.STRING {
						if v, err := strconv.Unquote(bl.Value); err == nil {
							g.FullNames = append(g.FullNames, NamedString{n.Name, v})
						}
					}
				}
			case *ast.TypeSpec:
				it, ok := x.Type.(*ast.InterfaceType)
				if !ok {
					continue
				}
				var names []string
				for _, m := range it.Methods.List {
					for _, n := range m.Names {
						if n.IsExported() {
							names = append(names, n.Name)
						}
					}
				}
				switch x.Name.Name {
				case service + "Client":
					g.ClientIface = names
				case service + "Server":
					g.ServerIface = names
				}
			}
		}
	}
	imports := fileImports(f)
	fullConsts := func(n ast.Node) []string {
		var out []string
		ast.Inspect(n, func(n ast.Node) bool {
			if id, ok := n.(*ast.Ident); ok && strings.HasSuffix(id.Name, "_FullMethodName") {
				for _, o := range out {
					if o == id.Name {
						return true
					}
				}
				out = append(out, id.Name)
			}
			return true
		})
		return out
	}
	for _, d := range f.Decls {
		switch x := d.(type) {
		case *ast.FuncDecl:
			if x.Body == nil {
				continue
			}
			if x.Recv != nil && len(x.Recv.List) == 1 {
				// methods of the unexported client type: <service>Client with a lower-case first letter
				rt := typeExpr(x.Recv.List[0].Type, imports)
				if !strings.EqualFold(rt, "*"+service+"Client") || ast.IsExported(strings.TrimPrefix(rt, "*")) {
					continue
				}
				cm := ClientMethod{Name: x.Name.Name}
				for _, p := range x.Type.Params.List {
					for _, n := range p.Names {
						if n.Name == "in" {
							cm.In = typeExpr(p.Type, imports)
						}
					}
				}
				if x.Type.Results != nil && len(x.Type.Results.List) > 0 {
					cm.Out = typeExpr(x.Type.Results.List[0].Type, imports)
				}
				cm.Const = strings.Join(fullConsts(x.Body), " ")
				g.Client = append(g.Client, cm)
				continue
			}
			if x.Recv == nil && strings.HasPrefix(x.Name.Name, "_"+service+"_") && strings.HasSuffix(x.Name.Name, "_Handler") {
				h := HandlerFunc{Name: x.Name.Name, Consts: fullConsts(x.Body)}
				ast.Inspect(x.Body, func(n ast.Node) bool {
					c, ok := n.(*ast.CallExpr)
					if !ok {
						return true
					}
					if id, ok := c.Fun.(*ast.Ident); ok && id.Name == "new" && len(c.Args) == 1 && h.New == "" {
						h.New = typeExpr(c.Args[0], imports)
					}
					if sel, ok := c.Fun.(*ast.SelectorExpr); ok {
						if ta, ok := sel.X.(*ast.TypeAssertExpr); ok && typeExpr(ta.Type, imports) == service+"Server" {
							seen := false
							for _, o := range h.Calls {
								seen = seen || o == sel.Sel.Name
							}
							if !seen {
								h.Calls = append(h.Calls, sel.Sel.Name)
							}
						}
					}
					return true
				})
				g.Handlers = append(g.Handlers, h)
			}
		case *ast.GenDecl:
			if x.Tok != token.VAR {
				continue
			}
			for _, sp := range x.Specs {
				vs := sp.(*ast.ValueSpec)
				for i, n := range vs.Names {
					if n.Name != service+"_ServiceDesc" || i >= len(vs.Values) {
						continue
					}
					// every composite literal carrying a MethodName or StreamName key, in order
					ast.Inspect(vs.Values[i], func(n ast.Node) bool {
						cl, ok := n.(*ast.CompositeLit)
						if !ok {
							return true
						}
						var b HandlerBinding
						named := false
						for _, e := range cl.Elts {
							kv, ok := e.(*ast.KeyValueExpr)
							if !ok {
								continue
							}
							k, _ := kv.Key.(*ast.Ident)
							if k == nil {
								continue
							}
							switch k.Name {
							case "MethodName", "StreamName":
								if bl, ok := kv.Value.(*ast.BasicLit); ok && bl.Kind == token.STRING {
									b.Method, _ = strconv.Unquote(bl.Value)
									named = true
								}
							case "Handler":
								b.Handler = typeExpr(kv.Value, imports)
							}
						}
						if named {
							g.Bindings = append(g.Bindings, b)
						}
						return true
					})
				}
			}
		}
	}
	return nil
}

// ResolveSystems reads the constants of type System of package util/resolve:
// every non-test .go file of the directory that the default build context
// selects (so a constant moved to another file is still read). They are written
// System(apipb.System_X): the number is looked up among the constants of the
// imported API package's api.pb.go. Returns the constants (files in name order,
// declaration order within a file) and the import path of the API package.
func ResolveSystems(repo string) ([]ResolveConst, string, error) {
	dir := filepath.Join(repo, "util/resolve")
	ents, err := os.ReadDir(dir)
	if err != nil {
		return nil, "", err
	}
	type constDecl struct {
		name     string
		expr     ast.Expr
		iota     int64
		imports  map[string]string
		isSystem bool
		text     string
	}
	var decls []*constDecl
	byName := map[string]*constDecl{}
	for _, ent := range ents {
		name := ent.Name()
		if ent.IsDir() || !strings.HasSuffix(name, ".go") || strings.HasSuffix(name, "_test.go") {
			continue
		}
		if ok, err := build.Default.MatchFile(dir, name); err != nil || !ok {
			continue
		}
		f, fset, err := parseGo(filepath.Join(dir, name))
		if err != nil {
			return nil, "", err
		}
		imports := fileImports(f)
		for _, d := range f.Decls {
			gd, ok := d.(*ast.GenDecl)
			if !ok || gd.Tok != token.CONST {
				continue
			}
			var last *ast.ValueSpec
			for i, sp := range gd.Specs {
				vs := sp.(*ast.ValueSpec)
				src := vs
				if len(vs.Values) == 0 && vs.Type == nil && last != nil {
					src = last // implicit repetition
				} else {
					last = vs
				}
				for j, n := range vs.Names {
					if j >= len(src.Values) || n.Name == "_" {
						continue
					}
					e := src.Values[j]
					cd := &constDecl{name: n.Name, expr: e, iota: int64(i), imports: imports}
					if id, ok := src.Type.(*ast.Ident); ok && id.Name == "System" {
						cd.isSystem = true
					}
					if c, ok := e.(*ast.CallExpr); ok {
						if id, ok := c.Fun.(*ast.Ident); ok && id.Name == "System" {
							cd.isSystem = true
						}
					}
					var sb bytes.Buffer
					printer.Fprint(&sb, fset, e)
					cd.text = sb.String()
					decls = append(decls, cd)
					byName[n.Name] = cd
				}
			}
		}
	}
	apiImport := ""
	pkgConsts := map[string]map[string]int64{}
	lookupPkg := func(imports map[string]string, local string) (map[string]int64, bool) {
		path, ok := imports[local]
		if !ok || !strings.HasPrefix(path, "deps.dev/api/") {
			return nil, false
		}
		apiImport = path
		if m, ok := pkgConsts[path]; ok {
			return m, true
		}
		pf, _, err := parseGo(filepath.Join(repo, "api", strings.TrimPrefix(path, "deps.dev/api/"), "api.pb.go"))
		if err != nil {
			return nil, false
		}
		_, m := typedIntConsts(pf)
		pkgConsts[path] = m
		return m, true
	}
	busy := map[string]bool{}
	var evalDecl func(cd *constDecl) (int64, bool)
	var eval func(cd *constDecl, e ast.Expr) (int64, bool)
	evalDecl = func(cd *constDecl) (int64, bool) {
		if busy[cd.name] {
			return 0, false
		}
		busy[cd.name] = true
		defer delete(busy, cd.name)
		return eval(cd, cd.expr)
	}
	eval = func(cd *constDecl, e ast.Expr) (int64, bool) {
		switch x := e.(type) {
		case *ast.BasicLit:
			return intLit(e)
		case *ast.UnaryExpr:
			v, ok := eval(cd, x.X)
			switch x.Op {
			case token.SUB:
				return -v, ok
			case token.ADD:
				return v, ok
			}
		case *ast.ParenExpr:
			return eval(cd, x.X)
		case *ast.Ident:
			if x.Name == "iota" {
				return cd.iota, true
			}
			if o, ok := byName[x.Name]; ok {
				return evalDecl(o)
			}
		case *ast.SelectorExpr:
			if id, ok := x.X.(*ast.Ident); ok {
				if m, ok := lookupPkg(cd.imports, id.Name); ok {
					v, ok := m[x.Sel.Name]
					return v, ok
				}
			}
		case *ast.CallExpr: // conversion System(...)
			if len(x.Args) == 1 {
				if id, ok := x.Fun.(*ast.Ident); ok && (id.Name == "System" || id.Name == "byte" || id.Name == "int" || id.Name == "uint8") {
					return eval(cd, x.Args[0])
				}
			}
		case *ast.BinaryExpr:
			a, ok1 := eval(cd, x.X)
			b, ok2 := eval(cd, x.Y)
			if ok1 && ok2 {
				switch x.Op {
				case token.ADD:
					return a + b, true
				case token.SUB:
					return a - b, true
				case token.MUL:
					return a * b, true
				}
			}
		}
		return 0, false
	}
	// a constant declared without type whose value is another System constant is a System too
	var out []ResolveConst
	for _, cd := range decls {
		if !cd.isSystem {
			continue
		}
		rc := ResolveConst{Name: cd.name, Expr: cd.text}
		if v, ok := evalDecl(cd); ok {
			rc.Value = &v
		}
		out = append(out, rc)
	}
	if len(out) == 0 {
		return nil, apiImport, fmt.Errorf("no constants of type System found in util/resolve")
	}
	return out, apiImport, nil
}
