// Package apidesc is the C17 translator: it prints, as Coq definitions and as
// JSON, (a) the descriptor embedded in a generated Go API package, (b) the same
// structure parsed from the api.proto text, (c) what go/ast reads in the
// generated *_grpc.pb.go / *.pb.go files and in util/resolve/resolve.go.
// It prints what it read; it computes no verdict.
//
// The package must not import deps.dev/api/v3 or v3alpha: both register a file
// called api.proto, so each is linked into its own small binary
// (cmd/apidesc_v3, cmd/apidesc_v3alpha) which passes its descriptor in.
package apidesc

import (
	"fmt"
	"strconv"
	"strings"
)

// HTTP is a google.api.http rule.
type HTTP struct {
	Verb  string `json:"verb"` // get put post delete patch, or custom:<kind>
	Path  string `json:"path"`
	Body  string `json:"body"`
	Resp  string `json:"response_body"`
	Extra []HTTP `json:"additional_bindings"`
}

type Field struct {
	Name     string  `json:"name"`
	Number   int64   `json:"number"`
	Kind     string  `json:"kind"`        // proto scalar keyword, or message / enum / group
	Card     int64   `json:"cardinality"` // 1 optional 2 required 3 repeated
	Oneof    *string `json:"oneof"`       // name of the containing oneof (synthetic ones included)
	Optional bool    `json:"optional_keyword"`
	Type     string  `json:"type_name"` // full name of the message or enum type, no leading dot
	JSON     string  `json:"json_name"`
	Packed   bool    `json:"packed"` // repeated scalar encoded packed (proto3 default, or the packed option)

	packedOpt *bool // parser: explicit [packed = ...]
}

type EnumValue struct {
	Name   string `json:"name"`
	Number int64  `json:"number"`
}

type Enum struct {
	Name   string      `json:"name"`
	Values []EnumValue `json:"values"`
}

type Message struct {
	Name     string    `json:"name"`
	Fields   []Field   `json:"fields"`
	Oneofs   []string  `json:"oneofs"`
	Nested   []Message `json:"nested"`
	Enums    []Enum    `json:"enums"`
	MapEntry bool      `json:"map_entry"`
}

type Method struct {
	Name    string `json:"name"`
	Input   string `json:"input"`
	Output  string `json:"output"`
	CStream bool   `json:"client_streaming"`
	SStream bool   `json:"server_streaming"`
	HTTP    *HTTP  `json:"http"`
	Idem    string `json:"idempotency_level"` // IDEMPOTENCY_UNKNOWN, NO_SIDE_EFFECTS, IDEMPOTENT
}

type Service struct {
	Name    string   `json:"name"`
	Methods []Method `json:"methods"`
}

type File struct {
	Path      string    `json:"path"`
	Package   string    `json:"package"`
	Syntax    string    `json:"syntax"`
	Deps      []string  `json:"imports"`
	GoPackage string    `json:"go_package"`
	Messages  []Message `json:"messages"`
	Enums     []Enum    `json:"enums"`
	Services  []Service `json:"services"`
}

// Stream is one grpc.StreamDesc.
type Stream struct {
	Name    string `json:"name"`
	SStream bool   `json:"server_streams"`
	CStream bool   `json:"client_streams"`
}

// NamedString is a Go string constant (name, value).
type NamedString struct {
	Name  string `json:"name"`
	Value string `json:"value"`
}

// Grpc is what the *_grpc.pb.go file says: the linked ServiceDesc value and,
// read with go/ast, the FullMethodName constants and the two interfaces.
type Grpc struct {
	ServiceName string        `json:"service_name"`
	Methods     []string      `json:"methods"`
	Streams     []Stream      `json:"streams"`
	Metadata    string        `json:"metadata"`
	FullNames   []NamedString `json:"full_method_names"`
	ClientIface []string      `json:"client_interface"`
	ServerIface []string      `json:"server_interface"`

	Client   []ClientMethod   `json:"client_methods"`
	Bindings []HandlerBinding `json:"handler_bindings"`
	Handlers []HandlerFunc    `json:"handler_funcs"`
}

// GoEnum is a Go enum type of the generated package with its constants (go/ast).
type GoEnum struct {
	GoType string      `json:"go_type"`
	Consts []EnumValue `json:"consts"`
}

// GoField is a struct field carrying a protobuf tag.
type GoField struct {
	GoName string `json:"go_name"`
	Type   string `json:"go_type"` // type expression; a package qualifier is replaced by the import path
	Tag    string `json:"tag"`     // value of the protobuf key of the struct tag
	JSON   string `json:"json_tag"`
	Oneof  string `json:"oneof_tag"`
	Key    string `json:"key_tag"` // protobuf_key / protobuf_val of map fields
	Val    string `json:"val_tag"`
}

// ExtType is a message or enum type of another file used by this one: its
// proto package and the Go import path of its generated package.
type ExtType struct {
	Full    string `json:"full_name"`
	Package string `json:"package"`
	GoPath  string `json:"go_import_path"`
}

// ClientMethod is a method of the unexported client type of *_grpc.pb.go.
type ClientMethod struct {
	Name  string `json:"name"`
	In    string `json:"in_type"`  // type of the parameter named in, empty for streaming methods
	Out   string `json:"out_type"` // first result type
	Const string `json:"invoked_constant"`
}

// HandlerBinding is one entry of the ServiceDesc literal (MethodName/StreamName, Handler).
type HandlerBinding struct {
	Method  string `json:"method"`
	Handler string `json:"handler"`
}

// HandlerFunc is a _Service_Method_Handler function.
type HandlerFunc struct {
	Name   string   `json:"name"`
	New    string   `json:"decoded_type"` // T of in := new(T), empty for streaming handlers
	Calls  []string `json:"server_methods_called"`
	Consts []string `json:"full_method_constants"`
}

type GoStruct struct {
	GoType string    `json:"go_type"`
	Fields []GoField `json:"fields"`
}

// ResolveConst is a constant of type resolve.System.
type ResolveConst struct {
	Name  string `json:"name"`
	Expr  string `json:"expr"`
	Value *int64 `json:"value"` // nil when the expression could not be evaluated
}

// ------------------------------------------------------------------ Coq printing

func coqBytes(s string) string {
	var sb strings.Builder
	sb.WriteString("[")
	for i := 0; i < len(s); i++ {
		if i > 0 {
			sb.WriteString(";")
		}
		sb.WriteString(strconv.Itoa(int(s[i])))
	}
	sb.WriteString("]%N")
	if s != "" && !strings.ContainsAny(s, "*()\"\n\r") {
		sb.WriteString(" (* " + s + " *)")
	}
	return sb.String()
}

func coqZ(i int64) string {
	if i < 0 {
		return fmt.Sprintf("(%d)%%Z", i)
	}
	return fmt.Sprintf("%d%%Z", i)
}

func coqBool(b bool) string {
	if b {
		return "true"
	}
	return "false"
}

func coqList[T any](ind string, xs []T, f func(string, T) string) string {
	if len(xs) == 0 {
		return "[]"
	}
	var sb strings.Builder
	sb.WriteString("[\n")
	for i, x := range xs {
		sb.WriteString(ind + "  " + f(ind+"  ", x))
		if i+1 < len(xs) {
			sb.WriteString(";")
		}
		sb.WriteString("\n")
	}
	sb.WriteString(ind + "]")
	return sb.String()
}

func coqBytesList(ind string, xs []string) string {
	return coqList(ind, xs, func(_ string, s string) string { return coqBytes(s) })
}

func (h HTTP) binding() string {
	return fmt.Sprintf("(MkBinding %s %s %s %s)", coqBytes(h.Verb), coqBytes(h.Path), coqBytes(h.Body), coqBytes(h.Resp))
}

// coq prints a rule; additional_bindings may not nest (google/api/http.proto).
func (h HTTP) coq(ind string) string {
	for _, x := range h.Extra {
		if len(x.Extra) > 0 {
			panic("apidesc: nested additional_bindings")
		}
	}
	return fmt.Sprintf("(MkHttp %s\n%s  %s)", h.binding(), ind,
		coqList(ind+"  ", h.Extra, func(_ string, x HTTP) string { return x.binding() }))
}

func (f Field) coq(ind string) string {
	oneof := "None"
	if f.Oneof != nil {
		oneof = "(Some (" + coqBytes(*f.Oneof) + "))"
	}
	return fmt.Sprintf("(MkField %s %s\n%s  %s %d%%N %s %s\n%s  %s\n%s  %s %s)", coqBytes(f.Name), coqZ(f.Number), ind,
		coqBytes(f.Kind), f.Card, oneof, coqBool(f.Optional), ind, coqBytes(f.Type), ind, coqBytes(f.JSON), coqBool(f.Packed))
}

func (e Enum) coq(ind string) string {
	return fmt.Sprintf("(MkEnum %s %s)", coqBytes(e.Name), coqList(ind, e.Values, func(_ string, v EnumValue) string {
		return fmt.Sprintf("(%s, %s)", coqBytes(v.Name), coqZ(v.Number))
	}))
}

func (m Message) coq(ind string) string {
	return fmt.Sprintf("(Msg %s\n%s  %s\n%s  %s\n%s  %s\n%s  %s\n%s  %s)", coqBytes(m.Name), ind,
		coqList(ind+"  ", m.Fields, func(i string, f Field) string { return f.coq(i) }), ind,
		coqBytesList(ind+"  ", m.Oneofs), ind,
		coqList(ind+"  ", m.Nested, func(i string, x Message) string { return x.coq(i) }), ind,
		coqList(ind+"  ", m.Enums, func(i string, x Enum) string { return x.coq(i) }), ind,
		coqBool(m.MapEntry))
}

func (m Method) coq(ind string) string {
	h := "None"
	if m.HTTP != nil {
		h = "(Some " + m.HTTP.coq(ind+"  ") + ")"
	}
	return fmt.Sprintf("(MkMethod %s\n%s  %s\n%s  %s\n%s  %s %s\n%s  %s\n%s  %s)", coqBytes(m.Name), ind, coqBytes(m.Input), ind,
		coqBytes(m.Output), ind, coqBool(m.CStream), coqBool(m.SStream), ind, h, ind, coqBytes(m.Idem))
}

func (s Service) coq(ind string) string {
	return fmt.Sprintf("(MkService %s %s)", coqBytes(s.Name),
		coqList(ind, s.Methods, func(i string, x Method) string { return x.coq(i) }))
}

func (f File) Coq() string {
	return fmt.Sprintf("(MkFile %s\n  %s\n  %s\n  %s\n  %s\n  %s\n  %s\n  %s)", coqBytes(f.Path), coqBytes(f.Package),
		coqBytes(f.Syntax), coqBytesList("  ", f.Deps), coqBytes(f.GoPackage),
		coqList("  ", f.Messages, func(i string, x Message) string { return x.coq(i) }),
		coqList("  ", f.Enums, func(i string, x Enum) string { return x.coq(i) }),
		coqList("  ", f.Services, func(i string, x Service) string { return x.coq(i) }))
}

func (g Grpc) Coq() string {
	return fmt.Sprintf("(MkGrpc %s\n  %s\n  %s\n  %s\n  %s\n  %s\n  %s\n  %s\n  %s\n  %s)", coqBytes(g.ServiceName),
		coqBytesList("  ", g.Methods),
		coqList("  ", g.Streams, func(_ string, s Stream) string {
			return fmt.Sprintf("(%s, %s, %s)", coqBytes(s.Name), coqBool(s.SStream), coqBool(s.CStream))
		}),
		coqBytes(g.Metadata),
		coqList("  ", g.FullNames, func(_ string, s NamedString) string {
			return fmt.Sprintf("(%s, %s)", coqBytes(s.Name), coqBytes(s.Value))
		}),
		coqBytesList("  ", g.ClientIface), coqBytesList("  ", g.ServerIface),
		coqList("  ", g.Client, func(_ string, c ClientMethod) string {
			return fmt.Sprintf("(MkClientMethod %s %s %s %s)", coqBytes(c.Name), coqBytes(c.In), coqBytes(c.Out), coqBytes(c.Const))
		}),
		coqList("  ", g.Bindings, func(_ string, b HandlerBinding) string {
			return fmt.Sprintf("(%s, %s)", coqBytes(b.Method), coqBytes(b.Handler))
		}),
		coqList("  ", g.Handlers, func(i string, h HandlerFunc) string {
			return fmt.Sprintf("(MkHandlerFunc %s %s %s %s)", coqBytes(h.Name), coqBytes(h.New), coqBytesList(i, h.Calls), coqBytesList(i, h.Consts))
		}))
}

func coqExtTypes(es []ExtType) string {
	return coqList("", es, func(_ string, e ExtType) string {
		return fmt.Sprintf("(%s, (%s, %s))", coqBytes(e.Full), coqBytes(e.Package), coqBytes(e.GoPath))
	})
}

func coqGoEnums(es []GoEnum) string {
	return coqList("", es, func(i string, e GoEnum) string {
		return fmt.Sprintf("(%s, %s)", coqBytes(e.GoType), coqList(i, e.Consts, func(_ string, v EnumValue) string {
			return fmt.Sprintf("(%s, %s)", coqBytes(v.Name), coqZ(v.Number))
		}))
	})
}

func coqGoStructs(ss []GoStruct) string {
	return coqList("", ss, func(i string, s GoStruct) string {
		return fmt.Sprintf("(%s, %s)", coqBytes(s.GoType), coqList(i, s.Fields, func(_ string, f GoField) string {
			return fmt.Sprintf("(MkGoField %s %s\n%s    %s %s\n%s    %s %s %s)", coqBytes(f.GoName), coqBytes(f.Type), i, coqBytes(f.Tag),
				coqBytes(f.JSON), i, coqBytes(f.Oneof), coqBytes(f.Key), coqBytes(f.Val))
		}))
	})
}

func coqResolve(cs []ResolveConst) string {
	return coqList("", cs, func(_ string, c ResolveConst) string {
		v := "None"
		if c.Value != nil {
			v = "(Some " + coqZ(*c.Value) + ")"
		}
		return fmt.Sprintf("(%s, %s)", coqBytes(c.Name), v)
	})
}
