package apidesc

import (
	"encoding/json"
	"os"
	"os/exec"
	"path/filepath"
	"strings"
	"testing"

	"google.golang.org/protobuf/reflect/protoreflect"
	"google.golang.org/protobuf/types/known/anypb"
	"google.golang.org/protobuf/types/known/apipb"
	"google.golang.org/protobuf/types/known/durationpb"
	"google.golang.org/protobuf/types/known/emptypb"
	"google.golang.org/protobuf/types/known/fieldmaskpb"
	"google.golang.org/protobuf/types/known/sourcecontextpb"
	"google.golang.org/protobuf/types/known/structpb"
	"google.golang.org/protobuf/types/known/timestamppb"
	"google.golang.org/protobuf/types/known/wrapperspb"
)

// The parser against protoc's own output: the well-known .proto files (a copy
// of their text ships with github.com/gogo/protobuf in the module cache) and
// the descriptors protoc generated for them, linked in from protobuf-go.
// Covers map<,>, oneof, nested enums, imports, relative type names.
func TestParserAgainstWellKnownTypes(t *testing.T) {
	out, err := exec.Command("go", "env", "GOMODCACHE").Output()
	if err != nil {
		t.Skip("no go env")
	}
	dir := filepath.Join(strings.TrimSpace(string(out)), "github.com/gogo/protobuf@v1.3.2/protobuf")
	if _, err := os.Stat(dir); err != nil {
		t.Skip("gogo/protobuf sources not in the module cache")
	}
	importedTypes["google/protobuf/source_context.proto"] = map[string]string{"google.protobuf.SourceContext": "message"}
	importedTypes["google/protobuf/type.proto"] = map[string]string{"google.protobuf.Type": "message", "google.protobuf.Option": "message",
		"google.protobuf.Syntax": "enum", "google.protobuf.Field": "message", "google.protobuf.Enum": "message"}
	for name, fd := range map[string]protoreflect.FileDescriptor{
		"google/protobuf/struct.proto":         structpb.File_google_protobuf_struct_proto,
		"google/protobuf/api.proto":            apipb.File_google_protobuf_api_proto,
		"google/protobuf/wrappers.proto":       wrapperspb.File_google_protobuf_wrappers_proto,
		"google/protobuf/timestamp.proto":      timestamppb.File_google_protobuf_timestamp_proto,
		"google/protobuf/duration.proto":       durationpb.File_google_protobuf_duration_proto,
		"google/protobuf/any.proto":            anypb.File_google_protobuf_any_proto,
		"google/protobuf/empty.proto":          emptypb.File_google_protobuf_empty_proto,
		"google/protobuf/field_mask.proto":     fieldmaskpb.File_google_protobuf_field_mask_proto,
		"google/protobuf/source_context.proto": sourcecontextpb.File_google_protobuf_source_context_proto,
	} {
		src, err := os.ReadFile(filepath.Join(dir, name))
		if err != nil {
			t.Fatal(err)
		}
		got, err := ParseProto(name, string(src))
		if err != nil {
			t.Errorf("%s: %v", name, err)
			continue
		}
		want := FromDescriptor(fd)
		got.GoPackage, want.GoPackage = "", "" // the gogo copy names another Go package
		a, _ := json.MarshalIndent(got, "", " ")
		b, _ := json.MarshalIndent(want, "", " ")
		if string(a) != string(b) {
			al, bl := strings.Split(string(a), "\n"), strings.Split(string(b), "\n")
			for i := 0; i < len(al) && i < len(bl); i++ {
				if al[i] != bl[i] {
					t.Errorf("%s: first difference at line %d: parsed %q, protoc %q", name, i, al[i], bl[i])
					break
				}
			}
			if len(al) != len(bl) {
				t.Errorf("%s: %d vs %d lines", name, len(al), len(bl))
			}
		}
	}
}

// Syntax api.proto does not use today, checked against hand-computed expectations.
func TestParserExtras(t *testing.T) {
	src := `syntax = "proto3"; package p.q; import "google/api/annotations.proto";
	/* c */ message A { // c
	  optional int32 x = 1; oneof o { string s = 2; B.C c = 3 [deprecated = true]; } map<string, B> m = 4;
	  reserved 9, 10 to 12; reserved "zz"; repeated .p.q.A.B bs = 5 [json_name = "BS"]; optional B ob = 6;
	  message B { enum C { Z = 0; N = -1; } A.B self = 1; }
	}
	service S { rpc M(stream A) returns (stream A.B) { option (google.api.http) = { post: "/v1/" "x" body: "*"
	  additional_bindings { get: "/v1/y" } additional_bindings: { custom { kind: "HEAD" path: "/z" } } }; } rpc N(A) returns (A); }`
	f, err := ParseProto("t.proto", src)
	if err != nil {
		t.Fatal(err)
	}
	js, _ := json.Marshal(f)
	want := `{"path":"t.proto","package":"p.q","syntax":"proto3","imports":["google/api/annotations.proto"],"go_package":"","messages":[{"name":"A","fields":[` +
		`{"name":"x","number":1,"kind":"int32","cardinality":1,"oneof":"_x","optional_keyword":true,"type_name":"","json_name":"x","packed":false},` +
		`{"name":"s","number":2,"kind":"string","cardinality":1,"oneof":"o","optional_keyword":false,"type_name":"","json_name":"s","packed":false},` +
		`{"name":"c","number":3,"kind":"enum","cardinality":1,"oneof":"o","optional_keyword":false,"type_name":"p.q.A.B.C","json_name":"c","packed":false},` +
		`{"name":"m","number":4,"kind":"message","cardinality":3,"oneof":null,"optional_keyword":false,"type_name":"p.q.A.MEntry","json_name":"m","packed":false},` +
		`{"name":"bs","number":5,"kind":"message","cardinality":3,"oneof":null,"optional_keyword":false,"type_name":"p.q.A.B","json_name":"BS","packed":false},` +
		`{"name":"ob","number":6,"kind":"message","cardinality":1,"oneof":"_ob","optional_keyword":true,"type_name":"p.q.A.B","json_name":"ob","packed":false}],` +
		`"oneofs":["o","_x","_ob"],"nested":[{"name":"MEntry","fields":[` +
		`{"name":"key","number":1,"kind":"string","cardinality":1,"oneof":null,"optional_keyword":false,"type_name":"","json_name":"key","packed":false},` +
		`{"name":"value","number":2,"kind":"message","cardinality":1,"oneof":null,"optional_keyword":false,"type_name":"p.q.A.B","json_name":"value","packed":false}],` +
		`"oneofs":null,"nested":null,"enums":null,"map_entry":true},{"name":"B","fields":[` +
		`{"name":"self","number":1,"kind":"message","cardinality":1,"oneof":null,"optional_keyword":false,"type_name":"p.q.A.B","json_name":"self","packed":false}],` +
		`"oneofs":null,"nested":null,"enums":[{"name":"C","values":[{"name":"Z","number":0},{"name":"N","number":-1}]}],"map_entry":false}],"enums":null,"map_entry":false}],` +
		`"enums":null,"services":[{"name":"S","methods":[{"name":"M","input":"p.q.A","output":"p.q.A.B","client_streaming":true,"server_streaming":true,` +
		`"http":{"verb":"post","path":"/v1/x","body":"*","response_body":"","additional_bindings":[{"verb":"get","path":"/v1/y","body":"","response_body":"","additional_bindings":null},` +
		`{"verb":"custom:HEAD","path":"/z","body":"","response_body":"","additional_bindings":null}]},"idempotency_level":"IDEMPOTENCY_UNKNOWN"},` +
		`{"name":"N","input":"p.q.A","output":"p.q.A","client_streaming":false,"server_streaming":false,"http":null,"idempotency_level":"IDEMPOTENCY_UNKNOWN"}]}]}`
	if string(js) != want {
		t.Errorf("got\n%s\nwant\n%s", js, want)
	}
}

// Imports the resolver does not know are opaque; only a field type that cannot
// be resolved marks the field. packed and idempotency_level are read.
func TestParserOpaqueImportsPackedIdempotency(t *testing.T) {
	src := `syntax = "proto3"; package p; import "google/api/field_behavior.proto"; import "google/api/resource.proto";
	import "google/type/date.proto";
	message A { option (google.api.resource) = { type: "x/A" pattern: "a/{a}" pattern: "b/{b}" style: [DECLARATIVE_FRIENDLY, 2] };
	  string n = 1 [(google.api.field_behavior) = REQUIRED]; repeated int32 r = 2; repeated sint64 u = 3 [packed = false];
	  repeated string s = 4; google.type.Date d = 5; repeated E es = 6; }
	enum E { Z = 0; }
	service S { option (google.api.default_host) = "h"; rpc M(A) returns (A) { option idempotency_level = NO_SIDE_EFFECTS;
	  option (google.api.method_signature) = "n"; } }`
	f, opaque, err := ParseProtoWith("t.proto", src, func(string) (map[string]string, bool) { return nil, false })
	if err != nil {
		t.Fatal(err)
	}
	if len(opaque) != 3 {
		t.Errorf("opaque imports: %v", opaque)
	}
	got := map[string]Field{}
	for _, fl := range f.Messages[0].Fields {
		got[fl.Name] = fl
	}
	if !got["r"].Packed || got["u"].Packed || got["s"].Packed || !got["es"].Packed || got["es"].Kind != "enum" {
		t.Errorf("packed: %+v", got)
	}
	if got["d"].Kind != "unresolved" || got["d"].Type != "google.type.Date" || got["n"].Kind != "string" {
		t.Errorf("unresolved: %+v %+v", got["d"], got["n"])
	}
	if f.Services[0].Methods[0].Idem != "NO_SIDE_EFFECTS" {
		t.Errorf("idempotency: %+v", f.Services[0].Methods[0])
	}
}
