package apidesc

import (
	"encoding/json"
	"fmt"
	"os"
	"path/filepath"
	"strings"

	"google.golang.org/grpc"
	"google.golang.org/protobuf/reflect/protoreflect"
)

type dump struct {
	Version       string         `json:"version"`
	Emb           File           `json:"emb"`
	Proto         *File          `json:"proto"`
	ProtoError    string         `json:"proto_error,omitempty"`
	Grpc          Grpc           `json:"grpc"`
	GoEnums       []GoEnum       `json:"go_enums"`
	GoStructs     []GoStruct     `json:"go_structs"`
	ExtTypes      []ExtType      `json:"ext_types"`
	OpaqueImports []string       `json:"opaque_imports,omitempty"`
	Resolve       []ResolveConst `json:"resolve,omitempty"`
	ResolveImport string         `json:"resolve_api_import,omitempty"`
}

func die(code int, a ...any) {
	fmt.Fprintln(os.Stderr, append([]any{"apidesc:"}, a...)...)
	os.Exit(code)
}

// Main is the body of cmd/apidesc_<version>: usage  apidesc_<version> <repo> <outdir>.
// It writes <outdir>/apidesc_<version>.json and <outdir>/apidesc_<version>.frag
// (Coq definitions, concatenated by harness/props/C17.py into coq/Gen/ApiDesc.v).
func Main(version string, fd protoreflect.FileDescriptor, sd grpc.ServiceDesc, withResolve bool) {
	if len(os.Args) < 3 {
		die(2, "usage: apidesc_"+version+" <repo> <outdir>")
	}
	repo, outDir := os.Args[1], os.Args[2]
	dir := filepath.Join(repo, "api", version)
	d := dump{Version: version}
	d.Emb = FromDescriptor(fd)
	d.Grpc = FromServiceDesc(sd)
	svc := sd.ServiceName
	if i := strings.LastIndexByte(svc, '.'); i >= 0 {
		svc = svc[i+1:]
	}
	if err := GrpcSource(&d.Grpc, filepath.Join(dir, "api_grpc.pb.go"), svc); err != nil {
		die(2, err)
	}
	var err error
	if d.GoEnums, err = GoEnums(filepath.Join(dir, "api.pb.go")); err != nil {
		die(2, err)
	}
	if d.GoStructs, err = GoStructs(filepath.Join(dir, "api.pb.go")); err != nil {
		die(2, err)
	}
	protoPath := filepath.Join(dir, "api.proto")
	src, err := os.ReadFile(protoPath)
	if err != nil {
		die(2, err)
	}
	d.ExtTypes = ExtTypes(fd)
	pf, opaque, perr := ParseProtoWith(ProtoFileName(protoPath), string(src), DefaultImports)
	d.OpaqueImports = opaque
	if perr != nil {
		d.ProtoError = "api/" + version + "/" + perr.Error()
	} else {
		d.Proto = &pf
	}
	if withResolve {
		if d.Resolve, d.ResolveImport, err = ResolveSystems(repo); err != nil {
			die(2, err)
		}
	}
	js, _ := json.MarshalIndent(d, "", " ")
	if err := os.WriteFile(filepath.Join(outDir, "apidesc_"+version+".json"), js, 0o644); err != nil {
		die(2, err)
	}
	if perr != nil {
		die(3, d.ProtoError)
	}
	var sb strings.Builder
	fmt.Fprintf(&sb, "(* ---- api/%s ---- *)\n", version)
	fmt.Fprintf(&sb, "Definition %s_emb : file :=\n  %s.\n\n", version, d.Emb.Coq())
	fmt.Fprintf(&sb, "Definition %s_proto : file :=\n  %s.\n\n", version, d.Proto.Coq())
	fmt.Fprintf(&sb, "Definition %s_grpc : grpc_desc :=\n  %s.\n\n", version, d.Grpc.Coq())
	fmt.Fprintf(&sb, "Definition %s_go_enums : list (bytes * list (bytes * Z)) :=\n  %s.\n\n", version, coqGoEnums(d.GoEnums))
	fmt.Fprintf(&sb, "Definition %s_go_structs : list (bytes * list go_field) :=\n  %s.\n\n", version, coqGoStructs(d.GoStructs))
	fmt.Fprintf(&sb, "Definition %s_ext_types : list (bytes * (bytes * bytes)) :=\n  %s.\n\n", version, coqExtTypes(d.ExtTypes))
	if withResolve {
		fmt.Fprintf(&sb, "(* ---- util/resolve/resolve.go ---- *)\n")
		fmt.Fprintf(&sb, "Definition resolve_systems : list (bytes * option Z) :=\n  %s.\n\n", coqResolve(d.Resolve))
		fmt.Fprintf(&sb, "Definition resolve_api_import : bytes := %s.\n\n", coqBytes(d.ResolveImport))
	}
	if err := os.WriteFile(filepath.Join(outDir, "apidesc_"+version+".frag"), []byte(sb.String()), 0o644); err != nil {
		die(2, err)
	}
}

// RuntimeSystems is the body of cmd/resolvesys: it writes the values the
// compiled package util/resolve gives its System constants, as JSON and as a
// Coq definition, to <outdir>/resolvesys.{json,frag}.
func RuntimeSystems(vals []EnumValue) {
	if len(os.Args) < 2 {
		die(2, "usage: resolvesys <outdir>")
	}
	js, _ := json.MarshalIndent(vals, "", " ")
	if err := os.WriteFile(filepath.Join(os.Args[1], "resolvesys.json"), js, 0o644); err != nil {
		die(2, err)
	}
	text := "(* ---- util/resolve, compiled: int(resolve.X) ---- *)\nDefinition resolve_runtime : list (bytes * Z) :=\n  " +
		coqList("  ", vals, func(_ string, v EnumValue) string { return fmt.Sprintf("(%s, %s)", coqBytes(v.Name), coqZ(v.Number)) }) + ".\n\n"
	if err := os.WriteFile(filepath.Join(os.Args[1], "resolvesys.frag"), []byte(text), 0o644); err != nil {
		die(2, err)
	}
}
