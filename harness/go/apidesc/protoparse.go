package apidesc

// A small hand-written parser for the proto3 subset used by api.proto:
// syntax/package/import/option statements, message, nested message and enum,
// oneof, repeated, optional, map<,>, reserved (skipped), field options
// (json_name honoured, others skipped), service/rpc with stream markers and the
// (google.api.http) option in text format including additional_bindings,
// line and block comments.  Anything else is a parse error (the translator
// refuses rather than guesses).

import (
	"fmt"
	"path/filepath"
	"strconv"
	"strings"
)

type tokKind int

const (
	tIdent tokKind = iota
	tInt
	tFloat
	tString
	tSym
	tEOF
)

type ptoken struct {
	kind tokKind
	text string // identifier / number text / decoded string / symbol
	line int
}

type ParseError struct {
	File string
	Line int
	Msg  string
}

func (e *ParseError) Error() string { return fmt.Sprintf("%s:%d: %s", e.File, e.Line, e.Msg) }

func isLetter(c byte) bool { return c == '_' || (c >= 'a' && c <= 'z') || (c >= 'A' && c <= 'Z') }
func isDigit(c byte) bool  { return c >= '0' && c <= '9' }

func lex(file, src string) ([]ptoken, error) {
	var toks []ptoken
	line := 1
	i := 0
	n := len(src)
	fail := func(msg string) error { return &ParseError{file, line, msg} }
	for i < n {
		c := src[i]
		switch {
		case c == '\n':
			line++
			i++
		case c == ' ' || c == '\t' || c == '\r' || c == '\f' || c == '\v':
			i++
		case c == 0xEF && i+2 < n && src[i+1] == 0xBB && src[i+2] == 0xBF: // BOM
			i += 3
		case c == '/' && i+1 < n && src[i+1] == '/':
			for i < n && src[i] != '\n' {
				i++
			}
		case c == '/' && i+1 < n && src[i+1] == '*':
			j := strings.Index(src[i+2:], "*/")
			if j < 0 {
				return nil, fail("unterminated block comment")
			}
			line += strings.Count(src[i:i+2+j+2], "\n")
			i += 2 + j + 2
		case isLetter(c):
			j := i
			for j < n && (isLetter(src[j]) || isDigit(src[j])) {
				j++
			}
			toks = append(toks, ptoken{tIdent, src[i:j], line})
			i = j
		case isDigit(c) || (c == '.' && i+1 < n && isDigit(src[i+1])):
			j := i
			isFloat := false
			if c == '0' && j+1 < n && (src[j+1] == 'x' || src[j+1] == 'X') {
				j += 2
				for j < n && (isDigit(src[j]) || (src[j] >= 'a' && src[j] <= 'f') || (src[j] >= 'A' && src[j] <= 'F')) {
					j++
				}
			} else {
				for j < n && (isDigit(src[j]) || src[j] == '.' || src[j] == 'e' || src[j] == 'E' ||
					((src[j] == '+' || src[j] == '-') && (src[j-1] == 'e' || src[j-1] == 'E'))) {
					if !isDigit(src[j]) {
						isFloat = true
					}
					j++
				}
			}
			k := tInt
			if isFloat {
				k = tFloat
			}
			toks = append(toks, ptoken{k, src[i:j], line})
			i = j
		case c == '"' || c == '\'':
			q := c
			j := i + 1
			var sb strings.Builder
			for {
				if j >= n || src[j] == '\n' {
					return nil, fail("unterminated string literal")
				}
				if src[j] == q {
					j++
					break
				}
				if src[j] != '\\' {
					sb.WriteByte(src[j])
					j++
					continue
				}
				j++
				if j >= n {
					return nil, fail("unterminated escape")
				}
				e := src[j]
				j++
				switch e {
				case 'a':
					sb.WriteByte(7)
				case 'b':
					sb.WriteByte(8)
				case 'f':
					sb.WriteByte(12)
				case 'n':
					sb.WriteByte(10)
				case 'r':
					sb.WriteByte(13)
				case 't':
					sb.WriteByte(9)
				case 'v':
					sb.WriteByte(11)
				case '\\', '\'', '"', '?':
					sb.WriteByte(e)
				case 'x', 'X':
					k := j
					for k < n && k < j+2 && strings.IndexByte("0123456789abcdefABCDEF", src[k]) >= 0 {
						k++
					}
					v, err := strconv.ParseUint(src[j:k], 16, 8)
					if err != nil {
						return nil, fail("bad hex escape")
					}
					sb.WriteByte(byte(v))
					j = k
				case '0', '1', '2', '3', '4', '5', '6', '7':
					k := j - 1
					e := k
					for e < n && e < k+3 && src[e] >= '0' && src[e] <= '7' {
						e++
					}
					v, err := strconv.ParseUint(src[k:e], 8, 16)
					if err != nil {
						return nil, fail("bad octal escape")
					}
					sb.WriteByte(byte(v))
					j = e
				default:
					return nil, fail("unsupported escape in string literal")
				}
			}
			toks = append(toks, ptoken{tString, sb.String(), line})
			i = j
		case strings.IndexByte("{}()[]<>=;,:.-+", c) >= 0:
			toks = append(toks, ptoken{tSym, string(c), line})
			i++
		default:
			return nil, fail(fmt.Sprintf("unexpected character %q", c))
		}
	}
	toks = append(toks, ptoken{tEOF, "", line})
	return toks, nil
}

// ------------------------------------------------------------------ text format (option aggregates)

type tfEntry struct {
	name   string
	scalar *string
	msg    []tfEntry
	isMsg  bool
}

type pparser struct {
	file string
	toks []ptoken
	pos  int
	// symbols: full name -> kind (message, enum, package)
	syms map[string]string
	// unresolved field types, fixed up after the whole file is read
	fixups []fixup
}

type fixup struct {
	scope string
	raw   string
	line  int
	set   func(kind, full string)
}

type bail struct{ err error }

func (p *pparser) fail(format string, a ...any) {
	panic(bail{&ParseError{p.file, p.peek().line, fmt.Sprintf(format, a...)}})
}

func (p *pparser) peek() ptoken { return p.toks[p.pos] }
func (p *pparser) next() ptoken {
	t := p.toks[p.pos]
	if t.kind != tEOF {
		p.pos++
	}
	return t
}
func (p *pparser) isSym(s string) bool   { t := p.peek(); return t.kind == tSym && t.text == s }
func (p *pparser) isIdent(s string) bool { t := p.peek(); return t.kind == tIdent && t.text == s }
func (p *pparser) accept(s string) bool {
	if p.isSym(s) {
		p.pos++
		return true
	}
	return false
}
func (p *pparser) expect(s string) {
	if !p.accept(s) {
		p.fail("expected %q, found %q", s, p.peek().text)
	}
}
func (p *pparser) ident() string {
	t := p.next()
	if t.kind != tIdent {
		p.pos--
		p.fail("expected identifier, found %q", t.text)
	}
	return t.text
}
func (p *pparser) fullIdent() string {
	s := ""
	if p.accept(".") {
		s = "."
	}
	s += p.ident()
	for p.isSym(".") {
		p.pos++
		s += "." + p.ident()
	}
	return s
}
func (p *pparser) str() string {
	t := p.next()
	if t.kind != tString {
		p.pos--
		p.fail("expected string literal, found %q", t.text)
	}
	s := t.text
	for p.peek().kind == tString { // adjacent literals concatenate
		s += p.next().text
	}
	return s
}
func (p *pparser) integer() int64 {
	neg := false
	if p.accept("-") {
		neg = true
	} else {
		p.accept("+")
	}
	t := p.next()
	if t.kind != tInt {
		p.pos--
		p.fail("expected integer, found %q", t.text)
	}
	v, err := strconv.ParseInt(t.text, 0, 64)
	if err != nil {
		p.fail("bad integer %q", t.text)
	}
	if neg {
		v = -v
	}
	return v
}

func (p *pparser) textMessage(closer string) []tfEntry {
	var out []tfEntry
	for !p.isSym(closer) {
		if p.peek().kind == tEOF {
			p.fail("unterminated option aggregate")
		}
		var e tfEntry
		if p.accept("[") {
			e.name = "[" + p.fullIdent() + "]"
			p.expect("]")
		} else {
			e.name = p.ident()
		}
		colon := p.accept(":")
		switch {
		case p.accept("{"):
			e.isMsg, e.msg = true, p.textMessage("}")
			p.expect("}")
		case p.accept("<"):
			e.isMsg, e.msg = true, p.textMessage(">")
			p.expect(">")
		default:
			if !colon {
				p.fail("expected ':' or '{' after %q in option aggregate", e.name)
			}
			if p.accept("[") { // list value: read and dropped (no option the check reads has one)
				for !p.accept("]") {
					if p.accept("{") {
						p.textMessage("}")
						p.expect("}")
					} else if p.peek().kind == tEOF {
						p.fail("unterminated list in option aggregate")
					} else {
						p.scalar()
					}
					p.accept(",")
				}
				empty := ""
				e.scalar = &empty
			} else {
				s := p.scalar()
				e.scalar = &s
			}
		}
		if !p.accept(",") {
			p.accept(";")
		}
		out = append(out, e)
	}
	return out
}

// scalar reads a constant (string, identifier, number) and returns its text.
func (p *pparser) scalar() string {
	t := p.peek()
	switch {
	case t.kind == tString:
		return p.str()
	case t.kind == tIdent:
		return p.fullIdent()
	case t.kind == tInt || t.kind == tFloat:
		p.pos++
		return t.text
	case t.kind == tSym && (t.text == "-" || t.text == "+"):
		p.pos++
		u := p.next()
		if u.kind != tInt && u.kind != tFloat && u.kind != tIdent { // -inf
			p.pos--
			p.fail("expected number after sign")
		}
		return t.text + u.text
	}
	p.fail("expected a constant, found %q", t.text)
	return ""
}

// option := "option" optname "=" (constant | "{" aggregate "}") ";" ; returns name, scalar, aggregate.
func (p *pparser) optionBody() (string, *string, []tfEntry, bool) {
	name := p.optName()
	p.expect("=")
	if p.accept("{") {
		m := p.textMessage("}")
		p.expect("}")
		return name, nil, m, true
	}
	s := p.scalar()
	return name, &s, nil, false
}

func (p *pparser) optName() string {
	s := ""
	for {
		if p.accept("(") {
			s += "(" + strings.TrimPrefix(p.fullIdent(), ".") + ")"
			p.expect(")")
		} else {
			s += p.ident()
		}
		if !p.accept(".") {
			return s
		}
		s += "."
	}
}

func httpFromText(p *pparser, es []tfEntry) HTTP {
	var h HTTP
	for _, e := range es {
		switch e.name {
		case "get", "put", "post", "delete", "patch":
			if e.scalar == nil {
				p.fail("http rule: %s needs a string", e.name)
			}
			h.Verb, h.Path = e.name, *e.scalar
		case "body":
			h.Body = *orEmpty(e.scalar)
		case "response_body":
			h.Resp = *orEmpty(e.scalar)
		case "selector":
		case "custom":
			kind, path := "", ""
			for _, c := range e.msg {
				if c.name == "kind" {
					kind = *orEmpty(c.scalar)
				}
				if c.name == "path" {
					path = *orEmpty(c.scalar)
				}
			}
			h.Verb, h.Path = "custom:"+kind, path
		case "additional_bindings":
			if !e.isMsg {
				p.fail("http rule: additional_bindings needs a message")
			}
			h.Extra = append(h.Extra, httpFromText(p, e.msg))
		default:
			p.fail("http rule: unknown field %q", e.name)
		}
	}
	return h
}

func orEmpty(s *string) *string {
	if s == nil {
		e := ""
		return &e
	}
	return s
}

// ------------------------------------------------------------------ proto grammar

var scalarTypes = map[string]bool{"double": true, "float": true, "int32": true, "int64": true, "uint32": true,
	"uint64": true, "sint32": true, "sint64": true, "fixed32": true, "fixed64": true, "sfixed32": true,
	"sfixed64": true, "bool": true, "string": true, "bytes": true}

// Types defined by imported files.  Imports are not read: they are opaque
// names whose kind comes from this table.
var importedTypes = map[string]map[string]string{
	"google/api/annotations.proto":     {},
	"google/api/http.proto":            {"google.api.Http": "message", "google.api.HttpRule": "message", "google.api.CustomHttpPattern": "message"},
	"google/protobuf/timestamp.proto":  {"google.protobuf.Timestamp": "message"},
	"google/protobuf/duration.proto":   {"google.protobuf.Duration": "message"},
	"google/protobuf/empty.proto":      {"google.protobuf.Empty": "message"},
	"google/protobuf/any.proto":        {"google.protobuf.Any": "message"},
	"google/protobuf/field_mask.proto": {"google.protobuf.FieldMask": "message"},
	"google/protobuf/struct.proto": {"google.protobuf.Struct": "message", "google.protobuf.Value": "message",
		"google.protobuf.ListValue": "message", "google.protobuf.NullValue": "enum"},
	"google/protobuf/wrappers.proto": {"google.protobuf.DoubleValue": "message", "google.protobuf.FloatValue": "message",
		"google.protobuf.Int64Value": "message", "google.protobuf.UInt64Value": "message", "google.protobuf.Int32Value": "message",
		"google.protobuf.UInt32Value": "message", "google.protobuf.BoolValue": "message", "google.protobuf.StringValue": "message",
		"google.protobuf.BytesValue": "message"},
}

// ParseProto parses the text of a .proto file. name is the path under which
// protoc is told to register it (regen.sh: api.proto, relative to its directory).
func ParseProto(name, src string) (File, error) {
	f, _, err := ParseProtoWith(name, src, DefaultImports)
	return f, err
}

// DefaultImports finds the types of an imported file among the descriptors
// linked into the binary, then in the fixed table of well-known files.
func DefaultImports(path string) (map[string]string, bool) {
	if tys, ok := RegistryImports(path); ok {
		return tys, true
	}
	tys, ok := importedTypes[path]
	return tys, ok
}

// ParseProtoWith is ParseProto with an explicit import resolver. An import the
// resolver does not know is opaque: it contributes no type names (returned in
// opaque). A field or rpc whose type cannot be resolved gets the kind
// "unresolved" and keeps the name as written: the result then differs from any
// real descriptor at exactly that field.
func ParseProtoWith(name, src string, imports func(string) (map[string]string, bool)) (f File, opaque []string, err error) {
	toks, err := lex(name, src)
	if err != nil {
		return File{}, nil, err
	}
	p := &pparser{file: name, toks: toks, syms: map[string]string{}}
	defer func() {
		if r := recover(); r != nil {
			if b, ok := r.(bail); ok {
				err = b.err
				return
			}
			panic(r)
		}
	}()
	f.Path = name
	f.Syntax = "proto2"
	// first pass over the top level
	for p.peek().kind != tEOF {
		switch {
		case p.accept(";"):
		case p.isIdent("syntax"):
			p.pos++
			p.expect("=")
			f.Syntax = p.str()
			p.expect(";")
		case p.isIdent("package"):
			p.pos++
			f.Package = p.fullIdent()
			p.expect(";")
			parts := strings.Split(f.Package, ".")
			for i := range parts {
				p.syms[strings.Join(parts[:i+1], ".")] = "package"
			}
		case p.isIdent("import"):
			p.pos++
			if p.isIdent("public") || p.isIdent("weak") {
				p.pos++
			}
			path := p.str()
			p.expect(";")
			f.Deps = append(f.Deps, path)
			tys, ok := imports(path)
			if !ok {
				opaque = append(opaque, path)
			}
			for full, kind := range tys {
				p.syms[full] = kind
				parts := strings.Split(full, ".")
				for i := 1; i < len(parts); i++ {
					if _, ok := p.syms[strings.Join(parts[:i], ".")]; !ok {
						p.syms[strings.Join(parts[:i], ".")] = "package"
					}
				}
			}
		case p.isIdent("option"):
			p.pos++
			name, sc, _, _ := p.optionBody()
			p.expect(";")
			if name == "go_package" && sc != nil {
				f.GoPackage = *sc
			}
		case p.isIdent("message"):
			p.pos++
			f.Messages = append(f.Messages, p.message(f.Package))
		case p.isIdent("enum"):
			p.pos++
			f.Enums = append(f.Enums, p.enum(f.Package))
		case p.isIdent("service"):
			p.pos++
			f.Services = append(f.Services, p.service(f.Package))
		default:
			p.fail("unsupported top-level statement starting with %q", p.peek().text)
		}
	}
	for _, fx := range p.fixups {
		kind, full, ok := p.resolve(fx.scope, fx.raw)
		if !ok {
			kind, full = "unresolved", fx.raw
		}
		fx.set(kind, full)
	}
	for i := range f.Messages {
		setPacked(&f.Messages[i], f.Syntax == "proto3")
	}
	return f, opaque, nil
}

// setPacked decides the encoding of repeated scalar fields once their kinds are
// known: the explicit packed option, else packed in proto3 and unpacked in proto2.
func setPacked(m *Message, proto3 bool) {
	for i := range m.Fields {
		fl := &m.Fields[i]
		packable := fl.Card == 3 && fl.Kind != "string" && fl.Kind != "bytes" && fl.Kind != "message" &&
			fl.Kind != "group" && fl.Kind != "unresolved"
		switch {
		case !packable:
			fl.Packed = false
		case fl.packedOpt != nil:
			fl.Packed = *fl.packedOpt
		default:
			fl.Packed = proto3
		}
	}
	for i := range m.Nested {
		setPacked(&m.Nested[i], proto3)
	}
}

func join(scope, name string) string {
	if scope == "" {
		return name
	}
	return scope + "." + name
}

// resolve follows protoc: try the scopes from the innermost outwards; the first
// scope in which the first component of the name denotes a type or package
// decides; the remaining components are looked up inside it.
func (p *pparser) resolve(scope, raw string) (kind, full string, ok bool) {
	if strings.HasPrefix(raw, ".") {
		k, ok := p.syms[raw[1:]]
		return k, raw[1:], ok && k != "package"
	}
	first := raw
	if i := strings.IndexByte(raw, '.'); i >= 0 {
		first = raw[:i]
	}
	for {
		if k, ok := p.syms[join(scope, first)]; ok && (first == raw || k == "message" || k == "package") {
			cand := join(scope, raw)
			k2, ok2 := p.syms[cand]
			if ok2 && k2 != "package" {
				return k2, cand, true
			}
			if first != raw {
				return "", "", false // protoc: found the outer name but not the inner one
			}
		}
		if scope == "" {
			return "", "", false
		}
		if i := strings.LastIndexByte(scope, '.'); i >= 0 {
			scope = scope[:i]
		} else {
			scope = ""
		}
	}
}

func jsonName(s string) string {
	var sb strings.Builder
	up := false
	for i := 0; i < len(s); i++ {
		c := s[i]
		switch {
		case c == '_':
			up = true
		case up:
			if c >= 'a' && c <= 'z' {
				c -= 32
			}
			sb.WriteByte(c)
			up = false
		default:
			sb.WriteByte(c)
		}
	}
	return sb.String()
}

func camelCase(s string) string { // protoc ToCamelCase(name, lower_first=false)
	var sb strings.Builder
	up := true
	for i := 0; i < len(s); i++ {
		c := s[i]
		switch {
		case c == '_':
			up = true
		case up:
			if c >= 'a' && c <= 'z' {
				c -= 32
			}
			sb.WriteByte(c)
			up = false
		default:
			sb.WriteByte(c)
		}
	}
	return sb.String()
}

// fieldOptions parses [ name = constant, ... ] and returns the json_name and packed options if given.
func (p *pparser) fieldOptions() (json *string, packed *bool) {
	if !p.accept("[") {
		return nil, nil
	}
	for {
		name := p.optName()
		p.expect("=")
		var sc *string
		if p.accept("{") {
			p.textMessage("}")
			p.expect("}")
		} else {
			s := p.scalar()
			sc = &s
		}
		if name == "json_name" {
			json = sc
		}
		if name == "packed" && sc != nil {
			b := *sc == "true"
			packed = &b
		}
		if !p.accept(",") {
			break
		}
	}
	p.expect("]")
	return json, packed
}

func (p *pparser) skipStatement() {
	for !p.isSym(";") {
		if p.peek().kind == tEOF {
			p.fail("unterminated statement")
		}
		p.pos++
	}
	p.pos++
}

// typeRef reads a field type; scalar types resolve at once, the rest later.
func (p *pparser) typeRef(scope string, set func(kind, full string)) {
	line := p.peek().line
	raw := p.fullIdent()
	if scalarTypes[raw] {
		set(raw, "")
		return
	}
	p.fixups = append(p.fixups, fixup{scope, raw, line, set})
}

func (p *pparser) field(scope string, m *Message, label string, oneof *string) {
	var f Field
	f.Card = 1
	switch label {
	case "repeated":
		f.Card = 3
	case "required":
		f.Card = 2
	case "optional":
		f.Optional = true
	}
	idx := len(m.Fields)
	m.Fields = append(m.Fields, Field{})
	p.typeRef(scope, func(kind, full string) { m.Fields[idx].Kind, m.Fields[idx].Type = kind, full })
	f.Name = p.ident()
	p.expect("=")
	f.Number = p.integer()
	f.JSON = jsonName(f.Name)
	j, pk := p.fieldOptions()
	if j != nil {
		f.JSON = *j
	}
	f.packedOpt = pk
	p.expect(";")
	f.Oneof = oneof
	f.Kind, f.Type = m.Fields[idx].Kind, m.Fields[idx].Type // set at once for scalar types, later otherwise
	m.Fields[idx] = f
}

func (p *pparser) message(scope string) Message {
	m := Message{Name: p.ident()}
	full := join(scope, m.Name)
	p.syms[full] = "message"
	p.expect("{")
	var synthetic []string
	for !p.accept("}") {
		t := p.peek()
		if t.kind == tEOF {
			p.fail("unterminated message %s", full)
		}
		nextIsName := p.toks[p.pos+1].kind == tIdent && p.pos+2 < len(p.toks) && p.toks[p.pos+2].kind == tSym && p.toks[p.pos+2].text == "{"
		switch {
		case p.accept(";"):
		case t.kind == tIdent && t.text == "message" && nextIsName:
			p.pos++
			m.Nested = append(m.Nested, p.message(full))
		case t.kind == tIdent && t.text == "enum" && nextIsName:
			p.pos++
			m.Enums = append(m.Enums, p.enum(full))
		case t.kind == tIdent && t.text == "oneof" && nextIsName:
			p.pos++
			name := p.ident()
			m.Oneofs = append(m.Oneofs, name)
			p.expect("{")
			for !p.accept("}") {
				switch {
				case p.accept(";"):
				case p.isIdent("option"):
					p.pos++
					p.optionBody()
					p.expect(";")
				case p.peek().kind == tEOF:
					p.fail("unterminated oneof")
				default:
					n := name
					p.field(full, &m, "", &n)
				}
			}
		case t.kind == tIdent && t.text == "option" && (p.toks[p.pos+1].kind == tIdent || p.toks[p.pos+1].text == "("):
			p.pos++
			name, sc, _, _ := p.optionBody()
			p.expect(";")
			if name == "map_entry" && sc != nil && *sc == "true" {
				m.MapEntry = true
			}
		case t.kind == tIdent && (t.text == "reserved" || t.text == "extensions") && p.toks[p.pos+1].kind != tIdent:
			p.skipStatement()
		case t.kind == tIdent && (t.text == "extend" || t.text == "group") && nextIsName:
			p.fail("%s is not supported (harness limit)", t.text)
		case t.kind == tIdent && t.text == "map" && p.toks[p.pos+1].kind == tSym && p.toks[p.pos+1].text == "<":
			p.pos += 2
			entry := Message{MapEntry: true}
			entry.Fields = make([]Field, 2)
			entry.Fields[0] = Field{Name: "key", Number: 1, Card: 1, JSON: "key"}
			entry.Fields[1] = Field{Name: "value", Number: 2, Card: 1, JSON: "value"}
			kt := p.ident()
			if !scalarTypes[kt] || kt == "float" || kt == "double" || kt == "bytes" {
				p.fail("bad map key type %q", kt)
			}
			entry.Fields[0].Kind = kt
			p.expect(",")
			ni := len(m.Nested)
			m.Nested = append(m.Nested, entry)
			mm := &m
			p.typeRef(full, func(kind, tn string) { mm.Nested[ni].Fields[1].Kind, mm.Nested[ni].Fields[1].Type = kind, tn })
			p.expect(">")
			fname := p.ident()
			p.expect("=")
			num := p.integer()
			js := jsonName(fname)
			if j, _ := p.fieldOptions(); j != nil {
				js = *j
			}
			p.expect(";")
			entry.Name = camelCase(fname) + "Entry"
			p.syms[join(full, entry.Name)] = "message"
			m.Nested[ni].Name = entry.Name
			m.Fields = append(m.Fields, Field{Name: fname, Number: num, Kind: "message", Card: 3, Type: join(full, entry.Name), JSON: js})
		case t.kind == tIdent && (t.text == "repeated" || t.text == "optional" || t.text == "required") &&
			(p.toks[p.pos+1].kind == tIdent || p.toks[p.pos+1].text == "."):
			p.pos++
			if t.text == "optional" {
				// proto3 optional: a synthetic oneof named _<field>, placed after the declared ones
				save := p.pos
				p.fullIdent()
				fname := p.ident()
				p.pos = save
				n := "_" + fname
				synthetic = append(synthetic, n)
				p.field(full, &m, "optional", &n)
			} else {
				p.field(full, &m, t.text, nil)
			}
		case t.kind == tIdent || (t.kind == tSym && t.text == "."):
			p.field(full, &m, "", nil)
		default:
			p.fail("unexpected %q in message %s", t.text, full)
		}
	}
	m.Oneofs = append(m.Oneofs, synthetic...)
	return m
}

func (p *pparser) enum(scope string) Enum {
	e := Enum{Name: p.ident()}
	p.syms[join(scope, e.Name)] = "enum"
	p.expect("{")
	for !p.accept("}") {
		t := p.peek()
		switch {
		case p.accept(";"):
		case t.kind == tEOF:
			p.fail("unterminated enum %s", e.Name)
		case t.kind == tIdent && t.text == "option" && (p.toks[p.pos+1].kind == tIdent || p.toks[p.pos+1].text == "("):
			p.pos++
			p.optionBody()
			p.expect(";")
		case t.kind == tIdent && t.text == "reserved" && p.toks[p.pos+1].text != "=":
			p.skipStatement()
		default:
			name := p.ident()
			p.expect("=")
			num := p.integer()
			p.fieldOptions()
			p.expect(";")
			e.Values = append(e.Values, EnumValue{name, num})
		}
	}
	return e
}

func (p *pparser) service(scope string) Service {
	s := Service{Name: p.ident()}
	p.expect("{")
	for !p.accept("}") {
		switch {
		case p.accept(";"):
		case p.peek().kind == tEOF:
			p.fail("unterminated service %s", s.Name)
		case p.isIdent("option"):
			p.pos++
			p.optionBody()
			p.expect(";")
		case p.isIdent("rpc"):
			p.pos++
			s.Methods = append(s.Methods, Method{})
			mi := len(s.Methods) - 1
			sp := &s
			m := Method{Name: p.ident(), Idem: "IDEMPOTENCY_UNKNOWN"}
			p.expect("(")
			if p.isIdent("stream") && p.toks[p.pos+1].kind == tIdent {
				p.pos++
				m.CStream = true
			}
			p.typeRef(scope, func(_, full string) { sp.Methods[mi].Input = full })
			p.expect(")")
			if !p.isIdent("returns") {
				p.fail("expected returns")
			}
			p.pos++
			p.expect("(")
			if p.isIdent("stream") && p.toks[p.pos+1].kind == tIdent {
				p.pos++
				m.SStream = true
			}
			p.typeRef(scope, func(_, full string) { sp.Methods[mi].Output = full })
			p.expect(")")
			if p.accept("{") {
				for !p.accept("}") {
					switch {
					case p.accept(";"):
					case p.isIdent("option"):
						p.pos++
						name, sc, agg, isAgg := p.optionBody()
						p.expect(";")
						switch {
						case name == "idempotency_level" && sc != nil:
							m.Idem = *sc
						case name == "(google.api.http)" && isAgg:
							h := httpFromText(p, agg)
							m.HTTP = &h
						case strings.HasPrefix(name, "(google.api.http)."):
							if m.HTTP == nil {
								m.HTTP = &HTTP{}
							}
							e := tfEntry{name: strings.TrimPrefix(name, "(google.api.http)."), scalar: sc, msg: agg, isMsg: isAgg}
							h := httpFromText(p, []tfEntry{e})
							if h.Verb != "" {
								m.HTTP.Verb, m.HTTP.Path = h.Verb, h.Path
							}
							if h.Body != "" {
								m.HTTP.Body = h.Body
							}
							if h.Resp != "" {
								m.HTTP.Resp = h.Resp
							}
							m.HTTP.Extra = append(m.HTTP.Extra, h.Extra...)
						}
					default:
						p.fail("unexpected %q in rpc body", p.peek().text)
					}
				}
			} else {
				p.expect(";")
			}
			// the type fix-ups write into s.Methods[mi]; keep what they will set
			s.Methods[mi] = m
		default:
			p.fail("unexpected %q in service %s", p.peek().text, s.Name)
		}
	}
	return s
}

// ProtoFileName is the name protoc registers for a file given on the command
// line relative to --proto_path=. (see regen.sh).
func ProtoFileName(path string) string { return filepath.Base(path) }
