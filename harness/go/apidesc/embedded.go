package apidesc

import (
	"strings"

	"google.golang.org/genproto/googleapis/api/annotations"
	"google.golang.org/grpc"
	"google.golang.org/protobuf/proto"
	"google.golang.org/protobuf/reflect/protoreflect"
	"google.golang.org/protobuf/reflect/protoregistry"
	"google.golang.org/protobuf/types/descriptorpb"
)

// FromDescriptor reads the descriptor embedded in a generated Go package.
func FromDescriptor(fd protoreflect.FileDescriptor) File {
	f := File{Path: fd.Path(), Package: string(fd.Package()), Syntax: fd.Syntax().String()}
	imps := fd.Imports()
	for i := 0; i < imps.Len(); i++ {
		f.Deps = append(f.Deps, imps.Get(i).Path())
	}
	if o, ok := fd.Options().(*descriptorpb.FileOptions); ok && o != nil {
		f.GoPackage = o.GetGoPackage()
	}
	f.Messages = embMessages(fd.Messages())
	f.Enums = embEnums(fd.Enums())
	svcs := fd.Services()
	for i := 0; i < svcs.Len(); i++ {
		sd := svcs.Get(i)
		s := Service{Name: string(sd.Name())}
		ms := sd.Methods()
		for j := 0; j < ms.Len(); j++ {
			md := ms.Get(j)
			m := Method{Name: string(md.Name()), Input: string(md.Input().FullName()), Output: string(md.Output().FullName()),
				CStream: md.IsStreamingClient(), SStream: md.IsStreamingServer(),
				Idem: descriptorpb.MethodOptions_IDEMPOTENCY_UNKNOWN.String()}
			if o, ok := md.Options().(*descriptorpb.MethodOptions); ok && o != nil {
				m.Idem = o.GetIdempotencyLevel().String()
			}
			if o, ok := md.Options().(*descriptorpb.MethodOptions); ok && o != nil && proto.HasExtension(o, annotations.E_Http) {
				if r, ok := proto.GetExtension(o, annotations.E_Http).(*annotations.HttpRule); ok && r != nil {
					h := embHTTP(r)
					m.HTTP = &h
				}
			}
			s.Methods = append(s.Methods, m)
		}
		f.Services = append(f.Services, s)
	}
	return f
}

func embHTTP(r *annotations.HttpRule) HTTP {
	h := HTTP{Body: r.GetBody(), Resp: r.GetResponseBody()}
	switch p := r.GetPattern().(type) {
	case *annotations.HttpRule_Get:
		h.Verb, h.Path = "get", p.Get
	case *annotations.HttpRule_Put:
		h.Verb, h.Path = "put", p.Put
	case *annotations.HttpRule_Post:
		h.Verb, h.Path = "post", p.Post
	case *annotations.HttpRule_Delete:
		h.Verb, h.Path = "delete", p.Delete
	case *annotations.HttpRule_Patch:
		h.Verb, h.Path = "patch", p.Patch
	case *annotations.HttpRule_Custom:
		h.Verb, h.Path = "custom:"+p.Custom.GetKind(), p.Custom.GetPath()
	}
	for _, a := range r.GetAdditionalBindings() {
		h.Extra = append(h.Extra, embHTTP(a))
	}
	return h
}

func embEnums(es protoreflect.EnumDescriptors) []Enum {
	var out []Enum
	for i := 0; i < es.Len(); i++ {
		ed := es.Get(i)
		e := Enum{Name: string(ed.Name())}
		vs := ed.Values()
		for j := 0; j < vs.Len(); j++ {
			e.Values = append(e.Values, EnumValue{string(vs.Get(j).Name()), int64(vs.Get(j).Number())})
		}
		out = append(out, e)
	}
	return out
}

func embMessages(ms protoreflect.MessageDescriptors) []Message {
	var out []Message
	for i := 0; i < ms.Len(); i++ {
		md := ms.Get(i)
		m := Message{Name: string(md.Name()), MapEntry: md.IsMapEntry()}
		fs := md.Fields()
		for j := 0; j < fs.Len(); j++ {
			fd := fs.Get(j)
			f := Field{Name: string(fd.Name()), Number: int64(fd.Number()), Kind: fd.Kind().String(),
				Card: int64(fd.Cardinality()), Optional: fd.HasOptionalKeyword(), JSON: fd.JSONName(), Packed: fd.IsPacked()}
			if o := fd.ContainingOneof(); o != nil {
				n := string(o.Name())
				f.Oneof = &n
			}
			switch fd.Kind() {
			case protoreflect.MessageKind, protoreflect.GroupKind:
				f.Type = string(fd.Message().FullName())
			case protoreflect.EnumKind:
				f.Type = string(fd.Enum().FullName())
			}
			m.Fields = append(m.Fields, f)
		}
		os := md.Oneofs()
		for j := 0; j < os.Len(); j++ {
			m.Oneofs = append(m.Oneofs, string(os.Get(j).Name()))
		}
		m.Nested = embMessages(md.Messages())
		m.Enums = embEnums(md.Enums())
		out = append(out, m)
	}
	return out
}

// FromServiceDesc copies the data fields of a grpc.ServiceDesc value.
func FromServiceDesc(sd grpc.ServiceDesc) Grpc {
	g := Grpc{ServiceName: sd.ServiceName}
	if s, ok := sd.Metadata.(string); ok {
		g.Metadata = s
	}
	for _, m := range sd.Methods {
		g.Methods = append(g.Methods, m.MethodName)
	}
	for _, s := range sd.Streams {
		g.Streams = append(g.Streams, Stream{s.StreamName, s.ServerStreams, s.ClientStreams})
	}
	return g
}

// ExtTypes lists the message and enum types of other files that fields and
// methods of fd refer to, with the proto package and Go import path of their file.
func ExtTypes(fd protoreflect.FileDescriptor) []ExtType {
	var out []ExtType
	seen := map[protoreflect.FullName]bool{}
	add := func(d protoreflect.Descriptor) {
		if d == nil || d.ParentFile() == nil || d.ParentFile() == fd || seen[d.FullName()] {
			return
		}
		seen[d.FullName()] = true
		e := ExtType{Full: string(d.FullName()), Package: string(d.ParentFile().Package())}
		if o, ok := d.ParentFile().Options().(*descriptorpb.FileOptions); ok && o != nil {
			e.GoPath = o.GetGoPackage()
			if i := strings.IndexByte(e.GoPath, ';'); i >= 0 {
				e.GoPath = e.GoPath[:i]
			}
		}
		out = append(out, e)
	}
	var walk func(ms protoreflect.MessageDescriptors)
	walk = func(ms protoreflect.MessageDescriptors) {
		for i := 0; i < ms.Len(); i++ {
			fs := ms.Get(i).Fields()
			for j := 0; j < fs.Len(); j++ {
				switch fs.Get(j).Kind() {
				case protoreflect.MessageKind, protoreflect.GroupKind:
					add(fs.Get(j).Message())
				case protoreflect.EnumKind:
					add(fs.Get(j).Enum())
				}
			}
			walk(ms.Get(i).Messages())
		}
	}
	walk(fd.Messages())
	for i := 0; i < fd.Services().Len(); i++ {
		ms := fd.Services().Get(i).Methods()
		for j := 0; j < ms.Len(); j++ {
			add(ms.Get(j).Input())
			add(ms.Get(j).Output())
		}
	}
	return out
}

// RegistryImports resolves an import path through the files linked into this
// binary (the generated package links the Go packages of everything it
// imports): full name -> message / enum, public imports included.
func RegistryImports(path string) (map[string]string, bool) {
	fd, err := protoregistry.GlobalFiles.FindFileByPath(path)
	if err != nil {
		return nil, false
	}
	out := map[string]string{}
	var file func(fd protoreflect.FileDescriptor)
	var msgs func(ms protoreflect.MessageDescriptors)
	enums := func(es protoreflect.EnumDescriptors) {
		for i := 0; i < es.Len(); i++ {
			out[string(es.Get(i).FullName())] = "enum"
		}
	}
	msgs = func(ms protoreflect.MessageDescriptors) {
		for i := 0; i < ms.Len(); i++ {
			out[string(ms.Get(i).FullName())] = "message"
			msgs(ms.Get(i).Messages())
			enums(ms.Get(i).Enums())
		}
	}
	file = func(fd protoreflect.FileDescriptor) {
		msgs(fd.Messages())
		enums(fd.Enums())
		for i := 0; i < fd.Imports().Len(); i++ {
			if im := fd.Imports().Get(i); im.IsPublic && im.FileDescriptor != nil {
				file(im.FileDescriptor)
			}
		}
	}
	file(fd)
	return out, true
}
