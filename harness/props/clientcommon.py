"""Shared by C14 and C12: string pools, the oracle table (answers of the Go semver for the
strings of a case), and the reference orderings evaluated in python on Go's own answers."""
import functools

from lib import sx, parse_sx

NPM, MAVEN, PYPI = 3, 6, 7
SYSTEMS = [NPM, MAVEN, PYPI]
CONCRETE, REQUIREMENT = 1, 2

# version.AttrKey / dep.AttrKey numbers used by the generators (checked against Gen/ResolveTables.v
# by the model side: the model reads Deleted/Tags/Dev/KnownAs from the regenerated table).
V_BLOCKED, V_DELETED, V_ERROR, V_REDIRECT, V_REGISTRIES, V_TAGS = -1, -2, -4, 1, 5, 10
D_DEV, D_OPT, D_TEST, D_SCOPE, D_KNOWNAS = -1, -2, -4, 3, 8

VERSIONS = {
    NPM: [b"1.0.0", b"1.0.1", b"1.1.0", b"2.0.0", b"2.0.0-rc.1", b"2.0.0-beta", b"1.0.0-alpha", b"0.9.0", b"10.0.0",
          b"3.0.0-pre.1", b"1.2.3", b"0.0.1",
          # same semver, different spelling (ordered lexically among themselves)
          b"1.0", b"1", b"v1.0.0", b"01.0.0", b"1.0.0+build", b"2.0.0-RC.1",
          # do not parse as npm versions
          b"abc", b"latest", b"foo-1", b"1.0.0.0", b"", b"=1.0.0", b"zzz"],
    MAVEN: [b"1.0", b"1.1", b"2.0", b"0.9", b"10.0", b"1.0.1", b"1.0-alpha", b"1.0-SNAPSHOT", b"1-rc1", b"2.0-beta-1",
            b"1.0.2", b"3.1",
            # equal to 1.0 but spelled differently (F-C12-1)
            b"1.0.0", b"1", b"1.0.ga", b"1.0-final", b"1.0.0.0"],
    PYPI: [b"1.0", b"1.1", b"2.0", b"0.9", b"10.0", b"1.0.1", b"1.0a1", b"1.0.dev0", b"1.0.post1", b"1!0.5", b"2.0rc1",
           b"1.0.2", b"3.1",
           # equal to 1.0 but spelled differently (F-C12-1)
           b"1.0.0", b"1", b"v1.0", b"1.0.0.0.0"],
}
# outside the quantifier (only npm has unparsable versions); used for the correspondence only
PYPI_UNPARSABLE = [b"abc", b"", b"1.0-x-"]

REQUIREMENTS = {
    NPM: [b"^1.0.0", b"*", b"", b">=1.0.0 <2.0.0", b"~1.0", b"1.x", b"1.0.0", b">=2.0.0-0", b"^2.0.0-rc.1",
          b"1.0.0 - 2.0.0", b"<1.0.0 || >=2.0.0", b">=0.0.0", b"^0.9.0", b"2",
          # not ranges: matched against version strings and tags
          b"latest", b"next", b"beta", b"abc", b"foo-1", b"1.0.0.0", b"bad range ||", b"lat", b"zzz"],
    MAVEN: [b"1.0", b"[1.0,2.0)", b"[1.0]", b"(,1.0]", b"[1.1,)", b"(,1.0],[1.2,)", b"[0.9,10.0]", b"2.0", b"[1.0-alpha,1.0]",
            b"[1.0", b"", b"1.0,"],
    PYPI: [b"==1.0", b">=1.0,<2", b"~=1.0", b"", b"==1.*", b"!=1.0", b">0.9", b"<=1.0.1", b">=1.0a1", b"===1.0",
           b"1.0", b"abc", b">=1.0,"],
}

TAGSETS = [b"latest", b"next", b"latest,next", b"beta", b"next,latest", b"notlatest", b"", b"lat,est", b"beta,canary",
            b"latest-2,latest", b"notlatest,stable,latest", b"latest,latest-2", b"xlatest,next,latest", b"latestx,latest",
            # tags that also read as npm ranges
            b"2", b"1.x,latest", b"2,next", b"*", b"^1.0.0"]


def rand_version(rng, s, safe=False):
    """a version string of system s; safe: no two different results compare equal (three numeric
    components, no neutral qualifier)"""
    core = "%d.%d.%d" % (rng.choice([0, 1, 1, 2, 3, 10]), rng.randrange(0, 4), rng.randrange(1 if safe else 0, 12))
    if s == NPM:
        suf = rng.choice(["", "", "", "-alpha", "-beta.%d" % rng.randrange(3), "-rc.1", "+b%d" % rng.randrange(3), "-0"])
    elif s == MAVEN:
        suf = rng.choice(["", "", "", "-alpha", "-beta-%d" % rng.randrange(1, 3), "-SNAPSHOT", "-rc1"] + ([] if safe else [".Final"]))
    else:
        suf = rng.choice(["", "", "", "a1", "b%d" % rng.randrange(3), "rc1", ".dev0", ".post%d" % rng.randrange(3)])
    return (core + suf).encode()


def attrs_dump(pairs):
    """The harness dump of an attribute set built from (key, value) pairs, as lists."""
    mask = 0
    vals = {}
    for k, v in pairs:
        if k < 0:
            mask |= (-k) & 0xff
        else:
            vals[k] = v
    out = [[-(1 << b), b""] for b in range(8) if mask & (1 << b)]
    out += [[k, vals[k]] for k in sorted(vals)]
    return out


def dump_get(dump, key):
    for k, v in dump:
        if k == key:
            return v
    return None


class Table:
    """Answers of the Go semver layer for a fixed set of strings per system."""

    def __init__(self, parsed):
        self.parsed = parsed
        self.sys = {}
        for e in parsed:
            s, vs, ps, pre, rows, rs, sat = e
            self.sys[s] = dict(
                vi={v: i for i, v in enumerate(vs)}, ps=ps, pre=pre, rows=rows,
                ri={r: i for i, r in enumerate(rs)}, sat=sat)

    def parses(self, s, v):
        t = self.sys[s]
        return bool(t["ps"][t["vi"][v]])

    def prerelease(self, s, v):
        t = self.sys[s]
        return bool(t["pre"][t["vi"][v]])

    def cmp(self, s, a, b):
        t = self.sys[s]
        return t["rows"][t["vi"][a]][t["vi"][b]]

    def constraint_ok(self, s, r):
        t = self.sys[s]
        return t["sat"][t["ri"][r]][0] == b"ok"

    def match(self, s, r, v):
        t = self.sys[s]
        return bool(t["sat"][t["ri"][r]][1 + t["vi"][v]])


def request_tables(ctx, needs):
    """needs: list of {sys: (versions, reqs)}; returns a Table per entry (one Go call for all)."""
    args = []
    for need in needs:
        args.append(sx([[s, sorted(set(vs)), sorted(set(rs))] for s, (vs, rs) in sorted(need.items())]))
    outs = ctx.impl("oracle_table", args)
    return [Table(parse_sx(o)) for o in outs]


def bcmp(a, b):
    return (a > b) - (a < b)


def npm_cmp(tab, a, b):
    """sortNPMVersions closure as a three-way comparison on version strings."""
    pa, pb = tab.parses(NPM, a), tab.parses(NPM, b)
    if pa != pb:
        return -1 if pa else 1
    if pa:
        c = tab.cmp(NPM, a, b)
        if c != 0:
            return c
    return bcmp(a, b)


def gen_cmp(tab, s, a, b):
    if tab.parses(s, a) and tab.parses(s, b):
        return tab.cmp(s, a, b)
    return bcmp(a, b)


def laws_hold(cmp, items):
    """Is cmp a lawful three-way comparison on the items (reflexive, sign-antisymmetric, transitive,
    congruent: the hypothesis of the theorems on the semver layer, checked on Go's actual answers)?
    A comparison is lawful exactly when it is the comparison of a rank function; the rank of an
    item is the number of items strictly below it."""
    n = len(items)
    m = [[cmp(a, b) for b in items] for a in items]
    rank = [sum(1 for j in range(n) if m[j][i] < 0) for i in range(n)]
    for i in range(n):
        mi = m[i]
        ri = rank[i]
        for j in range(n):
            c = mi[j]
            d = ri - rank[j]
            if (c < 0) != (d < 0) or (c > 0) != (d > 0):
                return False
    return True


def table_lawful(tab, s, strs):
    """the comparator SortVersions uses for system s is lawful on these strings"""
    strs = sorted(set(strs))
    if s == NPM:
        return laws_hold(lambda a, b: npm_cmp(tab, a, b), strs)
    ps = [v for v in strs if tab.parses(s, v)]
    return laws_hold(lambda a, b: tab.cmp(s, a, b), ps)


def tags_of(rec):
    """rec = [version, vtype, dump]"""
    t = dump_get(rec[2], V_TAGS)
    return t if t is not None else b""


def npm_order(tab, recs, exact_tag=True):
    """The order the property demands for npm: ascending by semver then spelling, unparsable
    after parsable, the version tagged latest last unless it is a prerelease while others are not.
    exact_tag=False is the pinned reading of the code (F-C12-2): any tag text containing latest counts."""
    base = sorted(recs, key=functools.cmp_to_key(lambda x, y: npm_cmp(tab, x[0], y[0])))
    is_pre = lambda r: tab.parses(NPM, r[0]) and tab.prerelease(NPM, r[0])
    all_pre = all(is_pre(r) for r in base)
    li = -1
    for i, r in enumerate(base):
        if (b"latest" in tags_of(r).split(b",")) if exact_tag else (b"latest" in tags_of(r)):
            li = i
    if li >= 0 and not (is_pre(base[li]) and not all_pre):
        base = base[:li] + base[li + 1:] + [base[li]]
    return base


def ascending(tab, s, recs):
    """no later element is strictly smaller than an earlier one (non-npm systems)"""
    for i in range(len(recs)):
        for j in range(i + 1, len(recs)):
            if gen_cmp(tab, s, recs[j][0], recs[i][0]) < 0:
                return False
    return True


def equal_distinct(tab, s, strs):
    """two different spellings that compare equal (the side condition of F-C12-1)"""
    ss = sorted(set(strs))
    for i in range(len(ss)):
        for j in range(i + 1, len(ss)):
            if tab.parses(s, ss[i]) and tab.parses(s, ss[j]) and tab.cmp(s, ss[i], ss[j]) == 0:
                return True
    return False


def satisfies(tab, s, req, rec):
    if tab.constraint_ok(s, req):
        return tab.match(s, req, rec[0])
    if s == NPM:
        return req == rec[0] or req in tags_of(rec).split(b",")
    return req == rec[0]


def expected_matches(tab, s, req, ordered):
    """what the property demands of a match over a list already in ecosystem order"""
    ms = [r for r in ordered if satisfies(tab, s, req, r)]
    if s == NPM and not tab.constraint_ok(NPM, req):
        ms = ms[:1]
    return ms


def sort_deps_like_go(deps):
    """what SortDependencies leaves in the slice (stable, as Go's sort is up to 12 elements): npm
    resolution order when the first element is an npm requirement, untouched otherwise"""
    if not deps or deps[0][0] != NPM:
        return list(deps)
    return sorted(deps, key=functools.cmp_to_key(lambda a, b: -1 if dep_less(a, b) else (1 if dep_less(b, a) else 0)))


def dep_less(a, b):
    """sortNPMDependencies closure; a, b = [sys, name, vtype, req, typedump]"""
    dev = [[D_DEV, b""]]
    da, db = a[4] == dev, b[4] == dev
    if da != db:
        return db
    na = dump_get(a[4], D_KNOWNAS)
    nb = dump_get(b[4], D_KNOWNAS)
    na = a[1] if na is None else na
    nb = b[1] if nb is None else nb
    la, lb = lower_name(na), lower_name(nb)
    if la != lb:
        return la < lb
    return na > nb


def lower_name(n):
    """the lower-cased form the npm order is documented to compare (strings.ToLower: Unicode
    letters too); computed here, independently of the implementation"""
    try:
        return n.decode("utf-8").lower().encode("utf-8")
    except UnicodeDecodeError:
        return n.lower()


# ----------------------------------------------------------------------------- which variant does the tree have?
PROBE_STALE = [[0, NPM, b"a", CONCRETE, b"1.0.0", [[V_TAGS, b"x"]], []],
               [0, NPM, b"a", CONCRETE, b"1.0.0", [[V_TAGS, b"y"]], []],
               [1, NPM, b"a", CONCRETE, b"1.0.0"]]
PROBE_RESORT = [[0, NPM, b"a", CONCRETE, b"1.0.0", [[V_TAGS, b"latest"]], []],
                [0, NPM, b"a", CONCRETE, b"2.0.0", [], []],
                [0, NPM, b"a", CONCRETE, b"1.0.0", [], []],
                [2, NPM, b"a"]]
_D = lambda n: [NPM, n, REQUIREMENT, b"*", []]
PROBE_ALIAS = [[5, 0, NPM, b"a", CONCRETE, b"1.0.0", [], 2, b"2.0.0", [], 3, [_D(b"m"), _D(b"z"), _D(b"b")]],
               [3, NPM, b"a", CONCRETE, b"1.0.0"], [3, NPM, b"a", CONCRETE, b"2.0.0"]]
VARIANT_NAMES = (["AddVersion stores the old value back on a repeated key (F-C14-1)",
                  "AddVersion assigns the new value, no re-sort", "AddVersion assigns the new value and re-sorts"],
                 ["latest found by substring (F-C12-2)", "latest found among the comma separated tags"],
                 ["matchRequirement keeps input order (F-C12-1b)", "matchRequirement sorts a copy"],
                 ["SortVersions without tie-break (F-C12-1)", "SortVersions breaks ties by spelling"])


def detect_variant(ctx):
    """The model follows the tree: the variant of the code is decided on every run by replaying the
    recorded witnesses of F-C14-1, F-C12-2, F-C12-1b and F-C12-1 on the Go code.  Returns
    [add, [latest_exact, match_sorts, tie_break]] as the model decodes it."""
    o1, o2 = ctx.impl("client_history", [sx([0, [], PROBE_STALE]), sx([0, [], PROBE_RESORT])])
    r1 = parse_sx(o1)
    if r1 == [[b"ok", [b"1.0.0", 1, [[V_TAGS, b"x"]]]]]:
        add = 0
    else:
        r2 = parse_sx(o2)
        add = 1 if (r2 and r2[0][0] == b"ok" and [r[0] for r in r2[0][1]] == [b"2.0.0", b"1.0.0"]) else 2
    w_latest = [[], NPM, [[b"1.0.0", CONCRETE, [[V_TAGS, b"latest"]]], [b"2.0.0", CONCRETE, [[V_TAGS, b"latest-2"]]]], [0, 1]]
    w_tie = [[], PYPI, [[b"1.0", CONCRETE, []], [b"1.0.0", CONCRETE, []]], [1, 0]]
    s1, s2 = ctx.impl("sortv", [sx(w_latest), sx(w_tie)])
    m1, = ctx.impl("matchreq", [sx([[], MAVEN, b"[0.5,)", [[b"1.0", CONCRETE, []], [b"0.9", CONCRETE, []]], [0, 1]])])
    m1 = sx(parse_sx(m1)[0])
    latest_exact = int([r[0] for r in parse_sx(s1)] == [b"2.0.0", b"1.0.0"])
    tie_break = int([r[0] for r in parse_sx(s2)] == [b"1.0", b"1.0.0"])
    match_sorts = int([r[0] for r in parse_sx(m1)] == [b"0.9", b"1.0"])
    # F-C14-2: does the client keep the caller's requirement slice itself (bit 0), does AddVersion sort the
    # caller's slice in place (bit 1)?
    a1, = ctx.impl("client_history", [sx([0, [], PROBE_ALIAS])])
    ra = parse_sx(a1)
    given = [[NPM, b"m", REQUIREMENT, b"*", []], [NPM, b"z", REQUIREMENT, b"*", []], [NPM, b"b", REQUIREMENT, b"*", []]]
    alias = int(len(ra) == 3 and ra[1] != [b"ok", given[:2]])
    inplace = int(len(ra) == 3 and ra[0] != [b"ok", given])
    ctx.extra["alias"] = alias + 2 * inplace
    v = [add, [latest_exact, match_sorts, tie_break]]
    ctx.notes.append("AddVersion %s the caller's requirement slice%s" % ("keeps (F-C14-2)" if alias else "copies",
                                                                         " and sorts it in place" if inplace else ""))
    ctx.notes.append("variant of the tree detected by witness replay: " + "; ".join(
        [VARIANT_NAMES[0][add], VARIANT_NAMES[1][latest_exact], VARIANT_NAMES[2][match_sorts], VARIANT_NAMES[3][tie_break]]))
    ctx.extra["variant"] = v
    return v
