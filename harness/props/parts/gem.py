"""RubyGems parts of C01, C02, C10 (DESIGN 6.3, 8).

Model: coq/Semver/GemParse.v (parser), Gem.v (comparator, canon), GemDomain.v (domains),
Spec/GemSpec.v (Gem::Version).  Theorems: Properties/C01_gem.v, C02_gem.v, C10_gem.v.
"""
from lib import sx, parse_sx
from gen import versions
from props.parts import _mg_common as mg

SYS = 7
NAME = "RubyGems"

F_C02_TRIM = "F-C02-1"    # zero-trimming loop truncates at every zero
F_C02_CASE = "F-C02-12"    # letters are lower-cased, Gem::Version keeps their case
F_C02_EMPTY = "F-C02-13"   # a segment that begins with '-' right after '.' yields an extra 0 element
F_C10_PRE = "F-C10-1"     # prerelease canon


def exotic(rng):
    toks = [b"1", b"0", b"2", b"00", b"10", b".", b".", b"-", b"a", b"b", b"rc", b"pre", b"A", b"a1", b"1a", b"x"]
    s = versions.pick(rng, [b"1", b"0", b"1.0", b"1.2.3", b"2.0.0.0"])
    return s + b"".join(versions.pick(rng, toks) for _ in range(rng.randrange(1, 7)))


def tricky():
    return [b"1", b"1.0", b"1.0.0", b"1.0.0.0", b"01.002", b"1.2.3.a.0.b", b"1.2.3.a", b"1.0.0.a.00.b", b"1.a", b"1.a.00", b"1.a.00.00",
            b"1.a.0", b"1.a.0.0", b"1.a.0.1", b"1.0.A", b"1.0.a", b"1-a", b"1--a", b"1-", b"1.", b"1..2", b"1.0.0.pre", b"1.0.0.a.1",
            b"1.0.0-a.1", b"1b5", b"1.2.3b5", b"1-a.-b", b"1-a.-c", b"1-a.0.a", b"1.0-0", b"1-0", b"1.pre", b"1-pre", b"1.a-b",
            b"1.a--b", b"1_1", b"1+1", b"1.0+b", b"1.*", b"x", b"", b".1", b"-1", b"v1", b"1.0.0.0.0.1", b"0.0.0.0", b"1.9223372036854775806",
            b"1.9223372036854775807", b"1.a.9223372036854775807", b"1.a.9223372036854775806", b"1.a1b2", b"1.0.0.rc1", b"1.0.0.RC1",
            b"1 ", b"1\xe2\x88\x9e", b"\xe2\x88\x9e", b"1.a\xff", b"12345678901234567890"]


def strings_for(ctx, n):
    rng = ctx.rng
    out = list(tricky())
    for _ in range(n):
        r = rng.random()
        if r < 0.55:
            out.append(versions.rubygems(rng))
        elif r < 0.8:
            out.append(exotic(rng))
        else:
            out.append(versions.malformed(rng, SYS))
    return mg.uniq(out)


def gem_flags(ctx, strings):
    out = ctx.model("svm_gemdom", [sx([s]) for s in strings])
    res = {}
    for s, l in zip(strings, out):
        v = parse_sx(l)
        res[s] = None if v and v[0] == b"err" else (bool(v[0]), bool(v[1]))
    return res


# ----------------------------------------------------------------------------- C01

def c01(ctx):
    rng = ctx.rng
    strings = strings_for(ctx, ctx.scale(1500, 30000))
    mg.parse_correspondence(ctx, SYS, NAME, "svm_parse_gem", strings, "gem")
    npools = ctx.scale(2, 10)
    size = ctx.scale(90, 220)
    for _ in range(npools):
        pool = set([b"1.a", b"1.a.00", b"1.a.00.00", b"1.a.1", b"1.a.01", b"1.a.b", b"1", b"1.0", b"1.0.0.0", b"1.b"])
        tries = 0
        while len(pool) < size and tries < size * 30:
            tries += 1
            pool.add(versions.rubygems(rng) if rng.random() < 0.7 else exotic(rng))
        pool = sorted(pool)
        strs, dumps, m, unstable, laws = mg.pool_matrix(ctx, SYS, pool)
        n = len(strs)
        flags = gem_flags(ctx, strs)
        ctx.evaluations += n * n
        ctx.count("gem:pool:strings", n)
        ctx.count("gem:pool:ending-in-zero-numeral", sum(1 for s in strs if flags.get(s) and not flags[s][0]))
        for s in strs:
            ctx.nontriv((SYS, "pool", s))
        for (i, j) in unstable:
            ctx.violation("RubyGems: Compare gives different results for the same pair in a different call order",
                          {"system": NAME, "a": strs[i], "b": strs[j]})
        for law in laws:
            kind, i, j, k = law[0].decode(), law[1], law[2], law[3]
            ctx.violations.append({"what": "RubyGems: comparison is %s" % mg.LAW_TEXT[kind], "kind": "oracle",
                                   "known": None,
                                   "input": {"system": NAME, "a": strs[i], "b": strs[j], "c": strs[k]},
                                   "observed": {"cmp(a,b)": m[i * n + j], "cmp(b,c)": m[j * n + k], "cmp(a,c)": m[i * n + k]},
                                   "required": "total preorder laws"})
        pairs = [(strs[i], strs[j]) for i in range(n) for j in range(n)]
        mo = mg.model_pairs(ctx, "svm_cmp_gem", pairs)
        nd = 0
        for idx, ((a, b), r) in enumerate(zip(pairs, mo)):
            if r != [b"ok", m[idx]]:
                nd += 1
                if nd <= 20:
                    ctx.divergence("svm_cmp_gem", {"a": a, "b": b}, m[idx], sx(r))
        ctx.count("corr:svm_cmp_gem", len(pairs))


# ----------------------------------------------------------------------------- C02

def has_upper(s):
    return any(65 <= c <= 90 for c in s)


def c02(ctx):
    rng = ctx.rng
    npools = ctx.scale(2, 12)
    size = ctx.scale(70, 160)
    norm_in = []
    for _ in range(npools):
        pool = set([b"1", b"1.0", b"1.0.0.0", b"1.a", b"1.a.0.b", b"1.a.0.c", b"1.2.3.a.0.b", b"1.2.3.a", b"1.0.A", b"1.0.a", b"1.a.1",
                    b"1.a.01", b"1-a", b"1.pre.a", b"1.0.0.rc1", b"1.0.0.rc.1", b"1.b", b"1.0.1", b"1.a.00"])
        tries = 0
        while len(pool) < size and tries < size * 30:
            tries += 1
            pool.add(versions.rubygems(rng, strict=(rng.random() < 0.5)) if rng.random() < 0.8 else exotic(rng))
        pool = sorted(pool)
        strs, dumps, m, unstable, laws = mg.pool_matrix(ctx, SYS, pool)
        n = len(strs)
        norm_in += pool
        pairs = [(strs[i], strs[j]) for i in range(n) for j in range(n)]
        spec = mg.model_pairs(ctx, "svm_spec_gem", pairs)
        ctx.evaluations += len(pairs)
        hits = []
        both = 0
        for idx, ((a, b), sp) in enumerate(zip(pairs, spec)):
            if sp[0] != b"ok":
                continue          # the reference rejects one of them
            both += 1
            ctx.nontriv((SYS, "c02", a, b))
            if mg.sign(m[idx]) != sp[1]:
                hits.append((a, b, m[idx], sp[1]))
        ctx.count("gem:c02:pairs-both-accept", both)
        if hits:
            hp = [(a, b) for a, b, _, _ in hits]
            mod = mg.model_pairs(ctx, "svm_cmp_gem", hp)
            modfix = mg.model_pairs(ctx, "svm_cmp_gem_fix", hp)
            low = [(a.lower(), b.lower()) for a, b in hp]
            speclow = mg.model_pairs(ctx, "svm_spec_gem", low)
            modfixlow = mg.model_pairs(ctx, "svm_cmp_gem_fix", low)
            for (a, b, g, sp), mo, mf, sl, mfl in zip(hits, mod, modfix, speclow, modfixlow):
                model_disagrees = (mo[0] == b"ok" and mg.sign(mo[1]) != sp)
                known = None
                if model_disagrees:
                    if mf[0] == b"ok" and mg.sign(mf[1]) == sp:
                        known = F_C02_TRIM
                    elif (has_upper(a) or has_upper(b)) and sl[0] == b"ok" and mfl[0] == b"ok" and mg.sign(mfl[1]) == sl[1]:
                        known = F_C02_CASE      # the only difference left is the case of letters
                    elif b".-" in a or b".-" in b:
                        known = F_C02_EMPTY
                ctx.violations.append({"what": "RubyGems: ordering differs from Gem::Version", "kind": "oracle", "known": known,
                                       "input": {"system": NAME, "a": a, "b": b}, "observed": g, "required": sp})
        if len(ctx.samples) < 4 and n:
            ctx.sample({"system": NAME, "a": strs[0], "b": strs[-1], "go": m[n - 1], "spec": sx(spec[n - 1])})
    # tie between strings and the structures of theorem C02_gem_partial: for lower-case strings without a dot-dash the
    # parse (repaired trimming) stands for exactly the canonical segments Gem::Version scans from the string
    extra = [versions.rubygems(rng, strict=(rng.random() < 0.5)) if rng.random() < 0.8 else exotic(rng) for _ in range(ctx.scale(1500, 20000))]
    tie_in = [s for s in mg.uniq(norm_in + extra) if not has_upper(s) and b".-" not in s]
    to = ctx.model("svm_gem_tie", [sx([s]) for s in tie_in])
    nb = nwf = 0
    for s, l in zip(tie_in, to):
        v = parse_sx(l)
        if v[0] != 1:
            continue
        nb += 1
        nwf += v[1]
        if not v[2]:
            ctx.divergence("svm_gem_tie", {"str": s, "what": "segments of the parsed structure differ from Gem::Version's canonical segments"}, "equal", l)
    ctx.count("gem:c02:tie:strings", nb)
    ctx.count("gem:c02:tie:in-theorem-domain", nwf)
    # the reference's normalised form (Gem::Version#to_s: "-" written ".pre.") is accepted
    norm_in = mg.uniq(norm_in)
    no = ctx.model("svm_spec_gem_norm", [sx([s]) for s in norm_in])
    normal = mg.uniq([parse_sx(l)[1] for l in no if parse_sx(l)[0] == b"ok"])
    # consecutive dashes print as "..pre..", which Gem::Version itself does not read back: keep the forms it accepts
    acc = mg.model_pairs(ctx, "svm_spec_gem", [(s, s) for s in normal])
    ctx.count("gem:c02:normal-forms-not-readable-by-the-reference", sum(1 for a in acc if a[0] != b"ok"))
    normal = [s for s, a in zip(normal, acc) if a[0] == b"ok"]
    go = ctx.impl("sv_parse", [sx([SYS, s]) for s in normal])
    ctx.count("gem:c02:normal-forms", len(normal))
    for s, g in zip(normal, go):
        if parse_sx(g)[0] != b"ok":
            ctx.violation("RubyGems: a version in Gem::Version's normalised form is rejected", {"system": NAME, "str": s}, "rejected", "accepted")


# ----------------------------------------------------------------------------- C10

def c10(ctx):
    rng = ctx.rng
    strings = strings_for(ctx, ctx.scale(2500, 40000))
    go = ctx.impl("sv_canon", [sx([SYS, s]) for s in strings])
    mo = ctx.model("svm_canon_gem", [sx([s]) for s in strings])
    by_canon = {}
    nd = 0
    nrel = 0
    for s, g, m in zip(strings, go, mo):
        gv = parse_sx(g)
        if gv[0] != b"ok":
            proj = [b"err"]
        else:
            re = gv[4]
            proj = [b"ok", gv[2], ([b"ok", re[2], re[3]] if re[0] == b"ok" else [b"err"])]
        if parse_sx(m) != proj:
            nd += 1
            if nd <= 20:
                ctx.divergence("svm_canon_gem", {"str": s}, sx(proj), m)
        if gv[0] != b"ok":
            continue
        dump = gv[1]
        release_only = (dump[2] == 0 and len(dump[7]) == 1)
        known = None if release_only else F_C10_PRE
        if release_only:
            nrel += 1
            ctx.nontriv((SYS, "canon", s))
        canon, re = gv[2], gv[4]
        if re[0] != b"ok":
            ctx.violations.append({"what": "RubyGems: canonical string does not parse", "input": {"system": NAME, "str": s},
                                   "observed": canon, "required": "accepted", "kind": "oracle", "known": known})
            continue
        if re[2] != 0:
            ctx.violations.append({"what": "RubyGems: canonical string denotes a different version", "kind": "oracle", "known": known,
                                   "input": {"system": NAME, "str": s}, "observed": {"canon": canon, "cmp": re[2]}, "required": 0})
        if re[3] != canon:
            ctx.violations.append({"what": "RubyGems: canonicalising twice changes the string", "kind": "oracle", "known": known,
                                   "input": {"system": NAME, "str": s}, "observed": {"canon": canon, "canon2": re[3]}, "required": canon})
        if release_only:
            by_canon.setdefault(canon, []).append(s)
    ctx.count("corr:svm_canon_gem", len(strings))
    ctx.count("gem:c10:release-only", nrel)
    groups = [v for v in by_canon.values() if len(v) > 1]
    ctx.count("gem:canon-groups", len(groups))
    rng.shuffle(groups)
    for grp in groups[:ctx.scale(150, 1500)]:
        grp = grp[:12]
        strs, dumps, m, unstable, laws = mg.pool_matrix(ctx, SYS, grp)
        n = len(strs)
        for i in range(n):
            for j in range(n):
                if m[i * n + j] != 0:
                    ctx.violation("RubyGems: two release versions with the same canonical string compare different",
                                  {"system": NAME, "a": strs[i], "b": strs[j]}, m[i * n + j], 0)
