"""Per-system parts of the multi-system properties (C01, C02, C10, ...).

Every module of this package may define c01(ctx), c02(ctx), c10(ctx), ...; the property
drivers call run_all("c02", ctx) to run every part that exists."""
import importlib
import os
import pkgutil


def modules():
    here = os.path.dirname(os.path.abspath(__file__))
    for m in sorted(pkgutil.iter_modules([here]), key=lambda m: m.name):
        yield importlib.import_module(__name__ + "." + m.name)


def run_all(fn, ctx):
    ran = []
    for mod in modules():
        f = getattr(mod, fn, None)
        if callable(f):
            f(ctx)
            ran.append(mod.__name__.rsplit(".", 1)[-1])
    ctx.extra.setdefault("parts", {})[fn] = ran
    return ran
