"""Helpers shared by the Maven and RubyGems parts (no property function is defined here)."""
import os
import subprocess

from lib import sx, parse_sx


def uniq(seq):
    seen = set()
    out = []
    for s in seq:
        if s not in seen:
            seen.add(s)
            out.append(s)
    return out


def parse_correspondence(ctx, sysi, name, model_kind, strings, label):
    """Go sv_parse vs the model's parser, field by field on the dumped structure."""
    strings = uniq(strings)
    go = ctx.impl("sv_parse", [sx([sysi, s]) for s in strings])
    mo = ctx.model(model_kind, [sx([s]) for s in strings])
    nd = 0
    acc = 0
    for s, g, m in zip(strings, go, mo):
        if '"oom"' in m:
            ctx.skipped_oom += 1
            continue
        if '"badcase"' in m:
            ctx.divergence(model_kind, {"system": name, "str": s}, g, m)
            continue
        gv, mv = parse_sx(g), parse_sx(m)
        if gv[0] == b"ok":
            acc += 1
            ctx.nontriv((sysi, "parse", s))
        if gv != mv:
            nd += 1
            if nd <= 25:
                ctx.divergence(model_kind, {"system": name, "str": s}, g, m)
    ctx.count("corr:%s:%s" % (model_kind, label), len(strings))
    ctx.count("corr:%s:%s:accepted" % (model_kind, label), acc)
    return acc


def pool_matrix(ctx, sysi, pool):
    """sv_pool on one pool -> (accepted strings, dumps, sign matrix as dict, unstable, laws)"""
    line = ctx.impl("sv_pool", [sx([sysi, pool])])[0]
    parsed, m, unstable, laws = parse_sx(line)
    okidx = [i for i, p in enumerate(parsed) if p[0] == b"ok"]
    strs = [pool[i] for i in okidx]
    dumps = [parsed[i][1] for i in okidx]
    return strs, dumps, m, unstable, laws


LAW_TEXT = {"refl": "not reflexive", "antisym": "not sign-antisymmetric", "trans": "not transitive",
            "congr": "two versions compare equal but compare differently against a third"}


def sign(x):
    return (x > 0) - (x < 0)


def model_pairs(ctx, kind, pairs):
    """kind on (a b) pairs -> list of python values"""
    out = ctx.model(kind, [sx([a, b]) for a, b in pairs])
    return [parse_sx(l) for l in out]


def find_maven_jar():
    import glob
    js = sorted(glob.glob("/usr/share/maven/lib/maven-artifact-*.jar"))
    return js[0] if js else None


def comparable_version_ref(pairs, timeout=120):
    """Maven's own ComparableVersion (whatever maven-artifact jar is installed) on the pairs.
    Returns a list of signs, or None when java or the jar is absent or the run fails."""
    jar = find_maven_jar()
    if not jar:
        return None
    import shutil
    if not shutil.which("java"):
        return None
    out = []
    try:
        CH = 400
        for k in range(0, len(pairs), CH):
            chunk = pairs[k:k + CH]
            args = []
            for a, b in chunk:
                args += [a.decode("ascii"), b.decode("ascii")]
            p = subprocess.run(["java", "-cp", jar, "org.apache.maven.artifact.versioning.ComparableVersion"] + args,
                               stdout=subprocess.PIPE, stderr=subprocess.DEVNULL, timeout=timeout)
            if p.returncode != 0:
                return None
            # lines "   a < b" follow each "n. a -> canon; tokens" line except the last; we need the
            # comparisons at even positions (a_i with b_i)
            rel = []
            for line in p.stdout.decode("utf-8", "replace").splitlines():
                if line.startswith("   "):
                    t = line.strip().split(" ")
                    if len(t) == 3 and t[1] in ("<", "==", ">"):
                        rel.append({"<": -1, "==": 0, ">": 1}[t[1]])
                    else:
                        return None
            if len(rel) != 2 * len(chunk) - 1:
                return None
            out += rel[0::2]
    except Exception:
        return None
    return out
