"""PyPI (PEP 440) part of C01, C02 and C10.

c01(ctx): parser correspondence (Go semver.PyPI.Parse vs the Gallina parser model, on generated
          and malformed strings), pools through Go's Compare with the law oracle, model compare
          on the dumped structures.
c02(ctx): Go ordering vs the extracted REFERENCE (Spec/Pep440Spec.v = packaging's _cmpkey) on all
          pairs of pools of PEP 440 strings accepted by both; acceptance of normalised forms;
          optional re-validation of the Gallina reference against packaging (python3-vt).
c10(ctx): canonical form round trip on Go (sv_canon) + pypi.CanonVersion, correspondence with the
          model, injectivity clause on groups of equal canonical strings.

Hits are classified with the extracted model and the exported domain predicates
(c02_pypi_dom, c10_pypi_dom): a hit on which the model fails too and which lies outside
the domain of the _partial theorem is an instance of an open known finding; anything else is a
violation.
"""
import json
import shutil
import subprocess

import lib
from lib import sx, parse_sx
from gen import versions, pep440gen

SYS = 6
TWO63 = 1 << 63

# witnesses of the known finding classes (also seeds of the pools)
C02_SEEDS = [b"1.0a1.post0", b"1.0a1", b"1.0.post1+a", b"1.0.post1+b", b"1.0.dev0+x", b"1.0.dev0",
             b"3.10rc2", b"3.10rc2.dev0+a", b"1.0+ABC", b"1.0+abc", b"10A1-dev1", b"2_A.1", b"10a1.dev1",
             b"1.0", b"1.0.0", b"1", b"1.0.post0", b"1.0+1", b"1.0+01", b"1.0+a.1", b"1.0+a", b"1!0.5",
             b"1.0a18446744073709551615", b"1.0a2", b"256!1", b"9223372036854775807", b"1.0+18446744073709551616",
             b"1.0+18446744073709551615", b"1.0b1+x", b"1.0b1.post1"]
C10_SEEDS = [b"1.*.2", b"1.*", b"1.*.3", b"1a18446744073709551615", b"1.post18446744073709551615",
             b"1.dev9223372036854775809", b"1a9223372036854775808", b"0!1", b"1.0+A-b_c", b"1.\xe2\x88\x9e",
             b"01!\xe2\x88\x9e", b"00!\xe2\x88\x9e.1", b"12!\xe2\x88\x9e", b"1.0+Ubuntu1", b"1.0.post", b"1.0-1", b"v1.0", b"1.0 ", b"1.0\xc2\xa0", b"1.2.3.4.*", b"1.0rc", b"1.0c5", b"01.002"]


PYPI_FINDINGS = ("F-C02-2", "F-C02-21", "F-C02-22", "F-C10-21", "F-C10-22", "F-C10-23")


def _open_known(ctx):
    return {k["id"]: k for k in lib.load_known(ctx.pid) if k.get("status") == "open"}


def _hit(ctx, known, fid, what, inp, observed=None, required=None):
    """record an oracle hit: instance of an open known finding, or a violation"""
    if fid and fid in known:
        ctx.known_hits[fid] = ctx.known_hits.get(fid, 0) + 1
    else:
        ctx.violation(what, inp, observed=observed, required=required)


def _strings(ctx, n, mix):
    rng = ctx.rng
    out = set()
    tries = 0
    while len(out) < n and tries < n * 30:
        tries += 1
        r = rng.random()
        acc = 0.0
        for p, g in mix:
            acc += p
            if r < acc:
                out.add(g(rng))
                break
    return sorted(out)


def parse_correspondence(ctx, strs, label):
    """Go Parse vs model parser: accept/reject and every field of the parsed structure"""
    o1 = ctx.impl("sv_parse", [sx([SYS, s]) for s in strs])
    o2 = ctx.model("svm_parse_pypi", [sx([s]) for s in strs])
    ctx.count("corr:%s" % label, len(strs))
    nd = 0
    acc = 0
    for s, x, y in zip(strs, o1, o2):
        if x.startswith('("ok"'):
            acc += 1
            ctx.nontriv(("pypi-parse", s))
        if x != y:
            nd += 1
            if nd <= 30:
                ctx.divergence("svm_parse_pypi", {"string": s}, x, y)
    ctx.count("%s:accepted" % label, acc)
    return o1


# ----------------------------------------------------------------------------------------- C01

def c01(ctx):
    mix = [(0.35, pep440gen.edge), (0.3, pep440gen.grammar), (0.2, versions.pep440), (0.15, lambda r: versions.malformed(r, SYS))]
    strs = _strings(ctx, ctx.scale(6000, 120000), mix)
    parse_correspondence(ctx, strs, "pypi-parse")
    # pools with the edge shapes (wildcards, infinity, 64-bit boundaries) through Go's Compare
    npools = ctx.scale(2, 20)
    size = ctx.scale(120, 240)
    pools = []
    for _ in range(npools):
        pool = set(C02_SEEDS[:12] + C10_SEEDS[:8])
        tries = 0
        while len(pool) < size and tries < size * 30:
            tries += 1
            r = ctx.rng.random()
            pool.add(pep440gen.edge(ctx.rng) if r < 0.3 else pep440gen.grammar(ctx.rng, 0.35))
        pools.append(sorted(s for s in pool if len(s) < 300))
    outs = ctx.impl("sv_pool", [sx([SYS, p]) for p in pools], shards=min(16, len(pools)))
    model_args, expect = [], []
    for pool, line in zip(pools, outs):
        parsed, m, unstable, laws = parse_sx(line)
        okidx = [i for i, p in enumerate(parsed) if p[0] == b"ok"]
        strs2 = [pool[i] for i in okidx]
        dumps = [parsed[i][1] for i in okidx]
        n = len(strs2)
        ctx.count("pypi-pool:strings", len(pool))
        ctx.count("pypi-pool:accepted", n)
        ctx.evaluations += n * n
        for (i, j) in unstable:
            ctx.violation("PyPI: Compare gives different results for the same pair in a different call order",
                          {"system": "PyPI", "a": strs2[i], "b": strs2[j]})
        for law in laws:
            kind, i, j, k = law[0].decode(), law[1], law[2], law[3]
            what = {"refl": "not reflexive", "antisym": "not sign-antisymmetric", "trans": "not transitive",
                    "congr": "two versions compare equal but compare differently against a third"}[kind]
            ctx.violation("PyPI: comparison is %s" % what,
                          {"system": "PyPI", "a": strs2[i], "b": strs2[j], "c": strs2[k]},
                          observed={"cmp(a,b)": m[i * n + j], "cmp(b,c)": m[j * n + k], "cmp(a,c)": m[i * n + k]},
                          required="total preorder laws")
        for i in range(n):
            for j in range(n):
                model_args.append(sx([dumps[i], dumps[j]]))
                expect.append((strs2[i], strs2[j], m[i * n + j]))
    mo = ctx.model("svm_cmp", model_args)
    ctx.count("corr:pypi-svm_cmp", len(model_args))
    nd = 0
    for (a, b, c), line in zip(expect, mo):
        if line != '("ok" %d)' % c:
            nd += 1
            if nd <= 30:
                ctx.divergence("svm_cmp", {"system": "PyPI", "a": a, "b": b}, c, line)


# ----------------------------------------------------------------------------------------- C02

def _sign(x):
    return (x > 0) - (x < 0)


def _packaging(ctx, strs, spec_lines):
    """optional: the Gallina reference against packaging.version.Version on the same strings"""
    exe = shutil.which("python3-vt")
    if not exe:
        ctx.notes.append("pypi: reference implementation (packaging via python3-vt) not available: Gallina spec not re-validated on this run")
        return
    prog = r'''
import sys, json
try:
    from packaging.version import Version, InvalidVersion
    import packaging
except Exception as e:
    print(json.dumps({"unavailable": str(e)})); sys.exit(0)
out = []
for line in sys.stdin:
    s = bytes.fromhex(line.strip()).decode("ascii")
    try:
        v = Version(s); k = v._key
        out.append([str(v), [k[0], list(k[1]), list(k[2]), len(k) > 3, [list(x) for x in (k[3] if len(k) > 3 else [])]]])
    except InvalidVersion:
        out.append(None)
print(json.dumps({"version": packaging.__version__, "out": out}))
'''
    idx = [i for i, s in enumerate(strs) if all(c < 128 for c in s) and len(s) < 1000]
    try:
        p = subprocess.run([exe, "-c", prog], input="\n".join(strs[i].hex() for i in idx).encode(),
                           stdout=subprocess.PIPE, stderr=subprocess.PIPE, timeout=600)
        res = json.loads(p.stdout.decode())
    except Exception as e:  # noqa: BLE001
        ctx.notes.append("pypi: packaging run failed (%s): Gallina spec not re-validated on this run" % e)
        return
    if "unavailable" in res or not hasattr(res.get("out"), "__len__") or len(res["out"]) != len(idx):
        ctx.notes.append("pypi: packaging not importable (%s): Gallina spec not re-validated on this run" % res.get("unavailable"))
        return
    nd = 0
    for i, r in zip(idx, res["out"]):
        m = parse_sx(spec_lines[i])
        if m[0] == b"rej":
            mine = None
        else:
            key = m[4]
            mine = [m[1].decode("ascii"), [key[0], key[1], key[2], bool(key[3]), [[x[0], x[1].decode("ascii")] for x in key[4]]]]
        if mine != r:
            nd += 1
            if nd <= 20:
                ctx.divergence("spec_vs_packaging", {"string": strs[i]}, r, mine)
    ctx.count("spec-vs-packaging:strings", len(idx))
    ctx.notes.append("pypi: Gallina reference re-validated against packaging %s on %d strings (accept/reject, normal form, _key): %d differences"
                     % (res.get("version"), len(idx), nd))


def _normal_is_big(normal):
    """the normalised form has an epoch above 255 or a release number >= 2^63-1 (F-C02-21)"""
    s = normal
    ep = 0
    if b"!" in s:
        e, s = s.split(b"!", 1)
        ep = int(e)
    rel = s
    for stop in (b"a", b"b", b"rc", b".post", b".dev", b"+"):
        rel = rel.split(stop, 1)[0]
    nums = [int(x) for x in rel.split(b".") if x.isdigit()]
    return ep > 255 or any(n >= TWO63 - 1 for n in nums)


def c02(ctx):
    known = _open_known(ctx)
    rng = ctx.rng
    npools = ctx.scale(4, 40)
    size = ctx.scale(130, 260)
    pools = []
    for _ in range(npools):
        pool = set(C02_SEEDS)
        bases = [pep440gen.base_release(rng, 0.1) for _ in range(3)]
        tries = 0
        while len(pool) < size and tries < size * 30:
            tries += 1
            r = rng.random()
            if r < 0.6:
                # clusters: many versions of the same release, so that the attachments decide
                pool.add(pep440gen.grammar(rng, 0.12, base=pick_base(rng, bases)))
            elif r < 0.72:
                pool.add(pep440gen.grammar(rng, 0.12))
            elif r < 0.87:
                pool.add(pep440gen.normal(rng))
            elif r < 0.96:
                pool.add(versions.pep440(rng, strict=rng.random() < 0.5))
            else:
                pool.add(pep440gen.edge(rng))
        pools.append(sorted(s for s in pool if len(s) < 300))
    go = ctx.impl("sv_pool", [sx([SYS, p]) for p in pools], shards=min(16, len(pools)))
    mo = ctx.model("svm_c02_pool", [sx([p]) for p in pools], shards=min(16, len(pools)))
    all_strs, all_spec = [], []
    normals = {}
    for pool, gl, ml in zip(pools, go, mo):
        parsed, gm, unstable, _laws = parse_sx(gl)
        spec, macc, smat, mmat = parse_sx(ml)
        all_strs += pool
        all_spec += [sx(x) for x in spec]
        gidx, sidx, midx = {}, {}, {}
        for i in range(len(pool)):
            if parsed[i][0] == b"ok":
                gidx[i] = len(gidx)
            if spec[i][0] == b"ok":
                sidx[i] = len(sidx)
            if macc[i] == b"ok":
                midx[i] = len(midx)
        n_go, n_sp, n_mo = len(gidx), len(sidx), len(midx)
        # model accepts exactly what Go accepts (parser correspondence)
        for i, s in enumerate(pool):
            if (parsed[i][0] == b"ok") != (macc[i] == b"ok"):
                ctx.divergence("svm_parse_pypi(accept)", {"string": s}, parsed[i][0], macc[i])
        both = [i for i in range(len(pool)) if i in sidx and i in gidx]
        ctx.count("c02-pool:strings", len(pool))
        ctx.count("c02-pool:spec-accepted", n_sp)
        ctx.count("c02-pool:go-accepted", n_go)
        ctx.count("c02-pool:both", len(both))
        for i in range(len(pool)):
            if spec[i][0] == b"ok":
                if not spec[i][3]:
                    ctx.divergence("spec_wf", {"string": pool[i]}, "well-formed reference version", sx(spec[i]))
                normals[spec[i][1]] = pool[i]
                if parsed[i][0] != b"ok" and spec[i][1] != pool[i]:
                    ctx.count("c02:reference-accepts-nonnormal-spelling-go-rejects")
        ctx.evaluations += len(both) * len(both)
        for i in both:
            ctx.nontriv(("c02", pool[i]))
            for j in both:
                sc = smat[sidx[i] * n_sp + sidx[j]]
                gc = _sign(gm[gidx[i] * n_go + gidx[j]])
                mc = mmat[midx[i] * n_mo + midx[j]] if (i in midx and j in midx) else None
                if mc is not None and mc != gc:
                    ctx.divergence("svm_cmp(c02)", {"a": pool[i], "b": pool[j]}, gc, mc)
                if gc != sc:
                    indom = bool(spec[i][2]) and bool(spec[j][2])
                    width = bool(spec[i][5]) and bool(spec[j][5])
                    ctx.count("c02:order-differs-from-reference")
                    fid = None
                    if mc is not None and mc != sc and not indom:
                        fid = "F-C02-2" if width else "F-C02-22"
                    _hit(ctx, known, fid,
                         "PyPI: ordering differs from PEP 440 (packaging)" + ("" if not indom else " inside the domain of C02_pypi_partial"),
                         {"system": "PyPI", "a": pool[i], "b": pool[j]}, observed=gc, required=sc)
                elif len(ctx.samples) < 3 and i != j and rng.random() < 0.001:
                    ctx.sample({"a": pool[i].decode("latin1"), "b": pool[j].decode("latin1"), "go": gc, "reference": sc})
    # normalised forms must be accepted
    nl = sorted(normals)
    outs = ctx.impl("sv_parse", [sx([SYS, s]) for s in nl])
    ctx.count("c02:normal-forms", len(nl))
    for s, line in zip(nl, outs):
        if not line.startswith('("ok"'):
            big = _normal_is_big(s)
            _hit(ctx, known, "F-C02-21" if big else None,
                 "PyPI: a version in packaging's normalised form is rejected by Parse",
                 {"system": "PyPI", "string": s, "normal form of": normals[s]}, observed="err", required="accepted")
    _packaging(ctx, all_strs, all_spec)
    _replay_known(ctx, known)


def pick_base(rng, bases):
    return bases[rng.randrange(len(bases))]


def _replay_known(ctx, known):
    """replay the recorded witnesses of the open findings on the Go code"""
    for fid, k in sorted(known.items()):
        if fid not in PYPI_FINDINGS:
            continue
        for w in k.get("witnesses", [k["witness"]] if "witness" in k else []):
            out = ctx.impl(w["kind"], [w["arg"]])[0]
            if out != w.get("failing_output"):
                ctx.notes.append("known finding %s: witness %s %s no longer gives the recorded output (now %s)"
                                 % (fid, w["kind"], w["arg"], out))


# ----------------------------------------------------------------------------------------- C10

def c10(ctx):
    known = _open_known(ctx)
    mix = [(0.4, lambda r: pep440gen.grammar(r, 0.25)), (0.25, versions.pep440), (0.25, pep440gen.edge), (0.1, pep440gen.normal)]
    strs = sorted(set(_strings(ctx, ctx.scale(8000, 150000), mix)) | set(C10_SEEDS))
    strs = [s for s in strs if len(s) < 2000]
    o1 = ctx.impl("sv_canon", [sx([SYS, s]) for s in strs])
    o2 = ctx.model("svm_canon_pypi", [sx([s]) for s in strs])
    ctx.count("corr:pypi-sv_canon", len(strs))
    dom = ctx.model("svm_c10_dom", [sx([s]) for s in strs])
    cv1 = ctx.impl("pypi_canonversion", [sx([s]) for s in strs])
    cv2 = ctx.model("svm_canonversion", [sx([s]) for s in strs])
    nd = 0
    groups = {}
    for s, x, y, d, c1, c2 in zip(strs, o1, o2, dom, cv1, cv2):
        if x != y:
            nd += 1
            if nd <= 30:
                ctx.divergence("svm_canon_pypi", {"string": s}, x, y)
        if c1 != c2:
            nd += 1
            if nd <= 30:
                ctx.divergence("svm_canonversion", {"string": s}, c1, c2)
        r = parse_sx(x)
        cv = parse_sx(c1)
        if r[0] != b"ok":
            if cv != s:
                ctx.violation("pypi.CanonVersion does not return an unparsable version unchanged", {"string": s}, observed=cv, required=s)
            continue
        ctx.nontriv(("c10", s))
        _dump, canon1, _canon0, re = r[1], r[2], r[3], r[4]
        indom = (d == "1")
        ctx.count("c10:accepted")
        if not indom:
            ctx.count("c10:outside-c10_pypi_dom")
        if cv != canon1:
            ctx.violation("pypi.CanonVersion differs from Canon(true) of the parsed version", {"string": s}, observed=cv, required=canon1)
        wild = -1 in _dump[4][:-1]
        inf_first = _dump[4][0] == TWO63 - 1
        fid = None if indom else ("F-C10-21" if wild else ("F-C10-23" if inf_first else "F-C10-22"))
        if re[0] != b"ok":
            _hit(ctx, known, fid, "PyPI: the canonical string does not parse", {"system": "PyPI", "string": s, "canon": canon1},
                 observed="err", required="parses")
            continue
        if re[2] != 0:
            _hit(ctx, known, fid, "PyPI: the canonical string parses to a version that does not compare equal to the original",
                 {"system": "PyPI", "string": s, "canon": canon1}, observed=re[2], required=0)
        if re[3] != canon1:
            _hit(ctx, known, fid, "PyPI: canonicalising the canonical string gives a different string",
                 {"system": "PyPI", "string": s, "canon": canon1}, observed=re[3], required=canon1)
        groups.setdefault(canon1, []).append((s, indom, wild))
        if len(ctx.samples) < 4:
            ctx.sample({"string": s.decode("latin1"), "canon": canon1.decode("latin1")})
    # two versions with the same canonical string compare equal
    args, meta = [], []
    for canon1, g in groups.items():
        for (s, indom, wild) in g[1:]:
            args.append(sx([SYS, g[0][0], s]))
            meta.append((g[0], (s, indom, wild), canon1))
    ctx.count("c10:same-canon-pairs", len(args))
    for (a, b, canon1), line in zip(meta, ctx.impl("sv_syscompare", args)):
        if line != "0":
            indom = a[1] and b[1]
            fid = None if indom else ("F-C10-21" if (a[2] or b[2]) else "F-C10-22")
            _hit(ctx, known, fid, "PyPI: two versions with the same canonical string do not compare equal",
                 {"system": "PyPI", "a": a[0], "b": b[0], "canon": canon1}, observed=int(line), required=0)
    _replay_known(ctx, known)
