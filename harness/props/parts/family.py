"""SemVer-family parts (Default, Cargo, Go, NPM, NuGet, Composer) of C01, C02, C10."""
from lib import sx, parse_sx
from gen import versions

FAMILY = [0, 1, 2, 4, 5, 8]


def c01(ctx):
    """parser correspondence: Go Parse vs the model's parser on generated and malformed strings"""
    rng = ctx.rng
    n = ctx.scale(1500, 40000)
    args = []
    for sysi in FAMILY:
        for _ in range(n):
            s = versions.gen(rng, sysi) if rng.random() < 0.6 else versions.malformed(rng, sysi)
            args.append(sx([sysi, s[:3000]]))
    o1, _ = ctx.correspond("sv_parse", args) if False else (None, None)
    impl = ctx.impl("sv_parse", args)
    model = ctx.model("svm_parse", args)
    import lib as _lib
    step = max(1, len(args) // 60)
    _lib.kernel_crosscheck(ctx, [("svm_parse", args[i], model[i]) for i in range(0, len(args), step)])
    nd = 0
    for a, x, y in zip(args, impl, model):
        if x != y:
            nd += 1
            if nd <= 30:
                ctx.divergence("sv_parse/svm_parse", a, x, y)
        if '"panic"' in x:
            ctx.violation("Parse panics", a, observed=x, required="value or error")
    ctx.count("corr:parse(family)", len(args))
    ctx.count("parse(family):accepted", sum(1 for x in impl if x.startswith('("ok"')))
    # structure invariant used by the theorems: family versions carry no extension
    for a, x in zip(args, impl):
        if x.startswith('("ok"') and not x.endswith('(0)))'):
            ctx.divergence("structure", a, x, "family version with an extension")


def _has_big(a, b):
    return any(p.isdigit() and int(p) > 2**63 - 1 for s in (a, b) if b"-" in s.split(b"+")[0]
               for p in s.split(b"+")[0].split(b"-", 1)[1].split(b"."))


def _precedence_int64_text(a, b):
    """SemVer 2.0 precedence of two strict strings, except that a numeric identifier that does not fit
    int64 is compared as text (and so ranks above every numeric identifier): the recorded finding F-C02-4"""
    def parse(s):
        s = s.split(b"+")[0]
        core, _, pre = s.partition(b"-")
        return [int(x) for x in core.split(b".")], (pre.split(b".") if pre else [])
    def ident(x):
        return (0, int(x), b"") if x.isdigit() and int(x) <= 2**63 - 1 else (1, 0, x)
    (na, pa), (nb, pb) = parse(a), parse(b)
    sgn = lambda x, y: (x > y) - (x < y)
    if na != nb:
        return sgn(na, nb)
    if not pa or not pb:
        return sgn(bool(pb), bool(pa))
    for x, y in zip(pa, pb):
        c = sgn(ident(x), ident(y))
        if c:
            return c
    return sgn(len(pa), len(pb))


def c02(ctx):
    """npm, Cargo, Go vs SemVer 2.0 precedence on strict strings; strict strings are accepted"""
    rng = ctx.rng
    npairs = ctx.scale(6000, 200000)
    for sysi in (4, 1, 2):
        name = versions.SYSTEMS[sysi]
        # most strings share one of a few numeric cores, so that the prerelease identifiers decide most comparisons
        shared_cores = [b".".join(rng.choice(versions.SMALL) for _ in range(3)) for _ in range(4)]
        def strict_string():
            s = versions.semver_like(rng, sysi, strict=True)
            if rng.random() < 0.7:
                body = s[1:] if s.startswith(b"v") else s
                rest = body[len(body.split(b"-")[0].split(b"+")[0]):]
                s = (b"v" if s.startswith(b"v") else b"") + rng.choice(shared_cores) + rest
            return s
        pool = sorted({strict_string() for _ in range(ctx.scale(400, 3000))} |
                      {b"1.0.0--5", b"1.0.0-1", b"1.0.0-alpha.beta", b"1.0.0-alpha.1", b"1.0.0-rc.1", b"1.0.0",
                       b"1.0.0-99999999999999999999", b"1.0.0-100000000000000000000", b"1.0.0-a-b", b"1.0.0-0",
                       b"1.0.0-18446744073709551617", b"1.0.0-18446744073709551616", b"1.0.0-2", b"1.0.0-36893488147419103233",
                       b"1.0.0-9223372036854775807", b"1.0.0-9223372036854775808", b"1.0.0-x.18446744073709551617", b"1.0.0-x.2"})
        strip = (lambda s: s[1:] if s.startswith(b"v") else s)
        if sysi == 2:
            pool = [s if s.startswith(b"v") else b"v" + s for s in pool]
        ok = ctx.model("spec_semver_ok", [sx(strip(s)) for s in pool])
        strict = [s for s, o in zip(pool, ok) if o == "1"]
        ctx.count("c02:%s:strict_strings" % name, len(strict))
        acc = ctx.impl("sv_parse", [sx([sysi, s]) for s in strict])
        for s, a in zip(strict, acc):
            if not a.startswith('("ok"'):
                ctx.violation("%s: a version in SemVer 2.0 normal form is rejected" % name, {"system": name, "version": s}, observed=a)
        pairs = [(rng.choice(strict), rng.choice(strict)) for _ in range(npairs)]
        got = ctx.impl("sv_syscompare", [sx([sysi, a, b]) for a, b in pairs])
        want = ctx.model("spec_semver_cmp", [sx([strip(a), strip(b)]) for a, b in pairs])
        for (a, b), g, w in zip(pairs, got, want):
            if w != '("ok" %s)' % g:
                # F-C02-4 is the class "an identifier of digits beyond int64 is text": a disagreement is an instance of
                # it only when Go gives exactly the answer of SemVer precedence with that one rule changed
                if str(_precedence_int64_text(strip(a), strip(b))) == g and _has_big(a, b):
                    ctx.known_hits["F-C02-4"] = ctx.known_hits.get("F-C02-4", 0) + 1
                else:
                    ctx.violation("%s: ordering differs from SemVer 2.0 precedence" % name,
                                  {"system": name, "a": a, "b": b}, observed=g, required=w)
            ctx.nontriv((sysi, a, b))
        core = lambda s: strip(s).split(b"+")[0].split(b"-")[0]
        ctx.count("c02:%s:pairs_decided_by_prerelease" % name,
                  sum(1 for a, b in pairs if core(a) == core(b) and b"-" in a.split(b"+")[0] and b"-" in b.split(b"+")[0]))
        ctx.count("c02:%s:pairs" % name, len(pairs))
        if pairs:
            ctx.sample({"system": name, "a": pairs[0][0], "b": pairs[0][1], "go": got[0], "spec": want[0]})


def _c10_dom(dump):
    """c10_family_dom of coq/Semver/ParseRoundtrip_proofs.v on a dumped version: no wildcard, or a
    wildcard version without prerelease whose numbers after the first wildcard are zero"""
    nums, pre = dump[4], dump[5]
    if -1 not in nums:
        return True
    i = nums.index(-1)
    return len(pre) == 0 and all(x == 0 for x in nums[i + 1:])


def _c10_hit(ctx, fid, what, inp, observed=None, required=None):
    import lib as _lib
    known = {k["id"] for k in _lib.load_known(ctx.pid) if k.get("status") == "open"}
    if fid in known:
        ctx.known_hits[fid] = ctx.known_hits.get(fid, 0) + 1
    else:
        ctx.violation(what, inp, observed=observed, required=required)


def c10(ctx):
    rng = ctx.rng
    n = ctx.scale(2500, 60000)
    for sysi in FAMILY:
        name = versions.SYSTEMS[sysi]
        strs = sorted({versions.gen(rng, sysi) for _ in range(n)} | {b"1.*", b"1.x", b"*", b"1.2.*", b"v1.2.3-A.b+B",
                                                                     b"1.*.3", b"1.*-a", b"1.x.0", b"1.*.*", b"*-a+b"})
        # related spellings of every fifth string (zero padding, leading zeros, case, build tags): versions that
        # share a canonical string on purpose, for the clause "same canonical string => compare equal"
        extra = set()
        for s in strs[::5]:
            extra.update(v for v in versions.variants(rng, sysi, s) if len(v) < 200)
        strs = sorted(set(strs) | extra)
        outs = ctx.impl("sv_canon", [sx([sysi, s]) for s in strs])
        # the build-less canonical form obeys the same clauses
        outs0 = ctx.impl("sv_canon0", [sx([sysi, s]) for s in strs])
        for s, o in zip(strs, outs0):
            r0 = parse_sx(o)
            if r0[0] != b"ok":
                continue
            if r0[2][0] != b"ok":
                ctx.violation("%s: the build-less canonical string does not parse" % name, {"system": name, "version": s, "canon": r0[1]})
            elif r0[2][2] != r0[1]:
                ctx.violation("%s: canonicalising the build-less canonical string again changes it" % name,
                              {"system": name, "version": s, "canon": r0[1], "canon2": r0[2][2]})
            elif r0[2][1] != 0:
                ctx.count("c10:%s:canon0_reparse_differs(judged with canon1)" % name)
        margs, mwant = [], []
        bycanon = {}
        outdom = set()
        acc = 0
        for s, o in zip(strs, outs):
            r = parse_sx(o)
            if r[0] != b"ok":
                continue
            acc += 1
            _, dump, c1, c0, re = r
            ctx.nontriv((sysi, s))
            margs.append(sx([dump, 1])); mwant.append((s, c1))
            margs.append(sx([dump, 0])); mwant.append((s, c0))
            if re[0] != b"ok":
                ctx.violation("%s: canonical string does not parse" % name, {"system": name, "version": s, "canon": c1})
                continue
            _, dump2, cmp_, c2 = re
            if not _c10_dom(dump):
                outdom.add(s)
                if cmp_ == 0:   # C10_family_reparse_exact: outside the domain the clause fails
                    ctx.divergence("c10 domain", {"system": name, "version": s}, "cmp 0", "non-zero by C10_family_reparse_exact")
            if cmp_ != 0:
                if s in outdom:
                    _c10_hit(ctx, "F-C10-24", "%s: canonical string denotes a different version" % name,
                             {"system": name, "version": s, "canon": c1}, observed=cmp_, required=0)
                else:
                    ctx.violation("%s: canonical string denotes a different version" % name,
                                  {"system": name, "version": s, "canon": c1}, observed=cmp_, required=0)
            if c2 != c1:
                ctx.violation("%s: canonicalising again changes the string" % name,
                              {"system": name, "version": s, "canon": c1, "canon2": c2})
            bycanon.setdefault(c1, []).append(s)
        ctx.count("c10:%s:accepted" % name, acc)
        # same canonical string => compare equal
        pairs = []
        for c, ss in bycanon.items():
            for x in ss[1:]:
                pairs.append((ss[0], x))
        res = ctx.impl("sv_syscompare", [sx([sysi, a, b]) for a, b in pairs])
        for (a, b), r in zip(pairs, res):
            if r != "0":
                if a in outdom or b in outdom:
                    _c10_hit(ctx, "F-C10-24", "%s: two versions with the same canonical string compare different" % name,
                             {"system": name, "a": a, "b": b}, observed=r, required=0)
                else:
                    ctx.violation("%s: two versions with the same canonical string compare different" % name,
                                  {"system": name, "a": a, "b": b}, observed=r, required=0)
        ctx.count("c10:%s:same_canon_pairs" % name, len(pairs))
        mo = ctx.model("svm_canon", margs)
        nd = 0
        for (s, want), got in zip(mwant, mo):
            if got != sx(want):
                nd += 1
                if nd <= 20:
                    ctx.divergence("svm_canon", {"system": name, "version": s}, sx(want), got)
        ctx.count("corr:svm_canon:%s" % name, len(margs))
        if strs:
            ctx.sample({"system": name, "version": strs[0], "sv_canon": outs[0][:200]})
