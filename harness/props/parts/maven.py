"""Maven parts of C01, C02, C10 (DESIGN 6.4, 8).

Model: coq/Semver/MavenParse.v (parser), Maven.v (comparator, canon), MavenDomain.v (D_mvn),
Spec/MavenSpec.v (ComparableVersion 3.8.x).  Theorems: Properties/C01_maven.v, C02_maven.v, C10_maven.v.
"""
from lib import sx, parse_sx
from gen import versions
from props.parts import _mg_common as mg

SYS = 3
NAME = "Maven"

# known classes (ids must be open entries of known/Cxx.jsonl to be counted instead of reported)
F_C02_ZERO = "F-C02-11"     # 00 is not trimmed like 0
F_C02_NULLDASH = "F-C02-15"  # a null element that opens a sub-list, directly before -SNAPSHOT
F_C02_DOTQUAL = "F-C02-24"  # a qualifier attached by '.' next to trimmed zeros
F_C10_LEADSEP = "F-C10-2"  # canon drops the separator of the first element


import re
_NULL_DASH = re.compile(rb"^\d+(\.\d+)*(-?(ga|final|release)|-?[a-z_]+-?0+)-snapshot$")


def null_before_snapshot(s):
    """a release-equivalent qualifier, or a number 0 attached by '-' or directly, right before -SNAPSHOT: ComparableVersion
    keeps an (emptied) nesting level there (1-final-SNAPSHOT > 1-SNAPSHOT), deps.dev trims it away"""
    return _NULL_DASH.match(s.lower()) is not None


# ----------------------------------------------------------------------------- generators

def wide(rng):
    """the proved domain d_mvn_wide: numeric prefix then any number of '-'-attached tokens or '.'-attached numbers"""
    n = rng.choice([1, 2, 2, 3, 3])
    s = b".".join(versions.num(rng, True) for _ in range(n))
    for _ in range(rng.randrange(0, 5)):
        r = rng.random()
        if r < 0.5:
            s += rng.choice([b"-", b"-", b""]) + versions.pick(rng, versions.MVN_QUAL)
        elif r < 0.8:
            s += b"-" + versions.pick(rng, versions.SMALL + versions.LEADZ[:2])
        else:
            s += b"." + versions.pick(rng, [b"1", b"2", b"10", b"00", b"01"])
    return s


def tricky():
    return [b"", b"-", b".", b"-1", b".1", b"1-", b"1.", b"1..2", b"1--2", b"1.0", b"1.00", b"1.0.0", b"1.0.00", b"00", b"0",
            b"1-ga", b"1-ga-1", b"1.ga.1", b"1-ga.1", b"1-ga.0", b"1-final-SNAPSHOT", b"1.0-release1", b"1a1", b"1-a-1",
            b"1.a1", b"1.m2", b"1b", b"1-b.2", b"1.0-alpha-0", b"1.0-alpha.0-SNAPSHOT", b"1.0-alpha-00", b"1_1", b"_",
            b"1.0.0.Beta1", b"1.x", b"2..milestone", b"2.m-foo", b"0.x", b"0.0.alpha", b"1.0-SP", b"1.0-sp1", b"1.0-cr1",
            b"1.0-RC1", b"9223372036854775806", b"9223372036854775807", b"1.9223372036854775807-x", b"1.0-x-9223372036854775808",
            b"\xe2\x88\x9e", b"1.\xe2\x88\x9e", b"\xe2\x88\x9e1", b"1\xe2\x88\x9e", b"a\xe2\x88\x9eb", b"1+2", b"1 2", b"1\t", b"v1",
            b"1.0-alpha-1-SNAPSHOT", b"1.0.0-SNAPSHOT", b"1-snapshot-snapshot", b"0.0.0", b"0-0", b"0.0-0.0", b"1-0.1"]


def strings_for_parse(ctx):
    rng = ctx.rng
    n = ctx.scale(1500, 30000)
    out = list(tricky())
    for _ in range(n):
        r = rng.random()
        if r < 0.35:
            out.append(versions.maven_domain(rng))
        elif r < 0.55:
            out.append(wide(rng))
        elif r < 0.8:
            out.append(versions.maven_exotic(rng))
        else:
            out.append(versions.malformed(rng, SYS))
    return mg.uniq(out)


def domain_flags(ctx, strings):
    """svm_dmvn: (d_mvn on elements, c02 sub-domain on elements, d_mvn on the string, c02 on the string)"""
    out = ctx.model("svm_dmvn", [sx([s]) for s in strings])
    res = {}
    for s, l in zip(strings, out):
        v = parse_sx(l)
        res[s] = None if v and v[0] == b"err" else tuple(v)
    return res


def check_domain_agreement(ctx, flags):
    """every string of the string formulation of D_mvn must parse to an element list of D_mvn (the hypothesis of the
    theorems); the converse fails only for exotic spellings of the same element lists (1- and 1..2 parse like 1 and 1.0.2)"""
    for s, f in flags.items():
        if f is None:
            continue
        if (f[2] and not f[0]) or (f[3] and not f[1]):
            ctx.divergence("svm_dmvn", {"str": s, "what": "a string of D_mvn parses to an element list outside D_mvn"},
                           "elements: %s %s" % (f[0], f[1]), "string: %s %s" % (f[2], f[3]))
        elif f[0] and not f[2]:
            ctx.count("maven:dmvn:exotic-spelling-of-domain-elements")


# ----------------------------------------------------------------------------- C01

def c01(ctx):
    rng = ctx.rng
    strings = strings_for_parse(ctx)
    mg.parse_correspondence(ctx, SYS, NAME, "svm_parse_maven", strings, "maven")
    flags = domain_flags(ctx, strings)
    check_domain_agreement(ctx, flags)
    gen_dom = [versions.maven_domain(rng) for _ in range(ctx.scale(400, 4000))]
    gf = domain_flags(ctx, mg.uniq(gen_dom))
    for s, f in gf.items():
        if f is not None and not f[0]:
            ctx.divergence("svm_dmvn", {"str": s, "what": "generator maven_domain produced a string outside D_mvn"}, "generated", str(f))
    ctx.count("maven:dmvn:in", sum(1 for f in flags.values() if f and f[0]))
    ctx.count("maven:dmvn:out", sum(1 for f in flags.values() if f and not f[0]))
    # law oracle on the wider proved domain (the lead's driver covers maven_domain pools)
    npools = ctx.scale(2, 10)
    size = ctx.scale(90, 220)
    for _ in range(npools):
        pool = set([b"1", b"1.0", b"1.00", b"1-sp", b"1-foo", b"1-1", b"1-ga-1", b"1-alpha-1-beta-2", b"1.0.1-rc-SNAPSHOT-2"])
        tries = 0
        while len(pool) < size and tries < size * 30:
            tries += 1
            pool.add(wide(rng))
        pool = sorted(pool)
        wf = domain_flags_wide(ctx, pool)
        pool = [s for s in pool if wf.get(s)]
        strs, dumps, m, unstable, laws = mg.pool_matrix(ctx, SYS, pool)
        n = len(strs)
        ctx.evaluations += n * n
        ctx.count("maven:wide-pool:strings", n)
        for s in strs:
            ctx.nontriv((SYS, "wide", s))
        for (i, j) in unstable:
            ctx.violation("Maven: Compare gives different results for the same pair in a different call order",
                          {"system": NAME, "a": strs[i], "b": strs[j]})
        for law in laws:
            kind, i, j, k = law[0].decode(), law[1], law[2], law[3]
            ctx.violation("Maven (domain d_mvn_wide): comparison is %s" % mg.LAW_TEXT[kind],
                          {"system": NAME, "a": strs[i], "b": strs[j], "c": strs[k]},
                          observed={"cmp(a,b)": m[i * n + j], "cmp(b,c)": m[j * n + k], "cmp(a,c)": m[i * n + k]},
                          required="total preorder laws")
        # correspondence of the whole pipeline parse+compare on strings
        pairs = [(strs[i], strs[j]) for i in range(n) for j in range(n)]
        mo = mg.model_pairs(ctx, "svm_cmp_maven", pairs)
        nd = 0
        for (a, b), r, idx in zip(pairs, mo, range(len(pairs))):
            if r != [b"ok", m[idx]]:
                nd += 1
                if nd <= 20:
                    ctx.divergence("svm_cmp_maven", {"a": a, "b": b}, m[idx], sx(r))
        ctx.count("corr:svm_cmp_maven", len(pairs))


def domain_flags_wide(ctx, strings):
    out = ctx.model("svm_dmvn_wide", [sx([s]) for s in strings])
    return {s: (parse_sx(l) == [1]) for s, l in zip(strings, out)}


# ----------------------------------------------------------------------------- C02

DOTTED_BAD = []
DOTTED_PAIRS = []


def c02_strings(ctx, n):
    rng = ctx.rng
    pool = set([b"1-final-SNAPSHOT", b"1-SNAPSHOT", b"1-alpha-0-SNAPSHOT", b"1-alpha-SNAPSHOT", b"0", b"0-alpha", b"0.0-x", b"0.1",
                b"1", b"1.0", b"1.0.0", b"1.1", b"1-alpha", b"1-a1", b"1-alpha-1", b"1.0-beta.2", b"1-rc", b"1-cr", b"1-SNAPSHOT",
                b"1-sp", b"1-sp-1", b"1-foo", b"1-foo-1", b"1-ga", b"1-final", b"1-release", b"1-rc-SNAPSHOT", b"1.01", b"1.00",
                b"1-alpha-01", b"1.0-m3", b"1.0-milestone-3", b"1.0-b2", b"1.10", b"1.2", b"2"])
    tries = 0
    while len(pool) < n and tries < n * 30:
        tries += 1
        pool.add(versions.maven_domain(rng, exclude_release_num=True))
    return sorted(pool)


def c02(ctx):
    rng = ctx.rng
    npools = ctx.scale(2, 12)
    size = ctx.scale(70, 160)
    ref_pairs = []
    for _ in range(npools):
        pool = c02_strings(ctx, size)
        flags = domain_flags(ctx, pool)
        check_domain_agreement(ctx, flags)
        pool = [s for s in pool if flags.get(s) and flags[s][1]]
        strs, dumps, m, unstable, laws = mg.pool_matrix(ctx, SYS, pool)
        n = len(strs)
        if n != len(pool):
            ctx.violation("Maven: a version of the reference grammar is rejected", {"system": NAME, "strings": [s for s in pool if s not in strs][:5]})
        pairs = [(strs[i], strs[j]) for i in range(n) for j in range(n)]
        spec = mg.model_pairs(ctx, "svm_spec_maven", pairs)
        ctx.evaluations += len(pairs)
        ctx.count("maven:c02:pairs", len(pairs))
        hits = []
        for idx, ((a, b), sp) in enumerate(zip(pairs, spec)):
            ctx.nontriv((SYS, "c02", a, b))
            if mg.sign(m[idx]) != sp[1]:
                hits.append((idx, a, b, m[idx], sp[1]))
        if hits:
            hp = [(a, b) for _, a, b, _, _ in hits]
            mod = mg.model_pairs(ctx, "svm_cmp_maven", hp)
            modfix = mg.model_pairs(ctx, "svm_cmp_maven_fix", hp)
            for (idx, a, b, g, sp), mo, mf in zip(hits, mod, modfix):
                model_disagrees = (mo[0] == b"ok" and mg.sign(mo[1]) != sp)
                fixed_agrees = (mf[0] == b"ok" and mg.sign(mf[1]) == sp)
                known = None
                if model_disagrees and (null_before_snapshot(a) or null_before_snapshot(b)):
                    known = F_C02_NULLDASH
                elif model_disagrees and fixed_agrees:
                    known = F_C02_ZERO
                ctx.violations.append({"what": "Maven: ordering differs from ComparableVersion (maven-artifact 3.8.x)",
                                       "input": {"system": NAME, "a": a, "b": b}, "observed": g, "required": sp,
                                       "kind": "oracle", "known": known})
        if len(ref_pairs) < ctx.scale(600, 6000):
            k = min(len(pairs), ctx.scale(300, 1500))
            ref_pairs += [pairs[rng.randrange(len(pairs))] for _ in range(k)]
        if len(ctx.samples) < 3 and n:
            ctx.sample({"system": NAME, "a": strs[0], "b": strs[-1], "go": m[n - 1], "spec": spec[n - 1][1]})
    c02_huge(ctx)
    DOTTED_BAD[:] = c02_dotted(ctx)
    # '.'-attached qualifiers: outside the proved domain and outside the validity region of Spec/MavenSpec.v (it is the
    # area in which ComparableVersion itself changed between Maven releases), so the reference is the INSTALLED
    # ComparableVersion.  The model of the library's comparison must give Go's answer on every pair; where Go and the
    # jar disagree and the model agrees with Go, the pair is an instance of the recorded class F-C02-24.
    mo = mg.model_pairs(ctx, "svm_cmp_maven", DOTTED_PAIRS)
    goj = ctx.impl("sv_syscompare", [sx([SYS, a, b]) for a, b in DOTTED_PAIRS])
    nd = 0
    for (a, b), g, m_ in zip(DOTTED_PAIRS, goj, mo):
        if not (m_[0] == b"ok" and mg.sign(m_[1]) == mg.sign(int(g))):
            nd += 1
            if nd <= 20:
                ctx.divergence("svm_cmp_maven(dotted qualifier)", {"a": a, "b": b}, g, sx(m_))
    jar = mg.comparable_version_ref(DOTTED_PAIRS)
    if jar is None:
        ctx.notes.append("Maven: '.'-attached qualifiers not compared with ComparableVersion on this run (java or maven-artifact jar absent)")
    else:
        ctx.evaluations += len(DOTTED_PAIRS)
        for (a, b), g, m_, r in zip(DOTTED_PAIRS, goj, mo, jar):
            if mg.sign(int(g)) != r:
                dotted = any(re.search(rb"\.[A-Za-z]", x) for x in (a, b))
                known = F_C02_DOTQUAL if (dotted and m_[0] == b"ok" and mg.sign(m_[1]) == mg.sign(int(g))) else None
                ctx.violations.append({"what": "Maven: ordering differs from the installed ComparableVersion (qualifier attached by '.')",
                                       "input": {"system": NAME, "a": a, "b": b}, "observed": int(g), "required": r,
                                       "kind": "oracle", "known": known})
        ctx.count("maven:c02:dotted:compared-with-jar", len(DOTTED_PAIRS))
        # the specification (ComparableVersion 3.8.x since the '.'-qualifier revision) must agree with the jar here too
        spd = mg.model_pairs(ctx, "svm_spec_maven", DOTTED_PAIRS)
        badd = [(a, b, sp[1], r) for (a, b), sp, r in zip(DOTTED_PAIRS, spd, jar) if sp[1] != r]
        ctx.count("maven:spec-vs-jar:dotted-pairs", len(DOTTED_PAIRS))
        ctx.count("maven:spec-vs-jar:dotted-mismatch", len(badd))
        for a, b, sp, r in badd[:10]:
            ctx.divergence("spec_maven_vs_jar", {"a": a, "b": b, "what": "Spec/MavenSpec.v differs from the installed ComparableVersion (qualifier attached by '.')"}, r, sp)
        # ... and on exotic strings (several qualifiers, empty components, digit/letter transitions)
        toks = [b"1", b"0", b"2", b"10", b".", b".", b"-", b"alpha", b"x", b"rc", b"1a", b"a1", b"sp", b"final", b"ga", b"SNAPSHOT", b"00", b"b", b"m"]
        ex = set()
        while len(ex) < ctx.scale(300, 1200):
            t = b"".join(rng.choice(toks) for _ in range(rng.randrange(1, 7)))
            if t and t[:1] != b"-":
                ex.add(t)
        ex = sorted(ex)
        exp = [(rng.choice(ex), rng.choice(ex)) for _ in range(ctx.scale(2000, 20000))]
        exj = mg.comparable_version_ref(exp)
        if exj is not None:
            exs = mg.model_pairs(ctx, "svm_spec_maven", exp)
            bade = [(a, b, sp[1], r) for (a, b), sp, r in zip(exp, exs, exj) if sp[1] != r]
            ctx.count("maven:spec-vs-jar:exotic-pairs", len(exp))
            ctx.count("maven:spec-vs-jar:exotic-mismatch", len(bade))
            for a, b, sp, r in bade[:10]:
                ctx.divergence("spec_maven_vs_jar", {"a": a, "b": b, "what": "Spec/MavenSpec.v differs from the installed ComparableVersion (exotic string)"}, r, sp)
    # tie between dotted strings and the structures of theorem C02_maven_dotted_partial
    # (strings whose dotted qualifier is last or directly followed by a digit: before a '-' or '.' ComparableVersion does
    # not open a sub-list for it -- 1.SP-SNAPSHOT is [1, sp, [snapshot]] -- which the element list cannot tell from 1.SP1)
    dstr = [x for x in mg.uniq([x for pr in DOTTED_PAIRS for x in pr])
            if re.match(rb"^[0-9]+(\.[0-9]+)*(\.[A-Za-z_]+([0-9].*)?)?$", x)]
    do = ctx.model("svm_maven_dot_tie", [sx([s]) for s in dstr])
    ndom = 0
    for s, l in zip(dstr, do):
        v = parse_sx(l)
        if v[0] == b"err" or not v[0]:
            continue
        ndom += 1
        if not v[1]:
            ctx.divergence("svm_maven_dot_tie", {"str": s, "what": "dashified element list does not stand for the ComparableVersion item tree of the string"}, "equal", l)
    ctx.count("maven:c02:dotted:tie:strings", len(dstr))
    ctx.count("maven:c02:dotted:tie:in-theorem-domain", ndom)
    # tie between strings and the structures of theorem C02_maven_partial
    tie_in = mg.uniq([versions.maven_domain(rng, exclude_release_num=True) for _ in range(ctx.scale(1500, 20000))])
    fl = domain_flags(ctx, tie_in)
    tie_in = [s for s in tie_in if fl.get(s) and fl[s][3] and not null_before_snapshot(s)]
    to = ctx.model("svm_maven_tie", [sx([s]) for s in tie_in])
    nin = 0
    for s, l in zip(tie_in, to):
        v = parse_sx(l)
        if v[0] == b"err":
            ctx.divergence("svm_maven_tie", {"str": s, "what": "string of the C02 domain not accepted by the model"}, "ok", l)
            continue
        nin += v[0]
        if not v[0]:
            # versions 0 and 0-qualifier (ComparableVersion drops the leading zero) are outside the theorem's domain
            if not v[2]:
                ctx.divergence("svm_maven_tie", {"str": s, "what": "element list of a C02-domain string is outside the domain of C02_maven_partial"}, "in domain", l)
            continue
        if not v[1]:
            ctx.divergence("svm_maven_tie", {"str": s, "what": "element list does not stand for the ComparableVersion item tree of the string"}, "equal", l)
    ctx.count("maven:c02:tie:strings", len(tie_in))
    ctx.count("maven:c02:tie:in-theorem-domain", nin)
    # the specification's own tie: Maven's ComparableVersion from the installed maven-artifact jar
    ref = mg.comparable_version_ref(ref_pairs)
    if ref is None:
        ctx.notes.append("Maven: spec not re-validated on this run (java or maven-artifact jar absent)")
    else:
        spec = mg.model_pairs(ctx, "svm_spec_maven", ref_pairs)
        bad = [(a, b, sp[1], r) for (a, b), sp, r in zip(ref_pairs, spec, ref) if sp[1] != r]
        ctx.count("maven:spec-vs-jar:pairs", len(ref_pairs))
        ctx.count("maven:spec-vs-jar:mismatch", len(bad))
        for a, b, sp, r in bad[:10]:
            ctx.divergence("spec_maven_vs_jar", {"a": a, "b": b, "what": "Spec/MavenSpec.v differs from the installed ComparableVersion on D_mvn"}, r, sp)


def c02_dotted(ctx):
    """a qualifier attached by '.' (JBoss/Spring style: 1.0.0.RC1, 5.0.0.CR1, 2.0.0.M2, 3.1.0.Final, 1.0.0.SNAPSHOT) is in the
    grammar of the property (numeric prefix + qualifier [+ number] [-SNAPSHOT]) though outside the proved domain D_mvn: compared
    with the specification pair by pair, against the same numbers written short and long and with '-'"""
    rng = ctx.rng
    quals = [b"RC", b"CR", b"M", b"Final", b"GA", b"SNAPSHOT", b"alpha", b"Beta", b"SP", b"jre", b"RELEASE", b"b", b"a", b"rc"]
    pool = set()
    for _ in range(ctx.scale(60, 400)):
        nums = [rng.choice([b"0", b"1", b"2", b"5", b"10"]) for _ in range(rng.choice([1, 2, 2, 3, 3]))]
        if rng.random() < 0.6:
            nums = nums[:1] + [b"0"] * (len(nums) - 1)
        core = b".".join(nums)
        q = rng.choice(quals)
        n = rng.choice([b"", b"1", b"2", b"7"]) if q not in (b"Final", b"GA", b"RELEASE", b"SNAPSHOT") else b""
        for c in {core, core + b".0", nums[0], b".".join(nums[:2])}:
            pool |= {c, c + b"." + q + n, c + b"-" + q + n}
            if rng.random() < 0.2 and q != b"SNAPSHOT":
                pool.add(c + b"." + q + n + b"-SNAPSHOT")
    pool = sorted(pool)
    acc = ctx.impl("sv_parse", [sx([SYS, s]) for s in pool])
    ok = [s for s, a in zip(pool, acc) if a.startswith('("ok"')]
    pairs = [(rng.choice(ok), rng.choice(ok)) for _ in range(ctx.scale(4000, 60000))]
    got = ctx.impl("sv_syscompare", [sx([SYS, a, b]) for a, b in pairs])
    spec = mg.model_pairs(ctx, "svm_spec_maven", pairs)
    bad = []
    for (a, b), g, sp in zip(pairs, got, spec):
        ctx.nontriv((SYS, "c02dot", a, b))
        if sp[0] == b"ok" and mg.sign(int(g)) != sp[1]:
            bad.append((a, b, int(g), sp[1]))
    ctx.count("maven:c02:dotted:strings", len(ok))
    ctx.count("maven:c02:dotted:pairs", len(pairs))
    DOTTED_PAIRS[:] = pairs
    return bad


def c02_huge(ctx):
    """numbers at and beyond the int64 range: ComparableVersion orders them by value (BigInteger); the library
    rejects a number >= 2^63-1 (known class F-C02-23).  Whatever it accepts must still be ordered by value."""
    H = [b"9223372036854775805", b"9223372036854775806", b"9223372036854775807", b"9223372036854775808", b"9223372036854775809",
         b"99999999999999999999", b"100000000000000000000"]
    shapes = [b"%s", b"1.0.%s", b"%s.1", b"1-rc%s", b"3.1-rc-%s", b"1.%s-SNAPSHOT", b"2.%s.0"]
    pool = sorted({sh % h for sh in shapes for h in H})
    acc = ctx.impl("sv_parse", [sx([SYS, s]) for s in pool])
    ok = [s for s, a in zip(pool, acc) if a.startswith('("ok"')]
    rej = [s for s in pool if s not in ok]
    for s in rej:
        if any(int(t) >= 2**63 - 1 for t in __import__("re").findall(rb"[0-9]+", s)):
            ctx.known_hits["F-C02-23"] = ctx.known_hits.get("F-C02-23", 0) + 1
        else:
            ctx.violation("Maven: a version of the reference grammar is rejected", {"system": NAME, "version": s})
    pairs = [(a, b) for a in ok for b in ok]
    got = ctx.impl("sv_syscompare", [sx([SYS, a, b]) for a, b in pairs])
    spec = mg.model_pairs(ctx, "svm_spec_maven", pairs)
    for (a, b), g, sp in zip(pairs, got, spec):
        if sp[0] == b"ok" and str(sp[1]) != g:
            ctx.violation("Maven: ordering of versions with large numbers differs from ComparableVersion (BigInteger order)",
                          {"system": NAME, "a": a, "b": b}, observed=g, required=sp[1])
    ctx.count("maven:c02:huge:accepted", len(ok))
    ctx.count("maven:c02:huge:rejected(F-C02-23)", len(rej))
    ctx.count("maven:c02:huge:pairs", len(pairs))


# ----------------------------------------------------------------------------- C10

def c10(ctx):
    rng = ctx.rng
    strings = list(tricky())
    for _ in range(ctx.scale(2500, 40000)):
        r = rng.random()
        if r < 0.45:
            strings.append(versions.maven_domain(rng))
        elif r < 0.65:
            strings.append(wide(rng))
        elif r < 0.9:
            strings.append(versions.maven_exotic(rng))
        else:
            strings.append(versions.malformed(rng, SYS))
    strings = mg.uniq(strings)
    go = ctx.impl("sv_canon", [sx([SYS, s]) for s in strings])
    mo = ctx.model("svm_canon_maven", [sx([s]) for s in strings])
    by_canon = {}
    nd = 0
    for s, g, m in zip(strings, go, mo):
        gv = parse_sx(g)
        if gv[0] != b"ok":
            proj = [b"err"]
        else:
            re = gv[4]
            proj = [b"ok", gv[2], ([b"ok", re[2], re[3]] if re[0] == b"ok" else [b"err"])]
        if '"oom"' in m:
            ctx.skipped_oom += 1
        elif parse_sx(m) != proj:
            nd += 1
            if nd <= 20:
                ctx.divergence("svm_canon_maven", {"str": s}, sx(proj), m)
        if gv[0] != b"ok":
            continue
        ctx.nontriv((SYS, "canon", s))
        canon, re = gv[2], gv[4]
        leadsep = s[:1] in (b".", b"-")
        known = F_C10_LEADSEP if leadsep else None
        if gv[3] != canon:
            ctx.violation("Maven: Canon(false) differs from Canon(true)", {"system": NAME, "str": s}, gv[3], canon)
        if re[0] != b"ok":
            ctx.violations.append({"what": "Maven: canonical string does not parse", "input": {"system": NAME, "str": s},
                                   "observed": canon, "required": "accepted", "kind": "oracle", "known": known})
            continue
        if re[2] != 0:
            ctx.violations.append({"what": "Maven: canonical string denotes a different version", "kind": "oracle", "known": known,
                                   "input": {"system": NAME, "str": s}, "observed": {"canon": canon, "cmp": re[2]}, "required": 0})
        if re[3] != canon:
            ctx.violations.append({"what": "Maven: canonicalising twice changes the string", "kind": "oracle", "known": known,
                                   "input": {"system": NAME, "str": s}, "observed": {"canon": canon, "canon2": re[3]}, "required": canon})
        by_canon.setdefault(canon, []).append(s)
    ctx.count("corr:svm_canon_maven", len(strings))
    # hypothesis of the round-trip theorem C10_maven_roundtrip_partial on every parsed element list
    po = ctx.model("svm_maven_printable", [sx([s]) for s in strings])
    npr = 0
    for s, l in zip(strings, po):
        v = parse_sx(l)
        if v and v[0] == b"err":
            continue
        npr += 1
        if v != [1]:
            ctx.divergence("svm_maven_printable", {"str": s, "what": "parsed element list outside the hypothesis of the round-trip theorem"}, "printable", l)
    ctx.count("maven:c10:printable-lists", npr)
    # canon-equal implies compare-equal
    groups = [v for v in by_canon.values() if len(v) > 1]
    ctx.count("maven:canon-groups", len(groups))
    rng.shuffle(groups)
    for grp in groups[:ctx.scale(150, 1500)]:
        grp = grp[:12]
        strs, dumps, m, unstable, laws = mg.pool_matrix(ctx, SYS, grp)
        n = len(strs)
        for i in range(n):
            for j in range(n):
                if m[i * n + j] != 0:
                    lead = strs[i][:1] in (b".", b"-") or strs[j][:1] in (b".", b"-")
                    ctx.violations.append({"what": "Maven: two versions with the same canonical string compare different", "kind": "oracle",
                                           "known": F_C10_LEADSEP if lead else None,
                                           "input": {"system": NAME, "a": strs[i], "b": strs[j]}, "observed": m[i * n + j], "required": 0})
    if len(ctx.samples) < 4:
        ctx.sample({"system": NAME, "str": strings[0], "go": go[0]})
