"""npm and Cargo parts of C02 against the ecosystems' REAL tools when they are installed: node-semver (as
bundled with npm) and the Rust crate semver (built offline from ~/.cargo/registry).  A missing tool skips
its part with a note; the systems stay covered by the SemVer specification (parts/family.py).

For every pair of strings that both the library and the tool accept the sign of Compare must equal the
tool's; the tool's normalised spelling of every version it accepts must be accepted by the library and
compare equal to the original.  Known classes: F-C02-4 (numeric prerelease identifiers beyond int64 are
text), F-C02-23 (a version number >= 2^63-1 is rejected)."""
import os
import sys
import lib
from lib import sx
from gen import versions
from props.parts.family import _precedence_int64_text, _has_big

sys.path.insert(0, os.path.join(lib.VERIF, "harness", "ref"))
import ordering_refs  # noqa: E402

NUM = [b"0", b"1", b"2", b"3", b"9", b"10", b"11", b"100", b"01", b"9007199254740991", b"9007199254740992", b"9223372036854775806",
       b"9223372036854775807", b"18446744073709551615", b"18446744073709551616"]
PRE = versions.PRE_WORDS + versions.PRE_NUMS + [b"9007199254740992", b"9007199254740993"]


def gen(rng, sysi):
    n = 3 if rng.random() < 0.9 else rng.choice([1, 2, 4])
    s = b".".join(rng.choice(NUM[:8]) if rng.random() < 0.88 else rng.choice(NUM) for _ in range(n))
    if rng.random() < 0.6:
        s += b"-" + b".".join(rng.choice(PRE) for _ in range(rng.choice([1, 1, 2, 3])))
    if rng.random() < 0.25:
        s += b"+" + rng.choice(versions.BUILD + [b"a.b", b"-", b"01"])
    if sysi == 4:
        r = rng.random()
        if r < 0.1:
            s = b"v" + s
        elif r < 0.13:
            s = rng.choice([b"=", b" ", b"=v", b"V"]) + s
        elif r < 0.15:
            s = s + b" "
    return s


def pool_for(ctx, sysi):
    rng = ctx.rng
    shared = [b".".join(rng.choice(NUM[:6]) for _ in range(3)) for _ in range(4)]
    pool = set()
    for _ in range(ctx.scale(900, 6000)):
        s = gen(rng, sysi)
        if rng.random() < 0.55:
            tail = s[s.index(b"-"):] if b"-" in s else b""
            s = rng.choice(shared) + tail
        pool.add(s)
    pool |= {b"1.0.0--5", b"1.0.0-1", b"1.0.0-alpha.beta", b"1.0.0-alpha.1", b"1.0.0-rc.1", b"1.0.0", b"1.0.0-a-b", b"1.0.0-0",
             b"1.0.0-99999999999999999999", b"1.0.0-100000000000000000000", b"1.0.0-18446744073709551617", b"1.0.0-2",
             b"1.0.0-9007199254740993", b"1.0.0-9007199254740992", b"1.0.0-x.9007199254740993", b"1.0.0+a", b"1.0.0+b"}
    return sorted(pool)


def big_number(s):
    core = s.lstrip(b"v=V ").split(b"+")[0].split(b"-")[0]
    return any(p.isdigit() and int(p) >= 2**63 - 1 for p in core.split(b"."))


def beyond_double(a, b):
    """some numeric prerelease identifier is above 2^53: node-semver compares such identifiers as doubles"""
    for s in (a, b):
        h = s.split(b"+")[0]
        if b"-" in h:
            for p in h.split(b"-", 1)[1].split(b"."):
                if p.isdigit() and int(p) > 2**53:
                    return True
    return False


def run_system(ctx, sysi, name, tool, toolname, strip):
    rng = ctx.rng
    pool = pool_for(ctx, sysi)
    r = tool(pool, [])
    if r is None:
        ctx.notes.append("%s is not available: comparison of %s with the real tool skipped" % (toolname, name))
        return
    ctx.evaluations += len(pool)
    norm = dict((s, n) for s, n in zip(pool, r[0]) if n is not None)
    valid = sorted(norm)
    ctx.count("c02:%s(%s):reference_accepts" % (name, toolname), len(valid))
    acc = ctx.impl("sv_parse", [sx([sysi, s]) for s in valid])
    both = [s for s, a in zip(valid, acc) if a.startswith('("ok"')]
    ctx.count("c02:%s(%s):accepted_by_both" % (name, toolname), len(both))
    nf = sorted(set(norm.values()))
    nacc = dict(zip(nf, ctx.impl("sv_parse", [sx([sysi, s]) for s in nf])))
    for s in nf:
        if not nacc[s].startswith('("ok"'):
            if big_number(s):
                ctx.known_hits["F-C02-23"] = ctx.known_hits.get("F-C02-23", 0) + 1
            else:
                ctx.violation("%s: a version in %s's normalised form is rejected" % (name, toolname),
                              {"system": name, "version": s}, observed=nacc[s])
    same = [(s, norm[s]) for s in both if norm[s] != s and nacc[norm[s]].startswith('("ok"')]
    res = ctx.impl("sv_syscompare", [sx([sysi, a, b]) for a, b in same])
    for (a, b), g in zip(same, res):
        if g != "0":
            ctx.violation("%s: a version and its normalised spelling compare different" % name,
                          {"system": name, "version": a, "normalised": b}, observed=g, required=0)
    pairs = [(rng.choice(both), rng.choice(both)) for _ in range(ctx.scale(8000, 250000))] if both else []
    got = ctx.impl("sv_syscompare", [sx([sysi, a, b]) for a, b in pairs])
    r = tool([], pairs)
    if r is None:
        ctx.notes.append("%s failed on the comparison batch" % toolname)
        return
    ctx.evaluations += len(pairs)
    for (a, b), g, w in zip(pairs, got, r[1]):
        w = w[0] if isinstance(w, tuple) else w
        if w is None:
            continue
        if str(w) != g:
            na, nb = strip(norm[a]), strip(norm[b])
            if _has_big(na, nb) and str(_precedence_int64_text(na, nb)) == g:
                ctx.known_hits["F-C02-4"] = ctx.known_hits.get("F-C02-4", 0) + 1
            elif sysi == 4 and beyond_double(na, nb):
                # node-semver reads numeric identifiers as doubles: above 2^53 its own answer is not SemVer's;
                # the exact comparison is decided by the specification part (parts/family.py)
                ctx.count("c02:npm(node-semver):identifier_beyond_2^53_not_compared", 1)
            else:
                ctx.violation("%s: ordering differs from %s" % (name, toolname), {"system": name, "a": a, "b": b},
                              observed=g, required=w)
        ctx.nontriv((sysi, a, b))
    ctx.count("c02:%s(%s):pairs" % (name, toolname), len(pairs))
    if pairs:
        ctx.sample({"system": name, "a": pairs[0][0], "b": pairs[0][1], "deps.dev": got[0], toolname: str(r[1][0])})


def c02(ctx):
    run_system(ctx, 4, "NPM", ordering_refs.node, "node-semver", lambda s: s)
    # Cargo: SemVer precedence (Version::cmp_precedence); Version::cmp additionally orders build metadata, which
    # neither SemVer nor this library does
    run_system(ctx, 1, "Cargo", ordering_refs.cargo, "rust-semver", lambda s: s)
