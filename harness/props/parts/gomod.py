"""Go part of C02 against the ecosystem's real reference tool: golang.org/x/mod/semver (pre-installed in the
module cache as a dependency of x/tools; built as build/refgomod).  When the module is absent the part is
skipped with a note and the Go system is still covered by the SemVer specification in parts/family.py.

For every pair of strings that both semver.Go and x/mod/semver accept, the sign of Go's Compare must equal
semver.Compare; semver.Canonical(v) of every valid v must be accepted and compare equal to v."""
import lib
from lib import sx, parse_sx
from gen import versions

GO = 2
NUM = [b"0", b"1", b"2", b"3", b"9", b"10", b"11", b"100", b"01", b"00", b"2147483648", b"9223372036854775806", b"9223372036854775807"]
PRE = versions.PRE_WORDS + versions.PRE_NUMS
BUILD = versions.BUILD + [b"a.b", b"0.1", b"-", b"a..b"]


def gen(rng):
    n = rng.choice([1, 2, 3, 3, 3, 3, 3, 4])
    s = b"v" + b".".join(rng.choice(NUM[:8]) if rng.random() < 0.85 else rng.choice(NUM) for _ in range(n))
    if rng.random() < 0.55:
        s += b"-" + b".".join(rng.choice(PRE) for _ in range(rng.choice([1, 1, 2, 3])))
    if rng.random() < 0.25:
        s += b"+" + rng.choice(BUILD)
    r = rng.random()
    if r < 0.05:
        s = s[1:]                   # no leading v
    elif r < 0.08:
        s = b"v" + s
    elif r < 0.1:
        s = b"V" + s[1:]
    return s


def c02(ctx):
    if not lib.build_ref_gomod():
        ctx.notes.append("golang.org/x/mod is not in the module cache: comparison with the real x/mod/semver skipped")
        return
    rng = ctx.rng
    shared = [b".".join(rng.choice(NUM[:6]) for _ in range(3)) for _ in range(4)]
    pool = set()
    for _ in range(ctx.scale(900, 6000)):
        s = gen(rng)
        if rng.random() < 0.5 and s.startswith(b"v"):
            tail = s[s.index(b"-"):] if b"-" in s else (s[s.index(b"+"):] if b"+" in s else b"")
            core = rng.choice(shared)
            if rng.random() < 0.2:
                core = core.rsplit(b".", rng.choice([1, 2]))[0]     # shorthand vMAJOR / vMAJOR.MINOR
            s = b"v" + core + tail
        pool.add(s)
    pool |= {b"v1", b"v1.0", b"v1.0.0", b"v1.2", b"v1.2.0", b"v1-pre", b"v1.2-pre", b"v1.2.3-pre", b"v1+b", b"v1.0.0-0", b"v1.0.0--",
             b"v1.0.0-01", b"v1.0.0-0a", b"v1.0.0-a.01", b"v1.0.0-rc.1", b"v1.0.0-RC.1", b"v1.0.0-rc.1+build", b"v01.0.0", b"v1.0.0-"}
    pool = sorted(pool)
    rc, ref, err = lib.run_side("refgomod", ["gomod_valid\t" + sx(s) for s in pool])
    if rc != 0 or len(ref) != len(pool):
        ctx.notes.append("refgomod failed: " + err[-200:])
        return
    ctx.evaluations += len(pool)
    valid, canon = [], {}
    for s, o in zip(pool, ref):
        r = parse_sx(o)
        if r[0] == b"ok":
            valid.append(s)
            canon[s] = r[1]
    ctx.count("c02:Go(x/mod):reference_accepts", len(valid))
    acc = ctx.impl("sv_parse", [sx([GO, s]) for s in valid])
    both = [s for s, a in zip(valid, acc) if a.startswith('("ok"')]
    ctx.count("c02:Go(x/mod):accepted_by_both", len(both))
    ctx.count("c02:Go(x/mod):reference_only", len(valid) - len(both))
    # the canonical form of every valid version is accepted and denotes the same version
    cf = sorted(set(canon.values()))
    cacc = ctx.impl("sv_parse", [sx([GO, s]) for s in cf])
    for s, a in zip(cf, cacc):
        if not a.startswith('("ok"'):
            big = any(p.isdigit() and int(p) >= 2**63 - 1 for p in s[1:].split(b"-")[0].split(b"."))
            if big:
                ctx.known_hits["F-C02-23"] = ctx.known_hits.get("F-C02-23", 0) + 1
                continue
            ctx.violation("Go: a version in x/mod/semver's canonical form is rejected", {"system": "Go", "version": s}, observed=a)
    same = [(s, canon[s]) for s in both if canon[s] != s and canon[s] in set(c for c, a in zip(cf, cacc) if a.startswith('("ok"'))]
    res = ctx.impl("sv_syscompare", [sx([GO, a, b]) for a, b in same])
    for (a, b), r in zip(same, res):
        if r != "0":
            ctx.violation("Go: a version and its x/mod/semver canonical form compare different",
                          {"system": "Go", "version": a, "canonical": b}, observed=r, required=0)
    pairs = [(rng.choice(both), rng.choice(both)) for _ in range(ctx.scale(8000, 250000))] if both else []
    got = ctx.impl("sv_syscompare", [sx([GO, a, b]) for a, b in pairs])
    rc, want, err = lib.run_side("refgomod", ["gomod_cmp\t" + sx([a, b]) for a, b in pairs])
    ctx.evaluations += len(pairs)
    from props.parts.family import _precedence_int64_text, _has_big
    for (a, b), g, w in zip(pairs, got, want):
        if w != '("ok" %s)' % g:
            full = lambda s: len(s.split(b"+")[0].split(b"-")[0].split(b".")) == 3
            if full(a) and full(b) and _has_big(a[1:], b[1:]) and str(_precedence_int64_text(a[1:], b[1:])) == g:
                ctx.known_hits["F-C02-4"] = ctx.known_hits.get("F-C02-4", 0) + 1
            else:
                ctx.violation("Go: ordering differs from golang.org/x/mod/semver", {"system": "Go", "a": a, "b": b}, observed=g, required=w)
        ctx.nontriv((GO, a, b))
    ctx.count("c02:Go(x/mod):pairs", len(pairs))
    ctx.count("c02:Go(x/mod):pairs_not_equal", sum(1 for g in got if g != "0"))
    if pairs:
        ctx.sample({"system": "Go", "a": pairs[0][0], "b": pairs[0][1], "deps.dev": got[0], "x/mod/semver": want[0]})
