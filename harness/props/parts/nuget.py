"""NuGet part of C02: semver.NuGet against NuGet's own comparer (coq/Spec/NuGetSpec.v, extracted).

Strings are drawn from NuGet's documented grammar (1-4 numeric components with optional leading
zeros, SemVer release labels in mixed case, numeric labels around the Int32 boundary, metadata).
For every pair that both the specification and Go accept, the sign of Go's Compare must equal the
specification's; the normalised string of every accepted version must be accepted by Go and
compare equal to the original.  Theorem tie: Properties/C02_nuget.v."""
from lib import sx, parse_sx
from gen import versions

NUGET = 5
COMP = [b"0", b"1", b"2", b"3", b"9", b"10", b"11", b"100", b"01", b"001", b"010", b"00", b"2147483647"]
WORDS = [b"alpha", b"Alpha", b"ALPHA", b"beta", b"Beta", b"rc", b"RC", b"Rc", b"a", b"A", b"b", b"B", b"z", b"Z", b"a-b", b"A-B",
         b"a1", b"A1", b"1a", b"x-y", b"X-Y", b"-", b"--", b"-a", b"-A", b"preview", b"Preview", b"a0", b"a-", b"A-"]
NUMLAB = [b"0", b"1", b"2", b"3", b"9", b"10", b"22", b"100", b"2147483647", b"2147483648", b"2147483649", b"9999999999",
          b"10000000000", b"9223372036854775807", b"9223372036854775808", b"99999999999999999999"]
META = [b"build", b"001", b"sha.5114f85", b"b-1", b"0", b"Build.7"]


def gen(rng):
    n = rng.choice([1, 2, 2, 3, 3, 3, 3, 4, 4])
    parts = [rng.choice(COMP[:8]) if rng.random() < 0.8 else rng.choice(COMP) for _ in range(n)]
    if n == 4 and rng.random() < 0.4:
        parts[3] = rng.choice([b"0", b"00"])
    s = b".".join(parts)
    if rng.random() < 0.6:
        k = rng.choice([1, 1, 2, 2, 3])
        s += b"-" + b".".join(rng.choice(WORDS) if rng.random() < 0.55 else rng.choice(NUMLAB) for _ in range(k))
    if rng.random() < 0.2:
        s += b"+" + rng.choice(META)
    return s


def cores(rng):
    """a few numeric cores shared by many strings, so that the labels decide the comparison"""
    return [b".".join(rng.choice(COMP[:6]) for _ in range(rng.choice([2, 3, 3, 4]))) for _ in range(4)]


def c02(ctx):
    rng = ctx.rng
    name = "NuGet"
    shared = cores(rng)
    pool = set()
    for _ in range(ctx.scale(700, 5000)):
        s = gen(rng)
        if rng.random() < 0.5:
            # re-use a shared core (also spelled with a trailing .0 / leading zeros)
            core = rng.choice(shared)
            if rng.random() < 0.3:
                core = rng.choice([core + b".0", b"0" + core, core.replace(b".", b".0", 1)])
            s = core + (s[s.index(b"-"):] if b"-" in s else b"")
        pool.add(s)
    pool |= {b"1.0.0-ALPHA", b"1.0.0-alpha", b"1.0", b"1.0.0.0", b"1.0.0.1", b"1.0.0-2147483648", b"1.0.0-3", b"1.0.0-22",
             b"1.0.0-9999999999", b"1.0.0-10000000000", b"1", b"1.00", b"1.01.1", b"1.0.0-a.B", b"1.0.0-A.b"}
    pool |= {s_.swapcase() for s_ in list(pool)[::3]} | {s_.upper() for s_ in list(pool)[::7]}
    pool = sorted(pool)
    norm = ctx.model("spec_nuget_norm", [sx(s) for s in pool])
    accepted, normal = [], {}
    for s, o in zip(pool, norm):
        r = parse_sx(o)
        if r[0] == b"ok":
            accepted.append(s)
            normal[s] = r[1]
    ctx.count("c02:%s:reference_accepts" % name, len(accepted))
    # normalised forms are accepted, and denote the same version
    nf = sorted(set(normal.values()))
    acc = ctx.impl("sv_parse", [sx([NUGET, s]) for s in nf])
    for s, a in zip(nf, acc):
        if not a.startswith('("ok"'):
            ctx.violation("%s: a version in the reference's normalised form is rejected" % name,
                          {"system": name, "version": s}, observed=a)
    goacc = ctx.impl("sv_parse", [sx([NUGET, s]) for s in accepted])
    both = [s for s, a in zip(accepted, goacc) if a.startswith('("ok"')]
    ctx.count("c02:%s:accepted_by_both" % name, len(both))
    ctx.count("c02:%s:reference_only" % name, len(accepted) - len(both))
    same = [(s, normal[s]) for s in both if normal[s] != s]
    res = ctx.impl("sv_syscompare", [sx([NUGET, a, b]) for a, b in same])
    for (a, b), r in zip(same, res):
        if r != "0":
            ctx.violation("%s: a version and its normalised string compare different" % name,
                          {"system": name, "version": a, "normalised": b}, observed=r, required=0)
    npairs = ctx.scale(8000, 250000)
    pairs = [(rng.choice(both), rng.choice(both)) for _ in range(npairs)] if both else []
    # equality under case folding and zero padding is a clause of its own: every string against its case-swapped
    # spelling and against the spelling with one more zero component (when both are accepted)
    bset = set(both)
    for s_ in both:
        for t_ in (s_.swapcase(), s_.upper(), (s_.split(b"-")[0].split(b"+")[0] + b".0" + s_[len(s_.split(b"-")[0].split(b"+")[0]):])):
            if t_ != s_ and t_ in bset:
                pairs.append((s_, t_))
    got = ctx.impl("sv_syscompare", [sx([NUGET, a, b]) for a, b in pairs])
    want = ctx.model("spec_nuget_cmp", [sx([a, b]) for a, b in pairs])
    for (a, b), g, w in zip(pairs, got, want):
        if w != '("ok" %s)' % g:
            ctx.violation("%s: ordering differs from NuGet's comparer" % name,
                          {"system": name, "a": a, "b": b}, observed=g, required=w)
        ctx.nontriv((NUGET, a, b))
    ctx.count("c02:%s:pairs" % name, len(pairs))
    ctx.count("c02:%s:pairs_not_equal" % name, sum(1 for g in got if g != "0"))
    if pairs:
        ctx.sample({"system": name, "a": pairs[0][0], "b": pairs[0][1], "go": got[0], "spec": want[0]})
