"""An independent evaluation of PEP 440 version specifiers on the version strings the C08 generator uses.

Transcribed from PEP 440 ("Version specifiers") and the behaviour of packaging.specifiers, not from deps.dev.
Domain: versions N(.N)*[{a|b|rc}N][.postN][.devN] (no epoch, no local segment), clauses
== != <= >= < > ~= === with such a version as operand (== and != also with a trailing .*), comma lists.
Everything else is outside the domain: the functions then return None and the caller abstains.
"""
import re

_V = re.compile(rb"^(\d+(?:\.\d+)*)(?:(a|b|rc)(\d+))?(?:\.post(\d+))?(?:\.dev(\d+))?$")
_CL = re.compile(rb"^\s*(===|==|!=|<=|>=|~=|<|>)\s*(.*?)\s*$")
INF = float("inf")


class Ver:
    __slots__ = ("release", "pre", "post", "dev", "text")

    def __init__(self, release, pre, post, dev, text):
        self.release, self.pre, self.post, self.dev, self.text = release, pre, post, dev, text

    @property
    def is_pre(self):           # packaging: is_prerelease = dev or pre
        return self.pre is not None or self.dev is not None

    @property
    def is_post(self):
        return self.post is not None

    def base(self):             # release with trailing zeros removed
        r = list(self.release)
        while len(r) > 1 and r[-1] == 0:
            r.pop()
        return tuple(r)

    def key(self):
        if self.pre is None and self.post is None and self.dev is not None:
            pre = (-INF, 0)
        elif self.pre is None:
            pre = (INF, 0)
        else:
            pre = ({b"a": 0, b"b": 1, b"rc": 2}[self.pre[0]], self.pre[1])
        post = -INF if self.post is None else self.post
        dev = INF if self.dev is None else self.dev
        return (self.base(), pre, post, dev)


def parse_version(s):
    m = _V.match(s)
    if not m:
        return None
    rel = tuple(int(x) for x in m.group(1).split(b"."))
    pre = (m.group(2), int(m.group(3))) if m.group(2) else None
    post = int(m.group(4)) if m.group(4) is not None else None
    dev = int(m.group(5)) if m.group(5) is not None else None
    return Ver(rel, pre, post, dev, s)


def parse_spec(text):
    """list of (op, operand Ver, wildcard) or None outside the domain; [] for the empty specifier"""
    if text.strip() == b"":
        return []
    out = []
    for part in text.split(b","):
        m = _CL.match(part)
        if not m:
            return None
        op, arg = m.group(1), m.group(2)
        if op == b"===":
            return None     # arbitrary equality is left out: deps.dev does not implement it (no version ever matches)
        wild = False
        if arg.endswith(b".*"):
            if op not in (b"==", b"!="):
                return None
            wild, arg = True, arg[:-2]
        v = parse_version(arg)
        if v is None:
            return None
        if wild and (v.pre or v.post is not None or v.dev is not None):
            return None
        if op == b"~=" and len(v.release) < 2:
            return None
        out.append((op, v, wild))
    return out


def _prefix(cand, spec):
    """release of cand, padded with zeros, starts with the release of spec"""
    n = len(spec.release)
    rel = tuple(cand.release) + (0,) * max(0, n - len(cand.release))
    return rel[:n] == tuple(spec.release)


def clause_holds(op, spec, wild, cand):
    ck, sk = cand.key(), spec.key()
    if op == b"===":
        return cand.text.lower() == spec.text.lower()
    if op == b"==":
        return _prefix(cand, spec) if wild else ck == sk
    if op == b"!=":
        if not wild and ck != sk and cand.base() == spec.base() and (cand.is_post or cand.is_pre):
            # deps.dev builds !=V as [0, V) and (V, inf] and applies the exclusions of <V and >V to the halves, so
            # it rejects the post-releases (and pre-releases) of V, which PEP 440 accepts: a class of the matcher
            # (property C03), left undecided here
            return None
        return not (_prefix(cand, spec) if wild else ck == sk)
    if op == b"<=":
        return ck <= sk
    if op == b">=":
        return ck >= sk
    if op == b"<":
        # exclusive: not a pre-release of the specified version unless that is itself a pre-release
        if not ck < sk:
            return False
        if not spec.is_pre and cand.is_pre and cand.base() == spec.base():
            return None if spec.is_post else False     # a pre-release of V against <V.postN: left undecided
        return True
    if op == b">":
        # exclusive: not a post-release of the specified version unless that is itself a post-release
        if not ck > sk:
            return False
        if not spec.is_post and cand.is_post and cand.base() == spec.base():
            return None if spec.is_pre else False      # a post-release of V against >V<pre>: left undecided
        return True
    if op == b"~=":
        head = Ver(spec.release[:-1], None, None, None, b"")
        return ck >= sk and _prefix(cand, head)
    raise ValueError(op)


def touching(spec):
    """two clauses of the specifier name the same version (`<V,>V`, `>=V,!=V`, ...): the recorded class F-C03-1a
    (a unit span keeps the point where two comparators meet); the caller abstains"""
    keys = [v.key() for _, v, _ in spec]
    return len(set(keys)) < len(keys)


def names_prerelease(spec):
    """the specifier itself admits pre-releases: a clause other than != names one (packaging: Specifier.prereleases)"""
    return any(op != b"!=" and v.is_pre for op, v, _ in spec)


def satisfies(spec_text, version_text, prereleases_admitted):
    """True/False: the version satisfies the specifier; None: outside the domain.
    A pre-release (or dev release) satisfies only when pre-releases are admitted: by the specifier itself, or by the
    caller (another requirement on the package names one: the resolver then matches with pre-releases admitted).
    The rule 'pre-releases are acceptable when nothing else matches' acts on candidate lists, not on one version, and
    is not applied here."""
    spec = parse_spec(spec_text)
    cand = parse_version(version_text)
    if spec is None or cand is None:
        return None
    res = [clause_holds(op, v, wild, cand) for op, v, wild in spec]
    if any(r is False for r in res):
        return False
    if any(r is None for r in res):
        return None
    if cand.is_pre and not (prereleases_admitted or names_prerelease(spec)):
        return False
    return True
