"""C13 — graph canonicalisation yields one representative per isomorphism class."""
import itertools
import json
import os
from collections import Counter

import lib
from lib import sx, parse_sx

PROOF_FILE = "C13"
LEVEL = "proof"
RULE = ("rooted graphs (node = system/name/version-type/version + error list; edge = from,to,requirement,dependency type) "
        "with renumberings of the non-root nodes and shuffles of edges and per-node errors. Random tier: graphs of 1..40 "
        "nodes over small alphabets (duplicate versions common, one family with a duplicate of the root), parallel typed "
        "edges, self loops, cycles, node errors; 4 relabelings each (one in four done by the harness/model relabel). One "
        "graph in four is drawn over all three systems (npm, Maven, PyPI) with node names AND requirement names of node "
        "errors from a family of strings that coincide under the usual name normalisations (case, - _ ., runs and "
        "leading/trailing separators, npm scopes, Maven group:artifact), the errors of a node differing only in such names. "
        "On the Go answers of every graph the hypothesis of the theorems is checked as well: VersionKey.Compare and "
        "NodeError.Compare return 0 only for identical values, are reflexive and sign-antisymmetric (all colliding pairs "
        "and all error pairs of a node, plus random pairs). Errors reach a node through AddError (even nodes) or by filling "
        "the exported slice (odd nodes). "
        "The quick tier also runs the exhaustive space E1. One graph in twenty is a star: a node with 13-30 children (the "
        "neighbour sort of canonBFS leaves the insertion-sort path) with no duplicate, one pair of equal children, or a "
        "child reached by two parallel edges; in npm-like graphs a duplicated version gets the same 2-3 errors on both "
        "copies with probability 0.2. Exhaustive tier (thorough), requirement empty, every labeling of every node; labels {a,b} x {1,2} in E1-E4: "
        "E1 n=1,2,3 with every subset of the n*n ordered pairs (self loops included); "
        "E2 n=4 with every subset of the 12 ordered pairs without self loops; "
        "E3 n=5 where every non-root node has exactly one incoming edge from any other node (256 shapes); "
        "E4 n=3 where every ordered pair without self loop carries no edge, a regular edge, a dev edge, or both (parallel "
        "typed edges); E6 n=3 with labels {npm,maven,pypi} x {a-b,a_b,A-B} and every subset of the 6 ordered pairs without "
        "self loops. Each space is closed under renumbering; ALL (n-1)! renumberings are covered by requiring the same "
        "output for all members of an isomorphism class (1 652 552 graphs, 363 260 classes), and the output must be a member "
        "of the class of its input (exact preservation test). E5: error alphabet {npm,maven,pypi} x {a-b,a_b,A-B} with one "
        "version, type and text; the one-node graph with every sequence of at most 3 errors, and a root with two children "
        "of one version carrying every pair of sequences of at most 2 errors (9 101 graphs, 1 760 classes): one output per "
        "class. A case is non-trivial when the graph has two equal nodes and canonicalisation succeeds (breadth-first path), "
        "or has >= 3 nodes and >= 2 edges.")
TRUSTED = [
    "Coq 8.16.1 kernel; vm_compute for the refuted witness",
    "translator harness/go/cmd/gotables/graph.go (insertion-sort cutoff of package sort; whether Canon consults the Dupe flag set inside Less)",
    "extraction (ExtrOcamlBasic only) + Extract/driver.ml; Go harness cmd/implrun/graph.go; python generators and oracle",
    "Go's sort.Sort is modelled literally only on its insertion-sort path (at most 12 elements); above that the model uses a "
    "specification-level sort and the tie to the code is the correspondence check alone",
]
ASSUMPTIONS = [
    "model validated against the implementation by execution on generated graphs, not verified against Go source",
    "dependency types enter the graph model as pure values (mask, sorted key/value list); their comparison is the one of C19's model",
]

MANIFEST = dict(
    category="proof",
    text=("Executable model of Graph.Canon (error sort, root-keeping node sort with the duplicate flag as Go computes it, "
          "renumber, breadth-first relabelling, second renumber) with theorems over all graphs and all renumberings for the "
          "duplicate test by scan (the code in the tree since the repair 667b339), and a refutation witness for the old test inside Less (F-C13-1, fixed); the translator reads which variant the source has. Tied to the code by "
          "differential execution; invariance, idempotence and preservation are also evaluated directly on the Go outputs."),
    note=("Trusted: Coq kernel (+vm_compute), translator gotables, extraction and driver.ml, Go harness, python generators/oracle. "
          "The model is hand-written and validated by execution each run. sort.Sort is modelled literally for <= 12 elements only."),
    technique="Rocq proof over a hand-written model + differential correspondence (extracted OCaml vs Go) + direct oracle on Go outputs",
    design="8 C13")

KF = "F-C13-1"

# ----------------------------------------------------------------------------- graphs in python
# node = [sys, name, vtype, version, errs]; err = [sys, name, vtype, version, text]
# edge = [from, to, req, pairs]; graph = (nodes, edges, error)

NPM = 3
TYPES = [[], [[-1, ""]], [[-2, ""]], [[-1, ""], [-2, ""]], [[3, "peer"]], [[3, "x"]], [[3, "x"], [-1, ""]],
         [[5, "k"]], [[1, "a"], [3, "b"]],
         # types with several valued attributes that agree on the last one and differ earlier
         [[1, "b"], [3, "b"]], [[4, "sources"], [5, "jar"]], [[4, "tests"], [5, "jar"]], [[3, "provided"], [11, ""]],
         [[3, "runtime"], [11, ""]], [[1, "a"], [3, "b"], [5, "k"]], [[1, "a"], [3, "c"], [5, "k"]]]
REQS = ["", "*", "^1", "^1.0.0", "1", ">=2"]
ERRTEXT = ["not found", "could not find", "", "e"]


def mk_node(name, ver, errs=(), sys=NPM, vt=1):
    return [sys, name, vt, ver, [list(e) for e in errs]]


def mk_err(name, ver, text, sys=NPM, vt=2):
    return [sys, name, vt, ver, text]


def g_sx(g, perm=None):
    nodes, edges, err = g
    if perm is None:
        return sx([nodes, edges, err])
    return sx([nodes, edges, err, list(perm)])


def type_key(pairs):
    """canonical value of a dependency type given as AddAttr pairs or as a dump"""
    mask = 0
    d = {}
    for k, v in pairs:
        if k < 0:
            mask |= (-k) % 256
        else:
            d[k] = v
    return (mask, tuple(sorted(d.items())))


def node_key(n):
    return (n[0], n[1], n[2], n[3], tuple(sorted(tuple(e) for e in n[4])))


def relabel(g, perm, rng=None):
    """g renumbered by perm (old -> new); with rng also shuffles edges and per-node errors."""
    nodes, edges, err = g
    n = len(nodes)
    nn = [None] * n
    for i, nd in enumerate(nodes):
        errs = [list(e) for e in nd[4]]
        if rng is not None:
            rng.shuffle(errs)
        nn[perm[i]] = nd[:4] + [errs]
    ne = [[perm[e[0]], perm[e[1]], e[2], e[3]] for e in edges]
    if rng is not None:
        rng.shuffle(ne)
    return (nn, ne, err)


def random_perm(rng, n):
    p = list(range(1, n))
    rng.shuffle(p)
    return [0] + p


def has_equal_nodes(g):
    c = Counter(node_key(n) for n in g[0])
    return any(v > 1 for v in c.values())


def has_root_dupe(g):
    nodes = g[0]
    return len(nodes) > 1 and any(node_key(n) == node_key(nodes[0]) for n in nodes[1:])


def parse_out(line):
    """("ok" nodes edges err) -> (nodes, edges, err) | "err" | "panic" | "adderr" """
    v = fast_parse(line)
    tag = v[0]
    if tag == "ok":
        return (v[1], v[2], v[3])
    return tag


# ----------------------------------------------------------------------------- generators

# The three systems resolve knows (the System is part of a VersionKey); the numbers are read from the Go side at run time.
SYSTEMS = {"npm": 3, "maven": 6, "pypi": 7}

# Names that are distinct strings but coincide under the usual normalisations of package names (case folding, '-' vs '_'
# vs '.', runs of separators, leading/trailing separators, npm scopes, Maven group:artifact). Canon needs an order that
# SEPARATES them: VersionKey.Compare is byte-wise.
FAMILIES = [
    ["typing-extensions", "Typing_Extensions", "typing_extensions", "typing.extensions", "typing--extensions",
     "typing-_.extensions", "TYPING-EXTENSIONS", "-typing-extensions", "typing-extensions-", "typingextensions"],
    ["@scope/pkg", "@Scope/pkg", "@scope/Pkg", "@SCOPE/PKG", "@scope/pkg-", "@scope//pkg", "@scope/p.kg", "scope/pkg"],
    ["org.apache:commons-io", "org.apache:commons_io", "Org.Apache:commons-io", "org.apache:commons.io",
     "org-apache:commons-io", "org.apache::commons-io", "org.apache:Commons-IO", "org.apache:commons--io"],
    ["a-b", "a_b", "a.b", "A-B", "a--b", "ab", "a-b.", ".a-b", "a-B", "a_.b"],
]


def gen_versions(rng, n, names, vers):
    return [(rng.choice(names), rng.choice(vers)) for _ in range(n)]


class Collide:
    """node and error alphabet over all three systems with names from one colliding family"""

    def __init__(self, rng):
        self.fam = rng.choice(FAMILIES)
        if rng.random() < 0.5:
            self.fam = rng.sample(self.fam, 4)
        r = rng.random()
        allsys = list(SYSTEMS.values())
        self.sys = allsys if r < 0.4 else [rng.choice(allsys)] if r < 0.9 else allsys + [0]
        self.vers = rng.choice([["1"], ["1", "2"]])
        self.p_err = rng.choice([0.0, 0.3, 0.6])
        self.texts = rng.choice([["not found"], ["not found", "could not find"]])

    def errors(self, rng):
        errs = []
        if rng.random() < self.p_err:
            for _ in range(rng.randrange(2, 5)):
                # same text, version and type: only the spelling of the name (or the system) tells them apart
                errs.append(mk_err(rng.choice(self.fam), rng.choice(["^1", "^1", "2"]), rng.choice(self.texts),
                                   sys=rng.choice(self.sys), vt=2))
        return errs

    def node(self, rng):
        return mk_node(rng.choice(self.fam), rng.choice(self.vers), self.errors(rng), sys=rng.choice(self.sys))


class Plain:
    def __init__(self, names, vers, p_err):
        self.names, self.vers, self.p_err = names, vers, p_err

    def node(self, rng):
        return mk_node(rng.choice(self.names), rng.choice(self.vers), gen_errors(rng, self.p_err))


def gen_errors(rng, p):
    errs = []
    while rng.random() < p and len(errs) < 3:
        errs.append(mk_err(rng.choice(["x", "y"]), rng.choice(["1", "^2"]), rng.choice(ERRTEXT),
                           vt=rng.choice([2, 2, 2, 1])))
    return errs


def gen_random(rng, n, names, vers, p_err, density, p_par, p_self, alpha=None):
    """arbitrary random graph: duplicates wherever the alphabet makes them"""
    alpha = alpha or Plain(names, vers, p_err)
    nodes = [alpha.node(rng) for _ in range(n)]
    edges = []
    m = int(density * n) + rng.randrange(0, 3)
    for _ in range(m):
        f, t = rng.randrange(n), rng.randrange(n)
        if f == t and rng.random() > p_self:
            continue
        edges.append([f, t, rng.choice(REQS), rng.choice(TYPES)])
        while rng.random() < p_par:
            edges.append([f, t, rng.choice(REQS), rng.choice(TYPES)])
    return (nodes, edges, rng.choice(["", "", "boom"]))


def gen_npm_like(rng, n, names, vers, p_err, p_extra, root_dupe, alpha=None):
    """connected graph in which the children of a node have pairwise distinct versions (as in an npm tree),
    while the same version may occur under several parents: the breadth-first labelling succeeds."""
    alpha = alpha or Plain(names, vers, p_err)
    nodes = [alpha.node(rng)]
    edges = []
    kids = {0: set()}
    tries = 0
    while len(nodes) < n and tries < 20 * n:
        tries += 1
        parent = rng.randrange(len(nodes))
        nd = alpha.node(rng)
        k = node_key(nd)
        if k in kids[parent]:
            continue
        if not root_dupe and k == node_key(nodes[0]):
            continue
        kids[parent].add(k)
        nodes.append(nd)
        kids[len(nodes) - 1] = set()
        edges.append([parent, len(nodes) - 1, rng.choice(REQS), rng.choice(TYPES)])
    n = len(nodes)
    if n > 2 and rng.random() < 0.2:
        # two equal nodes that both carry the same 2-3 errors (in different orders): they are duplicates only
        # if the errors are sorted before the nodes are compared
        parent = {e[1]: e[0] for e in edges}
        by = {}
        for i in range(1, n):
            by.setdefault(tuple(nodes[i][:4]), []).append(i)
        grp = [v for v in by.values() if len(v) >= 2]
        if not grp:
            i, j = rng.sample(range(1, n), 2)
            if parent[i] != parent[j] and parent[j] != i and parent[i] != j:
                nodes[j] = nodes[i][:4] + [[]]
                grp = [[i, j]]
        if grp:
            i, j = rng.sample(rng.choice(grp), 2)
            pool = [mk_err(nm, v, t) for nm in ("x", "y", "X") for v in ("1", "^2") for t in ("not found", "e")]
            errs = rng.sample(pool, rng.choice([2, 3]))
            key = node_key(nodes[i][:4] + [errs])
            sib = lambda a: [c for c, p in parent.items() if p == parent[a] and c not in (i, j)]
            if parent[i] != parent[j] and all(node_key(nodes[c]) != key for c in sib(i) + sib(j)):
                nodes[i] = nodes[i][:4] + [[list(e) for e in errs]]
                errs2 = [list(e) for e in errs]
                rng.shuffle(errs2)
                nodes[j] = nodes[j][:4] + [errs2]
    # extra edges to already placed nodes: cycles, self loops, parallel typed edges
    for _ in range(int(p_extra * n)):
        f, t = rng.randrange(n), rng.randrange(n)
        edges.append([f, t, rng.choice(REQS), rng.choice(TYPES)])
    if root_dupe and n > 1 and not has_root_dupe((nodes, edges, "")):
        j = rng.randrange(1, n)
        nodes[j] = nodes[0][:4] + [[list(e) for e in nodes[0][4]]]
    rng.shuffle(edges)
    return (nodes, edges, "")


def gen_star(rng):
    """one node with 13..30 children (the sort of the unlabelled neighbours in canonBFS leaves the insertion-sort
    path), among them no duplicated pair, one pair of equal nodes, or one child reached by two parallel edges.
    A second copy of one child elsewhere makes the breadth-first labelling run."""
    k = rng.randrange(13, 31)
    pool = [(chr(97 + i % 8) + chr(97 + i // 8), v) for i in range(24) for v in ("1", "2")]
    rng.shuffle(pool)
    hub_is_root = rng.random() < 0.5
    nodes = [mk_node("root", "1")]
    edges = []
    hub = 0
    if not hub_is_root:
        nodes.append(mk_node("hub", "1"))
        edges.append([0, 1, "*", []])
        hub = 1
    kids = []
    for nm, v in pool[:k]:
        nodes.append(mk_node(nm, v, gen_errors(rng, 0.1)))
        kids.append(len(nodes) - 1)
        edges.append([hub, kids[-1], rng.choice(REQS), rng.choice(TYPES)])
    mode = rng.choice(["none", "none", "pair", "parallel"])
    if mode == "pair":
        a, b = rng.sample(kids, 2)
        nodes[b] = nodes[a][:4] + [[list(e) for e in nodes[a][4]]]
    elif mode == "parallel":
        a = rng.choice(kids)
        edges.append([hub, a, rng.choice(REQS), rng.choice(TYPES)])
    # a copy of one child below another child: equal nodes exist, so Canon takes the breadth-first path
    if rng.random() < 0.8 and len(nodes) < 39:
        a, b = rng.sample(kids, 2)
        nodes.append(nodes[a][:4] + [[list(e) for e in nodes[a][4]]])
        edges.append([b, len(nodes) - 1, "^1", []])
        if rng.random() < 0.5 and len(nodes) < 40:
            nodes.append(mk_node("leaf", "1"))
            edges.append([len(nodes) - 2, len(nodes) - 1, "*", []])
    rng.shuffle(edges)
    return "star_" + mode, (nodes, edges, "")


def gen_distinct(rng, n, p_err, density):
    """all versions distinct: the plain sort decides"""
    pool = [(chr(97 + i % 26) * (1 + i // 26), v) for i in range(60) for v in ("1", "2", "10")]
    rng.shuffle(pool)
    nodes = [mk_node(nm, v, gen_errors(rng, p_err), sys=rng.choice([1, 1, 1, 2, 3, 6, 7]), vt=rng.choice([1, 1, 2]))
             for nm, v in pool[:n]]
    edges = []
    for _ in range(int(density * n) + 1):
        edges.append([rng.randrange(n), rng.randrange(n), rng.choice(REQS), rng.choice(TYPES)])
        if rng.random() < 0.2:
            edges.append(list(edges[-1][:2]) + [rng.choice(REQS), rng.choice(TYPES)])
        if rng.random() < 0.15:
            # parallel edge with the SAME requirement and another type: only the type orders them
            edges.append(list(edges[-1][:3]) + [rng.choice(TYPES)])
    return (nodes, edges, "")


def gen_graph(rng):
    if rng.random() < 0.05:
        return gen_star(rng)
    if rng.random() < 0.25:
        # all three systems, names that collide under normalisation, errors that differ only in such names
        alpha = Collide(rng)
        q = rng.random()
        n = rng.choice([1, 1, 2, 2, 3, 4, 5, 6, 8, 12, 14, 25])
        if q < 0.6:
            return "collide_tree", gen_npm_like(rng, n, None, None, 0, rng.choice([0, 0.2, 0.5]), False, alpha)
        return "collide_random", gen_random(rng, n, None, None, 0, rng.choice([0.5, 1.0, 1.5]), 0.2, 0.3, alpha)
    r = rng.random()
    if r < 0.15:
        n = rng.choice([1, 2, 3, 4, 5, 6, 8, 12, 13, 20, 40])
        return "distinct", gen_distinct(rng, n, 0.2, rng.choice([0.5, 1.0, 2.0]))
    small = rng.random() < 0.6
    n = rng.randrange(2, 13) if small else rng.randrange(13, 41)
    if r < 0.55:
        names = ["a", "b", "c"] if n <= 12 else ["a", "b", "c", "d", "e", "f"]
        return "npm_like", gen_npm_like(rng, n, names, ["1", "2"], rng.choice([0, 0.1]), rng.choice([0, 0.2, 0.5]), False)
    if r < 0.70:
        names = ["a", "b", "c"] if n <= 12 else ["a", "b", "c", "d", "e", "f"]
        return "root_dupe", gen_npm_like(rng, n, names, ["1", "2"], rng.choice([0, 0.1]), rng.choice([0, 0.2, 0.5]), True)
    if r < 0.85:
        n = rng.randrange(2, 9)
        return "random_small", gen_random(rng, n, ["a", "b"], ["1", "2"], 0.15, rng.choice([0.7, 1.2, 2.0]), 0.2, 0.3)
    return "random", gen_random(rng, n, ["a", "b", "c", "d"], ["1", "2", "3"], 0.1, rng.choice([1.0, 1.5]), 0.1, 0.2)


# ----------------------------------------------------------------------------- oracle pieces

def edge_key(e):
    return (e[0], e[1], e[2], type_key(e[3]))


def find_iso(g, h, budget=50000):
    """A bijection old->new (root fixed) carrying g's nodes to equal nodes of h and g's edge multiset onto h's.
    Returns the mapping, None when none exists, or "budget"."""
    gn, ge, _ = g
    hn, he, _ = h
    n = len(gn)
    if len(hn) != n or len(ge) != len(he):
        return None
    hk = [node_key(x) for x in hn]
    gk = [node_key(x) for x in gn]
    if Counter(hk) != Counter(gk):
        return None
    if n == 0:
        return []
    if gk[0] != hk[0]:
        return None
    hcount = Counter(edge_key(e) for e in he)
    cand = {}
    for j, k in enumerate(hk):
        cand.setdefault(k, []).append(j)
    inc = [[] for _ in range(n)]   # edges of g indexed by their larger endpoint in assignment order
    order = [0] + sorted(range(1, n), key=lambda i: len(cand[gk[i]]))
    pos = {v: i for i, v in enumerate(order)}
    for e in ge:
        inc[max(pos[e[0]], pos[e[1]])].append(e)
    m = [None] * n
    used = [False] * n
    steps = [0]

    def ok_at(p):
        c = Counter()
        for e in inc[p]:
            c[(m[e[0]], m[e[1]], e[2], type_key(e[3]))] += 1
        # every edge of g between assigned nodes must exist in h with the same multiplicity
        # (full multiplicity is known once both endpoints are assigned)
        for k, v in c.items():
            if hcount.get(k, 0) != v:
                return False
        return True

    def rec(p):
        steps[0] += 1
        if steps[0] > budget:
            raise TimeoutError
        if p == n:
            return True
        i = order[p]
        for j in ([0] if i == 0 else cand[gk[i]]):
            if used[j] or (i != 0 and j == 0):
                continue
            m[i] = j
            used[j] = True
            if ok_at(p) and rec(p + 1):
                return True
            used[j] = False
            m[i] = None
        return False

    try:
        if not rec(0):
            return None
    except TimeoutError:
        return "budget"
    # total edge count equal + every g edge class matched with equal multiplicity => multisets equal
    return m


class Oracle:
    def __init__(self, ctx, fixed):
        self.ctx = ctx
        self.fixed = fixed   # the tree computes the duplicate flag by scanning (repaired)

    def classify(self, what, g, perm, observed, required, root_dupe, variant=None):
        """a hit is an instance of the open finding iff the graph has a non-root node equal to the root"""
        ctx = self.ctx
        if root_dupe and not self.fixed:
            ctx.known_hits[KF] = ctx.known_hits.get(KF, 0) + 1
            ctx.count("known:" + what)
            return
        ctx.violation(what, {"graph": g_sx(g), "perm": sx(list(perm)) if perm is not None else None,
                             "renumbered_case": variant, "replay_kind": "canon_graph"},
                      observed=observed, required=required)

    def preserved(self, g, out_line, perm=None):
        """preservation clauses on one successful canonicalisation; g is the graph as given to Canon"""
        ctx = self.ctx
        h = parse_out(out_line)
        if isinstance(h, str):
            return
        rd = has_root_dupe(g)
        if len(g[0]) > 0:
            if len(h[0]) == 0 or node_key(h[0][0]) != node_key(g[0][0]):
                ctx.violation("Canon does not keep the root", {"graph": g_sx(g), "replay_kind": "canon_graph"},
                              observed=out_line, required="root " + sx(g[0][0]))
                return
        if Counter(node_key(x) for x in h[0]) != Counter(node_key(x) for x in g[0]):
            ctx.violation("Canon changes the multiset of nodes with their errors",
                          {"graph": g_sx(g), "replay_kind": "canon_graph"}, observed=out_line)
            return
        if h[2] != g[2]:
            ctx.violation("Canon changes the graph error", {"graph": g_sx(g), "replay_kind": "canon_graph"}, observed=out_line)
            return
        m = find_iso(g, h)
        if m == "budget":
            ctx.count("preserve:iso_search_budget")
            # weaker projection: edges with endpoint values
            pe = lambda gr: Counter((node_key(gr[0][e[0]]), node_key(gr[0][e[1]]), e[2], type_key(e[3])) for e in gr[1])
            if pe(g) != pe(h):
                ctx.violation("Canon changes the edges (projection to endpoint versions)",
                              {"graph": g_sx(g), "replay_kind": "canon_graph"}, observed=out_line)
            return
        if m is None:
            ctx.violation("Canon does not preserve every edge with its requirement and type (no renumbering maps the input onto the output)",
                          {"graph": g_sx(g), "replay_kind": "canon_graph"}, observed=out_line)
            return
        ctx.count("preserve:checked")


# ----------------------------------------------------------------------------- fast parsing of result lines

def fast_parse(line):
    """sx -> nested lists with str leaves, through json (falls back to parse_sx for hex strings)"""
    parts = line.split('"')
    ok = True
    for i in range(0, len(parts), 2):
        seg = parts[i]
        if "x" in seg:
            ok = False
            break
        parts[i] = seg.replace("(", "[").replace(")", "]").replace(" ", ",")
    if ok:
        try:
            return json.loads('"'.join(parts))
        except ValueError:
            pass

    def conv(v):
        if isinstance(v, bytes):
            return v.decode("latin-1")
        if isinstance(v, list):
            return [conv(e) for e in v]
        return v
    return conv(parse_sx(line))


def out_graph_sx(line):
    """the graph inside ("ok" nodes edges err), as case text"""
    assert line.startswith('("ok" ')
    return "(" + line[len('("ok" '):]


# ----------------------------------------------------------------------------- the check

def load_witness():
    for k in lib.load_known("C13"):
        if k["id"] == KF:
            return k
    return None


def corr_canon(ctx, graphs, fixed, cutoff, label):
    """canon_graph on both sides. graphs: list of (g, perm|None). A difference above the insertion-sort
    cut-off on a graph with a duplicate of the root is the open finding (the model does not follow pdqsort);
    every other difference is a broken correspondence."""
    args = [g_sx(g, p) for g, p in graphs]
    impl = ctx.impl("canon_graph", args)
    model = ctx.model("canon_graph", args)
    ctx.count("corr:" + label, len(args))
    nd = 0
    for (g, p), a, x, y in zip(graphs, args, impl, model):
        if x == y:
            continue
        if '"badcase"' in y:
            raise lib.BuildError("model rejected case shape for kind canon_graph", a + "\n" + y)
        if not fixed and len(g[0]) > cutoff and has_root_dupe(g):
            ctx.known_hits[KF] = ctx.known_hits.get(KF, 0) + 1
            ctx.count("known:model_vs_go_above_cutoff")
            continue
        nd += 1
        if nd <= 50:
            ctx.divergence("canon_graph", a, x, y)
    return impl, model


def random_tier(ctx, orc, fixed, cutoff, n_graphs, k):
    rng = ctx.rng
    metas = []
    flat = []
    for gi in range(n_graphs):
        kind, g = gen_graph(rng)
        n = len(g[0])
        perms = [random_perm(rng, n) for _ in range(k)]
        variants = [(g, None)]
        for j, p in enumerate(perms):
            h = relabel(g, p, rng)
            if (gi + j) % 4 == 0:
                # the same renumbering done by the harness/model (exercises relabel): shuffle first, renumber there
                ident = list(range(n))
                variants.append((relabel(g, ident, rng), p))
            else:
                variants.append((h, None))
        metas.append((kind, g, perms, len(flat), len(variants)))
        flat.extend(variants)
    impl, _ = corr_canon(ctx, flat, fixed, cutoff, "canon_graph")
    separation_oracle(ctx, [m[1] for m in metas])

    # idempotence: every distinct successful output is canonicalised again
    idem_in = sorted(set(out_graph_sx(o) for o in impl if o.startswith('("ok"')))
    idem_graphs = []
    for a in idem_in:
        v = fast_parse(a)
        idem_graphs.append(((v[0], v[1], v[2]), None))
    idem_out, _ = corr_canon(ctx, idem_graphs, fixed, cutoff, "canon_graph(idempotence)")
    idem = {}
    for a, (h, _), o in zip(idem_in, idem_graphs, idem_out):
        idem[a] = (h, o)

    for kind, g, perms, st, cnt in metas:
        outs = impl[st:st + cnt]
        rd = has_root_dupe(g)
        eq = has_equal_nodes(g)
        n = len(g[0])
        ok0 = outs[0].startswith('("ok"')
        ctx.count("gen:" + kind)
        ctx.count("size:<=12" if n <= cutoff else "size:>12")
        ctx.count("outcome:" + ("ok" if ok0 else parse_out(outs[0])) + (":equal_nodes" if eq else ":distinct"))
        if rd:
            ctx.count("class:root_dupe")
        if (eq and ok0) or (n >= 3 and len(g[1]) >= 2):
            ctx.nontriv(g_sx(g))
        # (1) invariance
        for j in range(1, cnt):
            if outs[j] != outs[0]:
                orc.classify("canonical form depends on the numbering of the nodes / order of edges and errors",
                             g, perms[j - 1], observed=outs[j], required=outs[0], root_dupe=rd,
                             variant=g_sx(*flat[st + j]))
                break
        # (2) preservation, on the graph as numbered in each variant
        for j in range(cnt):
            gg, p = flat[st + j]
            if outs[j].startswith('("ok"'):
                orc.preserved(relabel(gg, p) if p is not None else gg, outs[j])
            elif outs[j] not in ('("err")',):
                ctx.violation("Canon neither returned nor failed with an error", {"graph": g_sx(gg, p), "replay_kind": "canon_graph"},
                              observed=outs[j])
        # (3) idempotence
        for o in set(outs):
            if o.startswith('("ok"'):
                h, o2 = idem[out_graph_sx(o)]
                if o2 != o:
                    orc.classify("Canon is not idempotent", h, None, observed=o2, required=o, root_dupe=rd)
        if len(ctx.samples) < 4 and eq and ok0 and not rd:
            ctx.sample({"kind": "canon_graph", "case": g_sx(g)[:500], "impl": outs[0][:500]})


def sgn_laws(ctx, kind, what, pairs, fwd, bwd):
    """the hypothesis of the theorems, on the Go answers: the order separates distinct elements
    (Compare = 0 only for identical values), is reflexive and sign-antisymmetric"""
    for (a, b), x, y in zip(pairs, fwd, bwd):
        try:
            cx, cy = int(x), int(y)
        except ValueError:
            ctx.violation("%s does not return" % what, {"pair": sx([a, b]), "replay_kind": kind}, observed=x)
            continue
        if a == b and cx != 0:
            ctx.violation("%s is not reflexive" % what, {"pair": sx([a, b]), "replay_kind": kind}, observed=x, required="0")
        elif a != b and cx == 0:
            ctx.violation("%s returns 0 for two distinct values: the order Canon sorts by does not separate them, "
                          "so their relative order in the canonical form is the input order" % what,
                          {"pair": sx([a, b]), "replay_kind": kind}, observed=x, required="non-zero")
        elif cx != -cy:
            ctx.violation("%s is not sign-antisymmetric" % what, {"pair": sx([a, b]), "replay_kind": kind},
                          observed=[x, y], required="opposite signs")


def squash(name):
    return "".join(c for c in name.lower() if c.isalnum())


def separation_pairs(rng, g, max_random=6):
    """pairs of version keys and of node errors of one graph on which the separation hypothesis is checked:
    every pair whose names coincide after case folding and removal of separators, and a few random ones"""
    nodes = g[0]
    keys = sorted(set((n[0], n[1], n[2], n[3]) for n in nodes) | set((e[0], e[1], e[2], e[3]) for n in nodes for e in n[4]))
    kp = []
    by = {}
    for k in keys:
        by.setdefault((squash(k[1]), k[2], k[3]), []).append(k)
    for grp in by.values():
        for i in range(len(grp)):
            for j in range(i + 1, len(grp)):
                kp.append((grp[i], grp[j]))
    kp = kp[:20]
    for _ in range(min(max_random, len(keys))):
        kp.append((rng.choice(keys), rng.choice(keys)))
    ep = []
    for n in nodes:
        errs = [tuple(e) for e in n[4]]
        for i in range(len(errs)):
            for j in range(i + 1, len(errs)):
                ep.append((errs[i], errs[j]))
    return kp, ep[:20]


def separation_oracle(ctx, graphs):
    rng = ctx.rng
    kps, eps = [], []
    for g in graphs:
        kp, ep = separation_pairs(rng, g)
        kps += kp
        eps += ep
    kps = sorted(set(kps))
    eps = sorted(set(eps))
    as_node = lambda k: list(k) + [[]]
    if kps:
        fwd = ctx.impl("node_compare", [sx([as_node(a), as_node(b)]) for a, b in kps])
        bwd = ctx.impl("node_compare", [sx([as_node(b), as_node(a)]) for a, b in kps])
        sgn_laws(ctx, "node_compare", "VersionKey.Compare (through Node.Compare)",
                 [(as_node(a), as_node(b)) for a, b in kps], fwd, bwd)
    if eps:
        fwd = ctx.impl("nodeerr_compare", [sx([list(a), list(b)]) for a, b in eps])
        bwd = ctx.impl("nodeerr_compare", [sx([list(b), list(a)]) for a, b in eps])
        sgn_laws(ctx, "nodeerr_compare", "NodeError.Compare", [(list(a), list(b)) for a, b in eps], fwd, bwd)
    ctx.count("separation:key_pairs", len(kps))
    ctx.count("separation:error_pairs", len(eps))


def comparator_tier(ctx):
    rng = ctx.rng
    n = ctx.scale(1500, 20000)
    allsys = list(SYSTEMS.values())

    def vk():
        if rng.random() < 0.5:
            # one system, one family: only the spelling of the name differs
            return [rng.choice(allsys), rng.choice(vk.fam), rng.choice([1, 2]), rng.choice(["1", "^1"])]
        return [rng.choice([0, 1, 1, 2, 3, 255] + allsys), rng.choice(["", "a", "b", "ab", "a ", "B"]), rng.choice([0, 1, 2]),
                rng.choice(["", "1", "2", "10", "1.0"])]

    def ne():
        return vk() + [rng.choice(ERRTEXT + ["not"])]

    def nd():
        return vk() + [[ne() for _ in range(rng.randrange(0, 3))]]

    def pairs(gen):
        out = []
        for _ in range(n):
            vk.fam = rng.choice(FAMILIES)
            a, b = gen(), gen()
            if rng.random() < 0.1:
                b = json.loads(json.dumps(a))
            out.append((a, b))
        return out
    ps = pairs(ne)
    fwd, _ = ctx.correspond("nodeerr_compare", [sx([a, b]) for a, b in ps])
    bwd = ctx.impl("nodeerr_compare", [sx([b, a]) for a, b in ps])
    sgn_laws(ctx, "nodeerr_compare", "NodeError.Compare", ps, fwd, bwd)
    ps = pairs(lambda: vk() + [[]])
    fwd, _ = ctx.correspond("node_compare", [sx([a, b]) for a, b in ps], label="node_compare(keys)")
    bwd = ctx.impl("node_compare", [sx([b, a]) for a, b in ps])
    sgn_laws(ctx, "node_compare", "VersionKey.Compare (through Node.Compare)", ps, fwd, bwd)
    ctx.correspond("node_compare", [sx([a, b]) for a, b in pairs(nd)])
    ts = TYPES + [[[-4, ""]], [[3, ""]], [[3, "peer"], [3, "x"]], [[63, "z"]], [[0, "z"]], [[-128, ""]]]
    ctx.correspond("deptype_compare", [sx([rng.choice(ts), rng.choice(ts)]) for _ in range(n)])
    # constructors: ids out of range are refused by both sides
    cases = []
    for _ in range(200):
        kind, g = gen_graph(rng)
        nodes, edges, err = g
        if rng.random() < 0.5 and edges:
            e = rng.choice(edges)
            e[rng.randrange(2)] = rng.choice([-1, len(nodes), len(nodes) + 3])
        cases.append(g_sx(g))
    ctx.correspond("graph_build", cases)


def drop_node(g, perm, k):
    """g without non-root node k (incident edges dropped), perm adjusted"""
    nodes, edges, err = g
    ren = lambda i: i if i < k else i - 1
    nn = [nd for i, nd in enumerate(nodes) if i != k]
    ne = [[ren(e[0]), ren(e[1]), e[2], e[3]] for e in edges if e[0] != k and e[1] != k]
    tk = perm[k]
    np_ = [(x if x < tk else x - 1) for i, x in enumerate(perm) if i != k]
    return (nn, ne, err), np_


def shrink_invariance(ctx, g, perm, budget=400):
    """greedy reduction of a pair (g, perm) with Canon(g) != Canon(g renumbered by perm); implementation only"""
    def fails(g, perm):
        o = ctx.impl("canon_graph", [g_sx(g), g_sx(g, perm)], shards=1)
        return o[0] != o[1], o
    bad, o = fails(g, perm)
    if not bad:
        return None
    calls = 1
    changed = True
    while changed and calls < budget:
        changed = False
        for k in range(len(g[0]) - 1, 0, -1):
            g2, p2 = drop_node(g, perm, k)
            calls += 1
            b, o2 = fails(g2, p2)
            if b:
                g, perm, o, changed = g2, p2, o2, True
                break
        if changed:
            continue
        for j in range(len(g[1]) - 1, -1, -1):
            g2 = (g[0], g[1][:j] + g[1][j + 1:], g[2])
            calls += 1
            b, o2 = fails(g2, perm)
            if b:
                g, o, changed = g2, o2, True
                break
        if changed:
            continue
        for i, nd in enumerate(g[0]):
            if nd[4]:
                g2 = ([x if j != i else x[:4] + [[]] for j, x in enumerate(g[0])], g[1], g[2])
                calls += 1
                b, o2 = fails(g2, perm)
                if b:
                    g, o, changed = g2, o2, True
                    break
    return g, perm, o


def finish_violations(ctx):
    """smallest failing inputs first; the smallest invariance failure is reduced further"""
    ctx.violations.sort(key=lambda v: len(json.dumps(v["input"], default=str)))
    # the replay keeps the first records only: lead with the smallest instance of every kind of failure,
    # graphs (failures of the property itself) before comparator pairs (failures of its hypothesis)
    heads, rest, seen = [], [], set()
    for v in ctx.violations:
        if v["what"] not in seen:
            seen.add(v["what"])
            heads.append(v)
        else:
            rest.append(v)
    heads.sort(key=lambda v: 0 if isinstance(v["input"], dict) and "graph" in v["input"] else 1)
    ctx.violations[:] = heads + rest
    for v in ctx.violations:
        inp = v["input"]
        if isinstance(inp, dict) and inp.get("perm") and v["what"].startswith("canonical form depends"):
            gv = fast_parse(inp["graph"])
            res = shrink_invariance(ctx, (gv[0], gv[1], gv[2]), fast_parse(inp["perm"]))
            if res is not None:
                g, perm, o = res
                ctx.violations.insert(0, {"what": v["what"] + " (reduced)", "kind": "oracle",
                                          "input": {"graph": g_sx(g), "perm": sx(list(perm)), "renumbered_case": g_sx(g, perm),
                                                    "replay_kind": "canon_graph"},
                                          "observed": o[1], "required": o[0]})
            break


def run(ctx):
    try:
        run_checks(ctx)
    finally:
        finish_violations(ctx)


def run_checks(ctx):
    nums = fast_parse(ctx.impl("resolve_systems", ["0"])[0])
    SYSTEMS.update({"npm": nums[0], "maven": nums[1], "pypi": nums[2]})
    ctx.extra["systems"] = dict(SYSTEMS)
    variant = ctx.model("canon_variant", ["0"])[0]
    fixed = (variant == "1")
    cutoff = 12
    ctx.extra["model_variant"] = "dupe_by_scan (repaired)" if fixed else "dupe inside Less (current code, F-C13-1 open)"
    orc = Oracle(ctx, fixed)

    # ---- the recorded witness of the open finding is replayed on the Go code
    w = load_witness()
    if w is not None:
        arg = w["witness"]["arg"]
        v = fast_parse(arg)
        base = sx([v[0], v[1], v[2]])
        o_base, o_perm = ctx.impl("canon_graph", [base, arg])
        reproduces = (o_base != o_perm)
        ctx.extra["known_finding_replay"] = {"id": KF, "reproduces_on_go": reproduces, "base": o_base, "renumbered": o_perm,
                                             "as_recorded": (o_base == w["witness"].get("base_output") and
                                                             o_perm == w["witness"].get("failing_output"))}
        if reproduces == fixed and w.get("status") == "open":
            ctx.notes.append("translator says Canon %s the flag set inside Less, but the recorded witness %s" % (
                "does not read" if fixed else "reads", "still fails" if reproduces else "no longer fails"))
        if not reproduces and w.get("status") == "open":
            ctx.notes.append("open finding %s no longer reproduces on this tree" % KF)

    comparator_tier(ctx)
    random_tier(ctx, orc, fixed, cutoff, ctx.scale(3000, 50000), 4)
    if ctx.thorough():
        exhaustive_tier(ctx, orc, fixed)
    else:
        exhaustive_tier(ctx, orc, fixed, only="E1")


def oracle_only(ctx):
    """implementation-only search (used when the model or the proofs do not build)"""
    orc = Oracle(ctx, False)
    rng = ctx.rng
    for _ in range(1500):
        kind, g = gen_graph(rng)
        perms = [random_perm(rng, len(g[0])) for _ in range(3)]
        gs = [g] + [relabel(g, p, rng) for p in perms]
        outs = ctx.impl("canon_graph", [g_sx(x) for x in gs], shards=1)
        rd = has_root_dupe(g)
        for j in range(1, len(gs)):
            if outs[j] != outs[0]:
                orc.classify("canonical form depends on the numbering of the nodes / order of edges and errors",
                             g, perms[j - 1], observed=outs[j], required=outs[0], root_dupe=rd)
                break
        for x, o in zip(gs, outs):
            orc.preserved(x, o)


# ----------------------------------------------------------------------------- exhaustive small scope (thorough tier)

EX_LABELS = [(1, "a", "1"), (1, "a", "2"), (1, "b", "1"), (1, "b", "2")]
EX_NAMES = ["a-b", "a_b", "A-B"]
T_REG, T_DEV = [], [[-1, ""]]


def ex_spaces():
    """(name, n, configs): configs = list of edge lists [(from, to, req, type)], each space closed under renumbering"""
    spaces = []
    for n in (1, 2, 3):
        pairs = [(f, t) for f in range(n) for t in range(n)]
        cfgs = []
        for mask in range(1 << len(pairs)):
            cfgs.append([(f, t, "", T_REG) for i, (f, t) in enumerate(pairs) if mask >> i & 1])
        spaces.append(("E1:n=%d all subsets of the %d ordered pairs (self loops included)" % (n, len(pairs)), n, cfgs))
    pairs = [(f, t) for f in range(4) for t in range(4) if f != t]
    cfgs = []
    for mask in range(1 << 12):
        cfgs.append([(f, t, "", T_REG) for i, (f, t) in enumerate(pairs) if mask >> i & 1])
    spaces.append(("E2:n=4 all subsets of the 12 ordered pairs without self loops", 4, cfgs))
    cfgs = []
    for parents in itertools.product(range(5), repeat=4):
        if all(parents[i] != i + 1 for i in range(4)):
            cfgs.append([(parents[i], i + 1, "", T_REG) for i in range(4)])
    spaces.append(("E3:n=5 every non-root node has exactly one incoming edge, from any other node", 5, cfgs))
    pairs = [(f, t) for f in range(3) for t in range(3) if f != t]
    cfgs = []
    for states in itertools.product(range(4), repeat=6):
        es = []
        for (f, t), st in zip(pairs, states):
            if st & 1:
                es.append((f, t, "", T_REG))
            if st & 2:
                es.append((f, t, "", T_DEV))
        cfgs.append(es)
    spaces.append(("E4:n=3 every ordered pair without self loops carries no edge, a regular edge, a dev edge, or both", 3, cfgs))
    spaces = [(nm, n, EX_LABELS, c) for nm, n, c in spaces]
    # names that collide under normalisation, in each of the three systems
    labels = [(sy, nm, "1") for sy in sorted(SYSTEMS.values()) for nm in EX_NAMES]
    pairs = [(f, t) for f in range(3) for t in range(3) if f != t]
    cfgs = []
    for mask in range(1 << 6):
        cfgs.append([(f, t, "", T_REG) for i, (f, t) in enumerate(pairs) if mask >> i & 1])
    spaces.append(("E6:n=3 labels {npm,maven,pypi} x {a-b,a_b,A-B} @1, all subsets of the 6 ordered pairs without self loops",
                   3, labels, cfgs))
    return spaces


def ex_norm(es):
    return tuple(sorted((f, t, r, type_key(ty)) for f, t, r, ty in es))


def exhaustive_errors(ctx, orc):
    """E5: per-node errors. Error alphabet {npm,maven,pypi} x {a-b,a_b,A-B}, same requirement version, type and text (9 errors).
    (a) the one-node graph with every sequence of at most 3 errors; (b) root -> two nodes of the same version, each with every
    sequence of at most 2 errors. All orders of the error slices (and in (b) both numberings) must give one output."""
    errs = [[sy, nm, 2, "^1", "not found"] for sy in sorted(SYSTEMS.values()) for nm in EX_NAMES]
    seqs = lambda m: [list(t) for k in range(m + 1) for t in itertools.product(range(len(errs)), repeat=k)]
    groups = {}
    cases = []
    for sq in seqs(3):
        g = ([mk_node("r", "1", [errs[i] for i in sq])], [], "")
        cases.append((("a", tuple(sorted(sq))), g))
    s2 = seqs(2)
    for s1 in s2:
        for sq in s2:
            g = ([mk_node("r", "1"), mk_node("c", "1", [errs[i] for i in s1]), mk_node("c", "1", [errs[i] for i in sq])],
                 [[0, 1, "", []], [0, 2, "", []]], "")
            cases.append((("b", tuple(sorted([tuple(sorted(s1)), tuple(sorted(sq))]))), g))
    outs = ctx.correspond("canon_graph", [g_sx(g) for _, g in cases], label="canon_graph(exhaustive errors)")[0]
    for (key, g), o in zip(cases, outs):
        if key not in groups:
            groups[key] = (g, o)
        elif groups[key][1] != o:
            orc.classify("canonical form depends on the order of per-node errors / numbering (exhaustive small scope E5)",
                         groups[key][0], None, observed=o, required=groups[key][1], root_dupe=False, variant=g_sx(g))
        if o.startswith('("ok"'):
            orc.preserved(g, o)
    ctx.count("exhaustive:E5_error_sequences", len(cases))
    ctx.extra["exhaustive_errors"] = {"cases": len(cases), "classes": len(groups)}


def exhaustive_tier(ctx, orc, fixed, only=None):
    total = 0
    classes_total = 0
    desc = []
    if only is None:
        exhaustive_errors(ctx, orc)
    for name, n, labels, cfgs in ex_spaces():
        if only is not None and not name.startswith(only):
            continue
        node_txt = ['(%d "%s" 1 "%s" ())' % lv for lv in labels]
        lab_of = {lv: i for i, lv in enumerate(labels)}
        cfg_txt = ["(" + " ".join(sx(list(e)) for e in es) + ")" for es in cfgs]
        cfg_idx = {ex_norm(es): i for i, es in enumerate(cfgs)}
        assert len(cfg_idx) == len(cfgs)
        perms = [[0] + list(p) for p in itertools.permutations(range(1, n))]
        # action of every renumbering on edge configurations (the space must be closed under it)
        ptab = []
        for p in perms:
            ptab.append([cfg_idx[ex_norm([(p[f], p[t], r, ty) for f, t, r, ty in es])] for es in cfgs])
        labelings = list(itertools.product(range(len(labels)), repeat=n))
        lab_idx = {l: i for i, l in enumerate(labelings)}
        ltab = []
        for p in perms:
            row = []
            for l in labelings:
                nl = [0] * n
                for i in range(n):
                    nl[p[i]] = l[i]
                row.append(lab_idx[tuple(nl)])
            ltab.append(row)
        NC = len(cfgs)
        cls = {}          # graph id -> class representative id
        for li in range(len(labelings)):
            for ci in range(NC):
                gid = li * NC + ci
                if gid in cls:
                    continue
                for k in range(len(perms)):
                    cls[ltab[k][li] * NC + ptab[k][ci]] = gid
        ngraphs = len(labelings) * NC
        total += ngraphs
        classes_total += len(set(cls.values()))
        desc.append("%s: %d labelings x %d edge configurations = %d graphs, %d renumberings each" % (
            name, len(labelings), NC, ngraphs, len(perms)))

        def case_of(gid):
            li, ci = divmod(gid, NC)
            return "((" + " ".join(node_txt[x] for x in labelings[li]) + ") " + cfg_txt[ci] + ' "")'

        def graph_of(gid):
            li, ci = divmod(gid, NC)
            return ([mk_node(labels[x][1], labels[x][2], sys=labels[x][0]) for x in labelings[li]], [list(e) for e in cfgs[ci]], "")

        def perm_between(rep, gid):
            rl, rc = divmod(rep, NC)
            for k in range(len(perms)):
                if ltab[k][rl] * NC + ptab[k][rc] == gid:
                    return perms[k]
            return None

        first_out = {}    # class rep -> (gid, output line)
        outputs = set()
        CH = 200000
        for st in range(0, ngraphs, CH):
            gids = list(range(st, min(ngraphs, st + CH)))
            args = [case_of(g) for g in gids]
            impl = ctx.impl("canon_graph", args)
            model = ctx.model("canon_graph", args)
            ctx.count("corr:canon_graph(exhaustive)", len(args))
            for gid, a, x, y in zip(gids, args, impl, model):
                li, ci = divmod(gid, NC)
                lab = labelings[li]
                rd = lab[0] in lab[1:]
                if x != y:
                    # n <= 5: the literal insertion-sort path, no excuse
                    ctx.divergence("canon_graph", a, x, y)
                rep = cls[gid]
                if rep not in first_out:
                    first_out[rep] = (gid, x)
                elif first_out[rep][1] != x:
                    g0 = first_out[rep][0]
                    p0, p1 = perm_between(rep, g0), perm_between(rep, gid)
                    # renumbering from g0 to gid
                    inv0 = [0] * n
                    for i, j in enumerate(p0):
                        inv0[j] = i
                    p = [p1[inv0[i]] for i in range(n)]
                    orc.classify("canonical form depends on the numbering of the nodes (exhaustive small scope)",
                                 graph_of(g0), p, observed=x, required=first_out[rep][1], root_dupe=rd, variant=a)
                if x.startswith('("ok"'):
                    ctx.count("exhaustive:ok")
                    outputs.add(x)
                    # preservation: the output is a member of the same class (exact isomorphism test)
                    v = fast_parse(x)
                    try:
                        oli = lab_idx[tuple(lab_of[(nd[0], nd[1], nd[3])] for nd in v[1])]
                        oci = cfg_idx[ex_norm([(e[0], e[1], e[2], e[3]) for e in v[2]])]
                        ok = cls[oli * NC + oci] == rep and v[3] == ""
                    except KeyError:
                        ok = False
                    if not ok:
                        ctx.violation("Canon does not preserve root, nodes and edges (output is not a renumbering of the input)",
                                      {"graph": a, "replay_kind": "canon_graph"}, observed=x)
                    if len(set(lab)) < n:
                        ctx.nontriv(a)
                elif x == '("err")':
                    ctx.count("exhaustive:err")
                else:
                    ctx.violation("Canon neither returned nor failed with an error", {"graph": a, "replay_kind": "canon_graph"}, observed=x)
        # idempotence on every distinct output
        outs = sorted(outputs)
        for st in range(0, len(outs), CH):
            part = outs[st:st + CH]
            args = [out_graph_sx(o) for o in part]
            impl = ctx.impl("canon_graph", args)
            for a, o, o2 in zip(args, part, impl):
                if o2 != o:
                    v = fast_parse(a)
                    h = (v[0], v[1], v[2])
                    orc.classify("Canon is not idempotent (exhaustive small scope)", h, None, observed=o2, required=o,
                                 root_dupe=has_root_dupe(h), variant=a)
        ctx.count("exhaustive:idempotence_checked", len(outs))
    ctx.extra["exhaustive_small_scope"] = True
    ctx.extra["exhaustive_scope"] = "all spaces (E1-E6)" if only is None else "quick tier: %s only (n <= 3, all edge subsets, all renumberings)" % only
    ctx.extra["exhaustive_space"] = {"labels": ["%s@%s" % lv[1:] for lv in EX_LABELS], "spaces": desc, "graphs": total,
                                     "isomorphism_classes": classes_total}
