"""C14 — the in-memory client reports exactly what was last added."""
import lib
from lib import sx, parse_sx
from props import clientcommon as cc
from props.clientcommon import NPM, MAVEN, PYPI, CONCRETE, REQUIREMENT

PROOF_FILE = "C14"
LEVEL = "proof"
RULE = ("histories of AddVersion calls (new keys, repeated keys with changed attributes or requirements, deleted-flagged "
        "versions; npm, Maven, PyPI) interleaved with Version/Versions/Requirements/MatchingVersions calls and closed by a "
        "full observation of every key and package mentioned; a history is non-trivial when some key is added at least "
        "twice with different attributes or requirements and is looked up afterwards")
TRUSTED = [
    "Coq 8.16.1 kernel; vm_compute for the refuted witnesses",
    "translator harness/go/cmd/gotables (system numbers, version types, Deleted/Tags/Dev/KnownAs keys regenerated each run)",
    "extraction (ExtrOcamlBasic only) + Extract/driver.ml; Go harness cmd/implrun (client.go); python generators and reference model",
    "the semver layer is an oracle: the model is run on the table of answers Go's deps.dev/util/semver gave for the strings of "
    "each case (Parse, Compare, IsPrerelease, ParseConstraint, Match); theorems hold for every oracle whose Compare obeys the "
    "comparator laws on parsable strings",
    "strings.ToLower in sortNPMDependencies modelled on ASCII (generated names are ASCII)",
]
ASSUMPTIONS = [
    "model validated against the implementation by execution on generated histories, not verified against Go source",
    "sort.Slice is modelled by the insertion sort it runs on at most 12 elements; on longer slices the result is the same "
    "whenever the comparator separates the elements (theorem isort_is_the_sorted_perm); longer slices with ties are skipped and counted",
    "slices returned by the client are observed at the time of the call; later aliasing effects on a returned slice are C05's subject",
]

MANIFEST = dict(
    category="proof",
    text=("Store model of LocalClient (package -> ordered version list, version key -> requirement list) parametric in a semver "
          "oracle; theorems over all AddVersion/MatchingVersions histories (no length bound): last addition wins for Version "
          "and Requirements, Versions lists each live key once in ecosystem order, every mentioned package is known, never "
          "added keys are not found — proved for AddVersion as repaired in the tree (3f7cc9a), refuted by witness for the old code "
          "(F-C14-1, fixed: the replace branch stored the old value back), and the one-token repair alone shown insufficient for "
          "npm order when tags change; the variant tied to the tree is detected on every run by replaying the witnesses. Model tied to the code by differential execution of histories; the Go outputs are "
          "also compared with a map-based python reference."),
    note=("Trusted: Coq 8.16.1 kernel (+vm_compute), translator gotables, extraction (ExtrOcamlBasic only) and driver.ml, the "
          "Go harness and python generators/reference. The Gallina model is hand-written and validated against the "
          "implementation by execution on every run, not verified against the Go source. The semver layer enters as an "
          "oracle (per-case table of Go's own answers). sort.Slice is modelled by insertion sort (exact up to 12 elements, "
          "unique beyond when the comparator separates the elements)."),
    technique="Rocq proof over a hand-written store model + differential correspondence (extracted OCaml vs Go) + map-based reference",
    design="8 C14")

NAMES = {
    NPM: [b"a", b"b", b"Lib", b"lib", b"@s/x", b"zeta"],
    MAVEN: [b"g:a", b"g:b", b"org:lib"],
    PYPI: [b"a", b"b", b"lib"],
}
DEP_ONLY = {NPM: [b"only-dep", b"A", b"Zed"], MAVEN: [b"g:only"], PYPI: [b"only-dep"]}
# tags whose substring and exact readings agree (the difference is F-C12-2, decided by C12)
TAGSETS = [b"latest", b"next", b"latest,next", b"beta", b"next,latest", b"", b"beta,canary", b"latest-2,latest", b"notlatest,latest", b"latest-2"]
DEP_TYPES = [[], [], [], [[cc.D_DEV, b""]], [[cc.D_OPT, b""]], [[cc.D_KNOWNAS, b"alias"]], [[cc.D_KNOWNAS, b"Alias"]],
             [[cc.D_DEV, b""], [cc.D_KNOWNAS, b"b"]], [[cc.D_SCOPE, b"test"]], [[cc.D_DEV, b""], [cc.D_OPT, b""]],
             [[cc.D_KNOWNAS, b"a"]], [[cc.D_TEST, b""]]]


def gen_attrs(rng, sysn):
    ps = []
    if rng.random() < 0.08:
        ps.append([cc.V_DELETED, b""])
    if rng.random() < 0.1:
        ps.append([rng.choice([cc.V_BLOCKED, cc.V_ERROR]), b""])
    if rng.random() < (0.5 if sysn == NPM else 0.1):
        ps.append([cc.V_TAGS, rng.choice(TAGSETS)])
    if rng.random() < 0.25:
        ps.append([rng.choice([cc.V_REDIRECT, cc.V_REGISTRIES, 9]), rng.choice([b"x", b"y", b"dep:r1,r2", b"", b"1700000000"])])
    rng.shuffle(ps)
    return ps


def gen_deps(rng, sysn, maxn):
    n = rng.choice([0, 0, 1, 2, 3, maxn])
    ds = []
    for _ in range(n):
        s = sysn if rng.random() < 0.93 else rng.choice(cc.SYSTEMS)
        name = rng.choice(NAMES[s] + DEP_ONLY[s])
        ds.append([s, name, REQUIREMENT, rng.choice(cc.REQUIREMENTS[s]), rng.choice(DEP_TYPES)])
    return ds


def gen_history(rng, nops, vpool_size):
    """ops in the case format of implrun/client.go"""
    # per-case pools keep the oracle table small
    vpool = {}
    for s in cc.SYSTEMS:
        base = list(cc.VERSIONS[s])
        if s == PYPI and rng.random() < 0.15:
            base += cc.PYPI_UNPARSABLE
        rng.shuffle(base)
        vpool[s] = base[:vpool_size]
    systems = rng.choice([[NPM], [NPM], [MAVEN], [PYPI], cc.SYSTEMS, cc.SYSTEMS, [NPM, PYPI]])
    names = {s: rng.sample(NAMES[s], rng.randrange(1, min(3, len(NAMES[s])) + 1)) for s in systems}
    added = []
    ops = []
    for _ in range(nops):
        r = rng.random()
        if r < 0.55 or not added:
            if added and rng.random() < 0.45:
                s, name, vt, v = rng.choice(added)
            else:
                s = rng.choice(systems)
                name = rng.choice(names[s])
                vt = CONCRETE if rng.random() < 0.97 else REQUIREMENT
                v = rng.choice(vpool[s])
            ops.append([0, s, name, vt, v, gen_attrs(rng, s), gen_deps(rng, s, 5)])
            added.append((s, name, vt, v))
        else:
            if rng.random() < 0.8:
                s, name, vt, v = rng.choice(added)
            else:
                s = rng.choice(systems)
                name = rng.choice(names[s] + DEP_ONLY[s] + [b"never"])
                vt = CONCRETE
                v = rng.choice(vpool[s])
            q = rng.random()
            if q < 0.3:
                ops.append([1, s, name, vt, v])
            elif q < 0.55:
                ops.append([2, s, name])
            elif q < 0.75:
                ops.append([3, s, name, vt, v])
            else:
                ops.append([4, s, name, REQUIREMENT, rng.choice(cc.REQUIREMENTS[s])])
    # closing observation of everything mentioned, plus things never added
    keys, pkgs = [], []
    for o in ops:
        if o[0] == 0:
            keys.append(tuple(o[1:5]))
            pkgs.append((o[1], o[2]))
            for d in o[6]:
                pkgs.append((d[0], d[1]))
    keys = sorted(set(keys))
    pkgs = sorted(set(pkgs))
    for s in systems:
        pkgs.append((s, b"never"))
        keys.append((s, names[s][0], CONCRETE, b"99.99"))
    for (s, name, vt, v) in keys:
        ops.append([1, s, name, vt, v])
        ops.append([3, s, name, vt, v])
    for (s, name) in pkgs:
        ops.append([2, s, name])
        for rq in rng.sample(cc.REQUIREMENTS[s], 2):
            ops.append([4, s, name, REQUIREMENT, rq])
        ops.append([2, s, name])
    return ops


def needs_of(ops):
    need = {}
    for o in ops:
        if o[0] in (0, 1, 3):
            need.setdefault(o[1], (set(), set()))[0].add(o[4])
        elif o[0] == 4:
            need.setdefault(o[1], (set(), set()))[1].add(o[4])
        elif o[0] == 2:
            need.setdefault(o[1], (set(), set()))
    return need


def check_sorted_deps(given, got):
    """got must be the given requirements; in npm resolution order when the first given one is npm"""
    if not given:
        return got == []
    if given[0][0] != NPM:
        return got == given
    if sorted(map(repr, got)) != sorted(map(repr, given)):
        return False
    for i in range(len(got)):
        for j in range(i + 1, len(got)):
            if cc.dep_less(got[j], got[i]):
                return False
    return True


def reference(ops, tab, obs, stale_attrs=False):
    """The map-based reference of the property, evaluated against the observations obs.
    Returns None or (index of op, what, required).  stale_attrs=True is the pinned behaviour
    of F-C14-1 (the attributes of a key are those of its first effective addition)."""
    store = {}       # key -> [rec, deps]
    known = set()
    oi = 0
    for n, o in enumerate(ops):
        t = o[0]
        if t == 0:
            _, s, name, vt, v, attrs, deps = o
            dump = cc.attrs_dump(attrs)
            if cc.dump_get(dump, cc.V_DELETED) is not None:
                continue
            k = (s, name, vt, v)
            deps_d = [[d[0], d[1], d[2], d[3], cc.attrs_dump(d[4])] for d in deps]
            if stale_attrs and k in store:
                store[k] = [store[k][0], deps_d]
            else:
                store[k] = [[v, vt, dump], deps_d]
            known.add((s, name))
            for d in deps:
                known.add((d[0], d[1]))
            continue
        got = obs[oi]
        oi += 1
        if t == 1:
            k = tuple(o[1:5])
            want = [b"ok", store[k][0]] if k in store else [b"notfound"]
            if got != want:
                return n, "Version does not return the attributes of the most recent addition", want
        elif t == 3:
            k = tuple(o[1:5])
            if k not in store:
                if got != [b"notfound"]:
                    return n, "Requirements of a key never added is not reported as not found", [b"notfound"]
            elif got[0] != b"ok" or not check_sorted_deps(store[k][1], got[1]):
                want = store[k][1]
                if want and want[0][0] == NPM:
                    import functools
                    want = sorted(want, key=functools.cmp_to_key(
                        lambda a, b: -1 if cc.dep_less(a, b) else (1 if cc.dep_less(b, a) else 0)))
                return n, "Requirements are not those of the most recent addition in resolution order", [b"ok", want]
        elif t in (2, 4):
            s, name = o[1], o[2]
            if (s, name) not in known:
                if got != [b"notfound"]:
                    return n, "a package never mentioned is not reported as not found", [b"notfound"]
                continue
            recs = [store[k][0] for k in sorted(store) if k[0] == s and k[1] == name]
            if got[0] != b"ok":
                return n, "a known package is reported as not found", [b"ok", recs]
            strs = [r[0] for r in recs]
            in_quant = all(k[2] == CONCRETE for k in store if k[0] == s and k[1] == name) and \
                (s == NPM or all(tab.parses(s, v) for v in strs))
            if t == 2:
                if sorted(map(repr, got[1])) != sorted(map(repr, recs)):
                    return n, "Versions does not list each added (non-deleted) version exactly once", [b"ok", recs]
                if not in_quant:
                    continue
                if s == NPM:
                    want = cc.npm_order(tab, recs)
                    if got[1] != want:
                        return n, "Versions is not in ascending npm order", [b"ok", want]
                elif not cc.ascending(tab, s, got[1]):
                    return n, "Versions is not in ascending order", [b"ok", recs]
            else:
                req = o[4]
                if not in_quant:
                    continue
                if s == NPM:
                    want = cc.expected_matches(tab, s, req, cc.npm_order(tab, recs))
                    if got[1] != want:
                        return n, "MatchingVersions differs from the matching versions in npm order", [b"ok", want]
                else:
                    want = [r for r in recs if cc.satisfies(tab, s, req, r)]
                    if sorted(map(repr, got[1])) != sorted(map(repr, want)) or not cc.ascending(tab, s, got[1]):
                        return n, "MatchingVersions differs from the matching versions in ascending order", [b"ok", want]
    return None


PROBE_STALE, PROBE_RESORT = cc.PROBE_STALE, cc.PROBE_RESORT


def run(ctx):
    rng = ctx.rng
    variant = cc.detect_variant(ctx)
    addv = variant[0]

    n_hist = ctx.scale(2000, 40000)
    hists = []
    for i in range(n_hist):
        if ctx.thorough() and i % 20 == 0:
            nops = rng.randrange(60, 401)
            pool = 14
        else:
            nops = rng.randrange(1, 61)
            pool = rng.choice([4, 6, 8, 10])
        hists.append(gen_history(rng, nops, pool))
    # the recorded witnesses first
    hists = [PROBE_STALE, PROBE_RESORT] + hists
    tabs = cc.request_tables(ctx, [needs_of(h) for h in hists])
    cases = [sx([variant, t.parsed, h]) for h, t in zip(hists, tabs)]
    impl, model = ctx.correspond("client_history", cases)
    lib.kernel_crosscheck(ctx, [("client_history", c, m) for c, m in zip(cases, model) if '"oom"' not in m], maxn=60)

    for h, t, line, case in zip(hists, tabs, impl, cases):
        nadd = sum(1 for o in h if o[0] == 0)
        ctx.count("ops", len(h))
        ctx.count("adds", nadd)
        ctx.count("lookups", len(h) - nadd)
        ctx.count("systems:%d" % len(set(o[1] for o in h)))
        obs = parse_sx(line)
        if obs == [b"panic"]:
            ctx.violation("LocalClient panics", case[:2000], observed=line)
            continue
        # repeated keys with a change, looked up later
        seen = {}
        changed = set()
        nontriv = False
        for o in h:
            if o[0] == 0:
                k = tuple(o[1:5])
                if k in seen and seen[k] != repr(o[5:]):
                    changed.add(k)
                seen[k] = repr(o[5:])
                if cc.dump_get(cc.attrs_dump(o[5]), cc.V_DELETED) is not None:
                    ctx.count("adds:deleted")
            elif o[0] in (1, 3) and tuple(o[1:5]) in changed:
                nontriv = True
        if changed:
            ctx.count("hist:with_changed_repeat")
        if nontriv:
            ctx.nontriv(h)
        bad = reference(h, t, obs)
        if bad is not None:
            pinned = reference(h, t, obs, stale_attrs=True) if addv == 0 else bad
            if pinned is None:
                # the behaviour is exactly that of the open known finding: first attributes kept
                n, what, want = bad
                ctx.violations.append({"what": what, "input": {"ops": sx(h), "failing_op_index": n}, "observed": line[:3000],
                                       "required": sx(want), "kind": "oracle", "known": "F-C14-1"})
            else:
                # report the first observation that the known finding does not explain
                n, what, want = pinned
                k = sum(1 for o in h[:n] if o[0] != 0)
                payload = {"ops": sx(h), "failing_op_index": n, "failing_op": sx(h[n]),
                           "replay_case": "client_history\t" + sx([variant, [], h])}
                ctx.violation(what, payload, observed=sx(obs[k]) if k < len(obs) else line[:3000], required=sx(want))
        if len(ctx.samples) < 3 and nontriv:
            ctx.sample({"kind": "client_history", "ops": sx(h)[:600], "impl": line[:300]})


def oracle_only(ctx):
    """used when the proofs or the model do not build: reference model on the Go outputs only"""
    rng = ctx.rng
    hists = [gen_history(rng, rng.randrange(1, 61), rng.choice([4, 6, 8])) for _ in range(1000)]
    tabs = cc.request_tables(ctx, [needs_of(h) for h in hists])
    outs = ctx.impl("client_history", [sx([0, [], h]) for h in hists])
    for h, t, line in zip(hists, tabs, outs):
        obs = parse_sx(line)
        bad = reference(h, t, obs)
        if bad is not None and reference(h, t, obs, stale_attrs=True) is not None:
            n, what, want = bad
            ctx.violation(what, {"ops": sx(h), "failing_op_index": n}, observed=line[:3000], required=sx(want))
