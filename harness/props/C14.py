"""C14 — the in-memory client reports exactly what was last added."""
import lib
from lib import sx, parse_sx
from props import clientcommon as cc
from props.clientcommon import NPM, MAVEN, PYPI, CONCRETE, REQUIREMENT

PROOF_FILE = "C14"
LEVEL = "proof"
RULE = ("histories of AddVersion calls (new keys, repeated keys with changed attributes or requirements, deleted-flagged "
        "versions, a caller reusing one requirement buffer for two versions; npm, Maven, PyPI; 1 history in 20 with a package of "
        "more than 12 versions and requirement lists of 13-16) interleaved with Version/Versions/Requirements/MatchingVersions "
        "calls and closed by a full observation of every key and package mentioned; a history is non-trivial when some key is "
        "added at least twice with different attributes or requirements and is looked up afterwards")
TRUSTED = [
    "Coq 8.16.1 kernel; vm_compute for the refuted witnesses",
    "translator harness/go/cmd/gotables (system numbers, version types, Deleted/Tags/Dev/KnownAs keys regenerated each run)",
    "extraction (ExtrOcamlBasic only) + Extract/driver.ml; Go harness cmd/implrun (client.go); python generators and reference model",
    "the semver layer is an oracle: the model is run on the table of answers Go's deps.dev/util/semver gave for the strings of "
    "each case (Parse, Compare, IsPrerelease, ParseConstraint, Match); theorems hold for every oracle whose Compare obeys the "
    "comparator laws on parsable strings",
    "strings.ToLower in sortNPMDependencies modelled on ASCII (generated names are ASCII)",
]
ASSUMPTIONS = [
    "model validated against the implementation by execution on generated histories, not verified against Go source",
    "sort.Slice is modelled by the insertion sort it runs on at most 12 elements; on longer slices the result is the same "
    "whenever the comparator separates the elements (theorem isort_is_the_sorted_perm); longer slices with ties are skipped and counted",
    "slices returned by the client are observed at the time of the call; later aliasing effects on a returned slice are C05's subject",
    "the oracle demands what C14 states: each live key once with its current attributes, ascending by the version comparison of the "
    "system (npm: the version tagged latest last unless a prerelease while releases exist); the order among versions that compare "
    "equal, the place of unparsable strings and which of several versions a non-range npm requirement selects are C12's clauses and "
    "are also taken out of the model/implementation comparison here; requirement order is judged by the version's own system, "
    "lists mixing npm and other systems only as multisets",
    "the package-level latest rule for MatchingVersions and the emptying of requirements by a re-addition with none are theorems "
    "(C14_matching_selects_from_versions_npm, C14_matching_latest_on_package, C14_readd_empty_requirements), not only oracle clauses",
    "histories on whose table Go's comparator is not lawful (the hypothesis laws_ok of the theorems) are counted and sent to the "
    "reference model only",
]

MANIFEST = dict(
    category="proof",
    text=("Store model of LocalClient (package -> ordered version list, version key -> requirement list) parametric in a semver "
          "oracle; theorems over all AddVersion/MatchingVersions histories (no length bound): last addition wins for Version "
          "and Requirements, Versions lists each live key once in ecosystem order, every mentioned package is known, never "
          "added keys are not found — proved for AddVersion as repaired in the tree (3f7cc9a), refuted by witness for the old code "
          "(F-C14-1, fixed: the replace branch stored the old value back), and the one-token repair alone shown insufficient for "
          "npm order when tags change; the variant tied to the tree is detected on every run by replaying the witnesses. Model tied to the code by differential execution of histories; the Go outputs are "
          "also compared with a map-based python reference. Also theorems (npm, repaired client, all histories): the slice Versions "
          "returns is a fixed point of SortVersions; MatchingVersions is the selection by the requirement from that very list "
          "(filter for a constraint, its first element for a non-range; Maven/PyPI: filter) - so the latest rule is decided on "
          "the package, not on the match (C14_matching_latest_on_package, C14_versions_latest_position, with an example where "
          "package and match disagree about having a release); a re-addition without requirements leaves none "
          "(C14_readd_empty_requirements); the npm requirement order is determined (independent of the order given, and of the "
          "sorting algorithm) when no two requirements share shown name and dev-only status (C14_requirements_order_unique, "
          "_any_sort, _order_insensitive), refuted for ties (C14_requirements_ties_refuted)."),
    note=("Trusted: Coq 8.16.1 kernel (+vm_compute), translator gotables, extraction (ExtrOcamlBasic only) and driver.ml, the "
          "Go harness and python generators/reference. The Gallina model is hand-written and validated against the "
          "implementation by execution on every run, not verified against the Go source. The semver layer enters as an "
          "oracle (per-case table of Go's own answers). sort.Slice is modelled by insertion sort (exact up to 12 elements, "
          "unique beyond when the comparator separates the elements)."),
    technique="Rocq proof over a hand-written store model + differential correspondence (extracted OCaml vs Go) + map-based reference",
    design="8 C14")

NAMES = {
    NPM: [b"a", b"b", b"Lib", b"lib", b"@s/x", b"zeta"],
    MAVEN: [b"g:a", b"g:b", b"org:lib"],
    PYPI: [b"a", b"b", b"lib"],
}
DEP_ONLY = {NPM: [b"only-dep", b"A", b"Zed"], MAVEN: [b"g:only"], PYPI: [b"only-dep"]}
# tags whose substring and exact readings agree (the difference is F-C12-2, decided by C12)
TAGSETS = [b"latest", b"next", b"latest,next", b"beta", b"next,latest", b"", b"beta,canary", b"latest-2,latest", b"notlatest,latest", b"latest-2"]
DEP_TYPES = [[], [], [], [[cc.D_DEV, b""]], [[cc.D_OPT, b""]], [[cc.D_KNOWNAS, b"alias"]], [[cc.D_KNOWNAS, b"Alias"]],
             [[cc.D_DEV, b""], [cc.D_KNOWNAS, b"b"]], [[cc.D_SCOPE, b"test"]], [[cc.D_DEV, b""], [cc.D_OPT, b""]],
             [[cc.D_KNOWNAS, b"a"]], [[cc.D_TEST, b""]]]


def gen_attrs(rng, sysn):
    ps = []
    if rng.random() < 0.08:
        ps.append([cc.V_DELETED, b""])
    if rng.random() < 0.1:
        ps.append([rng.choice([cc.V_BLOCKED, cc.V_ERROR]), b""])
    if rng.random() < (0.5 if sysn == NPM else 0.1):
        ps.append([cc.V_TAGS, rng.choice(TAGSETS)])
    if rng.random() < 0.25:
        ps.append([rng.choice([cc.V_REDIRECT, cc.V_REGISTRIES, 9]), rng.choice([b"x", b"y", b"dep:r1,r2", b"", b"1700000000"])])
    rng.shuffle(ps)
    return ps


# Names.  The npm order compares lower-cased names, so the characters between Z and a in ASCII
# ( [ \\ ] ^ _ ` ) must sort before the letters whatever the case of the letters.
LETTERS = b"abcxyzABCXYZ"
BETWEEN = b"_[]^`\\"
PLAIN = b"abmzABMZ019-."
NON_ASCII = ["\u00c9clair", "\u00e9clair", "\u00dcnit", "unit\u00e9", "\u03a9mega", "zo\u00eb", "Zo\u00cb"]


def odd_names(rng):
    """two or three names that first differ where one has a character between Z and a and the
    others a letter (of either case)"""
    pre = rng.choice([b"", b"", b"@s/", b"@Sc/"]) + bytes(rng.choice(PLAIN) for _ in range(rng.randrange(0, 4)))
    suf = lambda: bytes(rng.choice(PLAIN + BETWEEN) for _ in range(rng.randrange(0, 3)))
    out = [pre + bytes([rng.choice(BETWEEN)]) + suf(), pre + bytes([rng.choice(LETTERS)]) + suf()]
    if rng.random() < 0.5:
        out.append(pre + bytes([rng.choice(LETTERS)]) + suf())
    if rng.random() < 0.2:
        out.append(pre)
    return out


def gen_deps(rng, sysn, maxn):
    n = rng.choice([0, 0, 1, 2, 3, maxn])
    ds = []
    for _ in range(n):
        s = sysn if rng.random() < 0.93 else rng.choice(cc.SYSTEMS)
        name = rng.choice(NAMES[s] + DEP_ONLY[s])
        ds.append([s, name, REQUIREMENT, rng.choice(cc.REQUIREMENTS[s]), rng.choice(DEP_TYPES)])
    if n and rng.random() < 0.3:
        # names over the wider alphabet, as package names and as KnownAs aliases
        for nm in odd_names(rng):
            ty = rng.choice([[], [], [[cc.D_OPT, b""]], [[cc.D_DEV, b""]]])
            if rng.random() < 0.25:
                ds.append([sysn, rng.choice(NAMES[sysn]), REQUIREMENT, rng.choice(cc.REQUIREMENTS[sysn]), ty + [[cc.D_KNOWNAS, nm]]])
            else:
                ds.append([sysn, nm, REQUIREMENT, rng.choice(cc.REQUIREMENTS[sysn]), ty])
        if rng.random() < 0.03:
            for nm in rng.sample(NON_ASCII, 2):      # strings.ToLower folds these too (oracle only)
                ds.append([sysn, nm.encode("utf-8"), REQUIREMENT, rng.choice(cc.REQUIREMENTS[sysn]), []])
        rng.shuffle(ds)
    return ds


def gen_long_deps(rng, sysn):
    """13-16 requirements: beyond the slice length up to which Go sorts by insertion.  Mostly with
    pairwise different shown names (the order is then determined), sometimes with ties by shown
    name (alias/Alias, the same name twice)."""
    n = rng.randrange(13, 17)
    ties = rng.random() < 0.3
    names = [b"d%02d" % i for i in range(16)] + [b"D03", b"Zz", b"@s/q", b"d_1", b"d^", b"d[0]", b"dA", b"da_", b"d`", b"_d"]
    rng.shuffle(names)
    ds = []
    for i in range(n):
        ty = rng.choice([[], [], [[cc.D_DEV, b""]], [[cc.D_OPT, b""]], [[cc.D_SCOPE, b"test"]], [[cc.D_DEV, b""], [cc.D_OPT, b""]]])
        name = names[i]
        if ties and rng.random() < 0.3:
            name = rng.choice([names[0], b"alias"])
            ty = rng.choice([[], [[cc.D_KNOWNAS, b"alias"]], [[cc.D_KNOWNAS, b"Alias"]], [[cc.D_OPT, b""]]])
        ds.append([sysn, name, REQUIREMENT, rng.choice(cc.REQUIREMENTS[sysn]), ty])
    return ds


def gen_history(rng, nops, vpool_size, alias=0, long=False):
    """ops in the case format of implrun/client.go"""
    # per-case pools keep the oracle table small
    vpool = {}
    for s in cc.SYSTEMS:
        base = list(cc.VERSIONS[s])
        if s == PYPI and rng.random() < 0.15:
            base += cc.PYPI_UNPARSABLE
        rng.shuffle(base)
        while len(base) < vpool_size:
            v = cc.rand_version(rng, s)
            if v not in base:
                base.append(v)
        vpool[s] = base[:vpool_size]
    if long:
        # one package that grows beyond 12 versions, and requirement lists beyond 12
        systems = [rng.choice(cc.SYSTEMS)]
        names = {systems[0]: [NAMES[systems[0]][0]]}
    else:
        systems = rng.choice([[NPM], [NPM], [MAVEN], [PYPI], cc.SYSTEMS, cc.SYSTEMS, [NPM, PYPI]])
        names = {s: rng.sample(NAMES[s], rng.randrange(1, min(3, len(NAMES[s])) + 1)) for s in systems}
    added = []
    ops = []
    for _ in range(nops):
        r = rng.random()
        if r < (0.7 if long else 0.55) or not added:
            if added and rng.random() < (0.2 if long else 0.45):
                s, name, vt, v = rng.choice(added)
            else:
                s = rng.choice(systems)
                name = rng.choice(names[s])
                vt = CONCRETE if rng.random() < 0.97 else REQUIREMENT
                v = rng.choice(vpool[s])
            if rng.random() < 0.04:
                # a caller that reuses one buffer for the requirements of two versions
                v2 = rng.choice(vpool[s])
                if v2 != v:
                    buf = gen_deps(rng, s, 6) or gen_deps(rng, s, 6)
                    while len(buf) < 2:
                        buf += gen_deps(rng, s, 3)
                    ops.append([5, alias, s, name, vt, v, gen_attrs(rng, s), rng.randrange(0, len(buf) + 1),
                                v2, gen_attrs(rng, s), rng.randrange(0, len(buf) + 1), buf])
                    added += [(s, name, vt, v), (s, name, vt, v2)]
                    continue
            deps = gen_long_deps(rng, s) if (long and rng.random() < 0.15) else gen_deps(rng, s, 5)
            ops.append([0, s, name, vt, v, gen_attrs(rng, s), deps])
            added.append((s, name, vt, v))
        else:
            if rng.random() < 0.8:
                s, name, vt, v = rng.choice(added)
            else:
                s = rng.choice(systems)
                name = rng.choice(names[s] + DEP_ONLY[s] + [b"never"])
                vt = CONCRETE
                v = rng.choice(vpool[s])
            q = rng.random()
            if q < 0.3:
                ops.append([1, s, name, vt, v])
            elif q < 0.55:
                ops.append([2, s, name])
            elif q < 0.75:
                ops.append([3, s, name, vt, v])
            else:
                ops.append([4, s, name, REQUIREMENT, rng.choice(cc.REQUIREMENTS[s])])
    # closing observation of everything mentioned, plus things never added
    keys, pkgs = [], []
    for o in ops:
        for (s, name, vt, v, attrs, deps) in adds_of(o):
            keys.append((s, name, vt, v))
            pkgs.append((s, name))
            for d in deps:
                pkgs.append((d[0], d[1]))
    keys = sorted(set(keys))
    pkgs = sorted(set(pkgs))
    for s in systems:
        pkgs.append((s, b"never"))
        keys.append((s, names[s][0], CONCRETE, b"99.99"))
    for (s, name, vt, v) in keys:
        ops.append([1, s, name, vt, v])
        ops.append([3, s, name, vt, v])
    for (s, name) in pkgs:
        ops.append([2, s, name])
        for rq in rng.sample(cc.REQUIREMENTS[s], 2):
            ops.append([4, s, name, REQUIREMENT, rq])
        ops.append([2, s, name])
    return ops


LATEST_REL = [b"1.0.0", b"1.1.0", b"2.0.0", b"3.0.0", b"0.9.0"]
LATEST_PRE = [b"2.0.0-a", b"2.0.0-b", b"2.0.0-rc.1", b"3.0.0-0", b"3.0.0-beta", b"1.0.0-alpha", b"2.0.0-beta"]
LATEST_REQS = [b">=2.0.0-0 <2.0.0", b"^2.0.0-0", b"2.0.0-a - 2.0.0-z", b">=3.0.0-0 <3.0.0", b"*", b">=1.0.0-0", b"latest", b">=2.0.0-a",
               b"<2.0.0-z", b"^1.0.0", b">=2.0.0-0 <3.0.0-z"]


def latest_rule_history(rng, alias=0):
    """npm's rule for the version tagged latest looks at the WHOLE package (a tagged prerelease goes last only when the
    package has no release): packages mixing releases and prereleases with the tag on either kind, matched with
    requirements that select prereleases only, releases only, or both"""
    name = NAMES[NPM][0]
    vs = rng.sample(LATEST_PRE, rng.randrange(2, 5)) + rng.sample(LATEST_REL, rng.choice([0, 1, 1, 2]))
    rng.shuffle(vs)
    tagged = rng.choice([v for v in vs if b"-" in v]) if rng.random() < 0.75 else rng.choice(vs)
    ops = []
    for v in vs:
        attrs = [[cc.V_TAGS, rng.choice([b"latest", b"next,latest", b"latest"])]] if v == tagged else \
            ([[cc.V_TAGS, b"next"]] if rng.random() < 0.15 else [])
        ops.append([0, NPM, name, CONCRETE, v, attrs, gen_deps(rng, NPM, 2)])
        if rng.random() < 0.3:
            ops.append([4, NPM, name, REQUIREMENT, rng.choice(LATEST_REQS)])
    if rng.random() < 0.3:
        # the tag moves: the same version again without it, another one with it
        v2 = rng.choice(vs)
        ops.append([0, NPM, name, CONCRETE, tagged, [], []])
        ops.append([0, NPM, name, CONCRETE, v2, [[cc.V_TAGS, b"latest"]], []])
    ops.append([2, NPM, name])
    for rq in LATEST_REQS:
        ops.append([4, NPM, name, REQUIREMENT, rq])
    ops.append([2, NPM, name])
    return ops


def adds_of(o):
    """the AddVersion calls an op makes, as (sys, name, vtype, version, attrs, requirements given);
    for the buffer-reusing op the second call is given what the buffer holds after the first"""
    if o[0] == 0:
        return [tuple(o[1:7])]
    if o[0] == 5:
        _, _, s, name, vt, v1, a1, n, v2, a2, m, buf = o
        b1 = caller_buffer_after(a1, n, buf)
        return [(s, name, vt, v1, a1, buf[:n]), (s, name, vt, v2, a2, b1[:m])]
    return []


def is_deleted(attrs):
    return cc.dump_get(cc.attrs_dump(attrs), cc.V_DELETED) is not None


def dump_deps(deps):
    return [[d[0], d[1], d[2], d[3], cc.attrs_dump(d[4])] for d in deps]


INPLACE = [True]     # does AddVersion sort the caller's slice in place?  (set from the witness replay)


def caller_buffer_after(attrs, n, buf):
    """AddVersion sorts the slice it is given in place (unless the version is flagged deleted)"""
    head = list(buf[:n])
    if not INPLACE[0] or is_deleted(attrs) or not head or head[0][0] != NPM:
        return list(buf)
    import functools
    less = lambda a, b: cc.dep_less(dump_deps([a])[0], dump_deps([b])[0])
    head.sort(key=functools.cmp_to_key(lambda a, b: -1 if less(a, b) else (1 if less(b, a) else 0)))
    return head + list(buf[n:])


def needs_of(ops):
    need = {}
    for o in ops:
        if o[0] in (0, 1, 3):
            need.setdefault(o[1], (set(), set()))[0].add(o[4])
        elif o[0] == 4:
            need.setdefault(o[1], (set(), set()))[1].add(o[4])
        elif o[0] == 2:
            need.setdefault(o[1], (set(), set()))
        elif o[0] == 5:
            need.setdefault(o[2], (set(), set()))[0].update([o[5], o[8]])
    return need


def deps_rule(vsys, given):
    """What the property says about the order of the requirements of a version of system vsys:
    npm: the requirements of an npm version come back in npm resolution order;
    asgiven: no npm involved, they come back as given;
    any: a list mixing npm and other systems, about whose order the property is silent."""
    npm = [d[0] == NPM for d in given]
    if vsys == NPM and all(npm):
        return "npm"
    if vsys != NPM and not any(npm):
        return "asgiven"
    return "any"


def check_sorted_deps(vsys, given, got):
    """got must be the given requirements, each once; ordered as deps_rule says (requirements
    that the npm order does not separate may come in any order)"""
    rule = deps_rule(vsys, given)
    if rule == "asgiven":
        return got == given
    if sorted(map(repr, got)) != sorted(map(repr, given)):
        return False
    if rule == "npm":
        for i in range(len(got)):
            for j in range(i + 1, len(got)):
                if cc.dep_less(got[j], got[i]):
                    return False
    return True


def ascending_eco(tab, s, recs, package=None):
    """Ascending by the version comparison of the system, versions that compare equal in any
    order (the order among them is C12's clause; unparsable strings are not judged here).
    npm: the version tagged latest stands last instead, unless it is a prerelease while releases
    exist IN THE PACKAGE.  package: recs is a selection (a match) of these live versions of the package;
    the rule for the tagged version is decided on the package, as C12 states it for the list given to the
    matcher, not on the selection."""
    if s != NPM:
        return cc.ascending(tab, s, recs)

    def asc(l):
        for i in range(len(l)):
            for j in range(i + 1, len(l)):
                a, b = l[i][0], l[j][0]
                if tab.parses(NPM, a) and tab.parses(NPM, b) and tab.cmp(NPM, b, a) < 0:
                    return False
        return True
    tagged = lambda r: b"latest" in cc.tags_of(r).split(b",")
    pre = lambda r: tab.parses(NPM, r[0]) and tab.prerelease(NPM, r[0])
    moved_ok = bool(recs) and tagged(recs[-1]) and asc(recs[:-1])
    whole = recs if package is None else package
    some_release = any(not pre(r) for r in whole)
    stays = [r for r in whole if tagged(r) and pre(r) and some_release]     # tagged, but not to be moved
    moves = [r for r in whole if tagged(r) and not (pre(r) and some_release)]
    if len(stays) + len(moves) > 1:
        # the registry keeps one latest; the property does not say which of several tagged versions is meant
        return asc(recs) or (moved_ok and recs[-1] in moves) if package is not None else \
            ((moved_ok and recs[-1] in moves) or (bool(stays) and asc(recs)) if moves else asc(recs))
    if not any(r in moves for r in recs):
        return asc(recs)
    return moved_ok and recs[-1] in moves


def reference(ops, tab, obs, stale_attrs=False, alias=False):
    """The map-based reference of the property, evaluated against the observations obs.
    Returns None or (index of op, what, required).  Pinned behaviours of known findings:
    stale_attrs (F-C14-1): the attributes of a key are those of its first effective addition;
    alias (F-C14-2): the client keeps the caller's requirement slice itself."""
    store = {}       # key -> [rec, requirements, exact order demanded?]
    known = set()
    oi = 0
    for n, o in enumerate(ops):
        t = o[0]
        if t in (0, 5):
            for (s, name, vt, v, attrs, deps) in adds_of(o):
                dump = cc.attrs_dump(attrs)
                if cc.dump_get(dump, cc.V_DELETED) is not None:
                    continue
                k = (s, name, vt, v)
                deps_d = dump_deps(deps)
                if stale_attrs and k in store:
                    store[k] = [store[k][0], deps_d, False]
                else:
                    store[k] = [[v, vt, dump, s, name], deps_d, False]
                known.add((s, name))
                for d in deps:
                    known.add((d[0], d[1]))
            if t == 5:
                oi += 1       # the caller's buffer after the calls: the property does not speak about it
                if alias:
                    _, _, s, name, vt, v1, a1, n1, v2, a2, m, buf = o
                    if not is_deleted(a1) and v1 != v2:
                        b2 = caller_buffer_after(a2, m, caller_buffer_after(a1, n1, buf))
                        store[(s, name, vt, v1)][1:] = [dump_deps(b2[:n1]), True]
            continue
        got = obs[oi]
        oi += 1
        if t == 1:
            k = tuple(o[1:5])
            want = [b"ok", store[k][0]] if k in store else [b"notfound"]
            if got != want:
                return n, "Version does not return the attributes of the most recent addition", want
        elif t == 3:
            k = tuple(o[1:5])
            if k not in store:
                if got != [b"notfound"]:
                    return n, "Requirements of a key never added is not reported as not found", [b"notfound"]
            else:
                given, exact = store[k][1], store[k][2]
                ok = got[0] == b"ok" and (got[1] == given if exact else check_sorted_deps(k[0], given, got[1]))
                if not ok:
                    want = cc.sort_deps_like_go(given) if deps_rule(k[0], given) == "npm" else given
                    return n, "Requirements are not those given in the most recent addition (in npm resolution order)", [b"ok", want]
        elif t in (2, 4):
            s, name = o[1], o[2]
            if (s, name) not in known:
                if got != [b"notfound"]:
                    return n, "a package never mentioned is not reported as not found", [b"notfound"]
                continue
            recs = [store[k][0] for k in sorted(store) if k[0] == s and k[1] == name]
            if got[0] != b"ok":
                return n, "a known package is reported as not found", [b"ok", recs]
            strs = [r[0] for r in recs]
            in_quant = all(k[2] == CONCRETE for k in store if k[0] == s and k[1] == name) and \
                (s == NPM or all(tab.parses(s, v) for v in strs))
            if t == 2:
                if sorted(map(repr, got[1])) != sorted(map(repr, recs)):
                    return n, "Versions does not list each added (non-deleted) version exactly once", [b"ok", recs]
                if in_quant and not ascending_eco(tab, s, got[1]):
                    return n, "Versions is not in ascending order", [b"ok", recs]
            elif in_quant:
                req = o[4]
                want = [r for r in recs if cc.satisfies(tab, s, req, r)]
                if s == NPM and not tab.constraint_ok(NPM, req):
                    # not a range: the version whose string or tag equals it (which one, if several, is C12's clause)
                    if not (len(got[1]) == min(1, len(want)) and all(r in want for r in got[1])):
                        return n, "MatchingVersions (npm, not a range) does not return a live version whose string or tag equals the requirement", [b"ok", want[:1]]
                elif sorted(map(repr, got[1])) != sorted(map(repr, want)) or not ascending_eco(tab, s, got[1], package=recs):
                    return n, "MatchingVersions differs from the live versions that satisfy the requirement, ascending", [b"ok", want]
    return None


def canonical(ops, obs, tab):
    """The observations with what C14 does not state taken out, for the comparison of model and
    implementation: the order inside Versions/MatchingVersions answers (C12 owns the exact
    order; the reference above judges that the implementation's is ascending), which of several
    versions an npm requirement that is not a range selects (C12: the first in npm order; the
    reference judges that it is one of them), and the order of requirement lists about which
    the property is silent."""
    if not isinstance(obs, list):
        return obs
    given = {}
    out = []
    oi = 0
    for o in ops:
        t = o[0]
        if t in (0, 5):
            for (s, name, vt, v, attrs, deps) in adds_of(o):
                if not is_deleted(attrs):
                    given[(s, name, vt, v)] = dump_deps(deps)
            if t == 0:
                continue
        if oi >= len(obs):
            break
        x = obs[oi]
        oi += 1
        if isinstance(x, list) and len(x) == 2 and x[0] == b"ok" and isinstance(x[1], list):
            k = tuple(o[1:5]) if t == 3 else None
            if t == 4 and o[1] == NPM and not tab.constraint_ok(NPM, o[4]):
                x = [x[0], len(x[1])]
            elif t in (2, 4) or (t == 3 and k in given and deps_rule(k[0], given[k]) == "any"):
                x = [x[0], sorted(x[1], key=repr)]
        out.append(x)
    return out + obs[oi:]


PROBE_STALE, PROBE_RESORT = cc.PROBE_STALE, cc.PROBE_RESORT


def history_lawful(h, t):
    """the hypothesis of the theorems on the semver layer (laws_ok), on this history's table"""
    for s, (vs, _) in needs_of(h).items():
        if not cc.table_lawful(t, s, vs):
            return False
    return True


def run(ctx):
    rng = ctx.rng
    variant = cc.detect_variant(ctx)
    addv = variant[0]
    alias = ctx.extra["alias"]
    INPLACE[0] = bool(alias & 2)

    n_hist = ctx.scale(2000, 40000)
    hists = []
    for i in range(n_hist):
        if i % 20 == 0:
            # a package beyond Go's insertion-sort cut-off of 12, requirement lists of 13-16
            nops = rng.randrange(60, 401) if ctx.thorough() else rng.randrange(30, 70)
            hists.append(gen_history(rng, nops, rng.randrange(14, 41), alias, long=True))
        elif i % 10 == 1:
            hists.append(latest_rule_history(rng, alias))
        else:
            hists.append(gen_history(rng, rng.randrange(1, 61), rng.choice([4, 6, 8, 10]), alias))
    # the recorded witnesses first
    hists = [PROBE_STALE, PROBE_RESORT, [list(o) for o in cc.PROBE_ALIAS]] + hists
    hists[2][0][1] = alias
    tabs = cc.request_tables(ctx, [needs_of(h) for h in hists])
    lawful = [history_lawful(h, t) for h, t in zip(hists, tabs)]
    ctx.count("laws:true", sum(lawful))
    ctx.count("laws:false (oracle only)", len(lawful) - sum(lawful))
    cases = [sx([variant, t.parsed, h]) for h, t in zip(hists, tabs)]
    # model and implementation side by side where the hypothesis of the theorems holds; what C14 does
    # not state (the exact order inside a Versions answer) is taken out of the comparison
    idx = [i for i, ok in enumerate(lawful) if ok]
    it = iter(idx)

    def same(x, y):
        i = next(it)
        if x == y:
            return True
        try:
            return canonical(hists[i], parse_sx(x), tabs[i]) == canonical(hists[i], parse_sx(y), tabs[i])
        except Exception:
            return False
    impl_l, model_l = ctx.correspond("client_history", [cases[i] for i in idx], compare=same)
    impl = [None] * len(cases)
    for i, x in zip(idx, impl_l):
        impl[i] = x
    rest = [i for i, ok in enumerate(lawful) if not ok]
    for i, x in zip(rest, ctx.impl("client_history", [cases[i] for i in rest]) if rest else []):
        impl[i] = x
    lib.kernel_crosscheck(ctx, [("client_history", cases[i], m) for i, m in zip(idx, model_l) if '"oom"' not in m], maxn=60)

    for h, t, line, case in zip(hists, tabs, impl, cases):
        nadd = sum(len(adds_of(o)) for o in h)
        ctx.count("ops", len(h))
        ctx.count("adds", nadd)
        ctx.count("lookups", sum(1 for o in h if o[0] in (1, 2, 3, 4)))
        ctx.count("systems:%d" % len(set(o[2] if o[0] == 5 else o[1] for o in h)))
        if any(o[0] == 5 for o in h):
            ctx.count("hist:with_reused_buffer")
        if any(o[0] == 0 and len(o[6]) > 12 for o in h):
            ctx.count("hist:with_more_than_12_requirements")
        per_pkg = {}
        for o in h:
            for a in adds_of(o):
                per_pkg.setdefault(a[:2], set()).add(a[3])
        if any(len(v) > 12 for v in per_pkg.values()):
            ctx.count("hist:with_more_than_12_versions_in_a_package")
        obs = parse_sx(line)
        if obs == [b"panic"]:
            ctx.violation("LocalClient panics", case[:2000], observed=line)
            continue
        # repeated keys with a change, looked up later
        seen = {}
        changed = set()
        nontriv = False
        for o in h:
            for a in adds_of(o):
                k = a[:4]
                if k in seen and seen[k] != repr(a[4:]):
                    changed.add(k)
                seen[k] = repr(a[4:])
                if is_deleted(a[4]):
                    ctx.count("adds:deleted")
            if o[0] in (1, 3) and tuple(o[1:5]) in changed:
                nontriv = True
        if changed:
            ctx.count("hist:with_changed_repeat")
        if nontriv:
            ctx.nontriv(h)
        bad = reference(h, t, obs)
        if bad is not None:
            # is the behaviour exactly that of a known finding?  (the pinned references)
            fid, pinned = None, bad
            if addv == 0 or alias & 1:
                pinned = reference(h, t, obs, stale_attrs=(addv == 0), alias=bool(alias & 1))
                fid = "F-C14-1" if (addv == 0 and reference(h, t, obs, stale_attrs=True) is None) else "F-C14-2"
            if pinned is None:
                n, what, want = bad
                k = sum(1 for o in h[:n] if o[0] != 0)
                ctx.violations.append({"what": what, "input": {"ops": sx(h), "failing_op_index": n, "failing_op": sx(h[n])},
                                       "observed": sx(obs[k]) if k < len(obs) else line[:3000],
                                       "required": sx(want), "kind": "oracle", "known": fid})
            else:
                # report the first observation that no known finding explains
                n, what, want = pinned
                k = sum(1 for o in h[:n] if o[0] != 0)
                payload = {"ops": sx(h), "failing_op_index": n, "failing_op": sx(h[n]),
                           "replay_case": "client_history\t" + sx([variant, [], h])}
                ctx.violation(what, payload, observed=sx(obs[k]) if k < len(obs) else line[:3000], required=sx(want))
        if len(ctx.samples) < 3 and nontriv:
            ctx.sample({"kind": "client_history", "ops": sx(h)[:600], "impl": line[:300]})


def oracle_only(ctx):
    """used when the proofs or the model do not build: reference model on the Go outputs only"""
    rng = ctx.rng
    cc.detect_variant(ctx)
    INPLACE[0] = bool(ctx.extra["alias"] & 2)
    hists = [gen_history(rng, rng.randrange(1, 61), rng.choice([4, 6, 8]), ctx.extra["alias"]) for _ in range(1000)]
    tabs = cc.request_tables(ctx, [needs_of(h) for h in hists])
    outs = ctx.impl("client_history", [sx([0, [], h]) for h in hists])
    for h, t, line in zip(hists, tabs, outs):
        obs = parse_sx(line)
        bad = reference(h, t, obs)
        if bad is not None and reference(h, t, obs, stale_attrs=True, alias=True) is not None:
            n, what, want = bad
            ctx.violation(what, {"ops": sx(h), "failing_op_index": n}, observed=line[:3000], required=sx(want))
