"""C18 — the API-backed client maps bundles and aliases consistently, race-free."""
import collections
import os
import re
import subprocess

import lib
from lib import sx, parse_sx
from gen import apiuniverse as G

PROOF_FILE = "C18"
LEVEL = "proof"
RULE = ("generated npm universes (packages, versions, four dependency sections + bundleDependencies, bundle trees of "
        "depth <= 3, aliases incl. scoped names, is_default) served by an in-process fake pb.InsightsClient; observed: "
        "histories of the four APIClient calls on plain and mangled names, the npm graph over APIClient vs LocalClient, "
        "16 goroutines sharing one APIClient (also under -race), resolving or, in every second case, half of them "
        "issuing the four calls directly (Requirements of a root then the recorded calls on its mangled names; two "
        "of them without Requirements, judged as unknown-or-canonical); counted as non-trivial: universes with a nested bundle "
        "or an alias, and resolutions whose two graphs are equal and have more than two nodes")
TRUSTED = [
    "Coq 8.16.1 kernel; vm_compute for the examples and the constants obligation",
    "translator harness/go/cmd/gotables (attribute keys, api System and VersionType numbers, and the lock table "
    "api_map_functions: per function of api.go touching a.bundledVersions, whether it writes the map and which methods "
    "of bundledVersionsMu it calls; regenerated from the Go sources each run)",
    "extraction (ExtrOcamlBasic only) + Extract/driver.ml; Go harness cmd/implrun (apiclient.go: fake Insights service, "
    "recording client, LocalClient loader written from the property text); python generator and oracle",
    "resolve.MatchRequirement (semver matching) enters the model as a table computed by the Go side per universe",
    "the Go race detector (go build -race) for the schedule part",
]
ASSUMPTIONS = [
    "model validated against the implementation by execution on generated histories and on the npm resolver's own "
    "recorded call sequences, not verified against Go source",
    "the service is a function: the same request gets the same response during one resolution (Section variable svc)",
    "concrete versions and package names served by the service contain no '>' byte (hypothesis svc_plain of the "
    "commutation and interleaving theorems)",
    "critical sections are atomic steps in the model. Properties/C18_lock.v justifies that for the map itself: with "
    "the lock modes read from api.go (a function that writes the map calls Lock, one that reads it calls Lock or "
    "RLock, in the same function as the access) no two critical sections of which one writes can overlap; the shared-"
    "lock writer and the unlocked reader are refuted variants. The semantics of sync.(RW)Mutex, the Go memory model, "
    "and data reachable through stored values after unlocking stay outside and are covered only by the -race runs",
    "sort.Slice is modelled as a stable insertion sort, which is what Go runs for at most 12 elements; 19 in 20 "
    "universes stay within that range and are compared exactly, 1 in 20 has 13-20 flattened dependencies and/or "
    "bundled entries in one response and is compared up to the order of each returned list (clauses and graphs are "
    "order-insensitive anyway; graph differences there fall under F-C18-2 only when tie_reorder_only holds)",
    "in 1 of 10 universes the fake service answers with canonicalised keys (another letter case for names, "
    "GetVersion reporting 1.0.0 for 1.0.0+build): C18 then requires every answer to carry the key that was asked "
    "(the four calls, LocalClient and hence the graphs are keyed by it); the model's service record returns no keys",
    "wf_reqs, plain and the no-> condition on versions are the Coq predicates evaluated by the extracted model on "
    "each response (kind api_wf), not the generator's label",
    "dependency types: Properties/C18_deptype.v proves, over the heap model of attr.Set (Resolve/Attr.v, tied to Go by "
    "the C19 correspondence), that the type flattenNPMDeps builds by Clone (+AddAttr KnownAs) is indistinguishable by "
    "IsRegular/GetAttr/HasAttr/Equal/Compare from the same type built from the zero value; that api.go performs exactly "
    "these operations (Clone of the section type per entry) is read off the source, and its effect is observed on Go: "
    "every requirement reports IsRegular and Equal/Compare against a rebuilt type",
    "the npm resolver and LocalClient are not modelled here (C06/C14): graph equality API vs Local and the trace "
    "discipline of the resolver are decided by the direct oracle on the Go outputs",
]

MANIFEST = dict(
    category="proof",
    text=("State-machine model of the npm part of resolve.APIClient (flattenNPMDeps, npmRequirements, mangled names, the "
          "bundledVersions map, the four calls) parametric in the service and in the semver oracle. Theorems for every "
          "service and every well-formed response: each bundled entry becomes one derived version recording DerivedFrom; "
          "its bundling parent requires exactly that version and MatchingVersions returns exactly it; the four calls agree "
          "in every later state; aliases npm:name@range split at the last @ and carry KnownAs; bundledVersions updates "
          "commute; under every interleaving of atomic calls each client following the trace discipline gets its "
          "sequential answers, and cannot tell the lazy API client from an eager pre-loaded one; every dependency type "
          "built by Clone of a section type (+KnownAs) is observationally equal (IsRegular, GetAttr for every key, Equal, "
          "Compare) to the same type built from the zero value, in particular a cloned empty set is regular; with the lock "
          "modes regenerated from api.go, critical sections touching the bundle map never overlap when one writes "
          "(writer exclusive, readers locked); a program observing its "
          "client only through the four calls returns equal results on observationally equal clients. Tied to the code by "
          "differential execution (call histories and the resolver's own call traces); clauses, graph(API)=graph(Local) "
          "and 16-goroutine runs (also -race) evaluated directly on Go."),
    note=("Trusted: Coq kernel (+vm_compute), gotables translator, extraction + driver.ml, the Go harness (fake Insights "
          "service, LocalClient loader), python generator/oracle, the Go race detector. The model is hand-written and "
          "validated by execution each run. Physical data races are outside the model (critical sections are atomic): "
          "-race runs are supporting evidence. The resolver and LocalClient are not modelled in this package; the graph "
          "clause is an oracle on Go outputs. Open findings: F-C18-1 a dependency on a package unknown to the service "
          "aborts API-backed resolution while LocalClient yields a graph with a node error; F-C18-2 requirements with "
          "tying sort keys come in different orders from the two clients (unstable sort over lists of different length), "
          "which can change the graph."),
    technique="Rocq proof over a hand-written state-machine model + differential correspondence + direct oracle on Go (incl. go -race)",
    design="8 C18")


# ----------------------------------------------------------------------------- helpers

def key_numbers(ctx):
    """attribute key numbers by name, asked from the Go side (stringer)"""
    ks = list(range(-128, 128))
    dn = ctx.impl("dep_keyname", [sx(k) for k in ks])
    vn = ctx.impl("ver_keyname", [sx(k) for k in ks])
    dep = {parse_sx(n).decode(): k for k, n in zip(ks, dn)}
    ver = {parse_sx(n).decode(): k for k, n in zip(ks, vn)}
    return dep, ver


SECTION_BASE = None  # filled in run(): attrs of the four sections


def spec_reqs(deps):
    """(name, requirement) pairs that the flattened requirements are about (for probing only)"""
    out = []
    for sec in deps["sec"]:
        for n, r in sec:
            if r.startswith(b"npm:") and b"@" in r[4:]:
                x, rr = r[4:].rsplit(b"@", 1)
                out.append((x, rr))
            else:
                out.append((n, r))
    for n in deps["bundle"]:
        out.append((n, b"*"))
    return out


def bundle_index(u):
    """per root (name, version): list of dict(m, pkgs, parent (mangled or None), b)"""
    idx = {}
    for p in u["pkgs"]:
        for v in p["vers"]:
            ents = []
            for b in v["bundled"]:
                pkgs = G.path_pkgs(b["path"])
                m = G.mangled(p["name"], v["version"], pkgs)
                parent = G.mangled(p["name"], v["version"], pkgs[:-1]) if len(pkgs) > 1 else None
                ents.append(dict(m=m, pkgs=pkgs, parent=parent, b=b))
            idx[(p["name"], v["version"])] = ents
    return idx


def build_history(rng, u, cls):
    """ops (python lists) with tags for the oracle. tag = None | (what, root, entry-index, phase)"""
    ops, tags = [], []

    def add(op, tag=None):
        ops.append(op)
        tags.append(tag)

    idx = bundle_index(u)
    roots = list(idx.keys())
    rng.shuffle(roots)
    roots = roots[:6]
    with_b = [r for r in roots if idx[r]]
    # phase A: mangled names before any Requirements
    for r in with_b[:2]:
        e = rng.choice(idx[r])
        add([rng.choice([0, 2, 3]), e["m"], e["b"]["version"]], ("pre", r))
        add([1, e["m"]], ("pre", r))

    def four(r, phase):
        for i, e in enumerate(idx[r]):
            ver = e["b"]["version"]
            add([1, e["m"]], ("versions", r, i, phase))
            add([0, e["m"], ver], ("version", r, i, phase))
            add([3, e["m"], ver], ("matching", r, i, phase))
            add([2, e["m"], ver], ("requirements", r, i, phase))

    # phase B: Requirements of each root, then the four calls on its bundles
    for r in roots:
        add([2, r[0], r[1]], ("rootreq", r, 0))
        four(r, 0)
    # phase C: later states: Requirements again (same and other roots), then the four calls again
    again = list(roots)
    rng.shuffle(again)
    for r in again[:3]:
        add([2, r[0], r[1]], ("rootreq", r, 1))
    for r in with_b:
        four(r, 1)
    # phase D: plain names, probes
    for p in u["pkgs"]:
        add([1, p["name"]])
        for v in p["vers"]:
            add([0, p["name"], v["version"]])
        add([0, p["name"], b"9.9.9"])
    add([1, b"nosuch"])
    add([2, b"nosuch", b"1.0.0"])
    add([2, u["pkgs"][0]["name"], b"9.9.9"])
    probes = set()
    for p in u["pkgs"]:
        for v in p["vers"]:
            for n, r in spec_reqs(v["deps"]):
                probes.add((n, r))
            for b in v["bundled"]:
                for n, r in spec_reqs(b["deps"]):
                    probes.add((n, r))
    probes = sorted(probes)
    rng.shuffle(probes)
    for n, r in probes[:14]:
        if b">" in n:
            continue
        add([3, n, r])
    add([3, u["pkgs"][0]["name"], b"latest"])
    # a requirement with another version string on a mangled name matches nothing (api.go says so explicitly)
    for r in with_b[:2]:
        e = rng.choice(idx[r])
        add([3, e["m"], b"9.9.9"])
    add([1, b"nosuch>1.0.0>x"])
    return ops, tags, idx, roots


def unordered(line):
    """a result line with every returned list sorted"""
    try:
        res = parse_sx(line)
    except Exception:
        return line
    out = []
    for a in res:
        if isinstance(a, list) and len(a) == 2 and a[0] == b"ok" and isinstance(a[1], list) and all(isinstance(x, list) for x in a[1]):
            out.append([b"ok", sorted(a[1], key=sx)])
        else:
            out.append(a)
    return sx(out)


def table_queries(ops):
    return sorted({(o[1], o[2]) for o in ops if o[0] == 3 and b">" not in o[1]})


# ----------------------------------------------------------------------------- the clauses of C18 on call results

def hypotheses(ctx, unis, with_model):
    """per universe: {(name, version): (wf_reqs, plain name, no > in version)}. With the model available these are
    the Coq predicates of the theorems evaluated on the response (kind api_wf); without it (oracle_only) the
    generator's label stands in for wf_reqs."""
    out = []
    if with_model:
        lines = ctx.model("api_wf", [sx(G.universe_sx(u)) for u, _, _ in unis])
        for (u, cls, _), l in zip(unis, lines):
            h = {}
            for n, v, wf, pl, vp in parse_sx(l):
                h[(n, v)] = (bool(wf), bool(pl), bool(vp))
                lab = cls.get((n, v), "none") in ("none", "wf", "noprefix")
                if bool(wf) != lab:
                    ctx.count("hypotheses:wf_reqs-differs-from-generator-label")
            out.append(h)
    else:
        for u, cls, _ in unis:
            out.append({k: (c in ("none", "wf"), b">" not in k[0], b">" not in k[1]) for k, c in cls.items()})
    return out


def check_clauses(ctx, case_text, u, hyp, ops, tags, idx, results, keys):
    depk, verk = keys
    K_DERIVED, K_KNOWN = verk["DerivedFrom"], depk["KnownAs"]
    base = {0: [], 1: [[depk["Dev"], b""]], 2: [[depk["Opt"], b""]], 3: [[depk["Scope"], b"peer"]]}
    by_tag = {}
    for t, r in zip(tags, results):
        if t is not None:
            by_tag[t] = r

    def viol(what, observed, required):
        ctx.violation(what, case_text, observed=sx(observed) if not isinstance(observed, str) else observed,
                      required=required)

    for t, r in by_tag.items():
        if t[0] == "pre":
            # nothing in C18 forbids knowing a bundle before Requirements of its root (an eager prefetch would):
            # counted, not judged
            ctx.count("pre-requirements:" + ("unknown" if r == [b"notfound"] else "already-known"))

    def attrs_with(bs, k, v):
        return sorted(bs + [[k, v]], key=lambda p: (p[0] >= 0, p[0] if p[0] >= 0 else -p[0]))

    for root, ents in idx.items():
        if ("rootreq", root, 0) not in by_tag:
            continue
        rr = by_tag[("rootreq", root, 0)]
        wf, plain_root, _ = hyp[root]
        svc_plain = all(h[2] for h in hyp.values())
        u_pkg = next(p for p in u["pkgs"] if p["name"] == root[0])
        failing = u_pkg["fail"] & 4
        ctx.count("hypotheses:wf_reqs" if wf else "hypotheses:not-wf_reqs")
        if failing or not wf or not plain_root:
            continue
        if rr[0] != b"ok":
            viol("Requirements of a version the service describes fails", rr, '("ok" ...)')
            continue
        u_ver = next(v for v in u_pkg["vers"] if v["version"] == root[1])

        # alias clause on a requirements list
        def alias_clause(deps, got, where):
            for s in range(4):
                for n, r in deps["sec"][s]:
                    if not r.startswith(b"npm:") or b"@" not in r[4:]:
                        continue
                    x, rng_ = r[4:].rsplit(b"@", 1)
                    if b"@" in rng_ or x == b"":
                        continue
                    ctx.count("clause:alias" + (":scoped" if x.startswith(b"@") else ""))
                    want = [[NPM_SYS[0], x, 2, rng_], attrs_with(base[s], K_KNOWN, n), 0, 1]
                    if want not in got:
                        viol("aliased dependency %s -> %s is not a requirement on the real name carrying the alias (%s)"
                             % (n.decode(), r.decode(), where), got, sx(want))

        alias_clause(u_ver["deps"], rr[1], "root")
        for i, e in enumerate(ents):
            b = e["b"]
            ver = [[NPM_SYS[0], e["m"], 1, b["version"]], [[K_DERIVED, b["name"]]]]
            req = [[NPM_SYS[0], e["m"], 2, b["version"]], [], 1, 1]
            for phase in ((0, 1) if svc_plain else (0,)):
                tv = by_tag.get(("versions", root, i, phase))
                if tv is None:
                    continue
                ctx.count("clause:bundle")
                if len(e["pkgs"]) > 1:
                    ctx.count("clause:bundle:nested")
                # single concrete version recording the package it derives from
                if tv != [b"ok", [ver]]:
                    viol("bundled entry %s is not a package with exactly one concrete version recording DerivedFrom (state %d)"
                         % (e["m"].decode(), phase), tv, sx([b"ok", [ver]]))
                # returned consistently by all four calls
                t0 = by_tag[("version", root, i, phase)]
                if t0 != [b"ok", ver]:
                    viol("Version disagrees with Versions for bundled %s (state %d)" % (e["m"].decode(), phase), t0,
                         sx([b"ok", ver]))
                t3 = by_tag[("matching", root, i, phase)]
                if t3 != [b"ok", [ver]]:
                    viol("the bundling parent's requirement on %s does not match exactly the bundled version (state %d)"
                         % (e["m"].decode(), phase), t3, sx([b"ok", [ver]]))
                t2 = by_tag[("requirements", root, i, phase)]
                if t2[0] != b"ok":
                    viol("Requirements fails for bundled %s (state %d)" % (e["m"].decode(), phase), t2, '("ok" ...)')
                    continue
                if phase == 1 and t2 != by_tag[("requirements", root, i, 0)]:
                    viol("Requirements of bundled %s changed in a later state" % e["m"].decode(), t2,
                         sx(by_tag[("requirements", root, i, 0)]))
                alias_clause(b["deps"], t2[1], e["m"].decode())
                # required by its bundling parent with a requirement whose version is exactly the bundled one
                if e["parent"] is None:
                    parent_reqs = rr[1]
                else:
                    j = next(k for k, x in enumerate(ents) if x["m"] == e["parent"])
                    pr = by_tag[("requirements", root, j, phase)]
                    parent_reqs = pr[1] if pr[0] == b"ok" else []
                if parent_reqs.count(req) != 1:
                    viol("bundling parent of %s does not require exactly that version once (state %d)"
                         % (e["m"].decode(), phase), parent_reqs, sx(req))
        r1 = by_tag.get(("rootreq", root, 1))
        if r1 is not None and r1 != rr:
            viol("Requirements of %s@%s changed when asked again" % (root[0].decode(), root[1].decode()), r1, sx(rr))


NPM_SYS = [3]   # overwritten in run() from the regenerated Gen/ApiClientTables.v


def read_npm_system():
    import re
    try:
        txt = open(os.path.join(lib.COQ, "Gen/ApiClientTables.v")).read()
        NPM_SYS[0] = int(re.search(r"api_system_npm : Z := \(?(-?\d+)", txt).group(1))
    except Exception:
        pass


# ----------------------------------------------------------------------------- graphs

def tie_reorder_only(ta, tl):
    """F-C18-2: do the two resolutions see the same client, except that requirements whose sort keys tie
    (same shown name) come in a different order?  True when (1) every call made in both resolutions has
    the same answer up to the order of a Requirements list, and (2) for some Requirements call the
    non-mangled requirements come in different orders."""
    ma = {sx(o): r for o, r in ta}
    ml = {sx(o): r for o, r in tl}
    reordered = False
    for k, ra in ma.items():
        rl = ml.get(k)
        if rl is None:
            continue
        if ra == rl:
            continue
        if k.startswith("(2 ") and ra[0] == b"ok" and rl[0] == b"ok":
            if sorted(map(sx, ra[1])) != sorted(map(sx, rl[1])):
                return False
            pa = [sx(x) for x in ra[1] if b">" not in x[0][1]]
            pl = [sx(x) for x in rl[1] if b">" not in x[0][1]]
            if pa != pl:
                reordered = True
            continue
        return False
    return reordered


def failure_reachable(u, root):
    """can a resolution of root ask the service about a package that fails?  Over-approximated by the closure of
    the names occurring in the dependency sections, bundleDependencies and bundled entries of every version of
    every package reachable from the root by name."""
    by = {p["name"]: p for p in u["pkgs"]}
    if not any(p.get("fail") for p in u["pkgs"]):
        return False
    if any("vers" not in p for p in u["pkgs"]):
        return True
    seen, todo = set(), [root[0]]
    while todo:
        n = todo.pop()
        if n in seen:
            continue
        seen.add(n)
        p = by.get(n)
        if p is None:
            continue
        if p["fail"]:
            return True
        for v in p["vers"]:
            for d in [v["deps"]] + [b["deps"] for b in v["bundled"]]:
                for n2, _ in spec_reqs(d):
                    todo.append(n2)
                for sec in d["sec"]:
                    todo += [n2 for n2, _ in sec]
            todo += [b["name"] for b in v["bundled"]]
    return False


def classify_graph(u, root, ga, gl, ta, tl, wf):
    """returns None when equal, else a class name; 'F-C18-1' / 'F-C18-2' for the known classes"""
    if ga == gl:
        return None
    if failure_reachable(u, root):
        return "skip:service-failure"
    if not wf:
        return "skip:malformed-bundle-tree"
    if ga[:2] == [b"err", b"budget"] or gl[:2] == [b"err", b"budget"]:
        return "skip:budget"
    if ga[:2] == [b"err", b"notfound"] and ta:
        op, res = ta[-1]
        known = {p["name"] for p in u["pkgs"]}
        if op[0] in (1, 3) and b">" not in op[1] and op[1] not in known and res == [b"notfound"]:
            return "F-C18-1"
    if tie_reorder_only(ta, tl):
        return "F-C18-2"
    return "violation"


# ----------------------------------------------------------------------------- race binary

def build_race(ctx):
    """go build -race needs cgo and a C compiler. returns path or None (with a note)."""
    env = dict(lib.GOENV, CGO_ENABLED="1")
    outp = os.path.join(lib.BUILD, "implrun_race")
    try:
        rc, out = lib.sh(["go", "build", "-race", "-tags", "verif", "-o", outp, "./cmd/implrun"],
                         cwd=os.path.join(lib.VERIF, "harness/go"), env=env, timeout=900)
    except Exception as e:  # noqa
        rc, out = 1, str(e)
    if rc != 0:
        ctx.notes.append("go build -race failed offline (%s); the 16-goroutine variant ran without the race detector"
                         % out.strip().splitlines()[-1][:200] if out.strip() else "no output")
        return None
    return outp


def run_conc(ctx, binary, lines, race):
    """run api_conc cases; on a crash, bisect to the failing case. returns list of (line, parsed|None, stderr)"""
    env = dict(os.environ)
    logbase = None
    if race:
        logbase = os.path.join(lib.BUILD, "racelog")
        for f in os.listdir(lib.BUILD):
            if f.startswith("racelog."):
                os.remove(os.path.join(lib.BUILD, f))
        env["GORACE"] = "log_path=%s halt_on_error=0 exitcode=66" % logbase
        env["VERIF_RACE_LOG"] = logbase
    results = []

    def one_batch(batch):
        p = subprocess.run([binary], input=("\n".join(batch) + "\n").encode(), stdout=subprocess.PIPE,
                           stderr=subprocess.PIPE, env=env, timeout=1800)
        out = p.stdout.decode().split("\n")
        if out and out[-1] == "":
            out.pop()
        return p.returncode, out, p.stderr.decode("utf-8", "replace")

    shards = 8
    k = max(1, (len(lines) + shards - 1) // shards)
    parts = [lines[i:i + k] for i in range(0, len(lines), k)]
    import concurrent.futures
    with concurrent.futures.ThreadPoolExecutor(len(parts) or 1) as ex:
        rs = list(ex.map(one_batch, parts))
    for part, (rc, out, err) in zip(parts, rs):
        if len(out) == len(part) and rc in (0, 66):
            for l, o in zip(part, out):
                results.append((l, parse_sx(o), err if rc == 66 else ""))
            if rc == 66 and not any(parse_sx(o)[2] for o in out):
                # the detector reported but no case was flagged: blame the batch
                results.append((part[0], None, "exit status 66 (race detector) in a batch of %d cases\n%s" % (len(part), err[-1500:])))
            continue
        # crash (e.g. fatal error: concurrent map writes): find failing cases (a few per batch are enough)
        found = 0
        for l in part:
            if found >= 2:
                break
            rc1, o1, e1 = one_batch([l])
            if len(o1) == 1 and rc1 in (0, 66):
                results.append((l, parse_sx(o1[0]), e1 if rc1 == 66 else ""))
            else:
                found += 1
                results.append((l, None, "exit status %d\n%s" % (rc1, e1[-1500:])))
        if found == 0:
            results.append((part[0], None, "a batch of %d cases died (exit status %d) but no single case reproduces it\n%s"
                            % (len(part), rc, err[-1500:])))
    racelog = ""
    if race:
        for f in os.listdir(lib.BUILD):
            if f.startswith("racelog."):
                racelog += open(os.path.join(lib.BUILD, f), errors="replace").read()[:4000]
    return results, racelog


# ----------------------------------------------------------------------------- main

def replay_known(ctx):
    for k in lib.load_known("C18"):
        if k.get("status") != "open":
            continue
        w = k["witness"]
        out = ctx.impl(w["kind"], [w["arg"]])[0]
        r = parse_sx(out)
        if r[0] == r[1]:
            ctx.notes.append("known finding %s no longer reproduces on its witness (graphs are equal now)" % k["id"])
        else:
            ctx.count("known:%s:witness-reproduced" % k["id"])


def limit_violations(ctx, per_kind=4):
    """keep at most per_kind violations of one kind in the replay (all are counted)"""
    orig = ctx.violation
    seen = collections.Counter()

    def violation(what, input, observed=None, required=None, kind="oracle"):
        key = re.sub(r"\S*[>@/]\S*", "_", what)[:80]
        seen[key] += 1
        ctx.count("violation:" + key)
        if seen[key] <= per_kind:
            orig(what, input, observed, required, kind)
    ctx.violation = violation


def run(ctx, with_model=True):
    limit_violations(ctx)
    rng = ctx.rng
    keys = key_numbers(ctx)
    read_npm_system()
    replay_known(ctx)
    n_uni = ctx.scale(500, 20000)
    unis = []
    for i in range(n_uni):
        strict = rng.random() < 0.8
        large = (i % 20 == 19)
        canon = rng.choice([1, 2, 3]) if rng.random() < 0.10 else 0
        u, cls = G.gen_universe(rng, big=(i % 25 == 24), strict=strict, large=large, canon=canon)
        u["large"] = large
        unis.append((u, cls, strict))
        if large:
            ctx.count("universe:large(13-20 entries)")
        if canon:
            ctx.count("universe:service-answers-with-canonicalised-keys")
        nb = sum(len(v["bundled"]) for p in u["pkgs"] for v in p["vers"])
        nested = any(b"/node_modules/" in b["path"][13:] for p in u["pkgs"] for v in p["vers"] for b in v["bundled"])
        alias = any(r.startswith(b"npm:") for p in u["pkgs"] for v in p["vers"]
                    for d in [v["deps"]] + [b["deps"] for b in v["bundled"]] for s in d["sec"] for _, r in s)
        ctx.count("universe:strict" if strict else "universe:loose")
        ctx.count("universe:bundled-entries", nb)
        for c in cls.values():
            ctx.count("version:bundle-class:" + c)
        if nested or alias:
            ctx.nontriv(sx(G.universe_sx(u)))

    # ---- 1. call histories: correspondence + the clauses of C18 on the Go answers
    hist = []
    tq_args = []
    for u, cls, strict in unis:
        ops, tags, idx, roots = build_history(rng, u, cls)
        hist.append((ops, tags, idx, roots))
        tq_args.append(sx([G.universe_sx(u), [[n, r] for n, r in table_queries(ops)]]))
    tables = ctx.impl("api_table", tq_args)
    cases = []
    for (u, cls, strict), (ops, tags, idx, roots), tb in zip(unis, hist, tables):
        cases.append("(" + sx(G.universe_sx(u)) + " " + tb + " " + sx(ops) + ")")
    hyps = hypotheses(ctx, unis, with_model)
    if with_model:
        # large universes leave the range where sort.Slice is an insertion sort: answers are compared up to the
        # order of each returned list there (requirements with tying keys, equally long bundle paths)
        small = [i for i, (u, _, _) in enumerate(unis) if not u["large"]]
        big = [i for i, (u, _, _) in enumerate(unis) if u["large"]]
        impl = [None] * len(cases)
        o1, _ = ctx.correspond("api", [cases[i] for i in small])
        for i, o in zip(small, o1):
            impl[i] = o
        if big:
            o2, _ = ctx.correspond("api", [cases[i] for i in big], label="api(large, order-insensitive)",
                                   compare=lambda x, y: unordered(x) == unordered(y))
            for i, o in zip(big, o2):
                impl[i] = o
    else:
        impl = ctx.impl("api", cases)
    for (u, cls, strict), hyp, (ops, tags, idx, roots), case, line in zip(unis, hyps, hist, cases, impl):
        res = parse_sx(line)
        ctx.count("history:ops", len(ops))
        if res == [b"panic"] or len(res) != len(ops):
            ctx.violation("APIClient panicked during a call history", "api\t" + case, observed=line)
            continue
        for r in res:
            if r == [b"panic"]:
                ctx.violation("an APIClient call panicked", "api\t" + case, observed=line[:2000])
                break
        check_clauses(ctx, "api\t" + case, u, hyp, ops, tags, idx, res, keys)
        for o, r in zip(ops, res):
            if o[0] == 2 and r[0] == b"ok":
                for q in r[1]:
                    ctx.count("clause:dep-type")
                    if q[3] != 1 or q[2] != (1 if q[1] == [] else 0):
                        ctx.violation("a requirement's dependency type differs observably (IsRegular/Equal/Compare) from the "
                                      "same type built from the zero value, as a LocalClient holds it", "api\t" + case,
                                      observed=sx(q), required="(key attrs regular=1 iff no attrs, same=1)")
                        break
        if len(ctx.samples) < 2 and any(len(v) > 2 for v in idx.values()):
            ctx.sample({"kind": "api", "case": case[:600], "impl": line[:400]})

    # ---- 2. graphs: APIClient vs LocalClient holding the same data; the resolver's own call trace
    gcases, gmeta = [], []
    # persistent corpus of past failures first (harness/corpus/C18.txt: api_graph lines)
    corpus = os.path.join(lib.VERIF, "harness/corpus/C18.txt")
    if os.path.exists(corpus):
        for cl in open(corpus):
            cl = cl.rstrip("\n")
            if not cl.startswith("api_graph\t"):
                continue
            a = parse_sx(cl.split("\t", 1)[1])
            cu = {"pkgs": [{"name": p[0], "fail": p[1]} for p in a[0][0]]}
            gcases.append(cl.split("\t", 1)[1])
            gmeta.append((cu, (a[1], a[2]), sx(a[0])))
            ctx.count("graph:corpus")
    per_uni = ctx.scale(2, 3)
    for (u, cls, strict), (ops, tags, idx, roots) in zip(unis, hist):
        rs = sorted(roots, key=lambda r: -len(idx[r]))[:1] + roots[:per_uni - 1]
        for r in dict.fromkeys(rs):
            gcases.append(sx([G.universe_sx(u), r[0], r[1]]))
            gmeta.append((u, r, sx(G.universe_sx(u))))
    gout = ctx.impl("api_graph", gcases)
    trace_cases, trace_meta = [], []
    tq2 = []
    for (u, r, usx), case, line in zip(gmeta, gcases, gout):
        ga, gl, ta, tl, wf = parse_sx(line)
        if ga == [b"panic"] or gl == [b"panic"]:
            ctx.violation("npm resolution panicked (%s)" % ("API" if ga == [b"panic"] else "Local"), "api_graph\t" + case,
                          observed=sx([ga, gl])[:3000])
            continue
        c = classify_graph(u, r, ga, gl, ta, tl, wf)
        ctx.count("graph:" + ("equal:" + ga[0].decode() if c is None else c))
        if c == "violation":
            ctx.violation("graph over APIClient differs from graph over LocalClient holding the same data",
                          "api_graph\t" + case, observed=sx(ga)[:3000], required=sx(gl)[:3000])
        elif c in ("F-C18-1", "F-C18-2"):
            ctx.known_hits[c] = ctx.known_hits.get(c, 0) + 1
        if c is None and ga[0] == b"ok" and len(ga[2]) > 2:
            ctx.nontriv(("graph", case))
            if not any(isinstance(x, dict) and x.get("kind") == "api_graph" for x in ctx.samples):
                ctx.sample({"kind": "api_graph", "case": case[:500], "graph_api": sx(ga)[:400], "graph_local_equal": True,
                            "resolver_calls": len(ta)})
        trace_cases.append([o for o, _ in ta])
        trace_meta.append((usx, r, ta, case, bool(u.get("large"))))
        tq2.append("(" + usx + " " + sx([[n, q] for n, q in table_queries([o for o, _ in ta])]) + ")")
    # trace discipline (hypothesis of C18_interleaving / C18_lazy_eq_eager) on the recorded API traces,
    # and the model replayed on exactly the calls the resolver made
    if with_model and trace_cases:
        wfs = ctx.model("api_tracewf", [sx(t) for t in trace_cases])
        tabs = ctx.impl("api_table", tq2)
        mcases = ["(" + usx + " " + tb + " " + sx(t) + ")"
                  for (usx, r, ta, case, lg), tb, t in zip(trace_meta, tabs, trace_cases)]
        mout = ctx.model("api", mcases)
        ctx.count("corr:api(resolver-trace)", len(mcases))
        ctx.evaluations += len(mcases)
        nd = 0
        for (u, r, ta, case, lg), w, mo, mc in zip(trace_meta, wfs, mout, mcases):
            ctx.count("trace:calls", len(ta))
            if w != "1":
                ctx.violation("the npm resolver passed a mangled name to the client before Requirements of its root "
                              "(trace discipline of C18 broken)", "api_graph\t" + case, observed=sx([o for o, _ in ta])[:3000])
            want = sx([a for _, a in ta])
            if mo != want and not (lg and unordered(mo) == unordered(want)):
                if '"oom"' in mo:
                    ctx.skipped_oom += 1
                    continue
                nd += 1
                if nd <= 20:
                    ctx.divergence("api(resolver-trace)", mc, want, mo)

    # ---- 3. sixteen goroutines on one APIClient: every result equals its sequential result
    n_conc = ctx.scale(200, 4000)
    rounds = 2
    ccases = []
    for (u, cls, strict), (ops, tags, idx, roots) in list(zip(unis, hist))[:n_conc]:
        rs = sorted(roots, key=lambda r: -len(idx[r]))[:4]
        # every second case: the odd goroutines call the client directly (Requirements of the root, then the
        # resolver's recorded calls on that root's mangled names) while the even ones resolve
        ccases.append("api_conc\t" + sx([G.universe_sx(u), [[r[0], r[1]] for r in rs], 16, rounds, len(ccases) % 2]))

    def judge(results, racelog, label):
        for l, r, err in results:
            ctx.evaluations += 1
            ctx.count("conc:" + label)
            if r is None:
                ctx.violation("16 goroutines sharing one APIClient: the process died / the race detector fired (%s)" % label,
                              l, observed=(err + "\n" + racelog)[-3000:], required="no crash, no data race report")
            elif r[2]:
                ctx.violation("DATA RACE reported by the race detector while 16 goroutines share one APIClient", l,
                              observed=(racelog or err)[:3000], required="no data race report")
            elif r[0] != 0:
                ctx.violation("a goroutine sharing the APIClient got a result different from its sequential result (%s)" % label,
                              l, observed=sx(r[1][0])[:3000], required="equal to the sequential resolution")

    if ccases:
        ctx.sample({"kind": "api_conc", "case": ccases[0][:400], "goroutines": 16, "rounds": rounds})
    res, _ = run_conc(ctx, os.path.join(lib.BUILD, "implrun"), ccases, race=False)
    judge(res, "", "plain")
    racebin = build_race(ctx)
    if racebin:
        n_race = ctx.scale(120, 4000)
        rcases = ccases[:n_race]
        if ctx.thorough():
            # soak: more rounds on the universes with the most bundles
            rcases = rcases + [c.rsplit(" ", 2)[0] + " 6 " + c.rsplit(" ", 1)[1] for c in ccases[:400]]
        res, racelog = run_conc(ctx, racebin, rcases, race=True)
        judge(res, racelog, "race")
        ctx.extra["race_detector"] = "go build -race: %d cases, 16 goroutines each" % len(rcases)
    else:
        ctx.extra["race_detector"] = "unavailable"


def oracle_only(ctx):
    """the model or a proof did not build: the Go-side oracles can still look for a failing input,
    provided the Go harness itself builds against the tree (otherwise build/implrun is stale)"""
    try:
        lib.build_go()
    except lib.BuildError:
        return
    run(ctx, with_model=False)
