"""C16 — Python requirement strings and environment markers follow PEP 508."""
import json
import os
import shutil
import subprocess

import lib
from lib import sx, parse_sx
from gen import pep508 as G

PROOF_FILE = "C16"
LEVEL = "proof"
RULE = ("requirement trees (name with mixed case and -_. runs, extras list, bare or parenthesised specifier list, marker, "
        "white space in every slot) and marker trees (and/or/parentheses over the 12 variables, string and version "
        "literals, all 10 operators, requested extras) generated from the PEP 508 grammar and printed by the extracted "
        "Gallina printer; a marker case is non-trivial when it has at least two atoms or a requested extra and evaluates "
        "to a defined value; a requirement case is non-trivial when it has at least two of extras/specifier/marker; "
        "multi-marker universes (marker_multi) group a marker with near-duplicates of it and count as non-trivial when "
        "their members differ in value; malformed streams are counted separately (ok/err/panic only)")
TRUSTED = [
    "Coq 8.16.1 kernel; vm_compute for table checks and refuted witnesses",
    "translator harness/go/cmd/gotables (PypiEnvTables: target environment, marker variables, operator numbers, "
    "spellings and by-length order, first-letter switch, name delimiter set regenerated from Go sources each run)",
    "extraction (ExtrOcamlBasic only) + Extract/driver.ml; Go harness cmd/implrun (pep508.go); python generators and oracle",
    "coq/Spec/Pep508Spec.v is a hand transcription of packaging 26.3 (markers._eval_op, _normalize_extras, "
    "utils.canonicalize_name) and of pip's any-over-requested-extras rule; validated against packaging on every "
    "generated case when python3-vt is present",
    "PEP 440 parsing/matching enter the model and the spec as oracles tabulated per case (Go: semver.PyPI; spec: "
    "packaging.specifiers when present, otherwise Go's own table restricted to valid versions)",
]
ASSUMPTIONS = [
    "model validated against the implementation by execution on generated inputs (marker accept/value/grid values, guarded edges), "
    "not verified against Go source",
    "C16_marker_partial assumes the C03 interface: on two valid versions the Go constraint match equals packaging's "
    "Specifier.contains (hypothesis sat_agree); checked per case by the direct oracle",
    "third clause (followed exactly when): theorems on the C08 resolver model instantiated with the marker model, for every "
    "client: C16_get_dependencies_exact (getDependencies keeps exactly the unguarded requirements and those whose marker "
    "packaging evaluates to true for the extras E it is called with), C16_followed_only_if_partial (every edge of the "
    "resolved graph carries a requirement whose marker packaging evaluates to true for a set E of extras requested by known "
    "requirements on the source's package) and C16_followed_if_partial (for every node some E exists such that the kept "
    "requirements are exactly a list for which the graph has all edges); PARTIAL: that E is precisely the extras finally "
    "requested is false of the code (C08 findings F-C08-2/-3), and markers must be printed trees in the domain of "
    "C16_marker_partial; on the Go code the clause is decided by the marker_edge / marker_multi correspondence and oracle "
    "(real resolver over a LocalClient; shapes: one requirer, marker on the root's own requirement, two requirers with "
    "different extras, guarded requirement enabling an extra, extras asked only by a rejected candidate, requirement "
    "back on the root)",
    "the domain of C16_marker_partial asks that at most one of the names a marker compares extra with is requested "
    "(F-C16-7 narrowed to: two different names of the marker both requested)",
    "the marker correspondence compares observables only (accept/reject, value for the requested extras, values over a grid "
    "of extras sets); Go's parse tree and its String() (a debug text that embeds semver's internal set syntax) are not compared",
]

MANIFEST = dict(
    category="proof",
    text=("Executable Gallina models of ParseDependency, CanonPackageName, parseMarker and markerExpr.Eval over the "
          "regenerated target environment and operator tables, with PEP 440 as an oracle; declarative PEP 508 spec (syntax "
          "trees carrying their white space, printer, evaluation as packaging 26.3 and pip define it). Proved for all "
          "inputs: the splitter reads back every printed requirement tree on the normalised observables (C16_split); name "
          "normalisation equals packaging's and is idempotent on valid names; the marker parser reads back every printed "
          "marker tree (C16_marker_roundtrip), independent of Go map order, within a proved fuel bound, and Eval cannot reach "
          "its panic; Go evaluation equals packaging's on an explicit boolean domain (C16_marker_partial, under the C03 "
          "interface hypothesis; C16_domain_class: the oracle's classifier is that predicate); at resolver level "
          "(C08's model with the marker model) C16_get_dependencies_exact, C16_followed_only_if_partial, "
          "C16_followed_if_partial, C16_guard. The unrestricted evaluation statement is REFUTED by seven witness classes, all open known "
          "findings replayed on the Go code each run. Tie: Go vs extracted model on requirement strings, names, marker "
          "trees/values (8 repetitions for map-order nondeterminism), the guarded edge through the real resolver over a "
          "LocalClient, and universes with several guarded dependencies and two roots resolved on ONE resolver "
          "(near-duplicate markers: white space outside and inside literals, quote style, letter case, same marker "
          "under other extras), where every edge must follow ITS marker; direct oracle Go vs extracted spec, and vs packaging itself when python3-vt is present."),
    note=("Trusted: Coq kernel (+vm_compute), gotables translator, extraction and driver.ml, Go harness, python "
          "generators/oracle, the hand transcription of packaging 26.3 in Spec/Pep508Spec.v (re-validated against packaging "
          "on every generated case when python3-vt exists, otherwise evidence says so). PEP 440 is an oracle on both sides "
          "(C02/C03). The model is validated by execution, not verified against Go source. Marker atoms have one variable "
          "and one literal (literal-literal and variable-variable comparisons are outside the quantifier)."),
    technique="Rocq proof over a hand-written model + differential correspondence (extracted OCaml vs Go) + reference diff",
    design="8 C16")

HERE = os.path.dirname(os.path.abspath(__file__))
REF_SCRIPT = os.path.join(os.path.dirname(HERE), "ref", "pep508_ref.py")


class Ref:
    """packaging, when an interpreter that has it is installed."""

    def __init__(self):
        self.py = shutil.which("python3-vt")
        self.version = None
        if self.py:
            try:
                a = self.ask([{"k": "version"}])
                self.version = a[0]["version"]
            except Exception:
                self.version = None

    def available(self):
        return self.version is not None

    def ask(self, reqs):
        data = "".join(json.dumps(r) + "\n" for r in reqs).encode()
        p = subprocess.run([self.py, REF_SCRIPT], input=data, stdout=subprocess.PIPE, stderr=subprocess.PIPE, timeout=1800)
        if p.returncode != 0:
            raise RuntimeError("reference runner failed: " + p.stderr.decode("utf-8", "replace")[-500:])
        return [json.loads(l) for l in p.stdout.decode().splitlines() if l.strip()]


def s8(b):
    return b.decode("latin-1")


def ascii_ok(b):
    return all(0x20 <= c < 0x7f or c == 9 for c in b)


# ----------------------------------------------------------------------------- known finding classes

def canon_py(b):
    """packaging.utils.canonicalize_name on bytes (used only to classify hits)."""
    out = bytearray()
    run = False
    for c in b:
        if c in b"-_.":
            run = True
            continue
        if run:
            out.append(45)
            run = False
        out.append(c + 32 if 65 <= c <= 90 else c)
    if run:
        out.append(45)
    return bytes(out)


# ----------------------------------------------------------------------------- helpers

def known_hit(ctx, fid, what, input, observed, required):
    """an oracle hit that is an instance of a known class: lib.finish suppresses it only while the entry is open"""
    ctx.violations.append({"what": what, "input": input, "observed": observed, "required": required,
                           "kind": "oracle", "known": fid})


def go_outcome(line):
    v = parse_sx(line)
    if v[0] == b"ok":
        return ("ok", v[1])
    return (v[0].decode(), None)


def edge_outcome(line):
    v = parse_sx(line)
    if v[0] == b"edge":
        return ("ok", v[1])
    return (v[0].decode(), None)


def spec_outcome(v):
    if v[0] == b"ok":
        return ("ok", v[1])
    return ("err", None)     # packaging raises; the resolver has no value either


def norm_go_req(v):
    """normalised observables of Go's ParseDependency output (the normalisation C16 states)."""
    name, extras, constraint, envt = v[1], v[2], v[3], v[4]
    nows = lambda b: bytes(c for c in b if c not in b" \t")
    ex = [e for e in nows(extras).split(b",") if e]
    cl = [c for c in nows(constraint).split(b",") if c]
    return name, ex, cl, envt


def norm_marker_text(b):
    """marker text modulo what packaging itself normalises: white space outside string literals is dropped,
    a literal is written with double quotes unless it contains one"""
    out = bytearray()
    i, n = 0, len(b)
    while i < n:
        c = b[i]
        if c in (34, 39):
            j = b.find(bytes([c]), i + 1)
            if j < 0:
                out += b[i:]
                break
            body = b[i + 1:j]
            q = b"'" if 34 in body else b'"'
            out += q + body + q
            i = j + 1
        elif c in b" \t":
            i += 1
        else:
            out.append(c)
            i += 1
    return bytes(out)


def same_split(a, b):
    """correspondence on ParseDependency compares the projected observables of C16 (name, extras list,
    specifier clauses, marker text without outer white space), not the raw fields"""
    if a == b:
        return True
    try:
        x, y = parse_sx(a), parse_sx(b)
    except Exception:
        return False
    if x[0] != b"ok" or y[0] != b"ok":
        return x[0] == y[0] and x[0] != b"ok"
    nx, ny = norm_go_req(x), norm_go_req(y)
    return nx[:3] == ny[:3] and norm_marker_text(nx[3]) == norm_marker_text(ny[3])


def replay_known(ctx):
    """Each open known finding is replayed on the Go code and must still fail as recorded."""
    for k in lib.load_known(ctx.pid):
        if k.get("status") != "open":
            continue
        w = k.get("witness") or {}
        if not w.get("kind"):
            continue
        out = ctx.impl(w["kind"], [w["arg"]])[0]
        if out != w.get("failing_output"):
            ctx.notes.append("known finding %s no longer reproduces as recorded: %s -> %s" % (k["id"], w["arg"], out))
            ctx.count("known:not-reproduced")
        else:
            ctx.count("known:reproduced")


# ----------------------------------------------------------------------------- the check

def run(ctx):
    rng = ctx.rng
    ref = Ref()
    if ref.available():
        ctx.notes.append("reference packaging %s present (python3-vt): spec re-validated against it and Go diffed "
                         "against it directly on this run" % ref.version)
    else:
        ctx.notes.append("reference packaging NOT available: spec not re-validated on this run; spec oracle for "
                         "specifiers instantiated from Go's PEP 440 table on valid versions")
    ctx.extra["reference_packaging"] = ref.version or "absent"
    replay_known(ctx)

    # ---- target environment: regenerated table == what the running code uses
    impl, _ = ctx.correspond("pypi_env", ["0"])
    env = {k.decode(): v for k, v in parse_sx(impl[0])}
    env_json = {k: s8(v) for k, v in env.items()}

    check_names(ctx, rng, ref)
    req_texts = check_requirements(ctx, rng, ref)
    marker_texts = check_markers(ctx, rng, ref, env, env_json)
    check_multi(ctx, rng, ref, env, env_json)
    check_malformed(ctx, rng, req_texts, marker_texts)


def valid_name_py(y):
    """PEP 508 identifier: letters, digits, - _ . ; first and last are letters or digits"""
    alnum = lambda c: c < 128 and chr(c).isalnum()
    return bool(y) and all(alnum(c) or c in b"-_." for c in y) and alnum(y[0]) and alnum(y[-1])


def shrink_name(ctx, x):
    """delete characters while the name stays in the grammar and CanonPackageName still misbehaves"""
    def bad(y):
        if not valid_name_py(y):
            return False
        o = parse_sx(ctx.impl("canon_name", [sx(y)])[0])
        o2 = parse_sx(ctx.impl("canon_name", [sx(o)])[0])
        return o != canon_py(y) or o2 != o
    cur = x
    changed = True
    while changed and len(cur) > 1:
        changed = False
        for k in range(len(cur)):
            y = cur[:k] + cur[k + 1:]
            if bad(y):
                cur = y
                changed = True
                break
    return cur


def check_names(ctx, rng, ref):
    n = ctx.scale(3000, 60000)
    names = [G.arbitrary_name(rng) for _ in range(n)]
    names += [b"a-b-c", b"A__b-.C", b"a.-_b", b"-a", b"a-", b"", b"a--b", b"a-!-b", b"Foo.Bar_baz", b"A", b"a.B-c_D"]
    impl, _ = ctx.correspond("canon_name", [sx(x) for x in names])
    spec = ctx.model("spec_canon", [sx(x) for x in names])
    outs = [parse_sx(x) for x in impl]
    again = [parse_sx(x) for x in ctx.impl("canon_name", [sx(o) for o in outs])]
    valid = [valid_name_py(x) for x in names]
    pk = None
    if ref.available():
        idx = [i for i, x in enumerate(names) if valid[i]]
        ans = ref.ask([{"k": "canon", "s": s8(names[i])} for i in idx])
        pk = {i: a["r"].encode("latin-1") for i, a in zip(idx, ans)}
    reported = 0
    for i, (x, o, sp, o2) in enumerate(zip(names, outs, spec, again)):
        if not valid[i]:
            ctx.count("name:outside-grammar")
            continue
        ctx.count("name:valid")
        sp = parse_sx(sp)
        if any(c in b"-_." for c in x) and any(65 <= c <= 90 for c in x):
            ctx.nontriv(("name", x))
        bad = (o != sp) or (o2 != o) or (pk is not None and pk[i] != o)
        if pk is not None and pk[i] != sp:
            ctx.divergence("spec_vs_packaging:canon", sx(x), sx(pk[i]), sx(sp))
        if bad and reported < 20:
            reported += 1
            if reported <= 3:
                x = shrink_name(ctx, x)
                o = parse_sx(ctx.impl("canon_name", [sx(x)])[0])
                o2 = parse_sx(ctx.impl("canon_name", [sx(o)])[0])
                sp = canon_py(x)
            if o != sp:
                ctx.violation("CanonPackageName differs from packaging's canonicalize_name", {"kind": "canon_name", "arg": sx(x), "text": s8(x)},
                              observed=s8(o), required=s8(sp))
            if o2 != o:
                ctx.violation("CanonPackageName is not idempotent on a valid name", {"kind": "canon_name", "arg": sx(x), "text": s8(x)},
                              observed=s8(o2), required=s8(o))
        elif bad:
            ctx.violation("CanonPackageName differs from packaging's canonicalize_name or is not idempotent", sx(x), observed=sx(o), required=sx(sp))
    k = next((i for i, x in enumerate(names) if valid[i] and b"_" in x and any(65 <= c <= 90 for c in x)), 0)
    ctx.sample({"kind": "canon_name", "input": s8(names[k]), "output": s8(outs[k])})


def check_requirements(ctx, rng, ref):
    n = ctx.scale(6000, 120000)
    reqs = [G.gen_req(rng) for _ in range(n)]
    spec = [parse_sx(x) for x in ctx.model("spec_req", [sx(r) for r in reqs])]
    texts = [s[0] for s in spec]
    impl, _ = ctx.correspond("pep508", [sx(t) for t in texts], compare=same_split)
    pk = None
    if ref.available():
        govals = [parse_sx(x) for x in impl]
        pk = ref.ask([{"k": "req", "s": s8(t), "go_env": (s8(g[4]) if g[0] == b"ok" else None)} for t, g in zip(texts, govals)])
    shown = 0
    for i, (r, s, line) in enumerate(zip(reqs, spec, impl)):
        text, wf, name, extras, clauses, mtext = s
        if not wf:
            ctx.count("req:not-wf")
            continue
        ctx.count("req:valid")
        parts = (1 if r[3] else 0) + (1 if r[5] != [0] else 0) + (1 if r[7] else 0)
        if parts >= 2:
            ctx.nontriv(("req", text))
        g = parse_sx(line)
        if g[0] != b"ok":
            ctx.violation("ParseDependency rejects a valid PEP 508 requirement", sx(text), observed=line, required="ok")
            continue
        gname, gex, gcl, genv = norm_go_req(g)
        if (gname, gex, gcl, norm_marker_text(genv)) != (name, extras, clauses, norm_marker_text(mtext)):
            ctx.violation("ParseDependency splits a valid requirement differently from PEP 508 (normalised observables: "
                          "name, extras list, specifier clauses, marker text modulo white space outside literals and quote style)", sx(text),
                          observed=sx([gname, gex, gcl, genv]), required=sx([name, extras, clauses, mtext]))
        if pk is not None:
            a = pk[i]
            if not a.get("ok"):
                ctx.divergence("spec_vs_packaging:req", sx(text), "packaging rejects", "spec prints it as valid")
                continue
            want = (a["name"].encode("latin-1"), sorted(set(e.encode("latin-1") for e in a["extras"])),
                    sorted(set(c.encode("latin-1") for c in a["specs"])))
            if want != (name, sorted(set(extras)), sorted(set(clauses))):
                ctx.divergence("spec_vs_packaging:req", sx(text), json.dumps(a), sx([name, extras, clauses]))
            if (gname, sorted(set(gex)), sorted(set(gcl))) != want or not a["marker_same"]:
                ctx.violation("ParseDependency differs from packaging.requirements.Requirement (name, extras set, "
                              "specifier set, marker)", sx(text), observed=line, required=json.dumps(a))
        if shown < 2 and parts == 3:
            shown += 1
            ctx.sample({"kind": "pep508", "input": s8(text), "go": line[:300]})
    return texts


def spec_tables_from_go(queries, valid, sat):
    out = []
    for (op, rhs, lhs) in queries:
        if not valid.get(rhs, False):
            out.append(2)
        elif not valid.get(lhs, False):
            out.append(0)
        else:
            r = sat.get((op, rhs, lhs), 2)
            out.append(r if r in (0, 1) else 2)
    return out


def eval_markers(ctx, ref, env, env_json, trees, extras, wts):
    """Run every side on the given marker trees: extracted printer, Go (parser tree and value, 8 repetitions;
    guarded edge through the resolver), extracted model on Go's PEP 440 tables, extracted spec on packaging's
    (or Go's) specifier table, packaging itself. Returns one record per case; records nothing on ctx."""
    printed = [parse_sx(x) for x in ctx.model("spec_print", [sx([t, w]) for t, w in zip(trees, wts)])]
    texts = [p[0] for p in printed]
    tabs = ctx.impl("pep440_tables", [sx(t) for t in texts])
    tabv = [parse_sx(t) for t in tabs]
    # spec oracle: Specifier(op+rhs).contains(lhs) for every version-typed comparison of the case
    queries = []
    for t in trees:
        q = []
        for a in G.tree_atoms(t):
            var, op, text, lit_right = G.atom_parts(a)
            name = G.VARS[var]
            if name in G.VERSION_TYPED and G.OPS[op] not in ("in", "not in"):
                lhs, rhs = (env[name], text) if lit_right else (text, env[name])
                q.append((G.OPS[op], rhs, lhs))
        queries.append(q)
    valids, sats = [], []
    for tv in tabv:
        valids.append({k: bool(b) for k, b in tv[0]})
        sats.append({(G.OPS[o - 1], s_, c): r for o, s_, c, r in tv[1]})
    if ref.available():
        ans = ref.ask([{"k": "spec", "q": [[o, s8(r), s8(l)] for o, r, l in q]} for q in queries])
        spec_res = [a["r"] for a in ans]
    else:
        spec_res = [spec_tables_from_go(q, v, s_) for q, v, s_ in zip(queries, valids, sats)]
    spec_tabs = [[[G.OP_NUM[o], r, l, res] for (o, r, l), res in zip(q, rs)] for q, rs in zip(queries, spec_res)]
    # the C03 interface assumed by C16_marker_partial (hypothesis sat_agree), checked on this run's tables
    c03_bad = []
    for q, rs, v, s_ in zip(queries, spec_res, valids, sats):
        bad = None
        for (o, r, l), res in zip(q, rs):
            if v.get(r) and v.get(l) and res in (0, 1):
                got = s_.get((o, r, l))
                if got != res:
                    bad = "%s%s contains %s: Go %s, packaging %s" % (
                        o, s8(r), s8(l), {0: "false", 1: "true", 2: "rejects the constraint", 3: "panics"}.get(got, got), bool(res))
        c03_bad.append(bad)
    full = ["(" + sx(t) + " " + sx(e) + " " + tb[1:] for t, e, tb in zip(texts, extras, tabs)]
    full5 = [f[:-1] + " " + sx(extras_grid(t, e)) + ")" for f, t, e in zip(full, trees, extras)]
    impl, model = ctx.impl("marker", full5), ctx.model("marker", full5)
    eimpl, emodel = ctx.impl("marker_edge", full), ctx.model("marker_edge", full)
    spec = [parse_sx(x) for x in ctx.model("spec_eval", [
        "(" + sx(t) + " " + sx(e) + " " + sx(st) + " " + sx(tv[0]) + ")" for t, e, st, tv in zip(trees, extras, spec_tabs, tabv)])]
    pk = [None] * len(trees)
    if ref.available():
        pk = ref.ask([{"k": "marker", "s": s8(t), "extras": [s8(e) for e in ex], "env": env_json} for t, ex in zip(texts, extras)])
    out = []
    for i in range(len(trees)):
        out.append(dict(tree=trees[i], extras=extras[i], text=texts[i], wf=bool(printed[i][1]), case=full[i],
                        impl=impl[i], model=model[i], eimpl=eimpl[i], emodel=emodel[i], spec=spec[i][0], dom=bool(spec[i][1]),
                        cls=spec[i][2],
                        pk=pk[i], c03_bad=c03_bad[i], valid=valids[i], tabv=tabv[i],
                        spec_tab={(o, r, l): res for (o, r, l), res in zip(queries[i], spec_res[i])}))
    return out


def extras_grid(tree, extras):
    """extras sets over which the value of a parsed marker is observed besides the requested one"""
    lits = []
    for a in G.tree_atoms(tree):
        var, op, text, lit_right = G.atom_parts(a)
        if var == G.EXTRA and text not in lits:
            lits.append(text)
    lits = lits[:3]
    grid = [[]] + [[l] for l in lits] + ([lits] if len(lits) > 1 else []) + [[b"test"], [b"foo-bar", b"dev"]]
    return grid


def marker_obs(line):
    """the compared part of a `marker` result: accepted?, value, values over the grid (the tree that follows is a diagnostic)"""
    v = parse_sx(line)
    if isinstance(v, list) and v and v[0] == b"ok":
        return ("ok", v[1], tuple(v[2]))
    return (v[0].decode() if isinstance(v, list) else str(v),)


def same_marker(a, b):
    return a == b or marker_obs(a) == marker_obs(b)


def judge_marker(c, env):
    """findings of one evaluated marker case: (kind, what, known id or None, observed, required)"""
    out = []
    if not c["wf"]:
        return out
    inp = sx([c["text"], c["extras"]])
    if '"oom"' not in c["model"] and not same_marker(c["impl"], c["model"]):
        out.append(("divergence:marker", "model and Go disagree on a marker (accept/reject, value for the requested extras, "
                    "values over the grid of extras sets; the trees are shown for diagnosis)", None, c["impl"], c["model"]))
    if '"oom"' not in c["emodel"] and c["eimpl"] != c["emodel"]:
        out.append(("divergence:marker_edge", "model and Go disagree on the guarded edge", None, c["eimpl"], c["emodel"]))
    go, ed, sp = go_outcome(c["impl"]), edge_outcome(c["eimpl"]), spec_outcome(c["spec"])
    if go[0] in ("panic", "nondet", "hookmismatch") or ed[0] in ("panic", "inconsistent", "grapherr"):
        out.append(("violation", "marker evaluation panics or is nondeterministic", None, c["impl"] + " / " + c["eimpl"], "a value or an error"))
        return out
    if ed != go:
        out.append(("violation", "the guarded edge is not followed exactly when the marker evaluates to true "
                    "(resolver vs parseMarker/Eval)", None, c["eimpl"], c["impl"][:200]))
    if c["pk"] is not None:
        a = c["pk"]
        pko = ("invalid", None) if not a.get("ok") else (("err", None) if a.get("undef") else ("ok", a["val"]))
        if pko != sp:
            out.append(("divergence:spec_vs_packaging:marker", "the Gallina spec and packaging disagree", None, json.dumps(a), sx(c["spec"])))
    if go != sp:
        # the class of an outside-domain case is Coq's domain_class (extracted with the spec; C16_domain_class)
        cls = ("F-C16-8" if c["c03_bad"] else None) if c["dom"] else ("F-C16-%d" % c["cls"] if c["cls"] else None)
        what = ("dependency guarded by the marker is followed (%s) but packaging %s" % (
            "error" if go[0] != "ok" else ("yes" if go[1] else "no"),
            "fails to evaluate" if sp[0] != "ok" else ("says true" if sp[1] else "says false")))
        if c["dom"]:
            what += " [inside the domain of C16_marker_partial]"
        if cls == "F-C16-8":
            what += " [" + c["c03_bad"] + "]"
        if not same_marker(c["impl"], c["model"]):
            cls = None      # never attribute a hit to a known class when the code left the pinned model
        out.append(("violation", what, cls, c["impl"][:300], sx(c["spec"])))
    return out


def shrink_candidates(tree, extras):
    """smaller variants of a marker case: a direct subtree, white space removed, one extra dropped"""
    out = []
    if tree[0] in (1, 2):
        out += [(tree[1], extras), (tree[3], extras)]
    elif tree[0] == 3:
        out.append((tree[2], extras))
    bare = strip_ws(tree)
    if bare != tree:
        out.append((bare, extras))
    for k in range(len(extras)):
        out.append((tree, extras[:k] + extras[k + 1:]))
    if tree[0] in (1, 2):
        for (l, _) in shrink_candidates(tree[1], [])[:3]:
            out.append(([tree[0], l, tree[2], tree[3]], extras))
        for (r, _) in shrink_candidates(tree[3], [])[:3]:
            out.append(([tree[0], tree[1], tree[2], r], extras))
    return out


def strip_ws(tree):
    if tree[0] == 0:
        return [0, b"", b"", b"", b"", tree[5]]
    if tree[0] in (1, 2):
        return [tree[0], strip_ws(tree[1]), b"", strip_ws(tree[3])]
    return [3, b"", strip_ws(tree[2]), b""]


def shrink_marker(ctx, ref, env, env_json, case, key):
    """delta-debugging on the structured form: keep a smaller case while it still shows a finding with the same key"""
    cur = case
    for _ in range(12):
        cands = shrink_candidates(cur["tree"], cur["extras"])
        if not cands:
            break
        res = eval_markers(ctx, ref, env, env_json, [t for t, _ in cands], [e for _, e in cands], [b""] * len(cands))
        nxt = None
        for c in res:
            if any((k, kn) == key for k, _, kn, _, _ in judge_marker(c, env)):
                nxt = c
                break
        if nxt is None:
            break
        cur = nxt
    return cur


def marker_input(c):
    return {"kind": "marker", "text": s8(c["text"]), "extras": [s8(e) for e in c["extras"]],
            "tree": sx(c["tree"]), "arg": sx([c["text"], c["extras"]])}


def record_marker(ctx, ref, env, env_json, c, shrink_budget):
    for kind, what, known, observed, required in judge_marker(c, env):
        if kind.startswith("divergence:"):
            small = c
            if shrink_budget[0] > 0:
                shrink_budget[0] -= 1
                small = shrink_marker(ctx, ref, env, env_json, c, (kind, known))
            f = [x for x in judge_marker(small, env) if x[0] == kind][0]
            if sum(1 for d in ctx.divergences if d["case_kind"] == kind[len("divergence:"):]) < 50:
                ctx.divergence(kind[len("divergence:"):], json.dumps(marker_input(small)), f[3], f[4])
            else:
                ctx.count("divergences-not-listed:" + kind[len("divergence:"):])
        elif known is not None:
            known_hit(ctx, known, what, marker_input(c), observed, required)
            ctx.count("known-class:" + known)
        else:
            small = c
            if shrink_budget[0] > 0:
                shrink_budget[0] -= 1
                small = shrink_marker(ctx, ref, env, env_json, c, (kind, known))
            f = [x for x in judge_marker(small, env) if x[0] == kind and x[2] is None][0]
            ctx.violation(f[1], marker_input(small), observed=f[3], required=f[4])


def check_markers(ctx, rng, ref, env, env_json):
    n = ctx.scale(5000, 100000)
    trees, extras = [], []
    if ctx.replay:
        # failing inputs of the replayed run first
        for v in (ctx.replay.get("violations") or []):
            inp = v.get("input")
            if isinstance(inp, dict) and inp.get("kind") == "marker" and inp.get("tree"):
                trees.append(parse_sx(inp["tree"]))
                extras.append([e.encode("latin-1") for e in inp.get("extras", [])])
    for t, e in G.FIXED_MARKERS:
        trees.append(t)
        extras.append(list(e))
    for i in range(n):
        if rng.random() < 0.12:
            # the shape of real metadata: extra == "x" and <environment comparison>, normalised requested extras
            t, e = G.extra_and_env(rng, env)
            trees.append(t)
            extras.append(e)
            continue
        realistic = rng.random() < 0.5
        trees.append(G.gen_tree(rng, rng.choice([0, 1, 1, 2, 2, 3]), realistic))
        extras.append(G.gen_extras_request(rng))
    wts = [G.wsp(rng, 0.2) for _ in trees]
    cases = eval_markers(ctx, ref, env, env_json, trees, extras, wts)
    ctx.count("corr:marker", len(cases))
    ctx.count("corr:marker_edge", len(cases))
    shown = 0
    budget = [6]
    for c in cases:
        if not c["wf"]:
            ctx.count("marker:not-wf")
            continue
        if '"oom"' in c["model"]:
            ctx.skipped_oom += 1
        go, sp = go_outcome(c["impl"]), spec_outcome(c["spec"])
        ctx.count("marker:in-domain" if c["dom"] else "marker:outside-domain")
        ctx.count("marker:go-" + go[0])
        if c["c03_bad"]:
            ctx.count("c03-interface-mismatch")
        atoms = G.tree_atoms(c["tree"])
        has_extra = any(G.atom_parts(a)[0] == G.EXTRA for a in atoms)
        if c["dom"] and has_extra:
            ctx.count("marker:in-domain:with-extra")
            if len(c["extras"]) >= 2:
                ctx.count("marker:in-domain:with-extra:>=2-requested")
                if len(atoms) >= 2:
                    ctx.nontriv(("marker-extra2", c["text"], tuple(c["extras"])))
        if (len(atoms) >= 2 or c["extras"]) and sp[0] == "ok":
            ctx.nontriv(("marker", c["text"], tuple(c["extras"])))
        record_marker(ctx, ref, env, env_json, c, budget)
        if shown < 2 and len(atoms) >= 2:
            shown += 1
            ctx.sample({"kind": "marker", "text": s8(c["text"]), "extras": [s8(e) for e in c["extras"]], "go": c["impl"][:200],
                        "spec": sx(c["spec"]), "in_domain": c["dom"]})
    nin, nout = ctx.dist.get("marker:in-domain", 0), ctx.dist.get("marker:outside-domain", 0)
    if nin < 0.15 * (nin + nout) or ctx.dist.get("marker:go-ok", 0) < 0.3 * (nin + nout):
        raise lib.BuildError("generator degenerate", "markers in the proved domain: %d of %d; accepted by Go: %d" % (
            nin, nin + nout, ctx.dist.get("marker:go-ok", 0)))
    return [c["text"] for c in cases]


def multi_line(group_roots):
    """case text of a marker_multi case: roots of evaluated single cases, with the union of their oracle tables"""
    valid, sat = {}, {}
    for root in group_roots:
        for c in root:
            for k, b in c["tabv"][0]:
                valid.setdefault(k, b)
            for o, sp_, cand, r in c["tabv"][1]:
                sat.setdefault((o, sp_, cand), r)
    roots = [[[c["text"], c.get("ex1", c["extras"]), c.get("shape", 0), c.get("ex2", [])] for c in root] for root in group_roots]
    return sx([roots, [[k, b] for k, b in valid.items()], [[o, a, b, r] for (o, a, b), r in sat.items()]])


def judge_multi(group_roots, impl_line, model_line):
    """findings of one marker_multi case: (kind, what, observed, required)"""
    out = []
    if '"oom"' not in model_line and '"badcase"' not in model_line and impl_line != model_line:
        out.append(("divergence", "model and Go disagree on the guarded edges of a universe with several markers", impl_line, model_line))
    res = parse_sx(impl_line)
    for root, r in zip(group_roots, res):
        gos = [go_outcome(c["impl"]) for c in root]
        sps = [spec_outcome(c["spec"]) for c in root]
        tag = r[0].decode()
        if tag in ("panic", "inconsistent", "grapherr"):
            out.append(("violation", "resolution of a root with several guarded dependencies panics or yields an inconsistent graph", sx(r), "edges or an error"))
        elif tag == "err":
            if all(g[0] == "ok" for g in gos):
                out.append(("violation", "resolution fails although every marker of the root evaluates on its own", sx(r),
                            sx([b"edges"] + [g[1] for g in gos])))
        elif tag == "edges":
            if any(g[0] != "ok" for g in gos):
                out.append(("violation", "resolution succeeds although a marker of the root is rejected on its own", sx(r), sx([b"err"])))
            else:
                for i, (g, sp_, b) in enumerate(zip(gos, sps, r[1:])):
                    if root[i].get("shape", 0) == 5 and b and not g[1]:
                        # asked for plainly as well: the value of the marker without extras (first entry of the grid)
                        g = ("ok", parse_sx(root[i]["impl"])[2][0])
                    if b != g[1]:
                        req = sp_[1] if sp_ == g else g[1]
                        out.append(("violation", "a guarded edge is not followed exactly when ITS marker holds: marker %d of the root "
                                    "(%s, universe shape %d) evaluates to %d on its own%s for the extras requested of its package, but its "
                                    "edge is %s in the universe (other markers met by the same resolver, other requirers, "
                                    "rejected candidates: see input.shapes)" % (i, s8(root[i]["text"]), root[i].get("shape", 0), g[1],
                                                                        " (packaging: %d)" % sp_[1] if sp_[0] == "ok" else "",
                                                                        "present" if b else "absent"),
                                    sx(r), "edge %d = %d" % (i, req)))
    return out


def run_multi(ctx, groups):
    lines = [multi_line(g) for g in groups]
    return ctx.impl("marker_multi", lines), ctx.model("marker_multi", lines)


def shrink_multi(ctx, group, kind):
    """smallest sub-universe (two markers, in one root or in two) that still shows a finding of the same kind"""
    flat = [c for root in group for c in root]
    cands = []
    for a in flat:
        for b in flat:
            if a is not b:
                cands.append([[a], [b]])
                cands.append([[a, b]])
    cands = cands[:200]
    if not cands:
        return group
    impl, model = run_multi(ctx, cands)
    for g, x, y in zip(cands, impl, model):
        if any(k == kind for k, _, _, _ in judge_multi(g, x, y)):
            return g
    return group


def multi_input(group):
    return {"kind": "marker_multi",
            "shapes": "5 root->helper->root[extras], root->(marker)g (followed when the marker holds plainly or for the extras); 0 root->mid[extras]->(marker)g; 1 root->(marker)g; 2 root->a->mid[extras], root->b->mid[extras2], mid->(marker)g; "
                      "3 root->mid[extras]->(marker)g[zz], g->(extra=='zz')h; 4 root->q,mid[extras]; q 2.0->mid[extras2],zmissing==9 (rejected), q 1.0",
            "roots": [[{"marker": s8(c["text"]), "shape": c.get("shape", 0), "extras": [s8(e) for e in c.get("ex1", c["extras"])],
                        "extras2": [s8(e) for e in c.get("ex2", [])], "tree": sx(c["tree"])} for c in root] for root in group],
            "arg": multi_line(group)}


def check_multi(ctx, rng, ref, env, env_json):
    """Several guarded dependencies per resolver, two roots resolved one after the other on the same resolver,
    with near-duplicate markers (white space outside and inside literals, quote style, letter case) and the same
    marker under different requested extras: each edge must be present exactly when ITS marker holds."""
    nb = ctx.scale(500, 10000)
    bases = []
    if ctx.replay:
        for v in (ctx.replay.get("violations") or []):
            inp = v.get("input")
            if isinstance(inp, dict) and inp.get("kind") == "marker_multi":
                bases.append(("replay", [[(parse_sx(m["tree"]), [e.encode("latin-1") for e in m["extras"]], m.get("shape", 0),
                                           [e.encode("latin-1") for e in m.get("extras2", [])]) for m in root] for root in inp["roots"]]))
    for _ in range(nb):
        r = rng.random()
        if r < 0.45:
            t = [0, G.wsp(rng), G.wsp(rng), G.wsp(rng), G.wsp(rng), G.env_atom(rng, env)]
        elif r < 0.6:
            t = [rng.choice([1, 2]), [0, b"", b" ", b" ", b" ", G.env_atom(rng, env)], b" ", G.gen_tree(rng, 0, True)]
        elif r < 0.75:
            t = G.extra_and_env(rng, env)[0]
        else:
            t = G.gen_tree(rng, rng.choice([0, 0, 1]), True)
        members = [t] + G.near_duplicates(rng, t)
        rng.shuffle(members)
        members = members[:rng.choice([2, 3, 4, 5])]
        items = []
        for m in members:
            r2 = rng.random()
            if r2 < 0.55:
                items.append((m, G.gen_extras_request(rng), 0, []))
            elif r2 < 0.68:
                items.append((m, [], 1, []))                                              # on the root's own requirement
            elif r2 < 0.80:
                items.append((m, G.gen_extras_request(rng), 2, G.gen_extras_request(rng)))  # two requirers, different extras
            elif r2 < 0.90:
                # extras asked for only by a candidate that is rejected: prefer the names the marker itself mentions
                lits = [G.atom_parts(a)[2] for a in G.tree_atoms(m) if G.atom_parts(a)[0] == G.EXTRA and b"," not in G.atom_parts(a)[2]]
                e2 = ([rng.choice(lits)] if lits and rng.random() < 0.8 else []) + G.gen_extras_request(rng)
                e1 = [e for e in (G.gen_extras_request(rng) or [b"docs"]) if e not in e2]
                items.append((m, e1, 4, e2 or [b"dev"]))
            elif r2 < 0.95:
                items.append((m, G.gen_extras_request(rng), 3, []))                        # the guarded requirement enables an extra
            else:
                # the root itself is asked for with extras through a cycle; prefer the extras its marker mentions
                lits = [G.atom_parts(a)[2] for a in G.tree_atoms(m) if G.atom_parts(a)[0] == G.EXTRA and b"," not in G.atom_parts(a)[2]]
                e5 = ([rng.choice(lits)] if lits and rng.random() < 0.8 else []) + G.gen_extras_request(rng)
                items.append((m, e5 or [b"dev"], 5, []))
        if rng.random() < 0.3:
            items.append((items[0][0], G.gen_extras_request(rng), 0, []))     # the same marker under other extras
        rng.shuffle(items)
        k = rng.randrange(1, len(items)) if len(items) > 1 and rng.random() < 0.7 else len(items)
        bases.append(("gen", [items[:k], items[k:]] if k < len(items) else [items]))
    flat_t, flat_e, flat_s = [], [], []
    for _, roots in bases:
        for root in roots:
            # a cycle back to the root asks for the ROOT with extras: one such item per root, and no other marker on the
            # root's own requirements beside it (it would be evaluated for those extras too)
            if any(it[2] == 5 for it in root):
                first = [i for i, it in enumerate(root) if it[2] == 5][0]
                root[:] = [it if (i == first or it[2] not in (1, 5)) else (it[0], it[1], 0, []) for i, it in enumerate(root)]
            for t, e, shape, e2 in root:
                flat_t.append(t)
                # the extras with which the package carrying the guarded requirement is asked for
                flat_e.append([] if shape == 1 else (e + [x for x in e2 if x not in e] if shape == 2 else e))
                flat_s.append((shape, e, e2))
    cases = eval_markers(ctx, ref, env, env_json, flat_t, flat_e, [b""] * len(flat_t))
    for c, (shape, e, e2) in zip(cases, flat_s):
        c["shape"], c["ex1"], c["ex2"] = shape, e, e2
        ctx.count("multi:shape-%d" % shape)
    groups, pos = [], 0
    for _, roots in bases:
        g = []
        for root in roots:
            g.append(cases[pos:pos + len(root)])
            pos += len(root)
        if all(c["wf"] for root in g for c in root):
            groups.append(g)
    impl, model = run_multi(ctx, groups)
    ctx.count("corr:marker_multi", len(groups))
    budget = 4
    shown = 0
    for g, x, y in zip(groups, impl, model):
        ctx.count("multi:markers", sum(len(r) for r in g))
        ctx.count("multi:root-" + "/".join(sorted(set(parse_sx(x)[k][0].decode() for k in range(len(g))))))
        vals = set(c["impl"].split(" ")[1] if c["impl"].startswith('("ok"') else "err" for root in g for c in root)
        if len(vals) > 1:
            ctx.nontriv(("multi", multi_line(g)))
            ctx.count("multi:members-differ-in-value")
        fs = judge_multi(g, x, y)
        seen = set()
        for kind, what, observed, required in fs:
            if kind in seen:
                continue
            seen.add(kind)
            small = g
            if budget > 0:
                budget -= 1
                small = shrink_multi(ctx, g, kind)
                if small is not g:
                    xi, yi = run_multi(ctx, [small])
                    f2 = [f for f in judge_multi(small, xi[0], yi[0]) if f[0] == kind]
                    if f2:
                        kind, what, observed, required = f2[0]
            if kind == "divergence":
                if sum(1 for d in ctx.divergences if d["case_kind"] == "marker_multi") < 50:
                    ctx.divergence("marker_multi", json.dumps(multi_input(small)), observed, required)
            else:
                ctx.violation(what, multi_input(small), observed=observed, required=required)
        if shown < 1 and len(vals) > 1:
            shown += 1
            ctx.sample({"kind": "marker_multi", "roots": [[{"marker": s8(c["text"]), "extras": [s8(e) for e in c["extras"]]} for c in root] for root in g],
                        "go": x[:200]})


def check_malformed(ctx, rng, req_texts, marker_texts):
    n = ctx.scale(3000, 60000)
    bad = [G.malformed_req(rng, req_texts[:500]) for _ in range(n)]
    impl, _ = ctx.correspond("pep508", [sx(b) for b in bad], label="pep508:malformed", compare=same_split)
    panics = []
    for b, line in zip(bad, impl):
        k = parse_sx(line)[0].decode()
        ctx.count("malformed-req:" + k)
        if k == "panic":
            panics.append(b)
    # wide-sense white space next to names and at both ends: ParseDependency trims with " \\t" only, and its s[0]
    # after the name is safe only because of that (C16_parse_dependency_total)
    wide = G.wide_ws_requirements(rng, ctx.scale(2500, 50000), req_texts[:500])
    impl, model = ctx.correspond("pep508", [sx(b) for b in wide], label="pep508:wide-ws", compare=same_split)
    for b, line, ml in zip(wide, impl, model):
        k = parse_sx(line)[0].decode()
        ctx.count("wide-ws-req:" + k)
        if k == "panic":
            panics.append(b)
        if parse_sx(ml)[0] in (b"panic", b"fuel"):
            ctx.divergence("pep508:model-not-total", sx(b), line, ml)   # contradicts C16_parse_dependency_total
    for b in sorted(set(panics), key=lambda x: (len(x), x))[:10]:
        ctx.violation("ParseDependency panics (C04: parsing entry points are total; the model is proved total, "
                      "C16_parse_dependency_total)", {"kind": "pep508", "arg": sx(b), "text": s8(b)}, observed='("panic")',
                      required="a value or an error")
    badm = [G.malformed_marker(rng, marker_texts[:500]) for _ in range(n)]
    exs = [G.gen_extras_request(rng) for _ in range(n)]
    tabs = ctx.impl("pep440_tables", [sx(b) for b in badm])
    full = ["(" + sx(t) + " " + sx(e) + " " + tb[1:] for t, e, tb in zip(badm, exs, tabs)]
    grid = sx([[], [b"test"], [b"x", b"dev"]])
    impl, _ = ctx.correspond("marker", [f[:-1] + " " + grid + ")" for f in full], label="marker:malformed", compare=same_marker)
    for b, e, line in zip(badm, exs, impl):
        k = parse_sx(line)[0].decode()
        ctx.count("malformed-marker:" + k)
        if k in ("panic", "nondet", "hookmismatch"):
            ctx.violation("parseMarker/Eval panics or is nondeterministic on arbitrary text", sx([b, e]), observed=line)
    eimpl, _ = ctx.correspond("marker_edge", full[: n // 4], label="marker_edge:malformed")
    for line in eimpl:
        ctx.count("malformed-edge:" + parse_sx(line)[0].decode())


def oracle_only(ctx):
    """proofs or model did not build: still look for a failing input with Go against packaging/spec-free checks."""
    ref = Ref()
    rng = ctx.rng
    names = [G.gen_name(rng) for _ in range(2000)]
    outs = [parse_sx(x) for x in ctx.impl("canon_name", [sx(x) for x in names])]
    for x, o in zip(names, outs):
        if o != canon_py(x):
            ctx.violation("CanonPackageName differs from packaging's canonicalize_name", sx(x), observed=sx(o), required=sx(canon_py(x)))
