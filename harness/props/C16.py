"""C16 — Python requirement strings and environment markers follow PEP 508."""
import json
import os
import shutil
import subprocess

import lib
from lib import sx, parse_sx
from gen import pep508 as G

PROOF_FILE = "C16"
LEVEL = "proof"
RULE = ("requirement trees (name with mixed case and -_. runs, extras list, bare or parenthesised specifier list, marker, "
        "white space in every slot) and marker trees (and/or/parentheses over the 12 variables, string and version "
        "literals, all 10 operators, requested extras) generated from the PEP 508 grammar and printed by the extracted "
        "Gallina printer; a marker case is non-trivial when it has at least two atoms or a requested extra and evaluates "
        "to a defined value; a requirement case is non-trivial when it has at least two of extras/specifier/marker; "
        "malformed streams are counted separately (ok/err/panic only)")
TRUSTED = [
    "Coq 8.16.1 kernel; vm_compute for table checks and refuted witnesses",
    "translator harness/go/cmd/gotables (PypiEnvTables: target environment, marker variables, operator numbers, "
    "spellings and by-length order, first-letter switch, name delimiter set regenerated from Go sources each run)",
    "extraction (ExtrOcamlBasic only) + Extract/driver.ml; Go harness cmd/implrun (pep508.go); python generators and oracle",
    "coq/Spec/Pep508Spec.v is a hand transcription of packaging 26.3 (markers._eval_op, _normalize_extras, "
    "utils.canonicalize_name) and of pip's any-over-requested-extras rule; validated against packaging on every "
    "generated case when python3-vt is present",
    "PEP 440 parsing/matching enter the model and the spec as oracles tabulated per case (Go: semver.PyPI; spec: "
    "packaging.specifiers when present, otherwise Go's own table restricted to valid versions)",
]
ASSUMPTIONS = [
    "model validated against the implementation by execution on generated inputs (parser tree, value, guarded edge), "
    "not verified against Go source",
    "C16_marker_partial assumes the C03 interface: on two valid versions the Go constraint match equals packaging's "
    "Specifier.contains (hypothesis sat_agree); checked per case by the direct oracle",
    "the guarded-edge clause is tied by the marker_edge correspondence (real resolver over a LocalClient), the "
    "resolver itself is C08's model",
]

MANIFEST = dict(
    category="proof",
    text=("Executable Gallina models of ParseDependency, CanonPackageName, parseMarker and markerExpr.Eval over the "
          "regenerated target environment, with PEP 440 as an oracle; declarative PEP 508 spec (syntax trees, printer over "
          "all white-space placements, packaging 26.3 evaluation). Theorems: parser/printer round trip for every "
          "well-formed marker tree, agreement of Go evaluation with packaging on an explicit boolean domain, refutation "
          "witnesses for every divergence class outside it (known findings), splitter round trip on normalised "
          "observables, name normalisation = packaging's and idempotent on valid names, totality/no-panic and fuel bound. "
          "Correspondence: Go vs extracted model on requirement strings, names, marker trees/values (8 repetitions for "
          "map-order nondeterminism) and the guarded edge through the real resolver; direct oracle Go vs extracted spec "
          "and vs packaging itself when available."),
    note=("Trusted: Coq kernel (+vm_compute), gotables translator, extraction and driver.ml, Go harness, python "
          "generators/oracle, the hand transcription of packaging 26.3 in Spec/Pep508Spec.v (re-validated against packaging "
          "when python3-vt exists, otherwise evidence says so). PEP 440 is an oracle (C02/C03). The model is validated by "
          "execution, not verified against Go source."),
    technique="Rocq proof over a hand-written model + differential correspondence (extracted OCaml vs Go) + reference diff",
    design="8 C16")

HERE = os.path.dirname(os.path.abspath(__file__))
REF_SCRIPT = os.path.join(os.path.dirname(HERE), "ref", "pep508_ref.py")


class Ref:
    """packaging, when an interpreter that has it is installed."""

    def __init__(self):
        self.py = shutil.which("python3-vt")
        self.version = None
        if self.py:
            try:
                a = self.ask([{"k": "version"}])
                self.version = a[0]["version"]
            except Exception:
                self.version = None

    def available(self):
        return self.version is not None

    def ask(self, reqs):
        data = "".join(json.dumps(r) + "\n" for r in reqs).encode()
        p = subprocess.run([self.py, REF_SCRIPT], input=data, stdout=subprocess.PIPE, stderr=subprocess.PIPE, timeout=1800)
        if p.returncode != 0:
            raise RuntimeError("reference runner failed: " + p.stderr.decode("utf-8", "replace")[-500:])
        return [json.loads(l) for l in p.stdout.decode().splitlines() if l.strip()]


def s8(b):
    return b.decode("latin-1")


def ascii_ok(b):
    return all(0x20 <= c < 0x7f or c == 9 for c in b)


# ----------------------------------------------------------------------------- known finding classes

def canon_py(b):
    """packaging.utils.canonicalize_name on bytes (used only to classify hits)."""
    out = bytearray()
    run = False
    for c in b:
        if c in b"-_.":
            run = True
            continue
        if run:
            out.append(45)
            run = False
        out.append(c + 32 if 65 <= c <= 90 else c)
    if run:
        out.append(45)
    return bytes(out)


def classify(tree, extras, env, valid, spec_tab):
    """Why a marker lies outside the proved domain: the id of the known divergence class of the first
    atom that is outside (python mirror of Spec/Pep508Domain.dom_atom; Coq's in_domain decides, this names)."""
    lits = []
    for a in G.tree_atoms(tree):
        var, op, text, lit_right = G.atom_parts(a)
        name = G.VARS[var]
        opt = G.OPS[op]
        if var == G.EXTRA:
            if opt != "==":
                return "F-C16-2"
            if text == b"" or canon_py(text) != text:
                return "F-C16-3"
            lits.append(text)
            continue
        ev = env[name]
        lhs, rhs = (ev, text) if lit_right else (text, ev)
        both = valid.get(lhs, False) and valid.get(rhs, False)
        sp = spec_tab.get((opt, rhs, lhs), 2) in (0, 1)
        if name in G.VERSION_TYPED:
            if opt in ("in", "not in"):
                if both:
                    return "F-C16-1"
            elif opt == "===":
                return "F-C16-5"
            elif opt in ("==", "!=", "~="):
                if not ((both and sp) or (not both and not sp)):
                    return "F-C16-6"
            elif not (both and sp):
                return "F-C16-4" if not both else "F-C16-6"
        else:
            if opt in ("==", "!=", "in", "not in", "~="):
                if both:
                    return "F-C16-6"
            elif opt == "===":
                return "F-C16-5"
            else:
                return "F-C16-4"
    if any(canon_py(e) != e for e in extras):
        return "F-C16-3"
    if len(set(lits)) > 1:
        return "F-C16-7"
    return None


# ----------------------------------------------------------------------------- helpers

def known_hit(ctx, fid, what, input, observed, required):
    """an oracle hit that is an instance of a known class: lib.finish suppresses it only while the entry is open"""
    ctx.violations.append({"what": what, "input": input, "observed": observed, "required": required,
                           "kind": "oracle", "known": fid})


def go_outcome(line):
    v = parse_sx(line)
    if v[0] == b"ok":
        return ("ok", v[1])
    return (v[0].decode(), None)


def edge_outcome(line):
    v = parse_sx(line)
    if v[0] == b"edge":
        return ("ok", v[1])
    return (v[0].decode(), None)


def spec_outcome(v):
    if v[0] == b"ok":
        return ("ok", v[1])
    return ("err", None)     # packaging raises; the resolver has no value either


def norm_go_req(v):
    """normalised observables of Go's ParseDependency output (the normalisation C16 states)."""
    name, extras, constraint, envt = v[1], v[2], v[3], v[4]
    nows = lambda b: bytes(c for c in b if c not in b" \t")
    ex = [e for e in nows(extras).split(b",") if e]
    cl = [c for c in nows(constraint).split(b",") if c]
    return name, ex, cl, envt


def replay_known(ctx):
    """Each open known finding is replayed on the Go code and must still fail as recorded."""
    for k in lib.load_known(ctx.pid):
        if k.get("status") != "open":
            continue
        w = k.get("witness") or {}
        if not w.get("kind"):
            continue
        out = ctx.impl(w["kind"], [w["arg"]])[0]
        if out != w.get("failing_output"):
            ctx.notes.append("known finding %s no longer reproduces as recorded: %s -> %s" % (k["id"], w["arg"], out))
            ctx.count("known:not-reproduced")
        else:
            ctx.count("known:reproduced")


# ----------------------------------------------------------------------------- the check

def run(ctx):
    rng = ctx.rng
    ref = Ref()
    if ref.available():
        ctx.notes.append("reference packaging %s present (python3-vt): spec re-validated against it and Go diffed "
                         "against it directly on this run" % ref.version)
    else:
        ctx.notes.append("reference packaging NOT available: spec not re-validated on this run; spec oracle for "
                         "specifiers instantiated from Go's PEP 440 table on valid versions")
    ctx.extra["reference_packaging"] = ref.version or "absent"
    replay_known(ctx)

    # ---- target environment: regenerated table == what the running code uses
    impl, _ = ctx.correspond("pypi_env", ["0"])
    env = {k.decode(): v for k, v in parse_sx(impl[0])}
    env_json = {k: s8(v) for k, v in env.items()}

    check_names(ctx, rng, ref)
    req_texts = check_requirements(ctx, rng, ref)
    marker_texts = check_markers(ctx, rng, ref, env, env_json)
    check_malformed(ctx, rng, req_texts, marker_texts)


def check_names(ctx, rng, ref):
    n = ctx.scale(3000, 60000)
    names = [G.arbitrary_name(rng) for _ in range(n)]
    names += [b"a-b-c", b"A__b-.C", b"a.-_b", b"-a", b"a-", b"", b"a--b", b"a-!-b", b"Foo.Bar_baz", b"A", b"a.B-c_D"]
    impl, _ = ctx.correspond("canon_name", [sx(x) for x in names])
    spec = ctx.model("spec_canon", [sx(x) for x in names])
    outs = [parse_sx(x) for x in impl]
    again = [parse_sx(x) for x in ctx.impl("canon_name", [sx(o) for o in outs])]
    valid = [all(chr(c).isalnum() and c < 128 or c in b"-_." for c in x) for x in names]
    pk = None
    if ref.available():
        idx = [i for i, x in enumerate(names) if valid[i]]
        ans = ref.ask([{"k": "canon", "s": s8(names[i])} for i in idx])
        pk = {i: a["r"].encode("latin-1") for i, a in zip(idx, ans)}
    for i, (x, o, sp, o2) in enumerate(zip(names, outs, spec, again)):
        if not valid[i]:
            ctx.count("name:outside-grammar")
            continue
        ctx.count("name:valid")
        sp = parse_sx(sp)
        if any(c in b"-_." for c in x) and any(65 <= c <= 90 for c in x):
            ctx.nontriv(("name", x))
        if o != sp:
            ctx.violation("CanonPackageName differs from packaging's canonicalize_name (spec)", sx(x), observed=sx(o), required=sx(sp))
        if o2 != o:
            ctx.violation("CanonPackageName is not idempotent on a valid name", sx(x), observed=sx(o2), required=sx(o))
        if pk is not None and pk[i] != sp:
            ctx.divergence("spec_vs_packaging:canon", sx(x), sx(pk[i]), sx(sp))
        if pk is not None and pk[i] != o:
            ctx.violation("CanonPackageName differs from packaging.utils.canonicalize_name", sx(x), observed=sx(o), required=sx(pk[i]))
    ctx.sample({"kind": "canon_name", "input": s8(names[0]), "output": s8(outs[0])})


def check_requirements(ctx, rng, ref):
    n = ctx.scale(6000, 120000)
    reqs = [G.gen_req(rng) for _ in range(n)]
    spec = [parse_sx(x) for x in ctx.model("spec_req", [sx(r) for r in reqs])]
    texts = [s[0] for s in spec]
    impl, _ = ctx.correspond("pep508", [sx(t) for t in texts])
    pk = None
    if ref.available():
        govals = [parse_sx(x) for x in impl]
        pk = ref.ask([{"k": "req", "s": s8(t), "go_env": (s8(g[4]) if g[0] == b"ok" else None)} for t, g in zip(texts, govals)])
    shown = 0
    for i, (r, s, line) in enumerate(zip(reqs, spec, impl)):
        text, wf, name, extras, clauses, mtext = s
        if not wf:
            ctx.count("req:not-wf")
            continue
        ctx.count("req:valid")
        parts = (1 if r[3] else 0) + (1 if r[5] != [0] else 0) + (1 if r[7] else 0)
        if parts >= 2:
            ctx.nontriv(("req", text))
        g = parse_sx(line)
        if g[0] != b"ok":
            ctx.violation("ParseDependency rejects a valid PEP 508 requirement", sx(text), observed=line, required="ok")
            continue
        gname, gex, gcl, genv = norm_go_req(g)
        if (gname, gex, gcl, genv) != (name, extras, clauses, mtext):
            ctx.violation("ParseDependency splits a valid requirement differently from PEP 508 (normalised observables: "
                          "name, extras list, specifier clauses, marker text)", sx(text),
                          observed=sx([gname, gex, gcl, genv]), required=sx([name, extras, clauses, mtext]))
        if pk is not None:
            a = pk[i]
            if not a.get("ok"):
                ctx.divergence("spec_vs_packaging:req", sx(text), "packaging rejects", "spec prints it as valid")
                continue
            want = (a["name"].encode("latin-1"), sorted(set(e.encode("latin-1") for e in a["extras"])),
                    sorted(set(c.encode("latin-1") for c in a["specs"])))
            if want != (name, sorted(set(extras)), sorted(set(clauses))):
                ctx.divergence("spec_vs_packaging:req", sx(text), json.dumps(a), sx([name, extras, clauses]))
            if (gname, sorted(set(gex)), sorted(set(gcl))) != want or not a["marker_same"]:
                ctx.violation("ParseDependency differs from packaging.requirements.Requirement (name, extras set, "
                              "specifier set, marker)", sx(text), observed=line, required=json.dumps(a))
        if shown < 2 and parts == 3:
            shown += 1
            ctx.sample({"kind": "pep508", "input": s8(text), "go": line[:300]})
    return texts


def spec_tables_from_go(queries, valid, sat):
    out = []
    for (op, rhs, lhs) in queries:
        if not valid.get(rhs, False):
            out.append(2)
        elif not valid.get(lhs, False):
            out.append(0)
        else:
            r = sat.get((op, rhs, lhs), 2)
            out.append(r if r in (0, 1) else 2)
    return out


def check_markers(ctx, rng, ref, env, env_json):
    n = ctx.scale(5000, 100000)
    trees, extras = [], []
    for i in range(n):
        realistic = rng.random() < 0.5
        trees.append(G.gen_tree(rng, rng.choice([0, 1, 1, 2, 2, 3]), realistic))
        extras.append(G.gen_extras_request(rng))
    for t, e in G.FIXED_MARKERS:
        trees.append(t)
        extras.append(list(e))
    n = len(trees)
    printed = [parse_sx(x) for x in ctx.model("spec_print", [sx([t, G.wsp(rng, 0.2)]) for t in trees])]
    texts = [p[0] for p in printed]
    tabs = ctx.impl("pep440_tables", [sx(t) for t in texts])
    tabv = [parse_sx(t) for t in tabs]

    # spec oracle: Specifier(op+rhs).contains(lhs) for every version-typed comparison of the case
    queries = []
    for t in trees:
        q = []
        for a in G.tree_atoms(t):
            var, op, text, lit_right = G.atom_parts(a)
            name = G.VARS[var]
            if name in G.VERSION_TYPED and G.OPS[op] not in ("in", "not in"):
                lhs, rhs = (env[name], text) if lit_right else (text, env[name])
                q.append((G.OPS[op], rhs, lhs))
        queries.append(q)
    valids, sats = [], []
    for tv in tabv:
        valids.append({k: bool(b) for k, b in tv[0]})
        sats.append({(G.OPS[o - 1], s, c): r for o, s, c, r in tv[1]})
    if ref.available():
        ans = ref.ask([{"k": "spec", "q": [[o, s8(r), s8(l)] for o, r, l in q]} for q in queries])
        spec_res = [a["r"] for a in ans]
    else:
        spec_res = [spec_tables_from_go(q, v, s) for q, v, s in zip(queries, valids, sats)]
    spec_tabs = [[[G.OP_NUM[o], r, l, res] for (o, r, l), res in zip(q, rs)] for q, rs in zip(queries, spec_res)]

    # the C03 interface assumed by C16_marker_partial (hypothesis sat_agree), checked on this run's tables
    c03_bad = []
    for q, rs, v, s, text in zip(queries, spec_res, valids, sats, texts):
        bad = None
        for (o, r, l), res in zip(q, rs):
            if v.get(r) and v.get(l) and res in (0, 1):
                got = s.get((o, r, l))
                if got != res:
                    bad = "%s%s contains %s: Go %s, packaging %s" % (o, s8(r), s8(l), {0: "false", 1: "true", 2: "rejects the constraint", 3: "panics"}.get(got, got), bool(res))
        c03_bad.append(bad)
        if bad:
            ctx.count("c03-interface-mismatch")

    full = ["(" + sx(t) + " " + sx(e) + " " + tb[1:] for t, e, tb in zip(texts, extras, tabs)]
    impl, model = ctx.correspond("marker", full)
    eimpl, emodel = ctx.correspond("marker_edge", full)
    spec = [parse_sx(x) for x in ctx.model("spec_eval", [
        "(" + sx(t) + " " + sx(e) + " " + sx(st) + " " + sx(tv[0]) + ")" for t, e, st, tv in zip(trees, extras, spec_tabs, tabv)])]

    pk = None
    if ref.available():
        pk = ref.ask([{"k": "marker", "s": s8(t), "extras": [s8(e) for e in ex], "env": env_json} for t, ex in zip(texts, extras)])

    shown = 0
    for i in range(n):
        text, tree, ex = texts[i], trees[i], extras[i]
        if not printed[i][1]:
            ctx.count("marker:not-wf")
            continue
        go = go_outcome(impl[i])
        ed = edge_outcome(eimpl[i])
        sp = spec_outcome(spec[i][0])
        dom = bool(spec[i][1])
        ctx.count("marker:in-domain" if dom else "marker:outside-domain")
        ctx.count("marker:go-" + go[0])
        atoms = G.tree_atoms(tree)
        if (len(atoms) >= 2 or ex) and sp[0] == "ok":
            ctx.nontriv(("marker", text, tuple(ex)))
        if go[0] in ("panic", "nondet", "hookmismatch") or ed[0] in ("panic", "inconsistent", "grapherr"):
            ctx.violation("marker evaluation panics or is nondeterministic", sx([text, ex]), observed=impl[i] + " / " + eimpl[i])
            continue
        if ed != go:
            ctx.violation("the guarded edge is not followed exactly when the marker evaluates to true "
                          "(resolver vs parseMarker/Eval)", sx([text, ex]), observed=eimpl[i], required=impl[i][:200])
        if pk is not None:
            a = pk[i]
            if not a.get("ok"):
                pko = ("invalid", None)
            elif a.get("undef"):
                pko = ("err", None)
            else:
                pko = ("ok", a["val"])
            if pko != sp:
                ctx.divergence("spec_vs_packaging:marker", sx([text, ex]), json.dumps(a), sx(spec[i][0]))
        if go != sp:
            cls = ("F-C16-8" if c03_bad[i] else None) if dom else classify(tree, ex, env, valids[i], {(o, r, l): res for (o, r, l), res in zip(queries[i], spec_res[i])})
            same_as_model = impl[i] == model[i]
            what = ("dependency guarded by the marker is followed (%s) but packaging %s" % (
                "error" if go[0] != "ok" else ("yes" if go[1] else "no"),
                "fails to evaluate" if sp[0] != "ok" else ("says true" if sp[1] else "says false")))
            if cls is None or not same_as_model:
                ctx.violation((what + " [inside the domain of C16_marker_partial]") if dom else what, sx([text, ex]),
                              observed=impl[i][:300], required=sx(spec[i][0]))
            else:
                known_hit(ctx, cls, what + ((" [" + c03_bad[i] + "]") if cls == "F-C16-8" else ""), sx([text, ex]),
                          impl[i][:300], sx(spec[i][0]))
                ctx.count("known-class:" + cls)
        if shown < 3 and len(atoms) >= 2:
            shown += 1
            ctx.sample({"kind": "marker", "text": s8(text), "extras": [s8(e) for e in ex], "go": impl[i][:200],
                        "spec": sx(spec[i][0]), "in_domain": dom})
    return texts


def check_malformed(ctx, rng, req_texts, marker_texts):
    n = ctx.scale(3000, 60000)
    bad = [G.malformed_req(rng, req_texts[:500]) for _ in range(n)]
    impl, _ = ctx.correspond("pep508", [sx(b) for b in bad], label="pep508:malformed")
    for line in impl:
        ctx.count("malformed-req:" + parse_sx(line)[0].decode())
    badm = [G.malformed_marker(rng, marker_texts[:500]) for _ in range(n)]
    exs = [G.gen_extras_request(rng) for _ in range(n)]
    tabs = ctx.impl("pep440_tables", [sx(b) for b in badm])
    full = ["(" + sx(t) + " " + sx(e) + " " + tb[1:] for t, e, tb in zip(badm, exs, tabs)]
    impl, _ = ctx.correspond("marker", full, label="marker:malformed")
    for b, e, line in zip(badm, exs, impl):
        k = parse_sx(line)[0].decode()
        ctx.count("malformed-marker:" + k)
        if k in ("panic", "nondet", "hookmismatch"):
            ctx.violation("parseMarker/Eval panics or is nondeterministic on arbitrary text", sx([b, e]), observed=line)
    eimpl, _ = ctx.correspond("marker_edge", full[: n // 4], label="marker_edge:malformed")
    for line in eimpl:
        ctx.count("malformed-edge:" + parse_sx(line)[0].decode())


def oracle_only(ctx):
    """proofs or model did not build: still look for a failing input with Go against packaging/spec-free checks."""
    ref = Ref()
    rng = ctx.rng
    names = [G.gen_name(rng) for _ in range(2000)]
    outs = [parse_sx(x) for x in ctx.impl("canon_name", [sx(x) for x in names])]
    for x, o in zip(names, outs):
        if o != canon_py(x):
            ctx.violation("CanonPackageName differs from packaging's canonicalize_name", sx(x), observed=sx(o), required=sx(canon_py(x)))
