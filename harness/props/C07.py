"""C07 — a Maven resolution graph obeys Maven's mediation rules."""
import lib
from lib import sx, parse_sx

PROOF_FILE = "C07"
LEVEL = "proof"
RULE = ("generated Maven universes (5-12 artifacts in 3 groups, 1-4 versions each, soft versions, hard ranges, "
        "dependencyManagement, exclusions incl. *:* g:* *:a, scopes, optional, classifiers, types incl. war/ear/rar, "
        "diamonds, cycles, recurring exclusion texts, multi-range unions in any order with overlapping/adjacent/single-version "
        "sub-ranges), every version of every artifact as root, single registry; plus, per universe, two SEQUENCES of 2-4 roots "
        "resolved on one resolver (sequentially, then from 4 goroutines) whose results must equal a fresh resolver's; "
        "a case is non-trivial when the "
        "resolution returns a graph with at least 4 nodes")
TRUSTED = [
    "Coq 8.16.1 kernel; vm_compute for the refuted witnesses and the satisfiability examples",
    "translator harness/go/cmd/gotables (maxRetries, importsOpt bits, attribute keys regenerated from Go sources each run)",
    "extraction (ExtrOcamlBasic only) + Extract/driver.ml; Go harness cmd/implrun (mavenres.go: recording client, table client); "
    "python generator and direct oracle",
    "semver.Maven (ParseConstraint/IsSimple/Match) and resolve.SortVersions enter the MODEL as oracle tables computed by the Go code itself; "
    "the DIRECT ORACLE does not trust them: range membership and soft/range classification are re-decided by an independent python "
    "evaluator of Maven range specifications on dotted-numeral versions with the standard qualifiers (alpha < beta < milestone < "
    "rc < snapshot < release < sp), every recorded library answer inside that domain is compared with it, and the selected "
    "version of every artifact is compared with a python findMatch on the final requirement list",
    "an incompatible-requirements outcome is re-judged by the model on the complete client table of the universe with a retry "
    "bound of max(10 x maven_max_retries, 1000) (probe stopping early when an incompatible pass met no new requirement)",
    "every 6th recorded table is perturbed into an ill-behaved client (lost Requirements answers, failing/shortened/reordered "
    "Versions answers, Version answers for another version of the package) and run through resolver and model",
]
ASSUMPTIONS = [
    "model validated against the implementation by execution on generated universes (same client table on both sides), "
    "not verified against the Go source",
    "node identifiers are abstracted: the model names graph nodes by their version key (the resolver keeps one node per "
    "version key; theorem C07_one_version_partial proves NoDup of the node list)",
    "single registry: a client answer carrying a registries attribute is outside the modelled fragment (model stops with EOutside)",
    "remaining partial statements: one version per artifact when a package occurs with two (classifier, type) variants in the "
    "graph (false: F-C07-1, shape proved in C07_shared_edges); nearest-wins after a retry (false: F-C07-2; what holds is "
    "C07_nearest_requirements on the accumulated lists); the hypothesis single_variant of C07_one_version_single_variant is read "
    "off the returned graph and is the complement of the oracle's class predicate for F-C07-1",
    "sort.Slice inside resolve.SortVersions is modelled as the stable insertion sort Go uses for at most 12 elements; "
    "longer version lists are outside the fragment",
    "theorems that mention the client assume only what a Go client cannot violate: Version answers carry the key asked for "
    "(version_faithful), Versions answers the package asked for (versions_faithful), and no client error is one of the "
    "resolver's private sentinels errNoMatch / errIncompatible (version_errs_sane, client_sane)",
    "the clause theorems are stated for resolutions that return a graph (resolve fuel root = Ok g); C07_resolve_total "
    "proves that with fuel >= S (length U) the model returns a graph or an error (no Panic, no OutOfFuel) for every "
    "client whose answers are values or plain errors (a panicking client makes Resolve panic) and mention only the "
    "version keys of the finite list U; for table clients both hypotheses are decided on the table and checked on "
    "every 4th recorded table, together with the run at exactly the proved bound",
    "panic sites of the Go code that the model represents by total operations (map writes after make, guarded "
    "indexing todo[0] / requirements[0] / versions[idx] / fields[0..1], AddEdge/AddError returning errors) are "
    "argued by inspection and observed (no panic in any run), not proved about the Go source",
]

MANIFEST = dict(
    category="proof",
    text=("Executable Gallina model of maven/resolve.go (BFS pass with requirements/resolvedPackages/concreteVersions/nodes/"
          "management/exclusions, findMatch with soft and hard requirements, retry loop with the regenerated maxRetries) parametric "
          "in the client and in the semver oracles. Proved for EVERY client, root and fuel with a returned graph: range edges lie "
          "inside their range; test/optional/provided only from the root; nodes created through war/ear/rar have no outgoing edge; "
          "exclusion sets are the ones accumulated along the creating path and no edge reaches an excluded name; the root's "
          "management overrides every transitive declaration; every edge/node error is a findMatch answer and every kept "
          "declaration of every traversed node is represented (no-match reported); a pass only appends requirements, an "
          "incompatible pass strictly lengthens a list, resolve returns the graph of one pass. One-version is proved for edges not "
          "made through the shared-node shortcut, those edges are characterised exactly (C07_shared_edges: their target was created "
          "for another artifact key) and one-version is proved IN FULL for graphs in which no package occurs with two "
          "(classifier, type) variants (C07_one_version_single_variant); nearest-wins is proved for a successful first pass, for soft "
          "AND range first declarations (C07_first_declaration_decides: the first declaration of a key decides alone), and for every "
          "number of passes the selected version is what findMatch answers on the FINAL requirement list of the key "
          "(C07_final_list_decides, the rule the oracle re-evaluates in python on the Go graphs). Both unrestricted clauses are "
          "REFUTED in full by two "
          "witnesses that are also Go runs (known findings F-C07-1, F-C07-2). Tied to the code by differential execution of the "
          "extracted model and the real resolver on the same recorded client table; every clause is also evaluated directly on "
          "the Go graphs (direct oracle with shrinking)."),
    note=("Trusted: Coq 8.16.1 kernel (+vm_compute), gotables, extraction (ExtrOcamlBasic) and driver.ml, the Go harness "
          "(recording client, table client), python generator/oracle. The Gallina model is hand-written and validated against the "
          "implementation on every run, not verified against the Go source. Node ids abstracted to version keys; registries and "
          "version lists above 12 elements outside the fragment; semver answers are oracle tables computed by the Go code itself. "
          "OPEN findings: F-C07-1 (two versions of one artifact through the shared-node shortcut), F-C07-2 (stale requirements "
          "of abandoned passes break nearest-wins)."),
    technique="Rocq proof over a hand-written model parametric in the client + differential correspondence + direct oracle",
    design="8 C07")

MAVEN = 6
CONCRETE, REQUIREMENT = 1, 2
K_OPT, K_TEST, K_SCOPE, K_CLS, K_TYPE, K_ORIGIN, K_EXCL, K_SEL = -2, -4, 3, 4, 5, 6, 9, 11
WARISH = (b"war", b"ear", b"rar")

# ----------------------------------------------------------------------------- generator

VERSION_POOLS = [
    [b"1", b"2", b"3", b"4"],
    [b"1.0", b"1.1", b"2.0", b"2.1"],
    [b"0.9", b"1.0", b"1.5", b"3.0"],
    [b"1.0.0", b"1.2.0", b"2.0.0", b"2.0.1"],
    [b"1.0-alpha", b"1.0-rc1", b"1.0", b"1.0-sp"],
    [b"1.0-SNAPSHOT", b"1.0", b"1.1-rc2", b"2.0-beta1"],
]


def gen_range(rng, vers, p_union=0.25):
    """a hard requirement over the version strings of the target package"""
    if rng.random() < p_union:
        return gen_union(rng, vers)
    return gen_range1(rng, vers)


def gen_union(rng, vers):
    """a multi-range requirement: 2-3 sub-ranges in ANY order (Maven does not require ascending order), possibly
    overlapping or adjacent, built on the package's own versions so that candidates fall in each sub-range"""
    r = rng.random()
    if r < 0.2 and len(vers) >= 2:
        i = rng.randrange(0, len(vers) - 1)
        parts = [b"(," + vers[i] + rng.choice([b"]", b")"]), rng.choice([b"[", b"("]) + vers[rng.randrange(i + 1, len(vers))] + b",)"]
    elif r < 0.45:
        parts = [b"[" + v + b"]" for v in rng.sample(vers, min(len(vers), rng.randrange(2, 4)))]
        if len(parts) < 2:
            parts.append(gen_range1(rng, vers))
    else:
        parts = [gen_range1(rng, vers) for _ in range(rng.randrange(2, 4))]
    q = rng.random()
    if q < 0.45:
        rng.shuffle(parts)
    elif q < 0.75:
        parts.sort(key=lambda x: range_sort_key(x), reverse=True)
    else:
        parts.sort(key=lambda x: range_sort_key(x))
    return b",".join(parts)


def range_sort_key(part):
    lo = part[1:].split(b",")[0].rstrip(b"])")
    t = vt(lo) if lo else ()
    return t if t is not None else ()


def gen_range1(rng, vers):
    a, b = sorted(rng.sample(range(len(vers)), 2)) if len(vers) >= 2 else (0, 0)
    lo, hi = vers[a], vers[b]
    r = rng.random()
    if a == b:
        r = 0.0 if r < 0.3 else (0.5 if r < 0.6 else (0.75 if r < 0.9 else r))
    if r < 0.18:
        return b"[" + lo + b"," + hi + b"]"
    if r < 0.34:
        return b"[" + lo + b"," + hi + b")"
    if r < 0.46:
        return b"(" + lo + b"," + hi + b"]"
    if r < 0.60:
        return b"[" + lo + b",)"
    if r < 0.70:
        return b"(" + lo + b",)"
    if r < 0.82:
        return b"(," + hi + b"]"
    if r < 0.88:
        return b"(," + hi + b")"
    if r < 0.985:
        return b"[" + rng.choice(vers) + b"]"
    return rng.choice([b"[9,)", b"[0.1,0.2]", b"(,0.1)"])


def gen_universe(rng):
    n = rng.randrange(5, 13)
    ngroups = rng.randrange(1, 4)
    names = []
    for i in range(n):
        names.append(b"g%d:a%d" % (rng.randrange(ngroups), i))
    pool = rng.choice(VERSION_POOLS)
    versions = {}
    for nm in names:
        k = rng.randrange(1, 5)
        vs = sorted(rng.sample(range(4), k))
        versions[nm] = [pool[i] for i in vs]
    if rng.random() < 0.03:
        # two spellings of one version (compare equal): exercises sort ties
        nm = rng.choice(names)
        versions[nm] = versions[nm] + [versions[nm][0] + b".0"]
    style = rng.random()  # universe-wide flavour: plain / ranges-heavy / attribute-heavy
    p_range = 0.10 if style < 0.4 else (0.35 if style < 0.7 else 0.15)
    p_attr = 0.5 if style >= 0.7 else 0.25
    p_mgt = rng.choice([0.0, 0.3, 0.6])

    def gen_excl_text(p_all=0.10):
        ex = []
        for _ in range(rng.randrange(1, 4)):
            q = rng.random()
            tn = rng.choice(names)
            g, a = tn.split(b":")
            if q < 0.55:
                ex.append(tn)
            elif q < 0.75:
                ex.append(g + b":*")
            elif q < 1.0 - p_all:
                ex.append(b"*:" + a)
            else:
                ex.append(b"*:*")
        return rng.choice([b"|", b","]).join(ex)

    # exclusion texts recur in real POMs (the same exclusion list is pasted on many declarations):
    # a per-universe pool makes identical texts appear at different places and depths
    excl_pool = [gen_excl_text(0.03) for _ in range(rng.choice([0, 0, 1, 2, 3]))]
    p_excl = rng.choice([0.30, 0.30, 0.6])

    def gen_type(mgmt=False):
        t = []
        if rng.random() < p_attr:
            r = rng.random()
            if r < 0.10:
                t.append([K_TEST, b""])
            elif r < 0.20:
                t.append([K_SCOPE, b"provided"])
            elif r < 0.28:
                t.append([K_SCOPE, b"runtime"])
            elif r < 0.30:
                t.append([K_SCOPE, rng.choice([b"system", b"import"])])
            if rng.random() < 0.12:
                t.append([K_OPT, b""])
            if rng.random() < 0.15:
                t.append([K_CLS, rng.choice([b"x", b"y"])])
            if rng.random() < 0.18:
                t.append([K_TYPE, rng.choice([b"war", b"ear", b"rar", b"pom", b"test-jar", b"jar"])])
            if not mgmt and rng.random() < p_excl:
                if excl_pool and rng.random() < 0.65:
                    t.append([K_EXCL, rng.choice(excl_pool)])
                else:
                    t.append([K_EXCL, gen_excl_text()])
        return t

    def gen_req(target):
        vs = versions[target]
        r = rng.random()
        if r < p_range:
            return gen_range(rng, vs)
        if r < p_range + 0.003:
            return rng.choice([b"7", b"0.0.1"])      # soft version that does not exist
        return rng.choice(vs)

    p_back = rng.choice([0.0, 0.0, 0.04, 0.12])   # probability of an edge against the artifact order (cycles)

    def pick_target(i):
        if rng.random() >= p_back:
            return names[rng.randrange(i + 1, n)] if i + 1 < n else None
        return rng.choice(names)

    pkgs = []
    for i, nm in enumerate(names):
        vl = []
        for v in versions[nm]:
            deps = []
            for _ in range(rng.choice([0, 1, 1, 2, 2, 3, 3, 4, 5])):
                tgt = pick_target(i)
                if tgt is None:
                    continue
                deps.append([tgt, gen_req(tgt), gen_type()])
            if rng.random() < p_mgt:
                for _ in range(rng.randrange(1, 4)):
                    tgt = rng.choice(names)
                    t = gen_type(mgmt=True)
                    t = [p for p in t if p[0] in (K_CLS, K_TYPE)] + [[K_ORIGIN, b"management"]]
                    r = rng.random()
                    ver = gen_range(rng, versions[tgt]) if r < 0.12 else rng.choice(versions[tgt])
                    deps.insert(rng.randrange(len(deps) + 1), [tgt, ver, t])
            if rng.random() < 0.03:
                tgt = rng.choice(names)
                deps.insert(rng.randrange(len(deps) + 1), [tgt, rng.choice(versions[tgt]),
                                                           [[K_ORIGIN, rng.choice([b"import", b"parent"])]]])
            vl.append([v, deps])
        pkgs.append([nm, vl])
    if rng.random() < 0.25:
        graft_shared_exclusions(rng, pkgs, names, versions)
    return pkgs


def graft_shared_exclusions(rng, pkgs, names, versions):
    """Template family grafted onto a random universe: ONE exclusion text carried by several declarations at
    different depths below a new root, some of them below ancestors that exclude other artifacts, some not; the
    artifacts named by the texts ("victims") are declared by the nodes behind those declarations, so every victim is
    reachable through paths that do not exclude it.  Shapes, depths, order, versions and texts are random."""
    grp = b"gs"
    nv = rng.randrange(2, 5)
    victims = [grp + b":v%d" % i for i in range(nv)]
    vvers = {v: rng.sample([b"1.0", b"2.0", b"3.0"], rng.randrange(1, 4)) for v in victims}

    def text(k):
        ex = []
        for v in rng.sample(victims, min(k, nv)):
            ex.append(v if rng.random() < 0.7 else b"*:" + v.split(b":")[1])
        return rng.choice([b"|", b","]).join(ex)
    shared = text(rng.randrange(1, 3))
    newp = {}

    def add(name, deps):
        newp.setdefault(name, []).extend(deps)

    def victim_deps():
        ds = []
        for v in rng.sample(victims, rng.randrange(1, nv + 1)):
            ds.append([v, rng.choice(vvers[v]), []])
        if names and rng.random() < 0.4:
            tgt = rng.choice(names)
            ds.append([tgt, rng.choice(versions[tgt]), []])
        rng.shuffle(ds)
        return ds
    rootn = grp + b":root"
    root_deps = []
    nsites = rng.randrange(2, 5)
    for i in range(nsites):
        depth = rng.randrange(0, 3)
        cur = rootn
        for j in range(depth):
            nxt = grp + b":c%d_%d" % (i, j)
            t = [[K_EXCL, text(rng.randrange(1, 3))]] if rng.random() < 0.55 else []
            (root_deps if cur == rootn else newp.setdefault(cur, [])).append([nxt, b"1.0", t])
            newp.setdefault(nxt, [])
            cur = nxt
        b = grp + b":b%d" % i
        t = [[K_EXCL, shared if rng.random() < 0.85 else text(1)]]
        (root_deps if cur == rootn else newp.setdefault(cur, [])).append([b, b"1.0", t])
        add(b, victim_deps())
    if rng.random() < 0.5:
        root_deps.append([rng.choice(victims), None, []])
    rng.shuffle(root_deps)
    for d in root_deps:
        if d[1] is None:
            d[1] = rng.choice(vvers[d[0]])
    pkgs.append([rootn, [[b"1.0", root_deps]]])
    for nm, deps in newp.items():
        pkgs.append([nm, [[b"1.0", deps]]])
    for v in victims:
        pkgs.append([v, [[ver, []] for ver in sorted(vvers[v])]])


def canon_type(t):
    """python-side normal form of a dep type: sorted (key, value), flags first as the Go dump prints them"""
    d = {}
    for k, v in t:
        d[k] = b"" if k < 0 else v
    return tuple(sorted(d.items(), key=lambda kv: (kv[0] >= 0, -kv[0] if kv[0] < 0 else kv[0])))


# ----------------------------------------------------------------------------- independent Maven ranges
# Membership of a version in a Maven range specification, decided WITHOUT the library under test: versions and
# bounds are dotted numerals compared as integer tuples without trailing zeros; a requirement is soft when it has
# no bracket, otherwise a comma-separated union of [a,b] (a,b) [a,) (,b] [a] in any order.  Everything else
# (qualifiers, bounds equal to 0, empty or inverted intervals: places where the library is known to deviate or the
# specification is silent) is outside the domain: the functions answer None and the oracle does not judge.
import re  # noqa: E402

VER = re.compile(rb"^([0-9]+(?:\.[0-9]+)*)(?:-([A-Za-z]+)([0-9]*))?$")
# the standard qualifiers of Maven's ComparableVersion, below and above a release (rank 6)
QUALIFIER_RANK = {b"alpha": 1, b"beta": 2, b"milestone": 3, b"rc": 4, b"cr": 4, b"snapshot": 5, b"sp": 7}


def vt(s):
    """version -> sort key (numerals without trailing zeros, qualifier rank, qualifier number); None outside the
    domain.  Domain: dotted numerals, optionally followed by ONE '-qualifier[number]' with a standard qualifier
    (1.0-alpha < 1.0-rc1 < 1.0-SNAPSHOT < 1.0 < 1.0-sp; numerals before a qualifier lose their trailing zeros as
    in ComparableVersion, and a longer numeral list beats any qualifier at the position where it continues)."""
    m = VER.match(s)
    if not m or len(s) > 40:
        return None
    t = [int(x) for x in m.group(1).split(b".")]
    while t and t[-1] == 0:
        t.pop()
    rank, num = 6, 0
    if m.group(2) is not None:
        rank = QUALIFIER_RANK.get(m.group(2).lower())
        if rank is None:
            return None
        num = int(m.group(3)) if m.group(3) else 0
    return (tuple(t), rank, num)


def parse_req(s):
    """('soft', v) | ('ranges', [(lo, lo_incl, hi, hi_incl)...]) | None (outside the domain)"""
    if not s:
        return None
    if s[:1] not in b"[(":
        return ("soft", s) if vt(s) is not None else None
    out = []
    i = 0
    n = len(s)
    while i < n:
        if s[i:i+1] not in b"[(":
            return None
        j = i + 1
        while j < n and s[j:j+1] not in b"])":
            if s[j:j+1] in b"[(":
                return None
            j += 1
        if j >= n:
            return None
        body = s[i+1:j]
        lo_incl, hi_incl = s[i:i+1] == b"[", s[j:j+1] == b"]"
        parts = body.split(b",")
        if len(parts) == 1:
            v = vt(parts[0])
            if v is None or not (lo_incl and hi_incl):
                return None
            out.append((v, True, v, True))
        elif len(parts) == 2:
            lo = vt(parts[0]) if parts[0] else ()
            hi = vt(parts[1]) if parts[1] else ()
            if lo is None or hi is None:
                return None
            lo = lo if parts[0] else None
            hi = hi if parts[1] else None
            zero = lambda k: k is not None and k[0] == ()
            if lo is None and hi is None:
                return None
            if lo is not None and hi is not None and (lo > hi or (lo == hi and not (lo_incl and hi_incl))):
                return None
            if lo is None and lo_incl or hi is None and hi_incl:
                return None
            if zero(hi) and not hi_incl or zero(lo):
                return None          # bounds equal to 0: known deviations of the span algebra, kept out
            out.append((lo, lo_incl, hi, hi_incl))
        else:
            return None
        i = j + 1
        if i < n:
            if s[i:i+1] != b",":
                return None
            i += 1
            if i >= n:
                return None
    return ("ranges", out)
def matches(req, ver):
    """True/False, or None when requirement or version is outside the evaluator's domain"""
    p = parse_req(req)
    v = vt(ver)
    if p is None or p[0] != "ranges" or v is None or v[0] == ():
        return None
    for lo, li, hi, hi_i in p[1]:
        ok = True
        if lo is not None and (v < lo or (v == lo and not li)):
            ok = False
        if hi is not None and (v > hi or (v == hi and not hi_i)):
            ok = False
        if ok:
            return True
    return False


# ----------------------------------------------------------------------------- direct oracle

def tdict(t):
    return {k: v for k, v in t}


def art_key(name, td):
    typ = td.get(K_TYPE, b"")
    if typ == b"jar":
        typ = b""
    return (name, td.get(K_CLS, b""), typ)


def parse_excl(s):
    return set(x for x in s.replace(b",", b"|").split(b"|") if x)


def excluded(ex, name):
    if not ex:
        return False
    if b"*:*" in ex or name in ex:
        return True
    f = name.split(b":")
    if len(f) != 2:
        return False
    return (f[0] + b":*") in ex or (b"*:" + f[1]) in ex


class Hit:
    def __init__(self, clause, what, detail, known=None):
        self.clause, self.what, self.detail, self.known = clause, what, detail, known


def range_oracle(universe, root, obs, table):
    """Clauses about ranges that need no graph: (a) the library's answers recorded in the table against the
    independent evaluator, pair by pair; (b) a resolution that fails although, by the independent evaluator, every
    range declared in the universe has a matching version of its package (and nothing else excuses the failure)."""
    hits = []
    n = 0
    for r, sflag in table[3]:
        pr = parse_req(r)
        if pr is None:
            continue
        if sflag == 2 or (sflag == 1) != (pr[0] == "soft"):
            n += 1
            if n <= 3:
                hits.append(Hit("range_edges", "the semver layer classifies a requirement differently from Maven "
                                "(soft version vs range, or does not parse it)",
                                {"requirement": r, "library": sflag, "maven": pr[0]}))
    for r, v, m in table[4]:
        mine = matches(r, v)
        if mine is None:
            continue
        if bool(m) != mine:
            n += 1
            if n <= 3:
                hits.append(Hit("range_edges", "range membership as answered by the semver layer during the resolution differs "
                                "from Maven's: the resolver places a version %s the range" % (b"outside" if mine else b"inside").decode(),
                                {"requirement": r, "version": v, "library": int(m), "maven": int(mine)}))
    if obs[0] == b"err" and obs[1] in (b"other", b"incompatible"):
        uv = {nm: [v for v, _ in vl] for nm, vl in universe}
        decl_all = [d for _, vl in universe for _, deps in vl for d in deps]
        if obs[1] == b"other":
            excused = any(nm.count(b":") != 1 for nm in uv)
            for nm, req, ty in decl_all:
                pr = parse_req(req)
                if pr is None or nm.count(b":") != 1:
                    excused = True
                    break
                if pr[0] == "ranges":
                    ms = [matches(req, v) for v in uv.get(nm, [])]
                    if any(x is None for x in ms) or not any(ms):
                        excused = True
                        break
            if not excused:
                hits.append(Hit("no_match_reported", "the resolution fails with an error although every requirement of the universe "
                                "parses and every range has a matching version of its package", {"error": obs[1]}))
        else:
            if not any(nm == root[0] for nm, _, _ in decl_all):
                hits.append(Hit("no_match_reported", "incompatible-requirements error although no declaration of the universe "
                                "names the root's package (the only requirement the retry loop cannot absorb)", {"error": obs[1]}))
    return hits


def oracle(universe, root, obs, table, passes, stats=None):
    """Evaluate every clause of C07 on the implementation's graph. Returns a list of Hit.  stats (a dict) receives
    activation counts: how often a clause had something to decide in this graph."""
    if stats is None:
        stats = {}

    def act(key):
        stats[key] = stats.get(key, 0) + 1
    hits = range_oracle(universe, root, obs, table)
    if obs[0] != b"ok":
        return hits
    decls = {}
    uvers = {}
    for nm, vl in universe:
        uvers[nm] = [v for v, _ in vl]
        for v, deps in vl:
            decls[(nm, v)] = deps
    simple = {r: s for r, s in table[3]}
    match = {(r, v): m for r, v, m in table[4]}
    rootn = (root[0], root[1])
    nodes = [(v[1], v[3]) for v in obs[1]]
    edges = []
    for f, t, req, ty in obs[2]:
        td = tdict(ty)
        edges.append({"from": (f[1], f[3]), "to": (t[1], t[3]), "req": req, "td": td,
                      "bare": canon_type([p for p in ty if p[0] != K_SEL]), "sel": K_SEL in td})
    errors = [((n[1], n[3]), (r[1], r[3])) for n, r, _ in obs[3]]
    out = {}
    for e in edges:
        out.setdefault(e["from"], []).append(e)

    # root management table
    mgt = {}
    for nm, ver, ty in decls.get(rootn, []):
        td = tdict(ty)
        if td.get(K_ORIGIN) == b"management":
            mgt[art_key(nm, td)] = ver

    # ---- creating (selector) edges
    creator = {}
    for e in edges:
        if e["sel"]:
            creator.setdefault(e["to"], []).append(e)

    # ---- clause 1: one version per artifact
    byart = {}
    for e in edges:
        byart.setdefault(art_key(e["to"][0], e["td"]), []).append(e)
    rootart = (rootn[0], b"", b"")

    def created_for(node, k):
        """the node was created for artifact key k (or is the root and k is the root's key)"""
        if node == rootn:
            return k == rootart
        return any(art_key(c["to"][0], c["td"]) == k for c in creator.get(node, []))

    for k, es in byart.items():
        vs = set(e["to"][1] for e in es)
        if k == rootart:
            vs.add(rootn[1])
        if len(vs) > 1:
            # class F-C07-1: the surplus versions are reached only through nodes created for ANOTHER artifact key
            # (the shared-node shortcut); the edges to nodes created for k itself agree on one version
            own = set(e["to"][1] for e in es if created_for(e["to"], k))
            if k == rootart:
                own.add(rootn[1])
            shared = [e for e in es if not created_for(e["to"], k)]
            known = "F-C07-1" if (len(own) <= 1 and shared) else None
            hits.append(Hit("one_version", "two versions of one artifact (name, classifier, type) in the graph",
                            {"artifact": k, "versions": sorted(vs), "versions_of_nodes_created_for_it": sorted(own)}, known))

    # ---- clause 3: range edges inside their range
    for e in edges:
        s = simple.get(e["req"])
        if s == 0 and match.get((e["req"], e["to"][1])) != 1:
            hits.append(Hit("range_edges", "edge with a range requirement points outside the range",
                            {"from": e["from"], "to": e["to"], "req": e["req"]}))
        if s is None or s == 2:
            hits.append(Hit("range_edges", "edge whose requirement the harness has no semver answer for / does not parse",
                            {"from": e["from"], "to": e["to"], "req": e["req"]}))
        if matches(e["req"], e["to"][1]) is False:
            hits.append(Hit("range_edges", "edge with a range requirement points to a version that is outside the range "
                            "by Maven's rules (independent evaluation)",
                            {"from": e["from"], "to": e["to"], "req": e["req"]}))

    # ---- exclusion sets along the creating path
    excl = {rootn: set()}
    order_guard = 0
    pending = [n for n in nodes if n != rootn]
    while pending and order_guard < len(nodes) + 2:
        order_guard += 1
        rest = []
        for n in pending:
            cs = creator.get(n, [])
            if len(cs) >= 1 and cs[0]["from"] in excl:
                c = cs[0]
                excl[n] = excl[c["from"]] | parse_excl(c["td"].get(K_EXCL, b""))
            else:
                rest.append(n)
        pending = rest

    # ---- clause: exclusions
    for e in edges:
        ex = excl.get(e["from"])
        if ex is not None and excluded(ex, e["to"][0]):
            hits.append(Hit("exclusions", "artifact excluded on the creating path of the dependent is reached through it",
                            {"from": e["from"], "to": e["to"], "exclusions": sorted(ex)}))

    # ---- clause: root-only scopes
    for e in edges:
        if e["from"] != rootn:
            td = e["td"]
            if K_TEST in td or K_OPT in td or td.get(K_SCOPE) == b"provided":
                hits.append(Hit("root_only_scopes", "test/optional/provided dependency followed from a non-root node",
                                {"from": e["from"], "to": e["to"], "type": sorted(td.items())}))

    # ---- clause: war/ear/rar not traversed
    for n in nodes:
        cs = creator.get(n, [])
        if n != rootn and cs and all(c["td"].get(K_TYPE) in WARISH for c in cs) and \
                any(K_ORIGIN not in tdict(d[2]) for d in decls.get(n, [])):
            act("war_node_with_declarations")
        if n != rootn and cs and all(c["td"].get(K_TYPE) in WARISH for c in cs) and out.get(n):
            hits.append(Hit("no_traverse_war", "node created as war/ear/rar has outgoing edges",
                            {"node": n, "out": [(e["to"], e["req"]) for e in out[n]]}))

    # ---- clause: management
    def decl_matches(d, e, req):
        nm, ver, ty = d
        return nm == e["to"][0] and canon_type(ty) == e["bare"] and ver == req

    for e in edges:
        k = art_key(e["to"][0], e["td"])
        ds = [d for d in decls.get(e["from"], []) if K_ORIGIN not in tdict(d[2])]
        if e["from"] == rootn:
            if not any(decl_matches(d, e, e["req"]) for d in ds):
                hits.append(Hit("management", "edge from the root does not carry a requirement the root declares "
                                "(management must only override transitive declarations)",
                                {"from": e["from"], "to": e["to"], "req": e["req"], "managed": mgt.get(k)}))
        elif k in mgt:
            if any(d[0] == e["to"][0] and canon_type(d[2]) == e["bare"] and d[1] != mgt[k] for d in ds):
                act("management_overrode_a_transitive_declaration")
            if e["req"] != mgt[k]:
                hits.append(Hit("management", "transitive declaration of an artifact the root manages keeps its own version",
                                {"from": e["from"], "to": e["to"], "req": e["req"], "managed": mgt[k]}))
        else:
            if not any(decl_matches(d, e, e["req"]) for d in ds):
                hits.append(Hit("management", "edge carries a requirement that is neither declared by the dependent nor managed by the root",
                                {"from": e["from"], "to": e["to"], "req": e["req"]}))

    # ---- breadth-first order of the final graph, computed from the universe's declaration order
    def decl_index(e):
        k = art_key(e["to"][0], e["td"])
        want = None
        for i, d in enumerate(decls.get(e["from"], [])):
            td = tdict(d[2])
            if K_ORIGIN in td or d[0] != e["to"][0] or canon_type(d[2]) != e["bare"]:
                continue
            eff = mgt[k] if (e["from"] != rootn and k in mgt) else d[1]
            if eff == e["req"]:
                want = i
                break
        return want if want is not None else 10 ** 6

    bfs = {rootn: 0}
    queue = [rootn]
    qi = 0
    while qi < len(queue):
        x = queue[qi]
        qi += 1
        for e in sorted(out.get(x, []), key=decl_index):
            if e["to"] not in bfs:
                bfs[e["to"]] = len(bfs)
                queue.append(e["to"])

    # ---- clause 2: nearest wins when every requirement met on the artifact is soft (softness by Maven's syntax,
    # not by the library's answer); and, when no retry happened, the FIRST declaration decides alone: a soft one
    # names the version, a range selects the highest version of the package inside it
    err_names = set(r[0] for _, r in errors)
    for k, es in byart.items():
        if k == rootart or k[0] in err_names:
            continue
        kinds = [parse_req(e["req"]) for e in es]
        if any(x is None for x in kinds):
            continue
        if any(e["from"] not in bfs for e in es):
            continue
        if not all(x[0] == "soft" for x in kinds):
            if passes == 1 and len(set(e["to"][1] for e in es)) == 1:
                first = min(es, key=lambda e: (bfs[e["from"]], decl_index(e)))
                sel = es[0]["to"][1]
                pf = parse_req(first["req"])
                if pf[0] == "soft":
                    want = first["req"]
                else:
                    cands = [(vt(v), v) for v in uvers.get(k[0], []) if matches(first["req"], v)]
                    unknown = any(matches(first["req"], v) is None for v in uvers.get(k[0], []))
                    want = None
                    if cands and not unknown:
                        top = max(c[0] for c in cands)
                        tops = [v for t, v in cands if t == top]
                        if len(tops) == 1:
                            want = tops[0]
                if want is not None and sel != want:
                    hits.append(Hit("nearest", "no retry happened, so the first declaration of the artifact decides alone "
                                    "(a soft one names the version, a range takes the highest version inside it), "
                                    "but another version is selected",
                                    {"artifact": k, "first_declaration": (first["from"], first["req"]),
                                     "selected": sel, "expected": want}))
            continue
        first = min(es, key=lambda e: (bfs[e["from"]], decl_index(e)))
        bad = [e for e in es if e["to"][1] != first["req"]]
        if bad:
            # class F-C07-2 (decided in run_universes with the model's requirement lists): after a retry the
            # requirement list of the artifact differs from what one pass over the final graph accumulates
            expected = []
            for e in sorted(es, key=lambda e: (bfs[e["from"]], decl_index(e))):
                if e["req"] not in expected:
                    expected.append(e["req"])
            h = Hit("nearest", "all requirements met on the artifact are soft but the selected version is not the one "
                    "demanded by the declaration nearest to the root",
                    {"artifact": k, "nearest_declaration": (first["from"], first["req"]),
                     "selected": sorted(set(e["to"][1] for e in es)), "passes": passes},
                    "F-C07-2?" if passes > 1 else None)
            h.expected_reqs = expected
            hits.append(h)

    # ---- a node error is justified only if no version can satisfy the ranges: when one version of the package is,
    # by the independent evaluator, inside EVERY range the universe declares for that package, findMatch cannot
    # have run out of candidates
    all_ranges = {}
    for ds in decls.values():
        for nm, req, ty in ds:
            pr = parse_req(req)
            all_ranges.setdefault(nm, []).append(req if (pr and pr[0] == "ranges") else (None if pr is None else b""))
    for (n, (nm, req)) in errors:
        rs = all_ranges.get(nm, [])
        if any(r is None for r in rs):
            continue
        rs = sorted(set(r for r in rs if r))
        ok_versions = []
        unknown = False
        for v in uvers.get(nm, []):
            ms = [matches(r, v) for r in rs]
            if any(m is None for m in ms):
                unknown = True
                break
            if all(ms):
                ok_versions.append(v)
        if rs and not unknown and ok_versions:
            hits.append(Hit("no_match_reported", "node error (no version satisfies the requirements) although a version of the "
                            "package lies inside every range the universe declares for it",
                            {"node": n, "requirement": (nm, req), "satisfying": ok_versions, "ranges": rs}))

    # ---- a kept declaration of a traversed node that no exclusion of the node's creating path covers never
    # vanishes: it has an edge or a node error (for ranges this is the no-match clause; in general it is the
    # other half of the exclusion clause: exclusions act on their own path only)
    all_excl = set()
    for ds in decls.values():
        for d in ds:
            all_excl |= parse_excl(tdict(d[2]).get(K_EXCL, b""))
    errset = set(errors)
    for n in nodes:
        cs = creator.get(n, [])
        if n != rootn and cs and any(c["td"].get(K_TYPE) in WARISH for c in cs):
            continue
        if n != rootn and not cs:
            continue
        ex = excl.get(n)
        if ex is None:
            continue
        for d in decls.get(n, []):
            nm, ver, ty = d
            td = tdict(ty)
            if K_ORIGIN in td:
                continue
            if n != rootn and (K_TEST in td or K_OPT in td or td.get(K_SCOPE) == b"provided"):
                act("root_only_scope_skipped_a_declaration")
                continue
            if excluded(ex, nm):
                act("exclusion_removed_a_declaration")
                continue
            k = art_key(nm, td)
            eff = mgt[k] if (n != rootn and k in mgt) else ver
            bare = canon_type(ty)
            has_edge = any(e["to"][0] == nm and e["req"] == eff and e["bare"] == bare for e in out.get(n, []))
            has_err = (n, (nm, eff)) in errset
            if not has_edge and not has_err:
                if excluded(all_excl, nm):
                    hits.append(Hit("exclusions", "a declaration that no exclusion on the creating path of its node covers is "
                                    "missing from the graph although some exclusion elsewhere in the universe names it "
                                    "(an exclusion acts outside its path)",
                                    {"node": n, "declaration": (nm, eff, sorted(td.items())), "path_exclusions": sorted(ex)}))
                else:
                    hits.append(Hit("no_match_reported", "a kept declaration of a traversed node has neither an edge nor a node error",
                                    {"node": n, "declaration": (nm, eff, sorted(td.items()))}))
    for (n, r) in errors:
        # a node error must not coexist with an edge for the very same declaration
        pass
    return hits


# ----------------------------------------------------------------------------- run

def norm_obs(line):
    """canonical form for comparison: parsed, lists sorted"""
    try:
        o = parse_sx(line)
    except Exception:
        return line
    if isinstance(o, list) and o and o[0] == b"ok":
        return ["ok", sorted(map(repr, o[1])), sorted(map(repr, o[2])), sorted(map(repr, o[3]))]
    return o


def same_obs(a, b):
    return norm_obs(a) == norm_obs(b)


def run_universes(ctx, universes, label):
    rec_args, metas = [], []
    for ui, u in enumerate(universes):
        for nm, vl in u:
            for v, _ in vl:
                rec_args.append(sx([u, [nm, v]]))
                metas.append((ui, (nm, v)))
    rec = ctx.impl("maven_rec", rec_args)
    cases, parsed = [], []
    for (ui, root), line in zip(metas, rec):
        if line.startswith('("panic"'):
            ctx.violation("maven resolver panicked", {"universe": sx(universes[ui]), "root": sx(list(root))}, observed=line)
            parsed.append(None)
            cases.append(None)
            continue
        table, obs, raw, passes = parse_sx(line)
        parsed.append((table, obs, raw, passes))
        cases.append(sx([[MAVEN, root[0], CONCRETE, root[1]], table]))
    live = [c for c in cases if c is not None]
    impl2, model = ctx.correspond("maven", live, label=label, compare=same_obs)
    # hypotheses of the theorems, decided by the model on the recorded tables (every 4th case): answers are values
    # or plain errors (tb_plain), Version answers carry the key asked for, Versions answers the package asked for;
    # and the resolution with exactly the proved fuel bound tb_fuel gives the same result as with the large fuel
    hyp_cases = live[::4]
    for c, hline, mline in zip(hyp_cases, ctx.model("maven_hyp", hyp_cases), model[::4]):
        try:
            h = parse_sx(hline)
            flags, bound, res = h[:3], h[3], h[4]
        except Exception:
            ctx.violation("model could not decide the theorem hypotheses on a recorded table", {"case": c}, observed=hline)
            continue
        ctx.count("hypotheses_checked")
        ctx.extra["max_fuel_bound"] = max(ctx.extra.get("max_fuel_bound", 0), bound)
        if flags != [1, 1, 1]:
            ctx.violation("a recorded client table violates a hypothesis of the C07 theorems "
                          "(plain answers, faithful Version answers, faithful Versions answers)", {"case": c}, observed=sx(flags))
        if norm_obs(sx(res)) != norm_obs(mline) and '"oom"' not in mline:
            ctx.violation("the resolution with the proved fuel bound differs from the resolution with large fuel",
                          {"case": c, "bound": bound}, observed=sx(res), required=mline)
    # the theorems hold for EVERY client: every 6th recorded table is perturbed into an ill-behaved client and the
    # real resolver on it must not panic and must agree with the model
    mut = []
    for c in live[::6]:
        r0, tb = parse_sx(c)
        mut.append(sx([r0, mutate_table(ctx.rng, tb)]))
    if mut:
        mi, mm = ctx.correspond("maven", mut, label="mutated_tables", compare=same_obs)
        for c, x in zip(mut, mi):
            ctx.count("mutated:" + (x[:14] if x.startswith('("err"') else x.split(" ")[0][:10]))
            if x.startswith('("panic"'):
                ctx.violation("maven resolver panicked on an ill-behaved client (mutated table)", {"case": c}, observed=x)
    it = iter(zip(impl2, model))
    pending = []
    incompat, mixed = [], []
    stats = {}
    for (ui, root), p, c in zip(metas, parsed, cases):
        if p is None:
            continue
        i2, m = next(it)
        table, obs, raw, passes = p
        u = universes[ui]
        agree = same_obs(i2, m)
        # the table run must reproduce the recorded run (the table is complete and the client is a function)
        if not same_obs(sx(obs), i2):
            if i2.startswith('("nondet"'):
                ctx.violation("resolution is not deterministic for a fixed client table", {"case": c}, observed=i2)
            else:
                ctx.count("alias:recorded_run_differs_from_table_run")
                ctx.notes.append("recorded run differs from table run (client slice aliasing): root %r" % (root,)) if len(ctx.notes) < 5 else None
        kind = obs[0].decode() if obs[0] != b"err" else "err:" + obs[1].decode()
        ctx.count("outcome:" + kind)
        ctx.count("passes:%s" % (passes if passes < 4 else ("4-100" if passes <= 100 else "101")))
        if obs[0] == b"ok":
            nn = len(obs[1])
            ctx.count("nodes:%s" % ("1" if nn == 1 else "2-3" if nn < 4 else "4-7" if nn < 8 else "8+"))
            if nn >= 4:
                ctx.nontriv((sx(u), root))
            if obs[3]:
                ctx.count("graphs_with_node_errors")
            if any(s == 0 for _, s in table[3]):
                ctx.count("cases_with_ranges")
        if obs[0] == b"err" and obs[1] == b"incompatible" and agree:
            incompat.append((c, u, root))
        if obs[0] == b"ok" and agree and any((parse_req(e[2]) or ("x",))[0] == "ranges" for e in obs[2]):
            mixed.append((c, u, root, obs))
        for h in oracle(u, root, obs, table, passes, stats):
            ctx.count("oracle_hit:" + h.clause)
            inp = {"kind": "maven_rec", "arg": sx([u, list(root)]), "clause": h.clause}
            viol = dict(what=h.what, input=inp, observed={"detail": lib.jsonable(h.detail), "graph": sx(obs)},
                        required="clause %s of C07" % h.clause)
            if h.known == "F-C07-2?" and agree:
                pending.append((c, h, viol))
            elif h.known and h.known != "F-C07-2?" and agree:
                ctx.known_hits[h.known] = ctx.known_hits.get(h.known, 0) + 1
            else:
                ctx.violation(**viol)
        if len(ctx.samples) < 3 and obs[0] == b"ok" and len(obs[1]) >= 5:
            ctx.sample({"kind": "maven_rec", "root": lib.jsonable(list(root)), "universe": sx(u)[:600], "graph": sx(obs)[:600]})
    classify_stale(ctx, pending)
    for k, v in stats.items():
        ctx.count("active:" + k, v)
    # an incompatible-requirements error must be forced by the universe, not by the retry bound: the model is run
    # again with a retry bound of max(10 x maven_max_retries, 1000); a graph there means versions CAN satisfy
    if incompat:
        # on the COMPLETE table of the universe (kind maven_full), not on the calls this run happened to make
        fulls = {}
        for _, u, _ in incompat:
            fulls.setdefault(id(u), u)
        ftab = dict(zip(fulls.keys(), ctx.impl("maven_full", [sx([u]) for u in fulls.values()])))
        probe = [sx([[MAVEN, root[0], CONCRETE, root[1]], parse_sx(ftab[id(u)])]) for _, u, root in incompat]
        for (c, u, root), line in zip(incompat, ctx.model("maven_retry", probe)):
            ctx.count("retry_rerun:" + ("graph" if line.startswith('("ok"') else line[:22]))
            if line.startswith('("ok"'):
                ctx.violation("the incompatible-requirements error is reported although the resolution finds a graph when "
                              "the retry loop is allowed more passes (versions can satisfy the requirements)",
                              {"kind": "maven_rec", "arg": sx([u, list(root)]), "clause": "no_match_reported"},
                              observed='("err" "incompatible")', required=line[:1500])
    # which version is selected, for every number of passes: python findMatch on the final requirement lists
    if mixed:
        for (c, u, root, obs), line in zip(mixed, ctx.model("maven_reqs", [c for c, _, _, _ in mixed])):
            ctx.count("selection_checked")
            for h in selection_hits(u, root, obs, line):
                ctx.count("oracle_hit:selection")
                ctx.violation(h.what, {"kind": "maven_rec", "arg": sx([u, list(root)]), "clause": "selection"},
                              observed={"detail": lib.jsonable(h.detail), "graph": sx(obs)}, required="clause nearest of C07")
    # minimise the first new violation of each clause (only ever runs when something is wrong)
    done = set()
    for v in ctx.violations:
        inp = v.get("input")
        if not isinstance(inp, dict) or inp.get("kind") != "maven_rec" or "clause" not in inp or inp["clause"] in done \
                or "minimal" in inp or len(done) >= 4:
            continue
        done.add(inp["clause"])
        try:
            u0, root0 = parse_sx(inp["arg"])
            m = shrink(ctx, u0, tuple(root0), inp["clause"])
            inp["minimal"] = sx([m, list(root0)])
            out = ctx.impl("maven_rec", [inp["minimal"]])[0]
            inp["minimal_graph"] = sx(parse_sx(out)[1])
        except Exception as e:  # shrinking is best effort
            inp["minimal_error"] = repr(e)


def py_find_match(reqs, vers):
    """findMatch re-stated with the independent evaluator: the soft versions in encounter order, the highest listed
    version inside all ranges at the position of the first range.  Returns a version, "NOMATCH", or None when
    something is outside the evaluator's domain (or a tie / a soft version the package does not have)."""
    kinds = [parse_req(r) for r in reqs]
    if not reqs or any(k is None for k in kinds):
        return None
    softs = [r for r, k in zip(reqs, kinds) if k[0] == "soft"]
    hards = [r for r, k in zip(reqs, kinds) if k[0] == "ranges"]
    hidx = next((i for i, k in enumerate(kinds) if k[0] == "ranges"), None)

    def all_in(v):
        ms = [matches(h, v) for h in hards]
        return None if any(m is None for m in ms) else all(ms)

    def listed():
        ins = [(v, all_in(v)) for v in vers]
        if any(a is None for _, a in ins):
            return None
        cands = [v for v, a in ins if a]
        if not cands:
            return "none"
        top = max(vt(v) for v in cands)
        tops = [v for v in cands if vt(v) == top]
        return tops[0] if len(tops) == 1 else None
    for i, sv in enumerate(softs):
        if hidx is not None and i == hidx:
            li = listed()
            if li is None:
                return None
            if li != "none":
                return li
        a = all_in(sv) if hards else True
        if a is None:
            return None
        if a:
            return sv if sv in vers else None
    if hidx is not None and len(softs) == hidx:
        li = listed()
        if li is None:
            return None
        if li != "none":
            return li
    return "NOMATCH"


def selection_hits(universe, root, obs, reqs_line):
    """For every artifact of the graph, the selected version against py_find_match on the FINAL requirement list of
    the artifact (the model's, fetched with maven_reqs; it is the list the last declaration was processed with),
    whatever the number of passes."""
    hits = []
    try:
        final = {(nm, cls, typ): list(lst) for nm, cls, typ, lst in parse_sx(reqs_line)}
    except Exception:
        return hits
    uvers = {nm: [v for v, _ in vl] for nm, vl in universe}
    rootart = (root[0], b"", b"")
    err_names = set(r[1] for _, r, _ in obs[3])
    byart = {}
    for f, t, req, ty in obs[2]:
        byart.setdefault(art_key(t[1], tdict(ty)), set()).add(t[3])
    for k, sel in byart.items():
        if k == rootart or k[0] in err_names or len(sel) != 1 or k not in final:
            continue
        want = py_find_match(final[k], uvers.get(k[0], []))
        if want is None:
            continue
        got = next(iter(sel))
        if want != got:
            hits.append(Hit("nearest", "the selected version is not the one the requirement list of the artifact selects "
                            "(soft versions in the order met, else the highest version inside all ranges)",
                            {"artifact": k, "requirements": final[k], "selected": got, "expected": want}))
    return hits


def mutate_table(rng, table):
    """the recorded answers of a LocalClient turned into those of an ill-behaved client: a Requirements answer lost
    (not found / error), a Versions answer failing, shortened or reordered, a Version answer missing or carrying
    ANOTHER version of the same package (same package, so that the tabulated semver answers still cover every pair
    the resolver can ask about)"""
    vers, vlists, reqs, simple, match, less = [list(t) for t in table]
    by_name = {}
    for key, ans in vers:
        if ans[0] == b"ok":
            by_name.setdefault(key[1], []).append(ans[1])
    for key, ans in vlists:
        if ans[0] == b"ok":
            for v in ans[1]:
                by_name.setdefault(key[1], []).append(v)
    for _ in range(rng.choice([1, 1, 2])):
        r = rng.random()
        if r < 0.4 and reqs:
            i = rng.randrange(len(reqs))
            if len(reqs) > 1 and rng.random() < 0.8:
                i = rng.randrange(1, len(reqs))          # entry 0 is the root's own answer
            reqs[i] = [reqs[i][0], [rng.choice([b"nf", b"nf", b"err"])]]
        elif r < 0.7 and vlists:
            i = rng.randrange(len(vlists))
            key, ans = vlists[i]
            q = rng.random()
            if q < 0.5 or ans[0] != b"ok":
                vlists[i] = [key, [rng.choice([b"err", b"nf"])]]
            elif q < 0.75 and ans[1]:
                items = list(ans[1])
                items.pop(rng.randrange(len(items)))
                vlists[i] = [key, [b"ok", items]]
            else:
                items = list(ans[1])
                rng.shuffle(items)
                vlists[i] = [key, [b"ok", items]]
        elif vers:
            i = rng.randrange(len(vers))
            key, ans = vers[i]
            others = [v for v in by_name.get(key[1], []) if v[0] != key]
            if others and rng.random() < 0.7:
                vers[i] = [key, [b"ok", rng.choice(others)]]
            else:
                vers[i] = [key, [b"nf"]]
    return [vers, vlists, reqs, simple, match, less]


def removals(u, root):
    """all universes obtained from u by removing one package, version, declaration or attribute"""
    out = []
    for i, (nm, vl) in enumerate(u):
        if nm != root[0]:
            out.append(u[:i] + u[i + 1:])
        for j, (v, deps) in enumerate(vl):
            if not (nm == root[0] and v == root[1]):
                out.append(u[:i] + [[nm, vl[:j] + vl[j + 1:]]] + u[i + 1:])
            for k, d in enumerate(deps):
                nd = deps[:k] + deps[k + 1:]
                out.append(u[:i] + [[nm, vl[:j] + [[v, nd]] + vl[j + 1:]]] + u[i + 1:])
                for a in range(len(d[2])):
                    d2 = [d[0], d[1], d[2][:a] + d[2][a + 1:]]
                    nd = deps[:k] + [d2] + deps[k + 1:]
                    out.append(u[:i] + [[nm, vl[:j] + [[v, nd]] + vl[j + 1:]]] + u[i + 1:])
    return out


def shrink(ctx, u, root, clause, budget=6000):
    """greedy delta-debugging on the implementation alone: keep removing while the same clause is still hit
    by a hit that is not an instance of a known class"""
    def bad(line):
        if line.startswith('("panic"'):
            return False
        table, obs, raw, passes = parse_sx(line)
        return any(h.clause == clause and not h.known for h in oracle(cur_try[0], root, obs, table, passes))
    cur = u
    cur_try = [u]
    while budget > 0:
        cands = removals(cur, root)
        if not cands:
            break
        outs = ctx.impl("maven_rec", [sx([c, list(root)]) for c in cands])
        ctx.evaluations -= len(cands)
        budget -= len(cands)
        nxt = None
        for c, line in zip(cands, outs):
            cur_try[0] = c
            if bad(line):
                nxt = c
                break
        if nxt is None:
            break
        cur = nxt
    return cur


def pick_sequences(rng, u):
    """root sequences for one universe: 2-4 roots resolved one after the other on ONE resolver; repetitions,
    a root with dependencyManagement first, roots from the upstream half (they reach most of the universe)"""
    roots = [(nm, v) for nm, vl in u for v, _ in vl]
    managing = [(nm, v) for nm, vl in u for v, deps in vl
                if any(tdict(d[2]).get(K_ORIGIN) == b"management" for d in deps)]
    upstream = roots[:max(2, len(roots) // 2)]
    seqs = []
    for _ in range(2):
        n = rng.randrange(2, 5)
        r = rng.random()
        pool = upstream if rng.random() < 0.6 else roots
        if managing and r < 0.5:
            seq = [rng.choice(managing)] + [rng.choice(pool) for _ in range(n - 1)]
        elif r < 0.7 and len(roots) >= 2:
            a, b = rng.sample(roots, 2)
            seq = [a, b, a] + ([b] if n == 4 else [])
        else:
            seq = [rng.choice(pool) for _ in range(n)]
        seqs.append(seq)
    return seqs


def seq_failures(u, seq, line):
    """what is wrong with one maven_seq answer: list of (index or None, what, observed, required)"""
    if line is None or line.startswith('("crash'):
        return [(None, "the process died while one resolver resolved a sequence of roots (sequentially, then from "
                 "4 goroutines)", line, "a value or an error for every root")]
    if line.startswith('("panic"'):
        return [(None, "maven resolver panicked in a sequence of resolutions on one resolver", line, None)]
    per_root, conc = parse_sx(line)
    out = []
    for i, (ref, sq, table, passes) in enumerate(per_root):
        if norm_obs(sx(sq)) != norm_obs(sx(ref)):
            out.append((i, "a resolver that already resolved other roots returns a different result than a fresh resolver "
                        "for the same root: state is kept between Resolve calls", sx(sq), sx(ref)))
    for i, o in conc:
        out.append((i, "concurrent resolutions on one resolver return a result that differs from a fresh resolver's",
                    sx(o), sx(per_root[i][0])))
    return out


def fail_kind(f):
    idx, what = f[0], f[1]
    if idx is None:
        return "crash"
    return "seq" if what.startswith("a resolver that already") else "conc"


def shrink_seq(ctx, u, seq, kind, budget=4000):
    """greedy minimisation of (universe, root sequence) while a failure of the same kind (sequential state,
    concurrent difference, process death) is still there; sequential failures are deterministic"""
    def cands(u, seq):
        out = []
        for j in range(len(seq)):
            if len(seq) > 1:
                out.append((u, seq[:j] + seq[j + 1:]))
        prot = set(seq)
        for i, (nm, vl) in enumerate(u):
            if all(r[0] != nm for r in prot):
                out.append((u[:i] + u[i + 1:], seq))
            for j, (v, deps) in enumerate(vl):
                if (nm, v) not in prot:
                    out.append((u[:i] + [[nm, vl[:j] + vl[j + 1:]]] + u[i + 1:], seq))
                for k, d in enumerate(deps):
                    nd = deps[:k] + deps[k + 1:]
                    out.append((u[:i] + [[nm, vl[:j] + [[v, nd]] + vl[j + 1:]]] + u[i + 1:], seq))
                    for a in range(len(d[2])):
                        d2 = [d[0], d[1], d[2][:a] + d[2][a + 1:]]
                        nd = deps[:k] + [d2] + deps[k + 1:]
                        out.append((u[:i] + [[nm, vl[:j] + [[v, nd]] + vl[j + 1:]]] + u[i + 1:], seq))
        return out
    cur = (u, seq)
    while budget > 0:
        cs = cands(*cur)
        if not cs:
            break
        outs = ctx.impl_surviving("maven_seq", [sx([c[0], [list(r) for r in c[1]]]) for c in cs])
        ctx.evaluations -= len(cs)
        budget -= len(cs)
        nxt = None
        for c, line in zip(cs, outs):
            if any(fail_kind(f) == kind for f in seq_failures(c[0], c[1], line)):
                nxt = c
                break
        if nxt is None:
            break
        cur = nxt
    return cur


def run_sequences(ctx, cases, label="sequences"):
    """cases: list of (universe, [root...]).  One resolver per case resolves the roots in order; every result must be
    the result of a fresh resolver for that root alone (which the correspondence ties to the model), and the
    clauses of C07 are evaluated on it for that root alone."""
    args = [sx([u, [list(r) for r in seq]]) for u, seq in cases]
    outs = ctx.impl_surviving("maven_seq", args)
    allfails = [seq_failures(u, seq, line) for (u, seq), line in zip(cases, outs)]
    # the case to minimise: the first with a (deterministic) sequential failure, else the first failing one
    pick = next((i for i, fs in enumerate(allfails) if any(fail_kind(f) == "seq" for f in fs)),
                next((i for i, fs in enumerate(allfails) if fs), None))
    for ci, ((u, seq), arg, line, fails) in enumerate(zip(cases, args, outs, allfails)):
        ctx.count("seq:cases")
        ctx.count("seq:roots", len(seq))
        inp = {"kind": "maven_seq", "arg": arg, "roots": lib.jsonable([list(r) for r in seq])}
        if fails and ci == pick and not ctx.extra.get("seq_minimised"):
            ctx.extra["seq_minimised"] = True
            kinds = [fail_kind(f) for f in fails]
            kind = "seq" if "seq" in kinds else kinds[0]
            try:
                mu, ms = shrink_seq(ctx, u, list(seq), kind)
                inp["minimal"] = sx([mu, [list(r) for r in ms]])
                inp["minimal_roots"] = lib.jsonable([list(r) for r in ms])
                inp["minimal_result"] = ctx.impl_surviving("maven_seq", [inp["minimal"]])[0][:3000]
            except Exception as e:
                inp["minimal_error"] = repr(e)
        for idx, what, observed, required in fails:
            ctx.violation(what, dict(inp, index=idx), observed=observed, required=required)
        if fails and line and line.startswith("(("):
            # which clause of C07 the shared resolver's graph breaks, for that root alone
            per_root, _ = parse_sx(line)
            for i, (ref, sq, table, passes) in enumerate(per_root):
                if norm_obs(sx(sq)) == norm_obs(sx(ref)):
                    continue
                for h in oracle(u, seq[i], sq, table, passes):
                    if h.known:
                        continue
                    ctx.count("seq:oracle_hit:" + h.clause)
                    ctx.violation(h.what + " (root %d of a sequence resolved on one resolver)" % i,
                                  dict(inp, index=i, clause=h.clause),
                                  observed={"detail": lib.jsonable(h.detail), "graph": sx(sq)},
                                  required="clause %s of C07 for this root alone" % h.clause)


def classify_stale(ctx, pending):
    """F-C07-2: model and implementation agree on the graph, the resolution needed a retry, and the model's final
    requirement list of the artifact is not the list one pass over the final graph accumulates (it holds
    requirements, or an order, left over from an abandoned pass).  Anything else is a new violation."""
    if not pending:
        return
    reqs = ctx.model("maven_reqs", [c for c, _, _ in pending])
    for (c, h, viol), line in zip(pending, reqs):
        stale = False
        try:
            for name, cls, typ, lst in parse_sx(line):
                if (name, cls, typ) == tuple(h.detail["artifact"]):
                    stale = list(lst) != list(h.expected_reqs)
        except Exception:
            stale = False
        if stale:
            ctx.known_hits["F-C07-2"] = ctx.known_hits.get("F-C07-2", 0) + 1
        else:
            ctx.violation(**viol)


def check_known(ctx):
    """replay the witnesses of the open known findings on the Go code: they must still fail as recorded"""
    for k in lib.load_known("C07"):
        if k.get("status") != "open":
            continue
        w = k["witness"]
        out = ctx.impl(w["kind"], [w["arg"]])[0]
        table, obs, raw, passes = parse_sx(out)
        if sx(obs) != w["failing_output"]:
            ctx.notes.append("known finding %s no longer reproduces as recorded (observed %s)" % (k["id"], sx(obs)[:300]))
            ctx.count("known_witness_changed:" + k["id"])
        else:
            ctx.count("known_witness_reproduced:" + k["id"])


def testdata_universes(ctx):
    """the universes of util/resolve/maven/testdata/*.data (schema text), as structured universes"""
    import glob
    import os
    import re
    texts = []
    for f in sorted(glob.glob(os.path.join(lib.REPO, "util/resolve/maven/testdata/*.data"))):
        txt = open(f, encoding="utf-8", errors="replace").read()
        for m in re.finditer(r"^-- Universe [^\n]*\n(.*?)^-- END", txt, re.S | re.M):
            texts.append(m.group(1))
    if not texts:
        return []
    out = []
    for line in ctx.impl("maven_schema", [sx(t.encode()) for t in texts]):
        r = parse_sx(line)
        if r[0] == b"ok" and r[1]:
            # universes of the generator are lists of [name, [[version, deps]...]]
            out.append([[nm, [[v, [[d[0], d[1], d[2]] for d in deps]] for v, deps in vl]] for nm, vl in r[1]])
    return out


def run(ctx):
    rng = ctx.rng
    if ctx.replay:
        for v in ctx.replay.get("violations", []):
            inp = v.get("input", {})
            if isinstance(inp, dict) and inp.get("kind") == "maven_rec":
                u, root = parse_sx(inp["arg"])
                run_universes(ctx, [u], "replay")
            if isinstance(inp, dict) and inp.get("kind") == "maven_seq":
                u, seq = parse_sx(inp.get("minimal") or inp["arg"])
                run_sequences(ctx, [(u, [tuple(r) for r in seq])], "replay")
    check_known(ctx)
    tds = testdata_universes(ctx)
    ctx.count("testdata_universes", len(tds))
    if tds:
        run_universes(ctx, tds, "testdata")
    n = ctx.scale(400, 30000)
    batch = 400
    done = 0
    while done < n:
        us = [gen_universe(rng) for _ in range(min(batch, n - done))]
        run_universes(ctx, us, "universes")
        run_sequences(ctx, [(u, seq) for u in us for seq in pick_sequences(rng, u)])
        done += len(us)
    # every clause must have had something to decide (a generator that stops exercising a clause must not pass)
    for key in ("management_overrode_a_transitive_declaration", "exclusion_removed_a_declaration",
                "war_node_with_declarations", "root_only_scope_skipped_a_declaration"):
        if not ctx.replay and ctx.dist.get("active:" + key, 0) == 0:
            ctx.violation("generator degenerate: no generated resolution exercised the clause (%s)" % key, {"counter": key})
    if not ctx.replay and ctx.dist.get("selection_checked", 0) == 0:
        ctx.violation("generator degenerate: no graph with a range edge", {"counter": "selection_checked"})
    # violations that carry a minimised universe go first in the replay
    ctx.violations.sort(key=lambda v: 0 if isinstance(v.get("input"), dict) and "minimal" in v["input"] else 1)
    ok = ctx.dist.get("outcome:ok", 0)
    total = sum(v for k, v in ctx.dist.items() if k.startswith("outcome:"))
    if total and ok / total < 0.35:
        ctx.violation("generator degenerate: fewer than 35% of the resolutions return a graph", {"ok": ok, "total": total})


def oracle_only(ctx):
    """implementation-only search for a failing input (used when the proof or the model does not build)"""
    rng = ctx.rng
    for _ in range(3):
        us = [gen_universe(rng) for _ in range(150)]
        rec_args, metas = [], []
        for ui, u in enumerate(us):
            for nm, vl in u:
                for v, _ in vl:
                    rec_args.append(sx([u, [nm, v]]))
                    metas.append((ui, (nm, v)))
        for (ui, root), line in zip(metas, ctx.impl("maven_rec", rec_args)):
            if line.startswith('("panic"'):
                continue
            table, obs, raw, passes = parse_sx(line)
            for h in oracle(us[ui], root, obs, table, passes):
                if not h.known:
                    ctx.violation(h.what, {"kind": "maven_rec", "arg": sx([us[ui], list(root)]), "clause": h.clause},
                                  observed={"detail": lib.jsonable(h.detail), "graph": sx(obs)})
