"""C03 — constraint matching agrees with each ecosystem's own implementation."""
import os
import re
import sys

import lib
from lib import sx, parse_sx
from gen import ctable, ranges, cdump, reqtext

PROOF_FILE = "C03"
LEVEL = "proof"
RULE = ("requirement syntax trees drawn from each ecosystem's range grammar (npm: comparators, partial/x-ranges, ^ ~ ~>, hyphen "
        "ranges, space-AND, ||; Cargo: comma lists with default caret, wildcards; PyPI: comma lists of == != <= >= < > ~= and "
        ".* forms without epoch/local; Maven: unions of bracketed ranges, hard and soft versions), numbers small so that bounds "
        "collide, printed with random legal spelling/white space; candidates = every bound, its predecessor/successor in each "
        "component, prerelease neighbours (npm, Cargo), and random versions (PyPI: final releases with a non-zero segment; "
        "Maven: dotted numbers; a second Maven stream carries qualifiers attached by - on ~30% of the bounds and candidates, judged against MavenSpec's ordering, candidates >= 0); the reference specification's own witness of non-emptiness is added as a candidate; 7% of the npm/Cargo requirements apply every operator to every pattern of leading zeros (0.0.0, 0.0.z, 0.y.z, x.y.z), half with a prerelease tag; 10% of the npm/Cargo requirements are plain (operators of the theorems on full releases) so that the region of the theorems is populated and counted; a quarter of the npm/Cargo candidates is asked again with SemVer build metadata (identifiers with - and .). Go answers MatchVersion, Constraint.Match(version string) and, for npm, Maven and PyPI, resolve.MatchRequirement for every (requirement, candidate), and the three must agree; the extracted reference "
        "specification (Spec/*.v, validated against the real tool when present) answers on the syntax tree; the extracted "
        "model answers from the same parse tables. A case is non-trivial when the requirement is accepted and at least one "
        "candidate satisfies it and one does not")
TRUSTED = [
    "Coq 8.16.1 kernel; vm_compute for the refuted witnesses",
    "translator gotables (token tables regenerated each run)",
    "hooks semver.VerifDump / VerifParseInternal (H4) and util/semver/constraint_verif.go",
    "the version PARSER is outside this model (finite table from Go for every string the model looks up)",
    "reference specifications Spec/NodeRange.v, CargoReq.v, Pep440Specifier.v, MavenRange.v: transcriptions of node-semver 7.6.2, "
    "Rust semver 1.0.28, packaging 26.3, maven-artifact 3.8.7, re-validated against the real tools when they are on the machine "
    "(harness/ref/validate_specs.py); every oracle hit is additionally confirmed against the real tool when available",
    "printers of syntax trees to requirement text (harness/gen/ranges.py), validated together with the specifications",
    "extraction (ExtrOcamlBasic only) + driver.ml; Go harness; python generators and oracles",
]
ASSUMPTIONS = [
    "the composition theorems C03_*_partial hold on the sub-grammar delimited by the boolean side conditions in Properties/C03.v; "
    "outside it the agreement is decided by the oracle (Go against the extracted specification) on generated requirements",
    "operator theorems exist for npm (>=, >, <, <=, ^ (every major), ~, = on full release versions, release candidates), for Cargo (the same operators), "
    "for PyPI (Properties/C03_pypi.v: >=, >, <=, <, ==, !=, ~= on a final release M.m.p and ==M.m.*, !=M.m.* against packaging's Specifier.contains, candidates = final releases with a non-zero release segment; "
    "!=0.0.0 and !=0.0.* refuted (unit span, F-C03-1a) and excluded by side condition; NOT versions written with other than three numbers (~=M.m, ==M.*), pre/post/dev bounds, the comma list) and for Maven (Properties/C03_maven.v: the order on dotted-integer versions, "
    "the soft requirement incl. through setRange, one restriction in every bracket form, reversed bounds rejected, the comma list as a union; (,0) refuted; NOT bounds with qualifiers); and-composition (C03_and_partial) and ||-composition (C03_or_partial) for npm only. There are no "
    "theorems for partial versions and prerelease bounds, nor for the step from requirement TEXT to the span calls (except Maven's bare version): there the property rests on the oracle and the correspondence run. "
    "The share of generated requirements inside the region of the theorems is reported (region:* counters); a hit inside it is reported as a divergence",
    "candidates are limited as the property states: PyPI final releases with a non-zero release segment, Maven versions that are dotted numbers",
]
MANIFEST = dict(
    category="proof",
    text=("Executable model of tokenizer, operator desugaring (opVersionToSpan), span construction, intersection, canonical "
          "union and matching, with reference specifications of node-semver / Cargo / PEP 440 specifiers / Maven ranges in "
          "Gallina. Theorems: npm and Cargo: per-operator soundness (>=, >, <, <=, ^, ~, =) on full release versions; PyPI: >=, >, <=, <, ==, !=, ~= on a final release M.m.p and ==M.m.*, !=M.m.* against packaging on final non-zero candidates (three-number requirement versions only); Maven: order, soft requirement, every bracket form of one restriction, comma list as union on dotted-integer versions (not qualifiers); and-/or-composition for npm only. Per-operator soundness of the produced span against the reference's comparator semantics, the "
          "prerelease admission rule compared with node's, refuted witnesses for the recorded defects, partial composition on "
          "the stated sub-grammar. Model tied to the code by differential execution; Go's MatchVersion is compared with the "
          "extracted specification on every generated (requirement, candidate) pair, and hits are confirmed against the real tool."),
    note=("Trusted: Coq kernel (+vm_compute), gotables, extraction+driver, Go harness and hooks, generators/oracles, the "
          "transcribed reference specifications (validated against the real tools when present). The version parser is outside "
          "this model. The property does NOT hold on the current code: see known/C03.jsonl; an oracle hit counts as known only "
          "when the model gives the same answer and the class predicate of an open finding holds for the requirement."),
    technique="Rocq proof over an executable model + reference specs in Gallina + differential correspondence + spec oracle on Go outputs",
    design="8 C03")

ECO_SYS = {"npm": 4, "cargo": 1, "pypi": 6, "maven": 3, "mavenq": 3}
ECOS = ("npm", "cargo", "pypi", "maven", "mavenq")
TOOL_ECO = {"mavenq": "maven"}

# Maven versions with a qualifier, attached by '-' (the domain on which deps.dev and Maven's
# ComparableVersion agree, DESIGN 6.4), a few with the '.Final' spelling
MVN_SUFFIX = [b"-SNAPSHOT", b"-alpha", b"-alpha-1", b"-beta-2", b"-rc1", b"-RC2", b"-milestone-1", b"-sp", b"-sp-1", b"-foo", b"-final", b".Final"]


def mvn_text(rng, ints, allow_below=True):
    s = b".".join(b"%d" % n for n in ints)
    if rng.random() < 0.3:
        suf = rng.choice(MVN_SUFFIX)
        if not allow_below and not any(ints) and suf not in (b"-sp", b"-sp-1", b"-final", b".Final", b"-foo"):
            return s                      # candidates are versions >= 0
        s += suf
    return s


def gen_mavenq(rng):
    """a Maven requirement and candidates whose versions may carry qualifiers; the syntax tree
    holds the version TEXTS (kind spec_mavenq)"""
    ast = ranges.gen_ast(rng, "maven")
    pv = ranges.probes(rng, "maven", ast, 4)
    if ast[0] == 0:
        q = [0, mvn_text(rng, ast[1])]
        text = q[1]
    else:
        rs, parts = [], []
        for li, lo, hi_i, hi in ast[1]:
            lo_t = [mvn_text(rng, lo[0])] if lo else []
            hi_t = [mvn_text(rng, hi[0])] if hi else []
            if lo and hi and lo[0] == hi[0] and li and hi_i:
                hi_t = list(lo_t)
                parts.append(b"[" + lo_t[0] + b"]")
            else:
                parts.append((b"[" if li else b"(") + (lo_t[0] if lo_t else b"") + b"," + (hi_t[0] if hi_t else b"") + (b"]" if hi_i else b")"))
            rs.append([li, lo_t, hi_i, hi_t])
        q = [1, rs]
        text = b",".join(parts)
    cands = []
    for v in pv:
        t = mvn_text(rng, v, allow_below=False)
        if t not in cands:
            cands.append(t)
    for r in (q[1] if q[0] == 1 else []):        # the bounds themselves, as written
        for b in (r[1] + r[3]):
            if b not in cands and not (b.split(b"-")[0].strip(b"0.") == b"" and b"-" in b):
                cands.append(b)
    return q, text, cands



NAMES = ["Default", "Cargo", "Go", "Maven", "NPM", "NuGet", "PyPI", "RubyGems", "Composer"]

sys.path.insert(0, os.path.join(lib.VERIF, "harness", "ref"))


MVN_BELOW0 = re.compile(rb"^0(\.0)*-(alpha|beta|milestone|rc|cr|snapshot|[abm]\d)", re.I)
DOT_QUAL = re.compile(rb"\.[A-Za-z]|[A-Za-z]\.\d")
NPM_CMP = re.compile(rb"(?:[<>=~^]+\s*)?[0-9A-Za-z.*+-]+")
MVN_GROUP = re.compile(rb"[\[(][^\])]*[\])]")


def alternatives(eco, text):
    """the requirement text as a disjunction of conjunctions of comparator texts (as written),
    for the model's trace of the composition"""
    text = text.strip()
    if eco == "npm":
        alts = []
        for alt in text.split(b"||"):
            alt = alt.strip()
            if re.search(rb"\s-\s", alt):
                alts.append([alt])
            else:
                alts.append(NPM_CMP.findall(alt) or [b"*"])
        return alts
    if eco in ("cargo", "pypi"):
        return [[t.strip() for t in text.split(b",") if t.strip()] or [b"*"]]
    if eco in ("maven", "mavenq"):
        groups = MVN_GROUP.findall(text)
        return [[g] for g in groups] if groups else [[text]]
    raise ValueError(eco)


BUILDS = [b"+build-5", b"+b.1", b"+21AF26D3----117B344092BD", b"+001", b"+exp.sha.5114f85", b"+-"]


def mk(eco, ast, text, pv, rng=None):
    sysi = ECO_SYS[eco]
    ptexts = list(pv) if eco == "mavenq" else [ranges.print_version(eco, v) for v in pv]
    if rng is not None and eco in ("npm", "cargo"):
        # SemVer build metadata ([0-9A-Za-z-] identifiers separated by dots) never changes the
        # answer: the same candidate is asked again with a build tag
        extra = [(v, t + rng.choice(BUILDS)) for v, t in zip(pv, ptexts) if rng.random() < 0.25]
        pv = pv + [v for v, _ in extra]
        ptexts = ptexts + [t for _, t in extra]
    keys = set((0, c) for c in ctable.candidates(text)) | set((0, p) for p in ptexts)
    if sysi == 3:
        keys.add((0, b"0"))
    return {"sys": sysi, "eco": eco, "ast": ast, "text": text, "pv": pv, "ptexts": ptexts,
            "head": [str(sysi), sx(text), sx(ptexts)], "keys": keys}


CORPUS = [
    ("npm", [[1, [[4, [0, 2, -1, []]], [7, [0, 2, -1, []]]]]], b"<0.2 ^0.2", [[0, 2, 0, []], [0, 1, 9, []]]),
    ("npm", [[1, [[3, [1, 2, 0, []]], [4, [2, 0, 0, []]], [3, [2, 0, 0, []]], [4, [3, 0, 0, []]]]]], b">=1.2.0 <2.0.0 >=2.0.0 <3.0.0",
     [[2, 0, 0, []], [1, 5, 0, []]]),
    ("npm", [[1, [[3, [0, 1, 1, []]], [4, [1, -1, -1, []]]]], [1, [[6, [2, -1, -1, []]]]]], b">=0.1.1 <1 || ~>2", [[1, 3, 3, []], [0, 5, 0, []]]),
    ("npm", [[0, [1, 0, -1, []], [10, 2, 0, [[0, 1]]]], [1, [[0, [1, -1, -1, []]], [6, [1, 2, -1, []]]]], [1, [[6, [1, -1, -1, []]]]]],
     b"1.0 - 10.2.0-1 || 1 ~1.2 || ~1", [[3, 1, 10, []], [1, 5, 0, []]]),
    ("npm", [[1, [[4, [0, -1, -1, []]], [0, [0, 0, -1, []]]]]], b"<0.x 0.0", [[0, 0, 0, []]]),
    ("npm", [[0, [2, -1, -1, []], [1, -1, -1, []]], [1, [[0, [3, -1, -1, []]]]]], b"2 - 1 || 3", [[3, 0, 0, []], [2, 0, 0, []]]),
    ("pypi", [[8, [[0, 0], [], -1, -1], 0]], b"!=0.0", [[0, 0, 1], [0, 1]]),
]


def canon_idents(x):
    """an identifier made of digits only is numeric: the generators occasionally derive such a
    string from an alphanumeric one (0a -> 0); returns None when it would have a leading zero"""
    if isinstance(x, list):
        if len(x) == 2 and x[0] == 1 and isinstance(x[1], (bytes, bytearray)):
            if x[1].isdigit():
                if len(x[1]) > 1 and x[1][:1] == b"0":
                    return None
                return [0, int(x[1])]
            return x
        out = []
        for e in x:
            r = canon_idents(e)
            if r is None:
                return None
            out.append(r)
        return out
    return x


def collapsing_ast(rng, eco):
    """an and-list whose comparators meet in exactly one version (>a <=inc(a), >=a <=a, >a =inc(a)),
    in either order; npm and Cargo"""
    a = [rng.choice([0, 1, 2, 3, 4, 9]) for _ in range(3)]
    n = rng.choice([3, 3, 3, 2])
    lo = a[:n] + [-1] * (3 - n)
    nxt = a[:n]
    nxt[-1] += 1
    b = (nxt + [0, 0])[:3]
    full_a = (a[:n] + [0, 0])[:3]
    form = rng.randrange(3)
    if form == 0:
        cmps = [(2, lo), (5, b)]
    elif form == 1:
        cmps = [(3, full_a), (5, full_a)]
    else:
        cmps = [(2, lo), (1, b)]
    if rng.random() < 0.5:
        cmps.reverse()
    if eco == "npm":
        return [[1, [[op, [v[0], v[1], v[2], []]] for op, v in cmps]]]
    return [[op, v[0], v[1], v[2], []] for op, v in cmps]


def plain_ast(rng, eco):
    """requirements in the region of the operator theorems: >=, >, <, <=, ^, ~, = (npm: also no operator)
    on full release versions with small numbers; npm: 1-3 comparators per and-list, 1-3
    alternatives; Cargo: one comparator.  They are printed without textual variation."""
    def triple():
        return [rng.choice([0, 1, 1, 2, 3]), rng.choice([0, 0, 1, 2, 9]), rng.choice([0, 0, 1, 3])]
    ops = [1, 2, 3, 3, 4, 4, 5, 6, 7] + ([0] if eco == "npm" else [])
    if eco == "npm":
        return [[1, [[rng.choice(ops), triple() + [[]]] for _ in range(rng.choice([1, 2, 2, 3]))]] for _ in range(rng.choice([1, 1, 2, 3]))]
    return [[rng.choice(ops)] + triple() + [[]]]


def zero_pattern_ast(rng, eco):
    """every operator on every pattern of leading zeros (0.0.0, 0.0.z, 0.y.z, x.y.z), half of
    them with a prerelease tag, a fifth partial: the desugaring of ^ and ~ (and of Cargo's default
    operator) branches on exactly these patterns; one comparator, sometimes two"""
    def version():
        z = lambda: rng.choice([1, 2, 3, 9])
        t = rng.choice([[0, 0, 0], [0, 0, z()], [0, 0, z()], [0, z(), z()], [0, z(), 0], [z(), z(), z()], [z(), 0, 0]])
        pre = [rng.choice([[1, b"beta"], [1, b"alpha"], [0, 0], [1, b"rc"]])] + ([[0, rng.choice([0, 1])]] if rng.random() < 0.4 else []) \
            if rng.random() < 0.5 else []
        if not pre and rng.random() < 0.2:
            k = rng.choice([1, 2])
            t = t[:k] + [-1] * (3 - k)
        return t, pre
    ops = [1, 2, 3, 4, 5, 6, 7, 7, 7, 6] + ([0] if eco == "npm" else [7])
    cmps = []
    for _ in range(rng.choice([1, 1, 1, 2])):
        t, pre = version()
        cmps.append((rng.choice(ops), t, pre))
    if eco == "npm":
        return [[1, [[op, t + [pre]] for op, t, pre in cmps]]]
    return [[op] + t + [pre] for op, t, pre in cmps]


def gen_cases(ctx):
    rng = ctx.rng
    per = ctx.scale(1100, 55000)
    cases = []
    for eco in ranges.ECOS:
        for _ in range(per):
            plain = eco in ("npm", "cargo") and rng.random() < 0.1
            ast = plain_ast(rng, eco) if plain else \
                zero_pattern_ast(rng, eco) if (eco in ("npm", "cargo") and rng.random() < 0.07) else \
                collapsing_ast(rng, eco) if (eco in ("npm", "cargo") and rng.random() < 0.06) else ranges.gen_ast(rng, eco)
            text = ranges.print_ast(rng, eco, ast, plain=plain)
            pv = ranges.probes(rng, eco, ast, 4)
            if eco in ("npm", "cargo"):
                ast = canon_idents(ast)
                if ast is None:
                    continue
                pv = [q for q in (canon_idents(v) for v in pv) if q is not None]
            cases.append(mk(eco, ast, text, pv, rng))
    for _ in range(per // 2):
        q, text, cands = gen_mavenq(rng)
        cases.append(mk("mavenq", q, text, cands))
    for eco, ast, text, pv in CORPUS:
        cases.append(mk(eco, ast, text, pv))
    add_witnesses(ctx, cases)
    return cases


def add_witnesses(ctx, cases):
    """the reference specification is asked for a version that satisfies the requirement (a
    witness of non-emptiness, Spec/*.v); it becomes one more candidate, so that the clause about
    requirements the reference accepts as non-empty does not depend on the probes"""
    for eco in ECOS:
        idx = [i for i, c in enumerate(cases) if c["eco"] == eco]
        if not idx:
            continue
        lines = ctx.model("wit_" + eco, [sx(cases[i]["ast"]) for i in idx])
        for i, line in zip(idx, lines):
            w = parse_sx(line)
            if not isinstance(w, list) or w[0] not in (0, 1):
                raise lib.BuildError("witness function rejected a generated syntax tree", sx(cases[i]["ast"]) + " -> " + line)
            c = cases[i]
            if w[0] == 1:
                ctx.count("witness:%s:found" % eco)
                v = w[1]
                t = bytes(v) if eco == "mavenq" else ranges.print_version(TOOL_ECO.get(eco, eco), v)
                if t not in c["ptexts"]:
                    c["pv"] = c["pv"] + [v]
                    c["ptexts"] = c["ptexts"] + [t]
                    c["head"][2] = sx(c["ptexts"])
                    c["keys"].add((0, t))
            else:
                ctx.count("witness:%s:none" % eco)


def spec_answers(ctx, cases):
    out = [None] * len(cases)
    for eco in ECOS:
        idx = [i for i, c in enumerate(cases) if c["eco"] == eco]
        lines = ctx.model("spec_" + eco, [sx([cases[i]["ast"], cases[i]["pv"]]) for i in idx])
        for i, line in zip(idx, lines):
            v = parse_sx(line)
            if not isinstance(v, list) or len(v) != len(cases[i]["pv"]) or any(b not in (0, 1) for b in v):
                raise lib.BuildError("specification rejected a generated syntax tree", sx([cases[i]["ast"], cases[i]["pv"]]) + " -> " + line)
            out[i] = v
    return out


class Hit:
    def __init__(self, idx, what, probe_i, observed, required, entry=False):
        self.idx, self.what, self.probe_i, self.observed, self.required = idx, what, probe_i, observed, required
        self.entry = entry            # a disagreement between entry points: never a known class


def oracle(ctx, cases, impl_lines, spec):
    hits = []
    for idx, (c, line, sp) in enumerate(zip(cases, impl_lines, spec)):
        eco = c["eco"]
        if not line.startswith('("ok"'):
            ctx.count("req:%s:%s" % (eco, "panic" if "panic" in line else "rejected"))
            if any(sp):
                k = sp.index(1)
                hits.append(Hit(idx, "a requirement the reference accepts as non-empty is rejected" if "panic" not in line
                                else "ParseConstraint panics on a requirement the reference accepts", k, "rejected", "accepted"))
            continue
        ctx.count("req:%s:ok" % eco)
        rows = parse_sx(line)[1]
        yes = no = 0
        for k, (row, want) in enumerate(zip(rows, sp)):
            ctx.evaluations += 1
            verr = row[0] == b"verr"
            got = 0 if verr else row[0]
            ms, mr = row[-2], row[-1]
            if verr:
                ctx.count("candidate-rejected:%s" % eco)
            if b"+" in c["ptexts"][k]:
                ctx.count("candidate:%s:build-metadata" % eco)
            # the string entry points must give the answer of MatchVersion
            if ms != got:
                hits.append(Hit(idx, "Constraint.Match(version string) differs from MatchVersion on the parsed version", k, ms, got, entry=True))
            if mr != -1 and mr != ms:
                hits.append(Hit(idx, "resolve.MatchRequirement differs from Constraint.Match for the same candidate", k, mr, ms, entry=True))
            yes += got
            no += 1 - got
            if eco in ("npm", "cargo") and c["pv"][k][3]:
                ctx.count("candidate:%s:prerelease" % eco)
            if got != want:
                hits.append(Hit(idx, "MatchVersion differs from the ecosystem's tool", k, got, want))
        if yes and no:
            ctx.nontriv((eco, c["text"]))
        if len(ctx.samples) < 6 and yes and no and len(c["text"]) > 8:
            ctx.sample({"ecosystem": eco, "requirement": c["text"].decode("latin1"), "candidates": len(rows), "satisfied": yes})
    return hits


def confirm_with_tools(ctx, cases, hits, spec):
    """re-evaluate the hit pairs (and a sample of all pairs) with the real tools; a pair on which
    the tool disagrees with the specification is a defect of the transcription, not of deps.dev"""
    try:
        import validate_specs
    except Exception as e:                      # pragma: no cover
        ctx.notes.append("reference tools not consulted: %s" % e)
        return {}
    rng = ctx.rng
    verdict = {}
    status = {}
    examples = []
    for eco in ECOS:
        idxs = sorted(set(h.idx for h in hits if cases[h.idx]["eco"] == eco))
        allidx = [i for i, c in enumerate(cases) if c["eco"] == eco]
        sample = rng.sample(allidx, min(len(allidx), ctx.scale(150, 3000)))
        want = sorted(set(idxs) | set(sample))
        if not want:
            continue
        try:
            res = validate_specs.check(TOOL_ECO.get(eco, eco), [(cases[i]["text"], cases[i]["ptexts"]) for i in want])
        except Exception as e:
            res = None
            ctx.notes.append("reference tool for %s failed: %s" % (eco, str(e)[:200]))
        if res is None:
            status[eco] = "skipped: tool not available"
            continue
        mism = 0
        pairs = 0
        for i, r in zip(want, res):
            if r is None:
                verdict[i] = None                       # the tool rejects the text
                if eco == "mavenq":
                    ctx.count("mavenq:text-outside-the-tool's-grammar")     # a qualifier made a range invalid
                    continue
                mism += 1
                if len(examples) < 6:
                    examples.append("%s: the tool rejects %r" % (eco, cases[i]["text"]))
                continue
            verdict[i] = [1 if b else 0 for b in r]
            for k, (a, b) in enumerate(zip(spec[i], verdict[i])):
                pairs += 1
                if a != b:
                    mism += 1
                    if len(examples) < 6:
                        examples.append("%s: %r on %r: specification %d, tool %d" % (eco, cases[i]["text"], cases[i]["ptexts"][k], a, b))
        status[eco] = "validated on %d requirements / %d pairs, %d disagreements between specification and tool" % (len(want), pairs, mism)
        if mism:
            ctx.notes.append("SPEC VALIDATION: %s specification disagrees with the real tool on %d pairs" % (eco, mism))
    ctx.extra["spec_validation"] = status
    if examples:
        ctx.extra["spec_validation_disagreements"] = examples
    return verdict


# ----------------------------------------------------------------------------- the region of the theorems

THM_CMP = re.compile(rb"^(>=|<=|>|<|\^|~|=)?(0|[1-9]\d*)\.(0|[1-9]\d*)\.(0|[1-9]\d*)$")
THM_CAND = re.compile(rb"^(0|[1-9]\d*)\.(0|[1-9]\d*)\.(0|[1-9]\d*)$")
FIN = (1 << 63) - 1


def thm_comparator(eco, t):
    """operator + full release version as in C03_op_*_sound / C03_cargo_*_sound, side conditions included"""
    m = THM_CMP.match(t)
    if not m:
        return False
    op = m.group(1) or b""
    nums = [int(x) for x in m.groups()[1:]]
    if any(n >= FIN for n in nums):
        return False
    if op == b"<" and nums == [0, 0, 0]:
        return False
    if op in (b">", b"<="):
        # C03_op_gt_sound / C03_op_le_sound and their Cargo forms: > needs patch + 1 below the value for infinity
        return not (op == b">" and nums[2] >= FIN - 1)
    return True


def thm_shape(eco, text):
    """the requirement is spelled with the comparators of the operator theorems only, single
    spaces / || between them (npm), one comparator (Cargo: no and-theorem for Cargo)"""
    if eco == "npm":
        alts = [a.split(b" ") for a in text.split(b"||")]
        return alts if all(a and all(thm_comparator(eco, t) for t in a) for a in alts) else None
    if eco == "cargo":
        return [[text]] if thm_comparator(eco, text) else None
    return None


def theorem_domain(ctx, tables, cases, impl_lines, model_lines):
    """which cases lie inside the region of the C03 theorems (operators on full release versions,
    and-lists under the side conditions of C03_and_partial, || under C03_or_partial); counted per
    ecosystem.  Returns the set of case indices inside."""
    idx, dcases = [], []
    for i, c in enumerate(cases):
        if c["eco"] not in ("npm", "cargo"):
            continue
        ctx.count("region:%s:requirements" % c["eco"])
        alts = thm_shape(c["eco"], c["text"])
        if alts is None or not impl_lines[i].startswith('("ok"'):
            continue
        keys = set(c["keys"])
        for a in alts:
            for t in a:
                keys |= set((0, x) for x in ctable.candidates(t))
        idx.append(i)
        dcases.append({"sys": c["sys"], "head": [str(c["sys"]), sx(alts)], "keys": keys})
    inside = set()
    if dcases:
        for i, line in zip(idx, ctable.run_model(ctx, tables, "cdiag", dcases)):
            eco = cases[i]["eco"]
            ctx.count("region:%s:comparators of the operator theorems" % eco)
            if line.startswith('("ok"') and parse_sx(line)[2] == 1:
                inside.add(i)
                ctx.count("region:%s:inside the C03 theorems" % eco)
                ctx.count("region:%s:release candidates judged inside" % eco,
                          sum(1 for p in cases[i]["ptexts"] if THM_CAND.match(p) and all(int(x) < FIN for x in p.split(b"."))))
    return inside


# ----------------------------------------------------------------------------- classification

def classify(ctx, tables, cases, impl_lines, model_lines, hits, spec):
    """known class of a hit: the model gives Go's answer on that case AND the class predicate of
    an open finding holds.  Predicates:
      F-C03-2  reversed hyphen range in a disjunct (syntax tree)
      F-C03-3  an empty ||-alternative (syntax tree)
      F-C03-1a..c  the model's trace of the composition shows an open-ended unit span / a merge
                   across a gap / a span dropped by the skip (events of `cdiag`)
      others   see known/C03.jsonl
    """
    open_ids = set(k["id"] for k in lib.load_known("C03") if k.get("status") == "open")
    same = [i for i in sorted(set(h.idx for h in hits)) if impl_lines[i] == model_lines[i]]
    events = {}
    if same:
        dcases = []
        for i in same:
            c = cases[i]
            alts = alternatives(c["eco"], c["text"])
            keys = set(c["keys"])
            for a in alts:
                for t in a:
                    keys |= set((0, x) for x in ctable.candidates(t))
            dcases.append({"sys": c["sys"], "head": [str(c["sys"]), sx(alts)], "keys": keys})
        outs = ctable.run_model(ctx, tables, "cdiag", dcases)
        for i, line in zip(same, outs):
            events[i] = set(e[0].decode() for e in parse_sx(line)[1]) if line.startswith('("ok"') else set()
    # node's own desugaring of the npm requirements involved (from the extracted specification)
    npm_same = [i for i in same if cases[i]["eco"] == "npm"]
    if npm_same:
        for i, line in zip(npm_same, ctx.model("spec_npm_desugar", [sx(cases[i]["ast"]) for i in npm_same])):
            cases[i]["desugar"] = parse_sx(line)
    cargo_detail(ctx, cases, [h for h in hits if cases[h.idx]["eco"] == "cargo" and impl_lines[h.idx] == model_lines[h.idx]])
    out = []
    for h in hits:
        c = cases[h.idx]
        cls = None
        if impl_lines[h.idx] == model_lines[h.idx] and not h.entry:
            cls = class_of(c, h, events.get(h.idx, set()), impl_lines[h.idx])
        out.append((h, cls if cls in open_ids else None, cls))
    return out


def raw_nums(tok):
    """numbers of a partial version as deps.dev reads them: x/X/* = -1, missing = absent"""
    t = tok.strip().lstrip(b"v").split(b"+", 1)[0]
    core, _, pre = t.partition(b"-")
    nums = []
    for x in core.split(b"."):
        if x in (b"x", b"X", b"*"):
            nums.append(-1)
        elif x.isdigit():
            nums.append(int(x))
        else:
            return None, None
    return nums, (pre.split(b".") if pre else [])


def npm_reversed_hyphen(text):
    """a hyphen range whose upper bound compares below its lower bound the way deps.dev compares
    them before building the span (missing components read as 0, wildcards as -1)"""
    for alt in text.split(b"||"):
        m = re.fullmatch(rb"\s*(\S+)\s+-\s+(\S+)\s*", alt)
        if m:
            lo, lopre = raw_nums(m.group(1))
            hi, hipre = raw_nums(m.group(2))
            if lo is not None and hi is not None:
                if cdump.cmp_generic(4, hi, hipre, lo, lopre) < 0:
                    return True
                # ... or newSpan finds max below min once the wildcards of the lower bound are zeros
                if cdump.cmp_generic(4, hi, hipre, [max(x, 0) for x in lo], [] if -1 in lo else lopre) < 0:
                    return True
    return False


def inc_bound(pa):
    M, m, p, _ = pa
    if p != -1 and m != -1:
        return [M, m, p + 1]
    if m != -1:
        return [M, m + 1, 0]
    return [M + 1, 0, 0]


def cargo_detail(ctx, cases, hits):
    """For Cargo hits on a candidate with a prerelease tag: the crate's own per-comparator verdicts
    (matches_impl, pre_is_compatible, from the extracted specification) and, from Go, whether the
    candidate lies in the interval of each comparator taken alone (MatchVersionPrerelease).
    Stored on the hit as h.detail = [(impl, compat, interval)...]."""
    todo = [h for h in hits if cases[h.idx]["pv"][h.probe_i][3] and len(cases[h.idx]["ast"]) > 0
            and impl_ok(cases[h.idx])]
    if not todo:
        return
    det = ctx.model("cargo_detail", [sx([cases[h.idx]["ast"], [cases[h.idx]["pv"][h.probe_i]]]) for h in todo])
    args, owners = [], []
    for h in todo:
        c = cases[h.idx]
        for t in alternatives("cargo", c["text"])[0]:
            args.append(sx([1, t, [c["ptexts"][h.probe_i]], []]))
            owners.append(h)
    outs = ctx.impl("cmatch", args)
    ctx.evaluations -= len(args)
    interval = {}
    for h, line in zip(owners, outs):
        r = parse_sx(line)
        interval.setdefault(id(h), []).append(r[1][0][1] if r[0] == b"ok" and r[1][0][0] != b"verr" else None)
    for h, line in zip(todo, det):
        d = parse_sx(line)[0]
        iv = interval.get(id(h), [])
        if len(iv) == len(d):
            h.detail = [(x[0], x[1], i) for x, i in zip(d, iv)]


def impl_ok(c):
    return len(alternatives("cargo", c["text"])[0]) == len(c["ast"])


def npm_partials(ast):
    for item in ast:
        if item[0] == 0:
            yield (3, item[1])
            yield (5, item[2])
        else:
            for op, pa in item[1]:
                yield (op, pa)


def npm_anyish(item):
    """the alternative is *, empty, or made of >=0.0.0-like comparators only"""
    if item[0] == 0:
        a, b = item[1], item[2]
        return (a[0] == -1 or (a[:3] in ([0, -1, -1], [0, 0, -1], [0, 0, 0]) and not a[3])) and b[0] == -1
    for op, pa in item[1]:
        M, m, p, pre = pa
        if M == -1 and op in (0, 1, 3, 5, 6, 7):
            continue
        zero = M == 0 and m in (0, -1) and p in (0, -1) and not (pre and p != -1)
        if op == 3 and zero:
            continue
        return False
    return True


def npm_gte0(ast):
    """a comparator that node replaces by the empty comparator inside a conjunction"""
    for item in ast:
        if item[0] == 0:
            a = item[1]
            if a[0] == -1 or (a[0] == 0 and a[1] in (0, -1) and a[2] in (0, -1) and not (a[3] and a[2] != -1)):
                return True
        else:
            for op, pa in item[1]:
                M, m, p, pre = pa
                zero = M == 0 and m in (0, -1) and p in (0, -1) and not (pre and p != -1)
                if (op in (3, 6, 7) and zero) or (op in (0, 1) and zero and -1 in pa[:3]) or M == -1:
                    return True
    return False


def min_flag_conflict(eco, ast):
    """F-C03-17: an and-list in which a comparator with only an upper bound (<, <=: its lower
    bound is the 0.0.0-0 made by MinVersion, whose hidden isPrerelease flag is false) comes BEFORE
    a comparator whose lower bound is the user-written 0.0.0-0: the bounds compare equal,
    Intersect keeps the receiver's, and the prereleases of 0.0.0 are no longer admitted"""
    lists = [item[1] for item in ast if item[0] == 1] if eco == "npm" else [[[cmp_[0], cmp_[1:]] for cmp_ in ast]]
    for l in lists:
        seen_upper = False
        for op, pa in l:
            if seen_upper and op in (0, 1, 3, 6, 7) and list(pa[:3]) == [0, 0, 0] and pa[3] == [[0, 0]]:
                return True
            if op in (4, 5):
                seen_upper = True
    return False


def class_of(c, h, ev, impl_line):
    eco = c["eco"]
    rejected = not impl_line.startswith('("ok"')
    cand = c["pv"][h.probe_i]
    cand_pre = eco in ("npm", "cargo") and bool(cand[3])
    if eco == "npm" and rejected:
        if npm_reversed_hyphen(c["text"]):
            return "F-C03-2"
        if any(item[0] == 1 and not item[1] for item in c["ast"]) and len(c["ast"]) > 1:
            return "F-C03-3"
        return None
    if eco == "pypi" and rejected:
        if b"_" in c["text"]:
            return "F-C03-9"
        for t in c["text"].split(b","):
            v = t.strip().lstrip(b"<>=!~ ")
            v = v[1:] if v[:1] in (b"v", b"V") else v
            if re.search(rb"[A-Z]", v[:3]):
                return "F-C03-10"
        for op, v, prefix in c["ast"]:
            if op == 8 and not prefix and not any(v[0]) and (v[1] or v[3] != -1):
                return "F-C03-11"
        return None
    if eco == "mavenq" and rejected:
        # F-C03-16: no lower bound is the version 0 for deps.dev; an upper bound below 0 (a
        # qualifier that sorts before the release on all-zero numbers) then fails newSpan
        if c["ast"][0] == 1 and any(not lo and hi and MVN_BELOW0.match(hi[0]) for _, lo, _, hi in c["ast"][1]):
            return "F-C03-16"
        return None
    if rejected:
        return None
    if eco in ("npm", "cargo") and cand_pre and cand[:3] == [0, 0, 0] and min_flag_conflict(eco, c["ast"]):
        return "F-C03-17"
    if eco == "npm":
        parts = list(npm_partials(c["ast"]))
        if any(-1 in pa[:3] and any(x != -1 for x in pa[pa[:3].index(-1):3]) for _, pa in parts):
            return "F-C03-7"
        if any(-1 in pa[:3] and pa[3] for _, pa in parts):
            return "F-C03-6"
        if cand_pre and len(c["ast"]) > 1 and any(npm_anyish(item) for item in c["ast"]):
            return "F-C03-4"
        if cand_pre and cand[:3] == [0, 0, 0] and any(op == 4 and pa[:3] == [0, 0, 0] for op, pa in parts):
            return "F-C03-13"
        if cand_pre and cand[:3] == [0, 0, 0] and npm_gte0(c["ast"]):
            return "F-C03-5"
        if cand_pre and any(op == 2 and not pa[3] and pa[0] != -1 and inc_bound(pa) == cand[:3] for op, pa in parts):
            return "F-C03-12"
        if cand_pre and any(len(cmp_) == 2 and cmp_[0] == 4 and cmp_[1][3] == [[0, 0]] and cmp_[1][:3] == cand[:3]
                            for item in c.get("desugar", []) for cmp_ in item):
            return "F-C03-14"
    if "drop" in ev:
        return "F-C03-1c"
    if "adj" in ev:
        return "F-C03-1b"
    if "openunit" in ev:
        return "F-C03-1a"
    if eco == "cargo" and cand_pre:
        det = getattr(h, "detail", None)
        if det is None:
            return None
        # F-C03-8: for some comparator the crate's tag-aware verdict differs from plain interval
        # membership (a partial or untagged comparator never matches a prerelease of its own
        # major[.minor[.patch]], = and * need identical tags)
        if any(i is not None and impl != i for impl, compat, i in det):
            return "F-C03-8"
        # F-C03-15: every comparator agrees with its interval; the crate then admits the candidate
        # iff SOME comparator has its major.minor.patch and a tag (pre_is_compatible), deps.dev
        # iff a BOUND OF THE RESULTING SPAN has
        return "F-C03-15"
    return None


# requirement texts that are legal in several ecosystems with different meanings
SHARED_TEXTS = [b"1.0.0", b"2.5.0", b"1.2", b"1", b">1.2", b">=1.0", b"<2", b"<=1.5", b"1.x", b"*", b"~1.2", b"^1", b"1.0 - 2.0",
                b"[1.0,2.0)", b"(,1.5]", b"[1.2]", b"==1.*", b"==1.2", b"!=1.2", b"~=1.2", b"1.*", b">=1.0,<2.0", b">=1.0 <2.0",
                b"1.2.3", b"=1.2.3", b">1", b"", b"latest"]
SEQ_CANDS = [b"0.9.0", b"1.0.0", b"1.2.0", b"1.2.5", b"1.3.0", b"1.5.0", b"2.0.0", b"2.4.0", b"2.5.0", b"3.0.0", b"1.2", b"1.0", b"latest"]


def sequences(ctx, tables, nd):
    """resolve.MatchRequirement (an observation point of the property) called several times in
    ONE process on the same texts under npm, Maven and PyPI in varying orders: every call must
    give the answer it gives on its own (= what the semver package answers directly, = the
    model, which has no state)"""
    rng = ctx.rng
    cases = []
    for _ in range(ctx.scale(1200, 40000)):
        texts = [rng.choice(SHARED_TEXTS) for _ in range(rng.choice([1, 2, 2, 3]))]
        if rng.random() < 0.3:
            texts.append(reqtext.requirement(rng, rng.choice([3, 4, 6])))
        cands = rng.sample(SEQ_CANDS, 6) + reqtext.probes(rng, 4, texts, n_random=1, cap=4)
        calls = []
        for _ in range(rng.randrange(3, 9)):
            sysi = rng.choice([4, 3, 6])
            t = rng.choice(texts)
            keys = set((0, x) for x in ctable.candidates(t)) | set((0, x) for x in cands)
            if sysi == 3:
                keys.add((0, b"0"))
            calls.append({"sys": sysi, "head": [str(sysi), sx(t), sx(cands)], "keys": keys, "text": t, "cands": cands})
        cases.append(calls)
    io = ctx.impl("creqseq", ctable.impl_args_seq(cases))
    mo = ctable.run_model_seq(ctx, tables, "creqseq", cases)
    ctx.count("corr:creqseq", len(cases))
    for calls, i, m in zip(cases, io, mo):
        ctx.count("seq-calls", len(calls))
        if i.startswith('("ok"'):
            for k, (call, r) in enumerate(zip(calls, parse_sx(i)[1])):
                ctx.evaluations += len(call["cands"])
                if r[0] != r[1]:
                    j = [x != y for x, y in zip(r[0], r[1])].index(True)
                    ctx.violation("resolve.MatchRequirement gives for a call inside a sequence another answer than the semver "
                                  "package gives for the same (system, requirement, version): the answer depends on earlier calls",
                                  {"calls so far (system, requirement)": [(NAMES[c["sys"]], c["text"]) for c in calls[:k + 1]],
                                   "version": call["cands"][j]}, r[0][j], r[1][j])
                    break
        if i != m and '"oom"' not in m:
            nd += 1
            if nd <= 40:
                ctx.divergence("creqseq", {"calls": [(NAMES[c["sys"]], c["text"]) for c in calls], "candidates": calls[0]["cands"]}, i[:1500], m[:1500])
    return nd


def run(ctx):
    tables = ctable.Tables(ctx)
    cases = gen_cases(ctx)
    impl_lines = ctx.impl("cmatch", ctable.impl_args(cases))
    model_lines = ctable.run_model(ctx, tables, "cmatch", cases)
    ctx.count("corr:cmatch", len(cases))
    nd = 0
    for c, i, m in zip(cases, impl_lines, model_lines):
        if i != m:
            if '"oom"' in m:
                ctx.skipped_oom += 1
                continue
            nd += 1
            if nd <= 40:
                ctx.divergence("cmatch", {"system": NAMES[c["sys"]], "requirement": c["text"], "candidates": c["ptexts"]}, i[:1500], m[:1500])
    # pconstraint on the same texts: accept/reject, IsSimple, Set.String, internal spans
    pc = [{"sys": c["sys"], "head": [str(c["sys"]), sx(c["text"])], "keys": set(c["keys"])} for c in cases]
    pi = ctx.impl("pconstraint", ctable.impl_args(pc))
    pm = ctable.run_model(ctx, tables, "pconstraint", pc)
    ctx.count("corr:pconstraint", len(pc))
    def proj(line):
        # C03 observes accept/reject and IsSimple, not the internal spans
        return line if not line.startswith('("ok"') else repr(parse_sx(line)[1])
    for c, i, m in zip(cases, pi, pm):
        if i != m and '"oom"' not in m and proj(i) != proj(m):
            nd += 1
            if nd <= 40:
                ctx.divergence("pconstraint", {"system": NAMES[c["sys"]], "requirement": c["text"]}, i[:1500], m[:1500])
    # a second, text-level stream (all seven systems, half of it mutated): correspondence only
    rng = ctx.rng
    tc = []
    for k in range(ctx.scale(3500, 150000)):
        sysi = [0, 1, 2, 3, 4, 5, 6][k % 7]
        t = reqtext.requirement(rng, sysi, 0.3 if rng.random() < 0.5 else 0.0)
        probes = reqtext.probes(rng, sysi, [t], n_random=2, cap=8)
        keys = set((0, x) for x in ctable.candidates(t)) | set((0, x) for x in probes)
        if sysi == 3:
            keys.add((0, b"0"))
        tc.append({"sys": sysi, "head": [str(sysi), sx(t), sx(probes)], "keys": keys, "text": t})
    ti = ctx.impl("cmatch", ctable.impl_args(tc))
    tm = ctable.run_model(ctx, tables, "cmatch", tc)
    ctx.count("corr:cmatch-text-stream", len(tc))
    for c, i, m in zip(tc, ti, tm):
        ctx.count("text-stream:%s" % ("ok" if i.startswith('("ok"') else ("panic" if "panic" in i else "rejected")))
        if i != m and '"oom"' not in m:
            nd += 1
            if nd <= 40:
                ctx.divergence("cmatch", {"system": NAMES[c["sys"]], "requirement": c["text"]}, i[:1500], m[:1500])
    nd = sequences(ctx, tables, nd)
    spec = spec_answers(ctx, cases)
    hits = oracle(ctx, cases, impl_lines, spec)
    verdict = confirm_with_tools(ctx, cases, hits, spec)
    inside = theorem_domain(ctx, tables, cases, impl_lines, model_lines)
    for h, known, cls in classify(ctx, tables, cases, impl_lines, model_lines, hits, spec):
        c = cases[h.idx]
        if h.idx in verdict and not h.entry:
            tv = verdict[h.idx]
            if tv is None or tv[h.probe_i] != spec[h.idx][h.probe_i]:
                ctx.count("hit-not-confirmed-by-the-tool")
                continue
        inp = {"ecosystem": c["eco"], "requirement": c["text"], "version": c["ptexts"][h.probe_i]}
        if h.idx in inside and not h.entry and THM_CAND.match(c["ptexts"][h.probe_i]) and impl_lines[h.idx] == model_lines[h.idx]:
            # operators, and-lists and || of this requirement are covered by the theorems for this
            # release candidate: model and proof (or the unproved step from text to spans) disagree
            ctx.divergence("theorem-region", inp, "oracle hit inside the region of the C03 theorems: " + h.what, "no hit")
            continue
        if c["eco"] == "mavenq" and not h.entry and (DOT_QUAL.search(c["text"]) or DOT_QUAL.search(c["ptexts"][h.probe_i])):
            # a qualifier introduced by '.' (1.0.0.Final): outside D_mvn, where deps.dev follows the
            # Maven 3.6 ordering and the installed tool the 3.8 one (DESIGN 6.4, property C02)
            ctx.count("mavenq:ordering-outside-D_mvn")
            continue
        if known:
            ctx.known_hits[known] = ctx.known_hits.get(known, 0) + 1
        else:
            what = h.what
            if impl_lines[h.idx] == model_lines[h.idx]:
                what += " (the model agrees with Go; " + ("class %s is not an open finding)" % cls if cls else "no recorded class explains it)")
            ctx.violation(what, inp, h.observed, h.required)
    for k in lib.load_known("C03"):
        w = k.get("witness")
        if k.get("status") == "open" and w:
            out = ctx.impl(w["kind"], [w["arg"]])[0]
            if out != w["failing_output"]:
                ctx.notes.append("known finding %s no longer reproduces as recorded: got %s" % (k["id"], out[:200]))


def oracle_only(ctx):
    cases = gen_cases(ctx)
    impl_lines = ctx.impl("cmatch", ctable.impl_args(cases))
    try:
        spec = spec_answers(ctx, cases)
    except Exception:
        return
    for h in oracle(ctx, cases, impl_lines, spec):
        c = cases[h.idx]
        ctx.violation(h.what, {"ecosystem": c["eco"], "requirement": c["text"], "version": c["ptexts"][h.probe_i]}, h.observed, h.required)
