"""C04 — parsing and matching entry points are total: errors, never panics or hangs."""
import os
import subprocess
import lib
from lib import sx, parse_sx
from gen import versions, reqtext

PROOF_FILE = "C04"
LEVEL = "proof"
RULE = ("each exported parsing/matching entry point is called on grammar-derived, mutated and random inputs (invalid UTF-8, "
        "long tokens, deep nesting) under recover and a per-call watchdog and classified ok/err/panic/hang; for the entry points "
        "that have a model the same classification is computed by the extracted model. A case is non-trivial when it is distinct; "
        "accept ratios are reported per entry")
TRUSTED = [
    "Coq 8.16.1 kernel", "translator gotables (operators table with its real length, byte types)",
    "extraction + driver.ml; Go harness (recover + watchdog); python generators",
]
ASSUMPTIONS = [
    "theorems cover the modelled entry points only (listed in Properties/C04*.v); net/mail, encoding/xml, archive/zip, tar, gzip "
    "decoders and the three resolvers' totality are exercised by the malformed stream with recover and watchdog as supporting "
    "evidence, not proved",
    "pypi.ParseWheelName: strings.IndexFunc(tag, !unicode.IsDigit) is a parameter of the model of which the totality theorem assumes "
    "only that a returned index lies within the tag (C04_wheel_name_total); the correspondence runs the ASCII instance and skips "
    "build tags with non-ASCII bytes",
    "schema.ParseResolve (Properties/C04_schema.v: C04_parse_resolve_total, C04_parse_resolve_sources_bound, "
    "C04_parse_resolve_schema_total): the theorems hold for every strings.TrimSpace and every deptest.ParseString (both are "
    "parameters of the model: any function, any accept/refuse answer); Graph.Canon, called last by ParseResolve, is outside these "
    "statements (its model belongs to C13) and enters only the correspondence parseresolve_model, where the model is instantiated "
    "with the Unicode TrimSpace model of Semver/Pep440Parse.v and the deptest.ParseString model of C19 (non-ASCII dep-type "
    "prefixes whose acceptance decides the answer are skipped and counted)",
    "stack depth: recursion-depth bounds of the models are theorems; that Go's stack accommodates them is observed, not proved",
]
MANIFEST = dict(
    category="proof",
    text=("Totality theorems (no Panic outcome, fuel suffices) for the modelled entry points — SemVer-family Parse and the further "
          "parsers listed in Properties/C04*.v — over ALL byte strings (among them the graph-text parser schema.ParseResolve: C04_parse_resolve_total, with the invariant "
          "C04_parse_resolve_sources_bound that a validated row's depth is at most its index, which keeps the per-level scratch slice "
          "indexed in range; model tied to the code by the correspondence parseresolve_model on whole canonical graphs), with the operator/byte tables regenerated from the source so "
          "that an index past a table's real length is a failed obligation; pypi.SdistVersion and pypi.ParseWheelName with what they return "
          "(C04_sdist_version_total/_ok/_err, C04_wheel_name_total/_ok, Properties/C04_pypifiles.v) and System.Difference for all nine "
          "systems (C04_difference_total/_maven/_family, _compare, _same, _numbers, Properties/C04_difference.v) compared value by value with Go; "
          "every exported entry point (semver, pypi, maven, schema, "
          "the three resolvers) is additionally driven with malformed inputs under recover and a watchdog, and a panic or hang is "
          "reported with the input."),
    note=("Partial: standard-library decoders (net/mail, encoding/xml, archive/*), resolver totality and physical stack limits are "
          "observed, not proved; for schema.ParseResolve deptest.ParseString and strings.TrimSpace are parameters and Graph.Canon is left to C13. Trusted: Coq kernel, gotables, extraction+driver, Go harness, generators."),
    technique="Rocq totality theorems over models with explicit Panic outcomes + differential classification + malformed-input search",
    design="8 C04")

OPS = [b"=", b"==", b">", b">=", b"<", b"<=", b"!=", b"^", b"~", b"~>", b"~=", b",", b"||", b" - ", b" ", b"[", b"]", b"(", b")", b"*", b"x"]


def constraint_text(rng, sysi):
    r = rng.random()
    if r < 0.15:
        return bytes(rng.randrange(0, 256) for _ in range(rng.randrange(0, 14)))
    parts = []
    for _ in range(rng.randrange(1, 6)):
        q = rng.random()
        if q < 0.45:
            parts.append(rng.choice(OPS))
        if q < 0.9:
            parts.append(versions.gen(rng, sysi) if rng.random() < 0.8 else versions.malformed(rng, sysi))
        else:
            parts.append(rng.choice([b"", b" ", b"1.x", b"1.*", b"*", b"\xe2\x88\x9e", b"(,1.0]", b"[1.0,2.0)", b"[1.0]", b",", b"||"]))
        if rng.random() < 0.3:
            parts.append(rng.choice([b" ", b",", b" || ", b", "]))
    s = b"".join(parts)
    if r > 0.97:
        s = s + b"1" * 3000
    return s


def schema_text(rng):
    toks = [b"a", b"b", b"@x/y", b"1.0.0", b"2", b"^1", b"*", b"dev|", b"opt|", b'scope "x y"|', b"|", b"\t", b"\t\t", b"\t\t\t", b"\n",
            b" ", b"@", b"#", b"ATTR: tags latest", b"ATTR:", b"ATTR: bogus", b"blocked|", b"->", b"latest", b"$1", b"$", b"1:", b"x:", b": ",
            b"ERROR:", b" ERROR: boom", b"\xe2\x94\x9c\xe2\x94\x80 ", b"\xe2\x94\x94\xe2\x94\x80 ", b"\xe2\x94\x82  ", b"   ", b"\xff"]
    return b"".join(rng.choice(toks) for _ in range(rng.randrange(1, 30)))


def pom_text(rng):
    vals = [b"${a}", b"${b}", b"${project.version}", b"${a${b}}", b"${", b"}", b"1.0", b"[1.0,2.0)", b"x", b"${parent.version}", b"true", b"false", b"",
            b"${c}", b"import", b"pom", b"test", b"jar", b"*"]
    frags = [b"}", b"${", b"${a}", b"${b}", b"{0}-", b"$", b"{", b"x", b"}}", b"$${a}", b"${}", b"${a", b"-", b"${project.version}", b"1"]
    # a value is a token or a run of fragments: delimiters in any order (a closing brace before the next opening one, ...)
    v = lambda: rng.choice(vals) if rng.random() < 0.7 else b"".join(rng.choice(frags) for _ in range(rng.randrange(2, 5)))
    props = b"".join(b"<%s>%s</%s>" % (k, v(), k) for k in rng.sample([b"a", b"b", b"c", b"d"], rng.randrange(0, 4)))
    def dep():
        return (b"<dependency><groupId>%s</groupId><artifactId>%s</artifactId><version>%s</version><scope>%s</scope>"
                b"<type>%s</type><optional>%s</optional><exclusions><exclusion><groupId>%s</groupId><artifactId>%s</artifactId></exclusion></exclusions></dependency>"
                % (v(), v(), v(), v(), v(), v(), v(), v()))
    deps = b"".join(dep() for _ in range(rng.randrange(0, 4)))
    mg = b"".join(dep() for _ in range(rng.randrange(0, 3)))
    prof = (b"<profiles><profile><id>p</id><activation><activeByDefault>%s</activeByDefault><jdk>%s</jdk><os><name>%s</name></os>"
            b"<property><name>%s</name><value>%s</value></property></activation><properties>%s</properties><dependencies>%s</dependencies></profile></profiles>"
            % (v(), rng.choice([b"1.8", b"[1.8,)", b"!1.8", b"[", b"(,11]", b""]), v(), v(), v(), props, deps)) if rng.random() < 0.5 else b""
    s = (b"<project><groupId>%s</groupId><artifactId>%s</artifactId><version>%s</version><parent><groupId>g</groupId><artifactId>p</artifactId><version>%s</version></parent>"
         b"<properties>%s</properties><dependencies>%s</dependencies><dependencyManagement><dependencies>%s</dependencies></dependencyManagement>%s</project>"
         % (v(), v(), v(), v(), props, deps, mg, prof))
    if rng.random() < 0.2:
        b = bytearray(s)
        for _ in range(rng.randrange(1, 6)):
            b[rng.randrange(len(b))] = rng.randrange(256)
        s = bytes(b)
    return s


PEP508 = [b"name", b"Name_x.y", b"a-b-c", b"[extra]", b"[a, b]", b"[", b"]", b" ", b">=1.0", b"(>=1.0,<2)", b"(", b")", b"==1.*", b"~=1.1", b";",
          b'python_version < "3.8"', b"extra == 'x'", b" and ", b" or ", b"os_name in 'nt posix'", b"not in", b"'", b'"', b"@ http://x", b"\xc3\xa9", b",", b"!=",
          b"\t", b"\n", b"\r", b"\v", b"\f", b"\xc2\x85", b"\xc2\xa0", b"\xe2\x80\xa8", b" \n", b"\t "]

# white space in the wide sense: what unicode.IsSpace / strings.TrimSpace / strings.Fields accept, next to
# the narrower sets individual grammars allow (two trimming sites that disagree leave an empty remainder)
WS = [b" ", b"\t", b"\n", b"\r", b"\v", b"\f", b"\xc2\x85", b"\xc2\xa0", b"\xe2\x80\xa8", b"\xe3\x80\x80", b"\x00", b"\x1f"]


def ws_mutate(rng, b):
    """insert one or two wide-sense white space tokens, preferably at an end or next to existing white space"""
    for _ in range(rng.choice([1, 1, 2])):
        w = rng.choice(WS)
        spots = [0, len(b)] + [i for i, c in enumerate(b) if c in b" \t"] + [i + 1 for i, c in enumerate(b) if c in b" \t"]
        i = rng.choice(spots) if rng.random() < 0.8 else rng.randrange(len(b) + 1)
        b = b[:i] + w + b[i:]
    return b

MARKERS = [b"python_version", b"python_full_version", b"os_name", b"sys_platform", b"platform_machine", b"implementation_name", b"extra",
           b"bogus_var", b"'3.8'", b'"nt"', b"'x'", b'"1.0.*"', b"==", b"!=", b"<", b"<=", b">", b">=", b"~=", b"===", b" in ", b" not in ", b" and ", b" or ",
           b"(", b")", b" ", b"'", b'"']


MVARS = [b"python_version", b"python_full_version", b"os_name", b"sys_platform", b"platform_machine", b"platform_release",
         b"platform_system", b"platform_version", b"platform_python_implementation", b"implementation_name", b"implementation_version", b"extra"]
MLITS = [b"'3.8'", b'"2.7"', b"'1.0'", b'"1.2.3"', b"'nt'", b'"linux"', b"'x'", b'"abc"', b"'1.0.*'", b'""', b"'3'", b"'cpython'"]
MOPS = [b"==", b"!=", b"<", b"<=", b">", b">=", b"~=", b"===", b" in ", b" not in "]


def marker_expr(rng, depth=0):
    """grammar-derived PEP 508 marker: every operator with variables and literals on either side"""
    r = rng.random()
    if depth < 3 and r < 0.25:
        return marker_expr(rng, depth + 1) + rng.choice([b" and ", b" or "]) + marker_expr(rng, depth + 1)
    if depth < 3 and r < 0.35:
        return b"(" + marker_expr(rng, depth + 1) + b")"
    side = lambda: rng.choice(MVARS) if rng.random() < 0.5 else rng.choice(MLITS)
    sp = rng.choice([b"", b" "])
    return side() + sp + rng.choice(MOPS) + sp + side()


def resolver_universe(rng, sysr):
    sysi = {0: 4, 1: 3, 2: 6}[sysr]
    names = [b"a", b"b", b"c", b"@s/d"][:rng.randrange(2, 5)]
    pk = []
    for n in names:
        vs = []
        for _ in range(rng.randrange(1, 4)):
            ver = versions.gen(rng, sysi) if rng.random() < 0.85 else versions.malformed(rng, sysi)
            attrs = []
            if rng.random() < 0.15:
                attrs.append([10, rng.choice([b"latest", b"next", b""])])
            if rng.random() < 0.1:
                attrs.append([-1, b""])
            deps = []
            for _ in range(rng.randrange(0, 4)):
                t = []
                q = rng.random()
                if q < 0.15:
                    t.append([rng.choice([-1, -2, -4]), b""])
                elif q < 0.3:
                    t.append([3, rng.choice([b"peer", b"bundle", b"provided", b"test", b"import", b"x"])])
                elif q < 0.4:
                    t.append([8, rng.choice([b"alias", b"", b"@x/y"])])
                elif q < 0.55 and sysr == 2:
                    t.append([10, marker_expr(rng) if rng.random() < 0.7 else b"".join(rng.choice(MARKERS) for _ in range(rng.randrange(1, 8)))])
                elif q < 0.6 and sysr == 1:
                    t.append([9, rng.choice([b"*:*", b"g:a", b"|", b"a", b":"])])
                elif q < 0.65:
                    t.append([7, rng.choice([b"x", b"x,y", b""])])
                req = constraint_text(rng, sysi) if rng.random() < 0.7 else versions.gen(rng, sysi)
                req = req.replace(b"\n", b" ")[:200]
                deps.append([t, rng.choice(names + [b"zz"]), req])
            vs.append([ver, attrs, deps])
        pk.append([n] + vs)
    root = pk[0]
    if sysr == 2:
        # the root's own requirements are always looked at: give it guarded ones
        for _ in range(rng.randrange(1, 4)):
            root[1][2].append([[[10, marker_expr(rng)]], rng.choice(names), rng.choice([b">=1.0", b"", b"==1.*", b"<2"])])
    return [pk, root[0], root[1][0]]


def resolver_universe2(rng, sysr):
    """a mostly VALID universe (so that resolution gets deep: diamonds, several requirements on one package from
    different dependents, prerelease bounds) in which a few requirement strings are odd or invalid for the system"""
    sysi = {0: 4, 1: 3, 2: 6}[sysr]
    names = [b"a", b"b", b"c", b"d", b"e"][:rng.randrange(3, 6)]
    if sysr == 1:
        names = [b"g:" + n for n in names]
    vers = [[b"1.0.0", b"1.1.0", b"2.0.0", b"2.1.0-rc.1"], [b"1.0", b"1.1", b"2.0", b"2.1-rc1"], [b"1.0", b"1.1", b"2.0", b"2.1rc1", b"1.0.post1"]][sysr]
    good = [[b"*", b"^1.0.0", b">=1.0.0", b"<2.0.0", b">=2.1.0-rc.0", b"1.x", b"latest"],
            [b"1.0", b"[1.0,2.0)", b"[1.1,)", b"(,2.0]", b"[2.1-rc1,)"],
            [b"", b">=1.0", b"<2", b">=0.5a1", b"<=2.1rc1", b"~=1.0", b"==1.*", b">1.0", b"!=1.1"]][sysr]
    odd = [b"1.0", b"^1.0", b">=1.0,<", b"free text", b">=", b"==", b"[1.0", b"1.0,)", b"||", b">=1.0 ||", b"\xff", b"1.0.0-", b"~=1", b"===x",
           b">= 1.0 , < 2", b"*.*", b"v1", b"=>1", b"<>1", b"1 - ", b" - 2"]
    pk = []
    for n in names:
        vs = []
        for ver in rng.sample(vers, rng.randrange(2, len(vers) + 1)):
            deps = []
            for dn in rng.sample(names, rng.randrange(1, len(names))):
                if dn == n:
                    continue
                t = []
                if sysr == 2 and rng.random() < 0.2:
                    t.append([10, marker_expr(rng)])
                if rng.random() < 0.1:
                    t.append([7, rng.choice([b"x", b"x,y"])])
                deps.append([t, dn, rng.choice(odd) if rng.random() < 0.15 else rng.choice(good)])
            vs.append([ver, [], deps])
        pk.append([n] + vs)
    # two dependents with different requirements on one package, one of them naming a prerelease, one odd
    if len(pk) >= 3:
        A, B, C = rng.sample(pk, 3)
        pre = [b">=2.1.0-rc.0", b"[2.1-rc1,)", b">=0.5a1"][sysr]
        A[1][2].append([[], C[0], pre])
        B[1][2].append([[], C[0], rng.choice(odd)])
        pk[0][1][2] += [[[], A[0], good[0]], [[], B[0], good[0]]]
    root = pk[0]
    return [pk, root[0], root[1][0]]


def valid_schema(rng, sysr):
    """a well-formed schema text (the syntax of schema.New: package / version / import lines by indentation)"""
    names = [b"alice", b"bob", b"chuck", b"dave", b"@s/erin"][:rng.randrange(2, 6)]
    if sysr == 1:
        names = [b"g:" + n.replace(b"@s/", b"") for n in names]
    vers = [b"1.0.0", b"1.1.0", b"2.0.0", b"2.1.0-beta.1"] if sysr != 2 else [b"1.0", b"1.1", b"2.0", b"2.1b1"]
    reqs = [[b"*", b"^1.0.0", b"1.x", b">=1.0.0 <2", b"latest", b"2.0.0"], [b"1.0.0", b"[1.0.0,2.0.0)", b"[1.1.0,)", b"2.0.0"],
            [b">=1.0", b"~=1.1", b"==2.0", b"", b"<2"]][sysr]
    types = [[b"", b"", b"dev|", b"opt|", b"KnownAs al|", b"Scope peer|"], [b"", b"", b"test|", b"opt|", b"Scope provided|"],
             [b"", b"", b"", b"Environment \"os_name == 'nt'\"|"]][sysr]
    out = []
    for n in names:
        out.append(n)
        for v in rng.sample(vers, rng.randrange(1, 4)):
            out.append(b"\t" + (rng.choice([b"", b"", b"Tags latest|", b"Blocked|"]) if sysr == 0 else b"") + v)
            if rng.random() < 0.2:
                out.append(b"\t\tATTR: " + rng.choice([b"Tags next", b"Registries r1", b"Blocked"]))
            for _ in range(rng.randrange(0, 4)):
                out.append(b"\t\t" + rng.choice(types) + rng.choice(names) + b"@" + rng.choice(reqs))
    if rng.random() < 0.12:
        # one odd row among well-formed ones: a type prefix with nothing behind it, a bare separator, half a requirement
        out.insert(rng.randrange(1, len(out) + 1), rng.choice([b"\t\tdev|", b"\t\tScope test|", b"\t\t|", b"\t\t@", b"\t\tdev|@", b"\t\ta@",
                   b"\t\t@s/x", b"\tTags latest|", b"\t|", b"\t\tdev|opt|a@1", b"\t\tATTR:", b"\t\tATTR: ", b"\t\t|@|", b"\t", b"\t\t"]))
    text = b"\n".join(out) + b"\n"
    root = names[0]
    rv = None
    for i, l in enumerate(out):
        if l == root and i + 1 < len(out):
            rv = out[i + 1].strip().split(b"|")[-1]
            break
    return text, root, rv or vers[0]


def graph_text(rng, noise=None):
    """a resolved-graph text in the syntax of schema.ParseResolve: every row kind (node, labelled node, reference to a
    label, error with and without a concrete version, free error, comment) at every depth the validation admits - a row
    may sit one level below ANY kind of row, so rows that create no node nest below each other.  Without noise the text
    is accepted (one malformed row rejects the whole text, so the noisy stream is a separate, smaller one)."""
    if noise is None:
        noise = rng.random() < 0.25
    names = [b"a", b"b", b"c", b"@s/d", b"e"]
    vers = [b"1", b"1.0.0", b"2.0.0", b"1.0"]
    reqs = [b"*", b"^1", b"1", b">=1", b""]
    dts = [b"", b"", b"", b"dev|", b"opt|", b"Scope peer|"] + ([b"bogus|", b"|"] if noise else [])
    labels = []
    rows = [rng.choice([b"", b"r: "]) + rng.choice(names) + b" " + rng.choice(vers)]
    if rows[0].startswith(b"r: "):
        labels.append(b"r")
    depth = 0
    shape = rng.choice(["deep", "deep", "mixed", "flat"])
    for _ in range(rng.randrange(1, 16)):
        # mostly one deeper or level: deep chains of every row kind; with noise rarely a skipped level (rejected)
        if shape == "deep":
            depth = max(1, rng.choice([depth + 1, depth + 1, depth + 1, depth + 1, depth, depth - 1]))
        elif shape == "mixed":
            depth = max(1, rng.choice([depth + 1, depth + 1, depth, depth, depth - 1, 1]))
        else:
            depth = max(1, rng.choice([depth + 1, depth, depth, 1, 1]))
        if noise and rng.random() < 0.05:
            depth += 1
        ind = b"\t" * depth
        k = rng.random()
        nm, rq = rng.choice(names), rng.choice(reqs)
        if k < 0.35 or (k < 0.6 and not labels and not noise):
            lab = b""
            if rng.random() < 0.4:
                l = rng.choice([b"x", b"y", b"z", b"1"])
                labels.append(l)
                lab = l + b": "
            rows.append(ind + lab + rng.choice(dts) + nm + b"@" + rq + b" " + rng.choice(vers))
        elif k < 0.6:
            l = rng.choice(labels) if labels and (not noise or rng.random() < 0.9) else rng.choice([b"x", b"nolabel"])
            rows.append(ind + rng.choice(dts) + b"$" + l + b"@" + rq)
        elif k < 0.8:
            rows.append(ind + nm + b"@" + rq + b" ERROR: " + rng.choice([b"e", b"could not find", b"x y z"]))
        elif k < 0.88:
            rows.append(ind + nm + b"@" + rq + b" " + rng.choice(vers) + b" ERROR: e")
        elif k < 0.93 or not noise:
            rows.append(rng.choice([b"ERROR: top", b"# comment", b"", ind + b"# c"]))
        else:
            rows.append(ind + rng.choice([b"$", b"$@", b"@", nm, nm + b"@" + rq + b" 1 2", b"x: ", b"$x", nm + b"@" + rq + b" ERROR: ",
                                          b"\xe2\x94\x94\xe2\x94\x80 " + nm + b"@" + rq + b" 1"]))
    return b"\n".join(rows) + rng.choice([b"\n", b""])


def pypi_file_names(ctx):
    """pypi.SdistVersion and pypi.ParseWheelName against their model (coq/Pypi/Files.v; theorems C04_sdist_version_*,
    C04_wheel_name_* in Properties/C04_pypifiles.v): names built from the pieces of real file names, names that end in the
    separator, several extensions, mutated names"""
    rng = ctx.rng
    pk = [b"pkg", b"my-pkg", b"my_pkg", b"My.Pkg", b"a", b"a-b-c", b"", b"-", b"x--y", b"zope.interface", b"a_b", b"\xc3\xa9"]
    canon = [b"pkg", b"my-pkg", b"a", b"a-b-c", b"", b"-", b"x-y", b"zope-interface", b"a-b", b"a-b-"]
    ver = [b"1.0", b"2.0b1", b"", b"1", b"1.0-2", b"-", b"1.0.tar", b".", b"1.0.post1", b"0", b"v1"]
    ext = [b".tar.gz", b".zip", b".tgz", b".tar.bz2", b"", b".tar", b".gz", b".tar.tar", b".", b"/x.zip", b".whl"]
    sd = []
    for _ in range(ctx.scale(1500, 40000)):
        nm = rng.choice(pk)
        fnm = nm + rng.choice([b"-", b"-", b"-", b"_", b"", b"--"]) + rng.choice(ver) + rng.choice(ext)
        if rng.random() < 0.2:
            fnm = byte_mutate(rng, fnm, 2)
        import re
        cn = re.sub(rb"[-_.]+", b"-", nm).lower() if rng.random() < 0.6 else rng.choice(canon)
        sd.append(sx([cn, fnm]))
    got, want = ctx.correspond("sdist_version", sd)
    ctx.count("sdist_version:ok", sum(1 for g in got if g.startswith('("ok"')))
    ctx.count("sdist_version:err", sum(1 for g in got if g.startswith('("err"')))
    for c, g in zip(sd, got):
        if g.startswith('("ok"'):
            ctx.nontriv(("sdist", c))
    tags = [b"py3", b"py2.py3", b"cp39", b"cp39.cp310", b"none", b"abi3", b"any", b"manylinux1_x86_64.manylinux2010_x86_64", b"", b".", b"a..b"]
    btag = [b"1", b"12a", b"0", b"007", b"a1", b"", b"99999999999999999999", b"9223372036854775807", b"9223372036854775808", b"1_2",
            b"+1", b"1\xd9\xa1", b"\xd9\xa1", b"1-"]
    wn = []
    for _ in range(ctx.scale(1500, 40000)):
        parts = [rng.choice(pk), rng.choice(ver)]
        if rng.random() < 0.5:
            parts.append(rng.choice(btag))
        parts += [rng.choice(tags), rng.choice(tags), rng.choice(tags)]
        if rng.random() < 0.15:
            parts = parts[:rng.randrange(0, len(parts))] + parts[rng.randrange(0, len(parts)):]
        name = b"-".join(parts) + rng.choice([b".whl", b".whl", b".whl", b".whl", b"", b".WHL", b".wh", b"whl"])
        if rng.random() < 0.15:
            name = byte_mutate(rng, name, 2)
        wn.append(sx([name]))
    wn += [sx([x]) for x in (b".whl", b"whl", b"", b"-----.whl", b"----.whl", b"a-b-c-d-e-f.whl", b"a-b-1x-d-e-f.whl")]
    got, want = ctx.correspond("wheel_name", wn)
    ctx.count("wheel_name:ok", sum(1 for g in got if g.startswith('("ok"')))
    ctx.count("wheel_name:err", sum(1 for g in got if g.startswith('("err"')))
    ctx.count("wheel_name:outside the model (non-ASCII build tag)", sum(1 for w in want if "oom" in w))
    for c, g in zip(wn, got):
        if g.startswith('("ok"'):
            ctx.nontriv(("wheel", c))


def difference_cases(ctx):
    """System.Difference against its model (coq/Semver/Diff.v; theorems C04_difference_* in Properties/C04_difference.v):
    pairs that share a prefix of their numbers, differ in one component, in the prerelease tag or in the build tag only,
    short and long versions, all nine systems"""
    rng = ctx.rng
    args = []
    for _ in range(ctx.scale(3000, 80000)):
        sysi = rng.choice([0, 1, 2, 3, 4, 5, 6, 7, 8, 3, 4])
        a = versions.gen(rng, sysi)
        q = rng.random()
        if q < 0.45:
            vs = versions.variants(rng, sysi, a) if hasattr(versions, "variants") else []
            b = rng.choice(vs) if vs else versions.gen(rng, sysi)
        elif q < 0.6:
            b = a + rng.choice([b"+b1", b"+b2", b"-rc.1", b"-alpha", b".1", b".0"])
        elif q < 0.7:
            b = a
        else:
            b = versions.gen(rng, sysi)
        if rng.random() < 0.5:
            a, b = b, a
        args.append([sysi, a, b])
    impl = ctx.impl("sv_difference", [sx(x) for x in args])
    margs, keep = [], []
    for x, line in zip(args, impl):
        v = parse_sx(line)
        if v[0] == b"ok":
            margs.append(sx([v[3], v[4]]))
            keep.append((x, v[1], v[2]))
    ctx.count("sv_difference:ok", len(keep))
    ctx.count("sv_difference:err", len(args) - len(keep))
    model = ctx.model("svm_diff", margs)
    ctx.count("corr:svm_diff", len(margs))
    step = max(1, len(margs) // 40)
    lib.kernel_crosscheck(ctx, [("svm_diff", margs[i], model[i]) for i in range(0, len(margs), step)])
    names = {0: "same", 1: "other", 2: "major", 3: "minor", 4: "patch", 5: "prerelease", 6: "build"}
    nd = 0
    for (x, c, d), m in zip(keep, model):
        ctx.count("sv_difference:%s" % names.get(d, d))
        if d not in (0, 1):
            ctx.nontriv(("difference", sx(x)))
        if m != '("ok" %d %d)' % (c, d):
            nd += 1
            if nd <= 30:
                ctx.divergence("svm_diff", sx(x), '("ok" %d %d)' % (c, d), m)


def byte_mutate(rng, b, k=4):
    b = bytearray(b)
    for _ in range(rng.randrange(1, k + 1)):
        if not b:
            break
        q = rng.random()
        i = rng.randrange(len(b))
        if q < 0.4:
            b[i] = rng.randrange(256)
        elif q < 0.7:
            del b[i]
        else:
            b.insert(i, rng.randrange(256))
    return bytes(b)


def metadata_text(rng):
    hdr = [b"Metadata-Version: 2.1\n", b"Name: pkg\n", b"Version: 1.0\n", b"Requires-Dist: a (>=1)\n", b"Requires-Dist: b[e]>=2; extra == 'e'\n",
           b"Provides-Extra: e\n", b"Requires-Python: >=3\n", b"Summary: x\n", b" continued line\n", b"Home-page: http://x\n"]
    return b"".join(rng.sample(hdr, rng.randrange(2, len(hdr)))) + b"\n" + rng.choice([b"", b"long description\n"])


def wheel_bytes(rng):
    """a real zip with <name>-<ver>.dist-info/METADATA (and noise members)"""
    import io, zipfile, warnings
    warnings.simplefilter("ignore")          # duplicate member names are intended
    buf = io.BytesIO()
    with zipfile.ZipFile(buf, "w", compression=rng.choice([zipfile.ZIP_STORED, zipfile.ZIP_DEFLATED])) as z:
        for _ in range(rng.randrange(0, 3)):
            z.writestr("pkg/mod%d.py" % rng.randrange(9), b"x = 1\n")
        d = rng.choice(["pkg-1.0.dist-info", "pkg-1.0.dist-info", "Pkg_X-2.0b1.dist-info", "pkg.dist-info", "a/pkg-1.0.dist-info"])
        for _ in range(rng.choice([1, 1, 1, 2, 0])):
            z.writestr(d + "/" + rng.choice(["METADATA", "METADATA", "metadata", "RECORD"]), metadata_text(rng))
    return buf.getvalue()


def sdist_bytes(rng):
    """(file name, bytes) of a real .tar.gz / .zip sdist with pkg-1.0/PKG-INFO"""
    import io, tarfile, zipfile
    meta = metadata_text(rng)
    top = rng.choice(["pkg-1.0", "pkg-1.0", "Pkg_X-2.0b1", ""])
    member = (top + "/" if top else "") + rng.choice(["PKG-INFO", "PKG-INFO", "pkg.egg-info/PKG-INFO", "pkg-info"])
    if rng.random() < 0.6:
        buf = io.BytesIO()
        with tarfile.open(fileobj=buf, mode=rng.choice(["w:gz", "w:gz", "w:"])) as t:
            for nm, data in [(member, meta)] * rng.choice([1, 1, 2]) + [((top or "x") + "/setup.py", b"pass\n")]:
                ti = tarfile.TarInfo(nm)
                ti.size = len(data)
                t.addfile(ti, io.BytesIO(data))
        return rng.choice([b"pkg-1.0.tar.gz", b"pkg-1.0.tar.gz", b"pkg-1.0.tgz", b"pkg-1.0.tar"]), buf.getvalue()
    buf = io.BytesIO()
    with zipfile.ZipFile(buf, "w") as z:
        z.writestr(member, meta)
    return b"pkg-1.0.zip", buf.getvalue()


def cases(ctx):
    rng = ctx.rng
    n = ctx.scale(700, 60000)
    out = []
    for sysi in range(9):
        for _ in range(n):
            s = versions.gen(rng, sysi) if rng.random() < 0.4 else versions.malformed(rng, sysi)
            out.append(["parse", sysi, s])
        ctext = lambda: reqtext.requirement(rng, sysi, noise=0.15) if rng.random() < 0.6 else constraint_text(rng, sysi)
        for _ in range(n):
            out.append(["pconstraint", sysi, ctext()])
        for _ in range(n // 2):
            out.append(["psetconstraint", sysi, rng.choice([b"{", b"", b"{}", b"{[1.0.0:2.0.0)}", b"{(1.0.0:\xe2\x88\x9e.\xe2\x88\x9e.\xe2\x88\x9e]}", b"{1.0.0}", b"{[0.0.0-0:1)}"]) +
                        (constraint_text(rng, sysi) if rng.random() < 0.5 else b"")])
        for _ in range(n // 2):
            out.append(["syscompare", sysi, versions.malformed(rng, sysi), versions.gen(rng, sysi)])
            out.append(["difference", sysi, versions.gen(rng, sysi), versions.malformed(rng, sysi)])
            out.append(["match", sysi, ctext(), versions.gen(rng, sysi) if rng.random() < 0.7 else versions.malformed(rng, sysi)])
            if rng.random() < 0.5 and sysi in (0, 1, 2, 4):
                pa, pb, _ = reqtext.shared_endpoint_pair(rng, sysi)
                out.append(["setops", sysi, pa, pb])
            else:
                out.append(["setops", sysi, ctext(), ctext()])
    for _ in range(n * 2):
        # mixed systems: a constraint of one system asked about a version parsed in another
        sc, sv = rng.randrange(9), rng.randrange(9)
        ct = rng.choice([b"", b"", b"*", b">=1.0", b"1.0.0", b"[1.0,2.0)"]) if rng.random() < 0.4 else constraint_text(rng, sc)
        out.append(["xmatch", sc, ct, sv, versions.gen(rng, sv)])
        if rng.random() < 0.3:
            out.append(["xcompare", sc, versions.gen(rng, sc), sv, versions.gen(rng, sv)])
    for sysi in range(9):
        cs = versions.cores(rng, sysi)
        for _ in range(n):
            a = versions.with_core(rng, sysi, cs)
            vs = versions.variants(rng, sysi, a)
            b = rng.choice(vs) if vs and rng.random() < 0.5 else versions.with_core(rng, sysi, cs)
            if rng.random() < 0.5:
                a, b = b, a
            out.append(["syscompare", sysi, a, b])
            if rng.random() < 0.3:
                out.append(["difference", sysi, a, b])
    for _ in range(n * 2):
        s = b"".join(rng.choice(PEP508) for _ in range(rng.randrange(0, 9)))
        out.append(["parsedep", s])
        out.append(["canonname", s])
        out.append(["canonversion", versions.malformed(rng, 6)])
    for _ in range(n):
        hdr = [b"Metadata-Version: 2.1\n", b"Name: x\n", b"Version: 1.0\n", b"Requires-Dist: a (>=1)\n", b"Requires-Dist: \n", b"\n", b"body", b": \n",
               b"Provides-Extra: e\n", b"Requires-Python: >=3\n", b"\xff\n", b" continuation\n", b"Name\n", b"Requires-Dist: a[e]; extra == 'e'\n"]
        out.append(["parsemetadata", b"".join(rng.choice(hdr) for _ in range(rng.randrange(0, 10)))])
        wn = [b"pkg", b"-", b"1.0", b"py3", b"none", b"any", b".whl", b"_", b"1", b"cp39", b".tar.gz", b".zip", b".", b"\xff"]
        out.append(["wheelname", b"".join(rng.choice(wn) for _ in range(rng.randrange(0, 10)))])
        out.append(["sdistversion", rng.choice([b"pkg", b"a-b", b""]), b"".join(rng.choice(wn) for _ in range(rng.randrange(0, 8)))])
        # valid file names and REAL archives (half of them then byte-mutated): the code behind the first check
        wnm = b"-".join([rng.choice([b"pkg", b"Pkg_X", b"a.b"]), rng.choice([b"1.0", b"2.0b1", b"1!1.0.post1"])] +
                        ([rng.choice([b"1", b"2build"])] if rng.random() < 0.3 else []) +
                        [rng.choice([b"py3", b"cp39", b"py2.py3"]), rng.choice([b"none", b"cp39", b"abi3"]),
                         rng.choice([b"any", b"manylinux1_x86_64", b"win_amd64.macosx_10_9_x86_64"])]) + b".whl"
        out.append(["wheelname", wnm if rng.random() < 0.6 else byte_mutate(rng, wnm, 2)])
        out.append(["sdistversion", rng.choice([b"pkg", b"pkg-x", b"a.b"]), rng.choice([b"pkg-1.0.tar.gz", b"pkg_x-2.0b1.zip", b"pkg-x-1.0.tar.gz", b"a.b-1.tgz", b"pkg-1.0"])])
        wb = wheel_bytes(rng)
        out.append(["wheelmetadata", wb if rng.random() < 0.5 else byte_mutate(rng, wb)])
        fn, sb = sdist_bytes(rng)
        out.append(["sdistmetadata", fn, sb if rng.random() < 0.5 else byte_mutate(rng, sb)])
        raw = bytes(rng.randrange(256) for _ in range(rng.randrange(0, 64)))
        out.append(["wheelmetadata", rng.choice([b"PK\x03\x04", b"PK\x05\x06" + b"\0" * 18, b""]) + raw])
        out.append(["sdistmetadata", rng.choice([b"x.tar.gz", b"x.zip", b"x.tgz", b"x", b""]), rng.choice([b"\x1f\x8b\x08", b"PK\x03\x04", b""]) + raw])
    for _ in range(n * 2):
        out.append(["pom", pom_text(rng), rng.choice([b"1.8", b"11", b"", b"x", b"1.8.0_292"]), rng.choice([b"linux", b"", b"Windows"])])
    for _ in range(n // 2):
        out.append(["pomparent", pom_text(rng), pom_text(rng)])
        out.append(["projectkey", rng.choice([b"g:a", b"g", b":", b"", b"a:b:c"]), rng.choice([b"1", b""])])
        t = []
        for _ in range(rng.randrange(0, 4)):
            t.append([rng.choice([3, 4, 5, 6, 9, -1, -2, -4, 11]), rng.choice([b"", b"x", b"a:b", b"a:b|c:d", b"|", b":", b"a", b"provided", b"import"])])
        out.append(["mavendeptype", t])
    for _ in range(n * 3):
        out.append(["schemanew", rng.randrange(3), schema_text(rng)])
        out.append(["parseresolve", rng.randrange(3), schema_text(rng)])
        out.append(["depparse", schema_text(rng)])
        out.append(["verparse", schema_text(rng)])
    for _ in range(ctx.scale(400, 15000)):
        # a universe that came through the schema text (the path the property names), valid or mutated
        sysr = rng.randrange(3)
        text, root, rv = valid_schema(rng, sysr)
        if rng.random() < 0.3:
            text = byte_mutate(rng, text)
        out.append(["resolveschema", sysr, text, root, rv])
        out.append(["schemanew", sysr, text])
        gt = graph_text(rng)
        out.append(["parseresolve", sysr, gt if rng.random() < 0.8 else byte_mutate(rng, gt, 2)])
    for _ in range(ctx.scale(500, 20000)):
        sysr = rng.randrange(3)
        u = resolver_universe(rng, sysr) if rng.random() < 0.5 else resolver_universe2(rng, sysr)
        out.append(["resolve", sysr, u[0], u[1], u[2]])
    # the recorded witness of F-C04-6
    out.append(["resolve", 0, [[b"p", [b"1.0.0", [], [[[[8, b"q"]], b"r", b"2"]]]], [b"r", [b"2.0.0", [], [[[[8, b"q"]], b"p", b"1"]]]]], b"p", b"1.0.0"])
    # deep nesting / long tokens
    out.append(["parsedep", b"a; " + b"(" * 20000 + b"os_name=='x'" + b")" * 20000])
    out.append(["pom", b"<project><properties>" + b"".join(b"<p%d>${p%d}</p%d>" % (i, i + 1, i) for i in range(3000)) + b"<p3000>${p0}</p3000></properties><version>${p0}</version></project>", b"", b""])
    out.append(["parse", 6, b"1" * 100000])
    # component counts around the int16/uint16 boundaries (userNumCount is an int16)
    for cnt in (32767, 32768, 40000, 65535, 65536):
        long_v = b".".join([b"1"] * cnt)
        for sysi in (6, 7):
            out.append(["parse", sysi, long_v])
            for op in ([b"~=", b"==", b">="] if sysi == 6 else [b"~>", b"=", b">="]):
                out.append(["pconstraint", sysi, op + b" " + long_v])
            out.append(["match", sysi, ([b"~=", b"~>"][sysi - 6]) + long_v, b"1.1"])
        out.append(["parse", 3, long_v])
        out.append(["pconstraint", 3, b"[" + long_v + b",)"])
        out.append(["parse", 8, long_v])
        out.append(["parse", 5, long_v])
    out.append(["pconstraint", 4, b"||".join([b"1.0.0"] * 5000)])
    out.append(["pconstraint", 4, b" ".join([b">=1.0.0"] * 5000)])
    # wide-sense white space inserted into a share of all textual cases
    extra = []
    for c in out:
        if rng.random() < 0.12 and c[0] != "resolve":
            idx = [i for i, a in enumerate(c) if isinstance(a, bytes) and len(a) < 5000]
            if idx:
                i = rng.choice(idx)
                extra.append(c[:i] + [ws_mutate(rng, c[i])] + c[i + 1:])
    for base in (b"requests", b"a[x]", b"a>=1", b"a (>=1)", b"a;os_name=='nt'", b"Name: x\nRequires-Dist: requests", b"1.0", b">=1.0"):
        for w in WS:
            for t in (base + b" " + w, base + w, w + base, base + b"\t" + w + w):
                extra.append(["parsedep", t])
                extra.append(["canonname", t])
                extra.append(["parsemetadata", b"Metadata-Version: 2.1\nName: x\nVersion: 1\nRequires-Dist: " + t + b"\n"])
    return out + extra


def run_total(ctx, cs):
    """runs the cases; survives a crashed shard (stack overflow is fatal in Go) by bisecting"""
    args = [sx(c) for c in cs]
    lines = ["total\t" + a for a in args]
    results = [None] * len(lines)
    env = dict(os.environ)

    def run_range(lo, hi):
        if lo >= hi:
            return
        rc, out, err = lib.run_side("implrun", lines[lo:hi], timeout=3600, env=env)
        if rc == 0 and len(out) == hi - lo:
            results[lo:hi] = out
            return
        if hi - lo == 1:
            results[lo] = '("crash")'
            ctx.notes.append("process crashed: " + err[-300:].replace("\n", " | "))
            return
        mid = (lo + hi) // 2
        run_range(lo, mid)
        run_range(mid, hi)
    import concurrent.futures
    k = max(1, (len(lines) + 15) // 16)
    rngs = [(i, min(i + k, len(lines))) for i in range(0, len(lines), k)]
    with concurrent.futures.ThreadPoolExecutor(16) as ex:
        list(ex.map(lambda r: run_range(*r), rngs))
    ctx.evaluations += len(lines)
    return results


def confirm_hangs(ctx, cs, res):
    """A hang verdict depends on the clock: every case answered ("hang") is run again, alone in a fresh process,
    with ten times the limit; only a second hang is kept (a busy machine must not produce an alarm)."""
    idx = [i for i, r in enumerate(res) if r and r.startswith('("hang"')][:40]
    if not idx:
        return
    env = dict(os.environ, VERIF_WATCHDOG_SCALE="10")
    import concurrent.futures
    def again(i):
        rc, out, err = lib.run_side("implrun", ["total\t" + sx(cs[i])], timeout=900, env=env)
        return out[0] if rc == 0 and out else '("crash")'
    with concurrent.futures.ThreadPoolExecutor(4) as ex:
        second = list(ex.map(again, idx))
    for i, r2 in zip(idx, second):
        ctx.count("hang:confirmed" if r2.startswith('("hang"') else "hang:not-confirmed(load)")
        res[i] = r2


def schema_model_cases(ctx):
    """schema.ParseResolve against its model (Resolve/SchemaResolve.v composed with the Canon model of C13): the same
    graph texts as the totality stream, plain, byte-mutated and with tree-art indentation, compared on the whole
    canonical graph (nodes with their errors, edges with requirement and dependency type, free errors) or the refusal."""
    rng = ctx.rng
    args = []
    for _ in range(ctx.scale(600, 20000)):
        gt = graph_text(rng)
        q = rng.random()
        if q < 0.25:
            gt = byte_mutate(rng, gt, 3)
        elif q < 0.35:
            # tree-art indentation in place of some tabs (replaceArt), and blanks around the lines (TrimSpace)
            art = [b"   ", b"\xe2\x94\x9c\xe2\x94\x80 ", b"\xe2\x94\x82  ", b"\xe2\x94\x94\xe2\x94\x80 "]
            rows = []
            for ln in gt.split(b"\n"):
                n = len(ln) - len(ln.lstrip(b"\t"))
                ln = b"".join(rng.choice(art + [b"\t"]) for _ in range(n)) + ln[n:]
                if rng.random() < 0.2:
                    ln += rng.choice([b" ", b"\r", b"\xc2\xa0", b"\xe2\x80\xa8", b"\t"])
                rows.append(ln)
            gt = b"\n".join(rows)
        elif q < 0.5:
            # token soup: every separator the parser looks for, in any order
            toks = [b"$", b"@", b": ", b" ERROR: ", b"ERROR:", b"|", b" ", b"\t", b"\n", b"\n", b"\n\t", b"a", b"x", b"1", b"#", b"   ",
                    b"\xe2\x94\x9c\xe2\x94\x80 ", b"\xe2\x94\x82  ", b"dev", b"opt", b"\xc2\xa0", b":", b"x: ", b"$x@", b"a@1 1"]
            gt = b"".join(rng.choice(toks) for _ in range(rng.randrange(1, 14)))
        args.append(sx([rng.randrange(4), gt]))
    # the nested label-reference / error rows of the seeded defect (scratch slice sized by the deepest node)
    args.append(sx([1, b"a 1\n\tx: b@1 1\n\t\t$x@1\n\t\t\t$x@2"]))
    args.append(sx([1, b"a 1\n\tb@1 ERROR: e\n\t\tc@1 ERROR: f\n\t\t\tc@2 ERROR: g"]))
    impl, model = ctx.correspond("parseresolve_model", args)
    for x, y in zip(impl, model):
        if '"oom"' in y:
            ctx.count("parseresolve_model:outside-model")
        else:
            ctx.count("parseresolve_model:" + ("accepted" if x.startswith('("ok"') else "rejected" if x.startswith('("err"') else "other"))


def run(ctx):
    run_entries(ctx)
    # last, so that the streams above are the same as before this correspondence existed
    schema_model_cases(ctx)


def run_entries(ctx):
    cs = cases(ctx)
    res = run_total(ctx, cs)
    confirm_hangs(ctx, cs, res)
    seen = set()
    for c, r in zip(cs, res):
        entry = c[0] if isinstance(c[0], str) else c[0]
        key = entry if entry not in ("parse", "pconstraint", "psetconstraint", "syscompare", "difference", "match", "setops", "xmatch", "xcompare") \
            else "%s:%s" % (entry, versions.SYSTEMS[c[1]])
        cls = parse_sx(r)[0].decode() if r and r.startswith("(") else "crash"
        ctx.count("%s:%s" % (key, cls))
        ctx.nontriv(sx(c))
        if cls in ("panic", "hang", "crash"):
            what = {"panic": "panics", "hang": "does not return within the watchdog limit", "crash": "crashes the process (stack overflow or fatal error)"}[cls]
            # F-C04-6 (open): npm.Resolve does not terminate on some alias cycles (p -> q=npm:r, r -> q=npm:p)
            if cls == "hang" and c[0] == "resolve" and c[1] == 0 and any(t and t[0][0] == 8 for p in c[2] for ve in p[1:] for (t, _, _) in ve[2]):
                ctx.known_hits["F-C04-6"] = ctx.known_hits.get("F-C04-6", 0) + 1
                continue
            if cls == "hang" and c[0] == "resolveschema" and c[1] == 0 and b"KnownAs" in c[2]:
                # the same finding reached through the schema text (aliased requirements are written KnownAs x|)
                ctx.known_hits["F-C04-6"] = ctx.known_hits.get("F-C04-6", 0) + 1
                continue
            if (key, cls) not in seen or len(ctx.violations) < 30:
                ctx.violation("%s %s" % (key, what), sx(c)[:4000], observed=cls, required="a value or an error")
            seen.add((key, cls))
    ctx.sample({"case": sx(cs[0]), "class": res[0]})
    ctx.sample({"case": sx(cs[-6])[:300], "class": res[-6]})
    # classification correspondence for the modelled parsers (SemVer family Parse)
    fam = [c for c in cs if c[0] == "parse" and c[1] in (0, 1, 2, 4, 5, 8) and len(c[2]) < 3000]
    args = [sx([c[1], c[2]]) for c in fam]
    impl = ctx.impl("sv_parse", args)
    model = ctx.model("svm_parse", args)
    nd = 0
    for a, x, y in zip(args, impl, model):
        cx = parse_sx(x)[0]
        cy = parse_sx(y)[0]
        if cx != cy:
            nd += 1
            if nd <= 20:
                ctx.divergence("total:parse(family)", a, cx, cy)
    ctx.count("corr:total:parse(family)", len(args))
    pypi_file_names(ctx)
    difference_cases(ctx)


def oracle_only(ctx):
    cs = cases(ctx)
    res = run_total(ctx, cs)
    confirm_hangs(ctx, cs, res)
    for c, r in zip(cs, res):
        cls = parse_sx(r)[0].decode() if r and r.startswith("(") else "crash"
        if cls in ("panic", "hang", "crash"):
            ctx.violation("%s is not total (%s)" % (c[0], cls), sx(c)[:4000], observed=cls, required="a value or an error")
