"""C05 — resolution is a pure function of the package universe and the root."""
import os
import lib
from lib import sx, parse_sx

PROOF_FILE = "C05"
LEVEL = "proof"
RULE = ("generated universes (npm, Maven, PyPI: 4-8 packages, 1-4 versions, ranges/specifiers, scopes, markers, cycles, diamonds); "
        "each history = all lookups snapshot, a sequence of roots resolved on one client/resolver, the same roots asked again, on a "
        "fresh client, on a client loaded in a permuted insertion order, and by 16 goroutines over one client; a history is non-trivial "
        "when at least one resolution succeeds with more than one node")
TRUSTED = ["Coq 8.16.1 kernel", "extraction + driver.ml", "Go harness (purity.go), Go race detector for the concurrent variant", "python generators"]
ASSUMPTIONS = [
    "physical data races and the Go memory model are outside the Gallina model: the concurrent clause is decided at model level by "
    "the interleaving theorem over atomic client calls, and on the implementation by running 16 goroutines under -race",
]
MANIFEST = dict(
    category="proof",
    text=("Theorems (Properties/C05.v): the client lookups are state-preserving, the resolvers are functions of the client's answers, "
          "the client's observable state does not depend on insertion order, and any interleaving of the client calls of k resolutions "
          "returns to each what it returns alone; caches kept on a resolver are invisible (C05_cache_sound: any cache of the function's own answers under any drop-or-add policy; C05_lru_sound/_bounded for the LRU of lru.go, whose model is run against the Go cache on operation sequences through hook H8). On the implementation every generated history is checked directly: graphs after Canon "
          "identical when asked again, on a fresh client, under permuted insertion and from 16 goroutines; client snapshots identical "
          "before and after; the concurrent variant also runs under the race detector."),
    note=("Partial for schedules: torn reads / the Go memory model cannot be exhibited by the model; -race runs are supporting evidence. "
          "Trusted: Coq kernel, extraction, Go harness, race detector, generators."),
    technique="Rocq proof (state-preservation + interleaving lemma over client calls) + history oracle on the implementation incl. -race",
    design="8 C05")

NPM_REQS = [b"^1.0.0", b"~1.1.0", b">=1.0.0 <2.0.0", b"*", b"1.x", b"1.0.0 - 1.2.0", b"^1.1.0 || ^2.0.0", b"2.0.0", b">=2.0.0", b"latest", b"<1.2.0", b"^0.9.0"]
NPM_VERS = [b"0.9.0", b"1.0.0", b"1.1.0", b"1.2.0", b"2.0.0", b"2.1.0-beta.1"]
MVN_REQS = [b"1.0.0", b"1.1.0", b"[1.0.0,2.0.0)", b"[1.1.0,)", b"(,1.2.0]", b"2.0.0", b"[2.0.0]", b"[1.0.0,1.1.0],[2.0.0,)", b"1.2.0"]
MVN_VERS = [b"0.9.0", b"1.0.0", b"1.0", b"1.1.0", b"1.2.0", b"2.0.0", b"2.1.0-beta-1"]
PY_REQS = [b">=1.0", b"~=1.1", b"==1.*", b"<2", b">=1.0,<1.2", b"!=1.1.0", b"", b"==2.0.0", b">=2", b">1.0.0", b"<=1.1.0",
           b">=2.1.0b1", b"<2.1.0b1", b">=1.0,<2.1.0b1", b">=0.9.0", b"<=2.1.0b1", b">=1.2.0rc1"]
PY_VERS = [b"0.9.0", b"1.0.0", b"1.0", b"1.1.0", b"1.2.0", b"2.0.0", b"2.0", b"2.1.0b1"]   # incl. PEP 440-equal spellings
PY_MARKERS = [b"python_version >= '3.0'", b"python_version < '3.0'", b"os_name == 'nt'", b"sys_platform == 'linux'", b"extra == 'x'", b"os_name != 'nt' and python_version >= '2.7'",
              # not markers of this resolver (names that extend a known variable name): refused, and refused every time
              b"'x' in extras", b"extras == 'x'", b"python_versions >= '3'", b"os_names == 'nt'", b"extra_x == 'x'"]


def universe(rng, sysr):
    names = [b"a", b"b", b"c", b"d", b"e", b"f", b"g", b"h"][:rng.randrange(4, 9)]
    vers = [NPM_VERS, MVN_VERS, PY_VERS][sysr]
    reqs = [NPM_REQS, MVN_REQS, PY_REQS][sysr]
    if sysr == 1:
        names = [b"g:" + n for n in names]
    pk = []
    for n in names:
        vs = []
        chosen = rng.sample(vers, rng.randrange(1, 5))
        for ver in chosen:
            attrs = []
            if sysr == 0 and rng.random() < 0.2:
                attrs.append([10, b"latest"])
            if sysr == 0 and rng.random() < 0.1:
                attrs.append([-1, b""])
            deps = []
            seen = set()
            for _ in range(rng.randrange(0, 4)):
                dn = rng.choice(names)
                if dn in seen:
                    continue
                seen.add(dn)
                t = []
                q = rng.random()
                if sysr == 0:
                    if q < 0.1:
                        t.append([-1, b""])
                    elif q < 0.2:
                        t.append([-2, b""])
                    elif q < 0.3:
                        t.append([3, b"peer"])
                    elif q < 0.5:
                        # an aliased dependency (KnownAs): a valued attribute on the client's own requirement
                        t.append([8, rng.choice([b"al", b"al2", dn + b"-alias"])])
                elif sysr == 1:
                    if q < 0.1:
                        t.append([-4, b""])
                    elif q < 0.2:
                        t.append([-2, b""])
                    elif q < 0.3:
                        t.append([3, rng.choice([b"provided", b"runtime"])])
                    elif q < 0.55:
                        ex = rng.sample([b"g:a", b"g:b", b"g:c", b"g:d", b"g:e", b"*:*", b"g:*"], rng.randrange(1, 3))
                        t.append([9, b"|".join(ex)])
                else:
                    if q < 0.3:
                        t.append([10, rng.choice(PY_MARKERS)])
                deps.append([t, dn, rng.choice(reqs)])
            vs.append([ver, attrs, deps])
        pk.append([n] + vs)
    roots = []
    if sysr == 1 and len(pk) >= 6 and rng.random() < 0.4:
        # exclusion layering: R1 -[excl X]-> A -[excl Y]-> B -> X, Y   and   R2 -[excl Y]-> B
        # (the same exclusion text reached with and without an excluding ancestor, on one resolver)
        R1, R2, A, B, X, Y = rng.sample(pk, 6)
        v = lambda P: P[1][0]
        def dep(P, excl=None):
            return [[[9, excl]] if excl else [], P[0], v(P)]
        R1[1][2][:] = [dep(A, X[0])]
        A[1][2][:] = [dep(B, Y[0])]
        B[1][2][:] = [dep(X), dep(Y)]
        R2[1][2][:] = [dep(B, Y[0])]
        roots += [[R1[0], v(R1)], [R2[0], v(R2)], [R1[0], v(R1)]]
    if sysr == 1 and len(pk) >= 4 and rng.random() < 0.35:
        # dependencyManagement of ONE root only: R1 manages P (to its lowest version) and reaches it through M;
        # R2 reaches P through the same M and manages nothing. Resolved one after the other on one resolver, R2 must
        # still get the version M declares (management belongs to a resolution, not to the resolver).
        R1, R2, M, P = rng.sample(pk, 4)
        vs = [ve[0] for ve in P[1:]]
        lowv, highv = vs[0], vs[-1]
        R1[1][2][:] = [[[[6, b"management"]], P[0], lowv], [[], M[0], M[1][0]]]
        R2[1][2][:] = [[[], M[0], M[1][0]]]
        M[1][2][:] = [[[], P[0], highv]]
        roots += [[R1[0], R1[1][0]], [R2[0], R2[1][0]], [R1[0], R1[1][0]]]
    if sysr == 1:
        # managed entries sprinkled over the universe (only a root's own management may act)
        for p_ in pk:
            for ve in p_[1:]:
                if rng.random() < 0.15:
                    q_ = rng.choice(pk)
                    ve[2].append([[[6, b"management"]], q_[0], rng.choice(q_[1:])[0]])
    if len(pk) >= 5 and rng.random() < 0.35:
        # a universe with SEVERAL valid answers (the highest P needs a lower Q and vice versa): which one is found
        # depends on the order in which P and Q are decided, so any preference kept on the resolver from an earlier
        # root (for which P or Q was a direct dependency) changes the graph of a later root (for which both are
        # transitive).  Roots: the one with the direct dependency first, then the other, then again.
        P, Q, A, M, O = rng.sample(pk, 5)
        lo, ge = [b"<2.0.0", b"(,2.0.0)", b"<2"][sysr], [b">=1.0.0", b"[1.0.0,)", b">=1"][sysr]
        v1, v2 = [b"1.0.0", b"2.0.0"]
        P[1:] = [[v1, [], []], [v2, [], [[[], Q[0], lo]]]]
        Q[1:] = [[v1, [], []], [v2, [], [[[], P[0], lo]]]]
        both = [[[], P[0], ge], [[], Q[0], ge]]
        rng.shuffle(both)
        M[1][2][:] = both
        A[1][2][:] = [[[], M[0], [b"*", b"[0.9.0,)", b">=0.9"][sysr]]]
        O[1][2][:] = [[[], rng.choice([P, Q])[0], ge]]
        seq = [[O[0], O[1][0]], [A[0], A[1][0]]]
        if rng.random() < 0.3:
            seq.reverse()
        roots += seq + [[A[0], A[1][0]]]
    if rng.random() < 0.6:
        # several versions of ONE package resolved one after the other on the same resolver, with a
        # dependency cycle leading back to that package (resolver-level caches must not leak between roots)
        cand = [p for p in pk if len(p) > 2]
        if cand:
            P = rng.choice(cand)
            others = [q for q in pk if q is not P]
            if others:
                Q = rng.choice(others)
                wide = [b"*", b"[0.9.0,)", b">=0.9"][sysr]
                for ve in Q[1:]:
                    if not any(d[1] == P[0] for d in ve[2]):
                        ve[2].append([[], P[0], wide])
                for ve in P[1:]:
                    if not any(d[1] == Q[0] for d in ve[2]):
                        ve[2].append([[], Q[0], wide])
            for ve in P[1:4]:
                roots.append([P[0], ve[0]])
    if sysr == 0 and rng.random() < 0.3:
        # bundled packages (name "pkg>version>bundled", DerivedFrom): several installed packages ship the same unused
        # bundled version, others ship different ones; whatever is reported about them (Graph.Error) belongs to the
        # answer and must not depend on map iteration.  The root is asked many times.
        hosts = rng.sample(pk, min(len(pk), rng.randrange(2, 5)))
        inner = [b"xray", b"zed", b"yak"] + [q[0] for q in rng.sample(pk, 2)]
        same = rng.choice(inner[:3])
        top = [b"top", [b"1.0.0", [], []]]
        extra = []
        for i, H in enumerate([top] + hosts):
            hv = H[1][0]
            for bn in set([same] if (i > 0 and rng.random() < 0.8) else []) | set(rng.sample(inner, rng.randrange(0, 3))):
                bname = H[0] + b">" + hv + b">" + bn
                bv = rng.choice([b"1.0.0", b"1.0.0", b"2.0.0"])
                extra.append([bname, [bv, [[3, bn]], []]])
                H[1][2].append([[], bname, bv])
            if H is not top:
                top[1][2].append([[], H[0], hv])
        for bn in inner[:3]:
            if rng.random() < 0.6:
                extra.append([bn, [b"1.0.0", [], []]])
        pk += [top] + extra
        roots += [[b"top", b"1.0.0"]] * 8
    for _ in range(rng.randrange(2, 5)):
        p = rng.choice(pk)
        roots.append([p[0], rng.choice(p[1:])[0]])
    return [sysr, pk, roots, [rng.randrange(1 << 30) for _ in range(24)], 16]


def cache_pressure_history():
    """One long-lived PyPI resolver that has seen more distinct marker texts and requirement keys than any cache
    it may keep can hold (12,000; the resolver's caches hold 10,000): 120 roots with 100 guarded requirements
    each, all different, then one small root asked three times, then everything again on fresh resolvers."""
    z = [b"z", [b"1.0", [], []]]
    big = [b"big"]
    for i in range(120):
        deps = [[[[10, b'extra == "m%d_%d"' % (i, j)]], b"z", b">=0.%d.%d" % (i, j)] for j in range(100)]
        big.append([b"%d.0" % (i + 1), [], deps])
    lib_ = [b"lib", [b"1.0", [], []], [b"2.0", [], []]]
    app = [b"app", [b"1.0", [], [[[[10, b'python_version >= "3"']], b"lib", b">=1.0"], [[[10, b'os_name == "nt"']], b"z", b""]]]]
    roots = [[b"big", ve[0]] for ve in big[1:]] + [[b"app", b"1.0"]] * 3
    return [2, [z, big, lib_, app], roots, [7, 3, 11, 5], 0]


def lru_sequences(ctx):
    """The resolver's caches are instances of one LRU (util/resolve/pypi/internal/lru, hook H8): operation
    sequences on small caches, Go against the model of Lib/Cache.v and against a python reference (an ordered
    dict); every Get must return the value last added for the key, or nothing if it was evicted or never added."""
    rng = ctx.rng
    cases = []
    for _ in range(ctx.scale(1500, 40000)):
        size = rng.choice([1, 1, 2, 2, 3, 4, 5, 8])
        keys = list(range(rng.randrange(1, size + 4)))
        ops = []
        for _ in range(rng.randrange(1, 40)):
            if rng.random() < 0.55:
                ops.append([0, rng.choice(keys), rng.randrange(1000)])
            else:
                ops.append([1, rng.choice(keys)])
        ops += [[1, k] for k in keys]
        cases.append([size, ops])
    impl, model = ctx.correspond("lru_ops", [sx(c) for c in cases])
    import collections
    for c, line in zip(cases, impl):
        size, ops = c
        od = collections.OrderedDict()
        want = []
        for o in ops:
            if o[0] == 0:
                if o[1] in od:
                    od[o[1]] = o[2]
                    od.move_to_end(o[1])
                else:
                    if len(od) >= size:
                        od.popitem(last=False)
                    od[o[1]] = o[2]
            else:
                if o[1] in od:
                    want.append(od[o[1]])
                    od.move_to_end(o[1])
                else:
                    want.append(-1)
        got = parse_sx(line)
        ctx.nontriv(("lru", sx(c)))
        if got != want:
            ctx.violation("the LRU cache behind the resolver's caches returns a value that was not the last one added for the key "
                          "(or loses/keeps an entry against its policy)", sx(c), observed=sx(got), required=sx(want))
    ctx.count("lru:sequences", len(cases))
    ctx.count("lru:with_eviction", sum(1 for size, ops in cases if len({o[1] for o in ops if o[0] == 0}) > size))


def classify(ctx, case, line, race=False):
    sysr = case[0]
    name = ["npm", "Maven", "PyPI"][sysr]
    r = parse_sx(line)
    if r and r[0] in (b"crash", b"crash-unreproduced"):
        ctx.violation("%s: the process dies during the history (a Go fatal error cannot be recovered: concurrent map "
                      "access, stack overflow); it runs a sequence of resolutions and then 16 goroutines over one client"
                      % name, sx(case)[:6000], observed=r[1].decode("ascii", "replace"), required="every resolution returns")
        return
    if r and r[0] == b"panic":
        ctx.violation("%s: purity history panics" % name, sx(case)[:6000])
        return
    if r and r[0] == b"undecided":
        # a resolution did not return within the history's deadline (npm on an alias cycle: finding F-C04-6 of C04);
        # a resolver stopped by its context gives answers that depend on timing, so the history decides nothing here
        aliased = case[0] == 0 and any(t and t[0][0] == 8 for p in case[1] for ve in p[1:] for (t, _, _) in ve[2])
        ctx.count("%s:undecided (%s)" % (name, "npm alias cycle, F-C04-6" if aliased else "deadline"))
        if not aliased:
            ctx.notes.append("%s: a history without npm aliases did not finish within its deadline (non-termination is C04's clause)" % name)
        return
    diffs, ok, total = r
    ctx.count("%s:resolutions" % name, total)
    ctx.count("%s:resolutions_ok" % name, ok)
    if ok:
        ctx.nontriv(sx(case))
    for d in diffs:
        kind, idx, detail = d[0].decode(), d[1], d[2]
        what = {
            "client-changed-by-resolve": "resolving changes what the client subsequently reports",
            "differs-when-asked-again": "the same root resolved again on the same resolver gives a different graph",
            "differs-from-fresh-client": "a resolution after earlier ones differs from the same resolution on a fresh client",
            "client-depends-on-insertion-order": "the client reports different data for another insertion order of the same versions",
            "differs-by-insertion-order": "the graph depends on the order in which versions were inserted",
            "differs-when-concurrent": "a resolution run concurrently with others differs from its sequential result",
            "client-changed-by-concurrent-resolve": "concurrent resolving changes what the client subsequently reports",
        }[kind]
        ctx.violation("%s: %s" % (name, what), sx(case)[:6000], observed=detail, required="identical")


def run(ctx):
    rng = ctx.rng
    lru_sequences(ctx)
    n = ctx.scale(240, 9000)
    cases = [universe(rng, i % 3) for i in range(n)] + [cache_pressure_history()]
    outs = ctx.impl_surviving("purity", [sx(c) for c in cases])
    for c, o in zip(cases, outs):
        classify(ctx, c, o)
    ctx.sample({"case": sx(cases[0])[:1500], "result": outs[0]})
    # the concurrent variant under the race detector
    racebin = os.path.join(lib.BUILD, "implrun-race")
    env = dict(lib.GOENV, CGO_ENABLED="1")
    rc, out = lib.sh(["go", "build", "-race", "-tags", "verif", "-o", racebin, "./cmd/implrun"],
                     cwd=os.path.join(lib.VERIF, "harness/go"), env=env, timeout=1800)
    if rc != 0:
        ctx.notes.append("race detector build unavailable: " + out[-300:])
        return
    k = ctx.scale(24, 1500)
    sub = cases[:k]
    lines = ["purity\t" + sx(c) for c in sub]
    renv = dict(os.environ, GORACE="halt_on_error=0 exitcode=0")
    import concurrent.futures
    shards = [lines[i::8] for i in range(8)]
    subs = [sub[i::8] for i in range(8)]
    with concurrent.futures.ThreadPoolExecutor(8) as ex:
        rs = list(ex.map(lambda sh: lib.run_side("implrun-race", sh, timeout=3000, env=renv), shards))
    ctx.evaluations += len(lines)
    ctx.count("race:histories", len(lines))
    for (rc, o, err), cs in zip(rs, subs):
        if rc != 0 and "DATA RACE" not in err:
            fatal = [l for l in err.splitlines() if l.startswith(("fatal error", "panic:"))]
            if fatal:
                # the process died under the detector's scheduling (e.g. concurrent map writes): that is a failing
                # history, not a harness problem
                ctx.violation("the process dies while 16 goroutines resolve over one client (race-detector build)",
                              {"histories": [sx(c)[:3000] for c in cs[:3]]}, observed=" | ".join(fatal[:2])[:300],
                              required="every resolution returns")
            else:
                ctx.notes.append("race run failed: " + err[-300:])
            continue
        for c, line in zip(cs, o):
            classify(ctx, c, line, race=True)
        if "DATA RACE" in err:
            first = err[err.index("WARNING: DATA RACE"):][:1800]
            ctx.violation("data race reported by the Go race detector during concurrent resolutions over one client",
                          {"histories": [sx(c)[:3000] for c in cs[:3]], "system": "see report"}, observed=first,
                          required="no race")


def oracle_only(ctx):
    run(ctx)
